#!/bin/sh
# Build the framework from files on disk only (offline): the Lean project (models, proofs,
# property theorems, the compiled model driver), the fact extractor and the Go harness.
set -e
cd "$(dirname "$0")"
export GOFLAGS=-mod=mod GOPROXY=off GOSUMDB=off GOTOOLCHAIN=local
mkdir -p out/bin evidence
( cd tools/goextract && go build -o ../../out/bin/goextract . )
./out/bin/goextract "${VERIF_REPO:-/repo}" lean/Anndb/Generated.lean
( cd lean && lake build Anndb driver )
cp "${VERIF_REPO:-/repo}/go.sum" harness/go.sum
( cd harness && go build -tags verif -o ../out/bin/h ./cmd/h )
echo setup ok
