package main

import (
	"go/ast"
	"sort"
	"strings"
)

// C08: (a) every read of the snapshot loaders goes through io.ReadFull / binary.Read — a bare
// `x.Read(buf)` may return fewer bytes than asked; (b) the widths of the metadata length fields.
func init() {
	extractors = append(extractors, func(o *out) {
		type site struct{ file, recv, fn string }
		sites := []site{
			{"index/hnsw_persistence.go", "Hnsw", "Load"},
			{"index/metadata.go", "Metadata", "load"},
			{"index/metadata.go", "Metadata", "loadKV"},
			{"math/vector.go", "Vector", "Load"},
			{"index/config.go", "hnswConfig", "load"},
		}
		var bare []string
		for _, s := range sites {
			f := parseFile(s.file)
			fd := funcDecl(f, s.recv, s.fn)
			if fd == nil {
				bare = append(bare, s.file+":"+s.fn+":missing")
				continue
			}
			// the reader parameter(s): parameters of type io.Reader
			readers := map[string]bool{}
			for _, p := range fd.Type.Params.List {
				if src(p.Type) == "io.Reader" {
					for _, n := range p.Names {
						readers[n.Name] = true
					}
				}
			}
			ast.Inspect(fd.Body, func(n ast.Node) bool {
				c, ok := n.(*ast.CallExpr)
				if !ok {
					return true
				}
				if sel, ok := c.Fun.(*ast.SelectorExpr); ok && sel.Sel.Name == "Read" {
					if id, ok := sel.X.(*ast.Ident); ok && readers[id.Name] {
						bare = append(bare, s.file+":"+s.fn)
					}
				}
				return true
			})
		}
		sort.Strings(bare)
		o.def("codecBareReads", "List String", lstrs(bare), "loader functions containing a bare Read on their io.Reader")

		// widths: the type conversions in Metadata.save / saveKV
		f := parseFile("index/metadata.go")
		conv := func(fn string, nth int) string {
			fd := funcDecl(f, "Metadata", fn)
			if fd == nil {
				return "missing"
			}
			var found []string
			ast.Inspect(fd.Body, func(n ast.Node) bool {
				c, ok := n.(*ast.CallExpr)
				if !ok || src(c.Fun) != "binary.Write" || len(c.Args) != 3 {
					return true
				}
				if inner, ok := c.Args[2].(*ast.CallExpr); ok && len(inner.Args) == 1 && strings.HasPrefix(src(inner.Args[0]), "len(") {
					found = append(found, src(inner.Fun))
				}
				return true
			})
			if nth < len(found) {
				return found[nth]
			}
			return "missing"
		}
		o.def("codecMetadataCountType", "String", lstr(conv("save", 0)), "type the metadata entry count is written as")
		o.def("codecKeyLenType", "String", lstr(conv("saveKV", 0)), "type a metadata key length is written as")
		o.def("codecValLenType", "String", lstr(conv("saveKV", 1)), "type a metadata value length is written as")
	})
}
