package main

import (
	"go/ast"
	"sort"
	"strings"
)

// C08: (a) every read of the snapshot loaders goes through io.ReadFull / binary.Read — a bare
// `x.Read(buf)` may return fewer bytes than asked; (b) the widths of the metadata length fields.
func init() {
	extractors = append(extractors, func(o *out) {
		type site struct{ file, recv, fn string }
		sites := []site{
			{"index/hnsw_persistence.go", "Hnsw", "Load"},
			{"index/metadata.go", "Metadata", "load"},
			{"index/metadata.go", "Metadata", "loadKV"},
			{"math/vector.go", "Vector", "Load"},
			{"index/config.go", "hnswConfig", "load"},
		}
		var bare []string
		for _, s := range sites {
			f := parseFile(s.file)
			fd := funcDecl(f, s.recv, s.fn)
			if fd == nil {
				bare = append(bare, s.file+":"+s.fn+":missing")
				continue
			}
			// the reader parameter(s): parameters of type io.Reader
			readers := map[string]bool{}
			for _, p := range fd.Type.Params.List {
				if src(p.Type) == "io.Reader" {
					for _, n := range p.Names {
						readers[n.Name] = true
					}
				}
			}
			ast.Inspect(fd.Body, func(n ast.Node) bool {
				c, ok := n.(*ast.CallExpr)
				if !ok {
					return true
				}
				if sel, ok := c.Fun.(*ast.SelectorExpr); ok && sel.Sel.Name == "Read" {
					if id, ok := sel.X.(*ast.Ident); ok && readers[id.Name] {
						bare = append(bare, s.file+":"+s.fn)
					}
				}
				return true
			})
		}
		sort.Strings(bare)
		o.def("codecBareReads", "List String", lstrs(bare), "loader functions containing a bare Read on their io.Reader")
		// C08/C02 (D5): metadata is validated against the format's length fields before it is stored
		hf := parseFile("index/hnsw.go")
		onInsert := false
		if ins := funcDecl(hf, "Hnsw", "Insert"); ins != nil && len(ins.Body.List) > 0 {
			onInsert = norm(ins.Body.List[0]) == "iferr:=metadata.Validate();err!=nil{returnerr}"
		}
		o.def("metadataValidatedOnInsert", "Bool", lbool(onInsert), "the first statement of Hnsw.Insert returns metadata.Validate()'s error")
		pt := parseFile("storage/partition.go")
		before := true
		for _, fn := range []string{"updateValue", "batchUpdateValue"} {
			fd := funcDecl(pt, "partition", fn)
			if fd == nil {
				before = false
				continue
			}
			b := norm(fd.Body)
			iv, ir, ii := strings.Index(b, "metadata.Validate()"), strings.Index(b, "this.index.Remove(id)"), strings.Index(b, "this.index.Insert(")
			im := strings.Index(b, "fork,v:=rangevertex.Metadata(){")
			if !(im >= 0 && im < iv && iv < ir && ir < ii) {
				before = false
			}
		}
		o.def("metadataValidatedBeforeRemoveOnUpdate", "Bool", lbool(before), "updateValue and batchUpdateValue merge, validate the merged metadata, and only then remove and re-insert")
		mf := parseFile("index/metadata.go")
		limits := []string{}
		consts := map[string]string{}
		ast.Inspect(mf, func(n ast.Node) bool {
			if vs, ok := n.(*ast.ValueSpec); ok && len(vs.Names) == 1 && len(vs.Values) == 1 {
				consts[vs.Names[0].Name] = norm(vs.Values[0])
			}
			return true
		})
		val := func(e string) string {
			switch e {
			case "1<<16-1":
				return "65535"
			case "1<<8-1":
				return "255"
			}
			return "0"
		}
		okUse := false
		if v := funcDecl(mf, "Metadata", "Validate"); v != nil {
			b := norm(v.Body)
			okUse = strings.Contains(b, "iflen(this)>maxMetadataEntries{returnMetadataTooLargeError}") &&
				strings.Contains(b, "iflen(k)>maxMetadataKeyLength||len(v)>maxMetadataValueLength{returnMetadataTooLargeError}")
		}
		if okUse {
			limits = []string{val(consts["maxMetadataEntries"]), val(consts["maxMetadataKeyLength"]), val(consts["maxMetadataValueLength"])}
		}
		o.def("metadataLimits", "List Nat", "["+strings.Join(limits, ", ")+"]", "Metadata.Validate's limits: entries, key bytes, value bytes")
		// C08: Load resets every piece of index state before it reads the body of the stream (so that
		// loading into a used index leaves nothing of the old contents, also for the empty stream)
		pf := parseFile("index/hnsw_persistence.go")
		resets := []string{}
		if ld := funcDecl(pf, "Hnsw", "Load"); ld != nil {
			b := norm(ld.Body)
			first := strings.Index(b, "io.ReadFull(r,uuidBuf)")
			for _, r := range []struct{ name, pat string }{
				{"len", "this.len=0"},
				{"bytesSize", "this.bytesSize=0"},
				{"entrypoint", "atomic.StorePointer(&this.entrypoint,nil)"},
				{"vertices", "fori,_:=rangethis.vertices{this.vertices[i]=make(map[uuid.UUID]*hnswVertex)}"},
			} {
				if i := strings.Index(b, r.pat); i >= 0 && first >= 0 && i < first {
					resets = append(resets, r.name)
				}
			}
		}
		o.def("hnswLoadResets", "List String", lstrs(resets), "index state that Hnsw.Load clears before its first read of the stream body")

		// widths: the type conversions in Metadata.save / saveKV
		f := parseFile("index/metadata.go")
		conv := func(fn string, nth int) string {
			fd := funcDecl(f, "Metadata", fn)
			if fd == nil {
				return "missing"
			}
			var found []string
			ast.Inspect(fd.Body, func(n ast.Node) bool {
				c, ok := n.(*ast.CallExpr)
				if !ok || src(c.Fun) != "binary.Write" || len(c.Args) != 3 {
					return true
				}
				if inner, ok := c.Args[2].(*ast.CallExpr); ok && len(inner.Args) == 1 && strings.HasPrefix(src(inner.Args[0]), "len(") {
					found = append(found, src(inner.Fun))
				}
				return true
			})
			if nth < len(found) {
				return found[nth]
			}
			return "missing"
		}
		o.def("codecMetadataCountType", "String", lstr(conv("save", 0)), "type the metadata entry count is written as")
		o.def("codecKeyLenType", "String", lstr(conv("saveKV", 0)), "type a metadata key length is written as")
		o.def("codecValLenType", "String", lstr(conv("saveKV", 1)), "type a metadata value length is written as")
	})
}
