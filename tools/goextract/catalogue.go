package main

import (
	"go/ast"
	"strings"
)

// C14 (and C03/C05): server wiring, dataset/partition metadata sharing, inline snapshot.
func init() {
	extractors = append(extractors, func(o *out) {
		f := parseFile("server.go")
		fd := funcDecl(f, "Server", "setup")
		okOrder := false
		if fd != nil {
			s := norm(fd.Body)
			iStart := strings.Index(s, "this.zeroGroup.Start()")
			iDM := strings.Index(s, "storage.NewDatasetManager(sharedGroup.Get(\"datasets\")")
			iNM := strings.Index(s, "raft.NewNodesManager(")
			iSG := strings.Index(s, "raft.NewSharedGroup(this.zeroGroup)")
			okOrder = iStart > 0 && iDM > 0 && iNM > 0 && iSG > 0 && iSG < iDM && iDM < iStart && iNM < iStart &&
				strings.Count(s, "this.zeroGroup.Start()") == 1
		}
		o.def("serverStartsZeroGroupAfterConsumers", "Bool", lbool(okOrder), "server.go: zeroGroup.Start() comes after the shared group, the nodes manager and the dataset manager are registered")

		// the shared group: a slot for every consumer that has a snapshot function (also when its snapshot is
		// zero bytes), and every slot handed to its consumer on install
		sg := parseFile("storage/raft/shared_group.go")
		keeps, visits, demux := false, false, false
		if fd := funcDecl(sg, "sharedGroup", "snapshot"); fd != nil {
			keeps = norm(fd.Body) == "{varerrerrorproxySnapshots:=make(map[string][]byte)for_,proxy:=rangethis.proxies{ifproxy.snapshotFn!=nil{proxySnapshots[proxy.name],err=proxy.snapshotFn()iferr!=nil{returnnil,err}}}returnproto.Marshal(&pb.SharedGroupSnapshot{ProxySnapshots:proxySnapshots})}"
		}
		if fd := funcDecl(sg, "sharedGroup", "processSnapshot"); fd != nil {
			visits = strings.HasSuffix(norm(fd.Body), "forproxyName,proxySnapshot:=rangesnapshot.GetProxySnapshots(){proxy:=this.proxies[proxyName]iferr:=proxy.processSnapshotFn(proxySnapshot);err!=nil{returnerr}}returnnil}")
		}
		if fd := funcDecl(sg, "sharedGroup", "process"); fd != nil {
			demux = strings.HasSuffix(norm(fd.Body), "ifproxy,exists:=this.proxies[proposal.GetProxyName()];exists{returnproxy.processFn(proposal.GetData())}returnnil}")
		}
		o.def("sharedSnapshotKeepsEmptySlots", "Bool", lbool(keeps), "sharedGroup.snapshot gives every consumer with a snapshot function a slot, whatever the length of its snapshot")
		o.def("sharedRestoreVisitsEverySlot", "Bool", lbool(visits), "sharedGroup.processSnapshot hands every slot of the snapshot to the consumer it names")
		o.def("sharedProcessByName", "Bool", lbool(demux), "sharedGroup.process hands an entry to the consumer its proposal names and to nobody else")

		d := parseFile("storage/dataset.go")
		nd := funcDecl(d, "", "newDataset")
		shared := false
		if nd != nil {
			s := norm(nd.Body)
			shared = strings.Contains(s, "meta:&meta,") && strings.Contains(s, "newPartition(pid,meta.Partitions[i],d,") &&
				strings.Contains(norm(nd.Type), "metapb.Dataset")
		}
		// and Meta() hands out that object
		if m := funcDecl(d, "Dataset", "Meta"); m == nil || norm(m.Body) != "{returnthis.meta}" {
			shared = false
		}
		o.def("datasetPartitionMetaShared", "Bool", lbool(shared), "newDataset stores &meta and builds each partition from meta.Partitions[i] of that same value")

		// C10/C14: the catalogue snapshot carries every dataset's metadata verbatim (the partition list
		// in catalogue order — its order is part of the routing function) and processSnapshot builds
		// the dataset from exactly that value
		dmf := parseFile("storage/dataset_manager.go")
		verbatim := false
		if sn, ps := funcDecl(dmf, "DatasetManager", "snapshot"), funcDecl(dmf, "DatasetManager", "processSnapshot"); sn != nil && ps != nil {
			a, b := norm(sn.Body), norm(ps.Body)
			verbatim = strings.Contains(a, "for_,dataset:=rangethis.datasets{datasets[i]=dataset.Meta()i++}") &&
				strings.Contains(a, "returnproto.Marshal(&pb.DatasetManagerSnapshot{Datasets:datasets})") &&
				!strings.Contains(a, "sort.") && !strings.Contains(a, "Partitions") &&
				strings.Contains(b, "for_,dataset:=rangedmSnapshot.Datasets{") &&
				strings.Contains(b, "newDataset(id,*dataset,") && !strings.Contains(b, "sort.") && !strings.Contains(b, ".Partitions")
		}
		// C14 (D17): installing a snapshot replaces the catalogue: datasets the snapshot does not list
		// are dropped (as deleteDataset drops them), datasets that are present take its replica lists
		replaces := false
		if ps := funcDecl(dmf, "DatasetManager", "processSnapshot"); ps != nil {
			b := norm(ps.Body)
			iDrop := strings.Index(b, "forid,dataset:=rangethis.datasets{if_,exists:=listed[id];!exists{for_,partition:=rangedataset.partitions{this.allocator.unwatch(partition.id)}delete(this.datasets,id)}}")
			iNew := strings.Index(b, "this.datasets[id],err=newDataset(id,*dataset,")
			iSet := strings.Index(b, "partition.setNodes(partitionMeta.GetNodeIds())")
			replaces = iDrop >= 0 && iNew > iDrop && iSet > iNew &&
				strings.Contains(b, "for_,dataset:=rangedmSnapshot.Datasets{id,err:=uuid.FromBytes(dataset.GetId())iferr!=nil{returnerr}listed[id]=struct{}{}}")
		}
		pf2 := parseFile("storage/partition.go")
		if sn := funcDecl(pf2, "partition", "setNodes"); sn == nil ||
			!strings.Contains(norm(sn.Body), "this.removeNode(id)") || !strings.Contains(norm(sn.Body), "this.addNode(id)") ||
			!strings.HasSuffix(norm(sn.Body), "this.meta.NodeIds=append([]uint64{},nodeIds...)}") {
			replaces = false
		}
		o.def("catalogueSnapshotReplaces", "Bool", lbool(replaces), "processSnapshot drops datasets the snapshot does not list, creates the missing ones and sets the replica lists of the present ones (partition.setNodes)")
		o.def("catalogueSnapshotVerbatim", "Bool", lbool(verbatim), "DatasetManager.snapshot marshals each dataset.Meta() as it is and processSnapshot passes each restored value to newDataset unchanged (no reordering of partitions)")

		g := parseFile("storage/raft/group.go")
		run := funcDecl(g, "RaftGroup", "run")
		inline := false
		if run != nil {
			s := norm(run.Body)
			inline = strings.Contains(s, "case<-snapshotTicker.C:iferr:=this.trySnapshot(lastAppliedIdx,snapshotOffset);err!=nil{")
			ast.Inspect(run.Body, func(n ast.Node) bool {
				if gs, ok := n.(*ast.GoStmt); ok && strings.Contains(src(gs), "trySnapshot") {
					inline = false
				}
				return true
			})
		}
		o.def("raftSnapshotInline", "Bool", lbool(inline), "RaftGroup.run calls trySnapshot(lastAppliedIdx, …) synchronously in the ready loop")
	})
}
