package main

import (
	"go/ast"
	"strings"
)

// C03 / C05: the statement order of the ready loop in storage/raft/group.go, how a group is
// started and restarted, and where snapshots are taken.
func init() {
	extractors = append(extractors, func(o *out) {
		g := parseFile("storage/raft/group.go")
		var order []string
		if fd := funcDecl(g, "RaftGroup", "run"); fd != nil {
			ast.Inspect(fd.Body, func(n ast.Node) bool {
				cc, ok := n.(*ast.CommClause)
				if !ok || cc.Comm == nil || !strings.Contains(norm(cc.Comm), "<-this.raft.Ready()") {
					return true
				}
				for _, st := range cc.Body {
					s := norm(st)
					switch {
					case strings.HasPrefix(s, "ifrd.SoftState!=nil{this.raftLeaderId="):
						order = append(order, "softstate")
					case s == "ifthis.isLeader(){this.transport.Send(this.ctx,this,rd.Messages)}":
						order = append(order, "send-if-leader")
					case s == "if!this.isLeader(){this.transport.Send(this.ctx,this,rd.Messages)}":
						order = append(order, "send-if-not-leader")
					case s == "this.transport.Send(this.ctx,this,rd.Messages)":
						order = append(order, "send-always")
					case s == "iferr:=this.wal.Save(rd.HardState,rd.Entries,rd.Snapshot);err!=nil{this.log.Fatal(err)}":
						order = append(order, "save")
					case strings.HasPrefix(s, "if!etcdRaft.IsEmptySnap(rd.Snapshot){") && strings.Contains(s, "this.processSnapshotFn(rd.Snapshot.Data)"):
						order = append(order, "install-snapshot")
					case strings.HasPrefix(s, "for_,entry:=rangerd.CommittedEntries{") && strings.Contains(s, "this.processFn(entry.Data)") && strings.HasSuffix(s, "lastAppliedIdx=entry.Index}"):
						order = append(order, "apply")
					case s == "this.raft.Advance()":
						order = append(order, "advance")
					default:
						order = append(order, "other")
					}
				}
				return false
			})
		}
		o.def("readyLoopOrder", "List String", lstrs(order), "the statements of the `case rd := <-this.raft.Ready()` clause of RaftGroup.run, in order")
		idx := func(name string) int {
			at := -1
			for i, s := range order {
				if s == name {
					if at >= 0 {
						return -2
					}
					at = i
				}
			}
			return at
		}
		o.def("raftSaveBeforeApply", "Bool", lbool(idx("save") >= 0 && idx("install-snapshot") > idx("save") && idx("apply") > idx("install-snapshot")),
			"wal.Save precedes installing a received snapshot, which precedes processFn on the committed entries")
		start := false
		if fd := funcDecl(g, "RaftGroup", "Start"); fd != nil {
			// the stored snapshot is installed first; then the loop is started (and nothing else happens)
			b := norm(fd.Body)
			pre := "{snap,err:=this.wal.Snapshot()iferr!=nil{returnerr}if!etcdRaft.IsEmptySnap(snap){iferr:=this.processSnapshotFn(snap.Data);err!=nil{returnerr}}"
			start = b == pre+"gothis.run()returnnil}" ||
				b == pre+"this.loopDone=make(chanstruct{})gofunc(){deferclose(this.loopDone)this.run()}()returnnil}"
		}
		stopWaits := false
		if fd := funcDecl(g, "RaftGroup", "Stop"); fd != nil {
			b := norm(fd.Body)
			i1, i2 := strings.Index(b, "this.ctxCancel()"), strings.Index(b, "ifthis.loopDone!=nil{<-this.loopDone}")
			stopWaits = strings.HasPrefix(b, "{this.raft.Stop()") && i1 > 0 && i2 > i1
		}
		if pf := parseFile("storage/partition.go"); pf != nil {
			if fd := funcDecl(pf, "partition", "unloadRaft"); fd == nil || !strings.Contains(norm(fd.Body), "this.raft.Stop()this.wal.DeleteGroup()") {
				stopWaits = false
			}
		}
		o.def("raftStopWaitsForLoop", "Bool", lbool(stopWaits), "RaftGroup.Stop returns only after the group's loop has ended, and unloadRaft deletes the group's log after Stop: nothing writes to a log that is being deleted")
		o.def("raftStartInstallsSnapshot", "Bool", lbool(start), "Start installs the stored snapshot into the consumer before the loop runs")
		snapAt := false
		if fd := funcDecl(g, "RaftGroup", "run"); fd != nil {
			s := norm(fd.Body)
			ts := funcDecl(g, "RaftGroup", "trySnapshot")
			snapAt = strings.Contains(s, "varlastAppliedIdxuint64=0") && strings.Contains(s, "this.trySnapshot(lastAppliedIdx,snapshotOffset)") &&
				!strings.Contains(strings.ReplaceAll(strings.ReplaceAll(s, "this.trySnapshot(lastAppliedIdx,snapshotOffset)", ""), "this.trySnapshot(lastAppliedIdx,0)", ""), "this.trySnapshot(") &&
				ts != nil && strings.Contains(norm(ts.Body), "snapshotData,err:=this.snapshotFn()") && strings.Contains(norm(ts.Body), "this.wal.CreateSnapshot(lastCommittedIdx,this.raftConfState,snapshotData)")
		}
		o.def("raftSnapshotAtLastApplied", "Bool", lbool(snapAt), "snapshots are taken by the loop goroutine itself, labelled with its last applied index")
		boot := false
		if fd := funcDecl(g, "", "startRaftNode"); fd != nil {
			s := norm(fd.Body)
			i1 := strings.Index(s, "iflen(nodeIds)>0&&empty{")
			i2 := strings.Index(s, "returnetcdRaft.StartNode(raftConfig,peers),nil}else{")
			i3 := strings.Index(s, "returnetcdRaft.RestartNode(raftConfig),nil")
			boot = i1 >= 0 && i2 > i1 && i3 > i2 && strings.Count(s, "etcdRaft.StartNode(") == 1 && strings.Contains(s, "empty,err:=isEmptyStorage(storage)")
		}
		if fd := funcDecl(g, "", "isEmptyStorage"); fd == nil || !strings.HasSuffix(norm(fd.Body), "returnetcdRaft.IsEmptyHardState(hardState)&&etcdRaft.IsEmptySnap(snapshot)&&lastIndex==0,nil}") {
			boot = false
		}
		o.def("raftBootstrapsOnlyOnEmptyStore", "Bool", lbool(boot), "startRaftNode calls StartNode (bootstrap) only when peers are given and the log store is empty; otherwise RestartNode")
		recv := false
		if fd := funcDecl(g, "RaftGroup", "receive"); fd != nil {
			recv = norm(fd.Body) == "{returnthis.raft.Step(this.ctx,message)}"
		}
		o.def("raftReceiveSteps", "Bool", lbool(recv), "an incoming message is handed to raft.Step unchanged")
	})
}
