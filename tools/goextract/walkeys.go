package main

import (
	"go/ast"
	"strings"
)

// C06: key layout constants of storage/wal/badger.go.
func init() {
	extractors = append(extractors, func(o *out) {
		f := parseFile("storage/wal/badger.go")
		makeLen := func(fn string) string {
			fd := funcDecl(f, "badgerWAL", fn)
			n := "0"
			if fd != nil {
				ast.Inspect(fd.Body, func(x ast.Node) bool {
					if c, ok := x.(*ast.CallExpr); ok && src(c.Fun) == "make" && len(c.Args) == 2 && src(c.Args[0]) == "[]byte" {
						n = src(c.Args[1])
					}
					return true
				})
			}
			return n
		}
		prefix := func(fn string) string {
			fd := funcDecl(f, "badgerWAL", fn)
			p := ""
			if fd != nil {
				ast.Inspect(fd.Body, func(x ast.Node) bool {
					if c, ok := x.(*ast.CallExpr); ok && src(c.Fun) == "copy" && len(c.Args) == 2 && src(c.Args[0]) == "b[0:2]" {
						s := src(c.Args[1])
						if i := strings.Index(s, "\""); i >= 0 {
							j := strings.LastIndex(s, "\"")
							p = s[i+1 : j]
						}
					}
					return true
				})
			}
			return p
		}
		hsLen, ssLen := makeLen("hardStateKey"), makeLen("snapshotKey")
		metaLen := hsLen
		if hsLen != ssLen {
			metaLen = "0"
		}
		o.def("walEntryKeyLen", "Nat", makeLen("entryKey"), "length of an entry key")
		o.def("walMetaKeyLen", "Nat", metaLen, "length of the hard-state and snapshot keys")
		o.def("walHardStatePrefix", "String", lstr(prefix("hardStateKey")), "")
		o.def("walSnapshotPrefix", "String", lstr(prefix("snapshotKey")), "")
		be := false
		if fd := funcDecl(f, "badgerWAL", "entryKey"); fd != nil {
			s := strings.Join(strings.Fields(src(fd.Body)), "")
			be = strings.Contains(s, "copy(b[0:16],this.entryPrefix())") && strings.Contains(s, "binary.BigEndian.PutUint64(b[16:24],idx)")
		}
		if fd := funcDecl(f, "badgerWAL", "entryPrefix"); fd == nil || !strings.Contains(src(fd.Body), "this.groupId.Bytes()") {
			be = false
		}
		o.def("walIndexBigEndian", "Bool", lbool(be), "entry key = 16 group id bytes ++ big-endian index")
	})
}
