package main

import "go/ast"

// C19: does every branch of priorityQueue.Reverse build its queue with make + copy
// (fresh backing array) rather than converting the source's slice header?
func init() {
	extractors = append(extractors, func(o *out) {
		f := parseFile("utils/priority_queue.go")
		fd := funcDecl(f, "priorityQueue", "Reverse")
		copies := false
		branches := 0
		if fd != nil {
			copies = true
			ast.Inspect(fd.Body, func(n ast.Node) bool {
				cc, ok := n.(*ast.CaseClause)
				if !ok || len(cc.List) == 0 { // skip default
					return true
				}
				branches++
				cs := []string{}
				for _, s := range cc.Body {
					cs = append(cs, calls(s)...)
				}
				if !(has(cs, "make") && has(cs, "copy")) {
					copies = false
				}
				// a conversion of the dereferenced source slice shares the array
				for _, c := range cs {
					if c == "maxPriorityQueue" || c == "minPriorityQueue" {
						copies = false
					}
				}
				return true
			})
		}
		o.def("pqReverseCopies", "Bool", lbool(copies && branches == 2),
			"utils/priority_queue.go: both typed branches of Reverse() allocate with make and copy the items")
	})
}
