package main

import "strings"

// C15: the Go wrappers around the kernels.
func init() {
	extractors = append(extractors, func(o *out) {
		ok := true
		for _, rel := range []string{"simd/avx/AVX_amd64.go", "simd/sse/SSE_amd64.go"} {
			f := parseFile(rel)
			for _, fn := range []string{"EuclideanDistance", "ManhattanDistance", "CosineDistance"} {
				fd := funcDecl(f, "", fn)
				if fd == nil {
					ok = false
					continue
				}
				s := norm(fd.Body)
				if !strings.Contains(s, "(unsafe.Pointer(uintptr(len(a))),unsafe.Pointer(&a[0]),unsafe.Pointer(&b[0]),") {
					ok = false
				}
			}
			if fd := funcDecl(f, "", "EuclideanDistance"); fd == nil || !strings.HasSuffix(norm(fd.Body), "returnfloat32(math.Sqrt(float64(result)))}") {
				ok = false
			}
			if fd := funcDecl(f, "", "CosineDistance"); fd == nil || !strings.HasSuffix(norm(fd.Body), "return1.0-dot/float32(math.Sqrt(float64(norm_squared)))}") {
				ok = false
			}
			if fd := funcDecl(f, "", "ManhattanDistance"); fd == nil || !strings.HasSuffix(norm(fd.Body), "returnresult}") {
				ok = false
			}
		}
		o.def("simdWrappersPassLen", "Bool", lbool(ok), "the AVX/SSE wrappers pass len(a), &a[0], &b[0] and post-process as modelled")
		// the implementations handed out by the dispatcher: AVX calls the AVX kernels only (they use
		// unaligned loads); SSE (aligned loads) is guarded by an alignment test on both operands and
		// falls back to the portable kernels
		ai := parseFile("index/space/avx_impl.go")
		avxOnly := true
		for _, fn := range []string{"EuclideanDistance", "ManhattanDistance", "CosineDistance"} {
			fd := funcDecl(ai, "avxSpaceImpl", fn)
			if fd == nil || norm(fd.Body) != "{returnavx."+fn+"(a,b)}" {
				avxOnly = false
			}
		}
		o.def("avxImplCallsAvxKernelsOnly", "Bool", lbool(avxOnly), "avxSpaceImpl's three methods are exactly `return avx.<Kernel>(a, b)`")
		si := parseFile("index/space/sse_impl.go")
		guarded := true
		for _, fn := range []string{"EuclideanDistance", "ManhattanDistance", "CosineDistance"} {
			fd := funcDecl(si, "sseSpaceImpl", fn)
			if fd == nil || norm(fd.Body) != "{if!sseLoadable(a,b){returnnativeSpaceImpl{}."+fn+"(a,b)}returnsse."+fn+"(a,b)}" {
				guarded = false
			}
		}
		if g := funcDecl(si, "", "sseLoadable"); g == nil ||
			norm(g.Body) != "{iflen(a)<4{returntrue}return(uintptr(unsafe.Pointer(&a[0]))|uintptr(unsafe.Pointer(&b[0])))&15==0}" {
			guarded = false
		}
		o.def("sseGuardedByAlignment", "Bool", lbool(guarded), "sseSpaceImpl calls an SSE kernel only if len < 4 or (addr(a) | addr(b)) & 15 == 0, else the portable kernel")
		sp := parseFile("index/space/space.go")
		fd := funcDecl(sp, "Cosine", "Distance")
		o.def("cosineDistanceAbs", "Bool", lbool(fd != nil && norm(fd.Body) == "{returnmath.Abs(this.impl.CosineDistance(a,b))}"), "Cosine.Distance = Abs(kernel)")
	})
}
