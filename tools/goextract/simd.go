package main

import "strings"

// C15: the Go wrappers around the kernels.
func init() {
	extractors = append(extractors, func(o *out) {
		ok := true
		for _, rel := range []string{"simd/avx/AVX_amd64.go", "simd/sse/SSE_amd64.go"} {
			f := parseFile(rel)
			for _, fn := range []string{"EuclideanDistance", "ManhattanDistance", "CosineDistance"} {
				fd := funcDecl(f, "", fn)
				if fd == nil {
					ok = false
					continue
				}
				s := norm(fd.Body)
				if !strings.Contains(s, "(unsafe.Pointer(uintptr(len(a))),unsafe.Pointer(&a[0]),unsafe.Pointer(&b[0]),") {
					ok = false
				}
			}
			if fd := funcDecl(f, "", "EuclideanDistance"); fd == nil || !strings.HasSuffix(norm(fd.Body), "returnfloat32(math.Sqrt(float64(result)))}") {
				ok = false
			}
			if fd := funcDecl(f, "", "CosineDistance"); fd == nil || !strings.HasSuffix(norm(fd.Body), "return1.0-dot/float32(math.Sqrt(float64(norm_squared)))}") {
				ok = false
			}
			if fd := funcDecl(f, "", "ManhattanDistance"); fd == nil || !strings.HasSuffix(norm(fd.Body), "returnresult}") {
				ok = false
			}
		}
		o.def("simdWrappersPassLen", "Bool", lbool(ok), "the AVX/SSE wrappers pass len(a), &a[0], &b[0] and post-process as modelled")
		sp := parseFile("index/space/space.go")
		fd := funcDecl(sp, "Cosine", "Distance")
		o.def("cosineDistanceAbs", "Bool", lbool(fd != nil && norm(fd.Body) == "{returnmath.Abs(this.impl.CosineDistance(a,b))}"), "Cosine.Distance = Abs(kernel)")
	})
}
