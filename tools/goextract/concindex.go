package main

import (
	"go/ast"
	"regexp"
	"strings"
)

// C13: locking shape of index/hnsw.go.
func init() {
	extractors = append(extractors, func(o *out) {
		f := parseFile("index/hnsw.go")
		atomicOK := true
		if fd := funcDecl(f, "Hnsw", "storeVertex"); fd == nil || norm(fd.Body) != "{m,mu:=this.getVerticesShard(vertex.id)defermu.Unlock()mu.Lock()if_,exists:=m[vertex.id];exists{returnItemAlreadyExistsError}m[vertex.id]=vertexatomic.AddUint64(&this.len,1)atomic.AddUint64(&this.bytesSize,vertex.bytesSize())returnnil}" {
			atomicOK = false
		}
		if fd := funcDecl(f, "Hnsw", "removeVertex"); fd == nil || norm(fd.Body) != "{m,mu:=this.getVerticesShard(id)defermu.Unlock()mu.Lock()ifvertex,exists:=m[id];exists{delete(m,id)atomic.AddUint64(&this.len,^uint64(0))atomic.AddUint64(&this.bytesSize,^uint64(vertex.bytesSize()-1))vertex.setDeleted()returnvertex,nil}returnnil,ItemNotFoundError}" {
			atomicOK = false
		}
		o.def("indexStoreRemoveAtomic", "Bool", lbool(atomicOK), "storeVertex / removeVertex: existence test, map update, counters (and tombstone) inside one critical section of the shard lock")
		readsOK := true
		for _, fn := range []string{"Get", "GetVertex"} {
			fd := funcDecl(f, "Hnsw", fn)
			if fd == nil || !strings.HasPrefix(norm(fd.Body), "{m,mu:=this.getVerticesShard(id)mu.RLock()defermu.RUnlock()") {
				readsOK = false
			}
		}
		o.def("indexReadsUnderShardLock", "Bool", lbool(readsOK), "Get / GetVertex read the shard map under its read lock")

		// every iteration over a vertex's edge map in hnsw.go happens between that vertex-level's RLock and RUnlock,
		// and nothing that takes a lock is called inside such a region
		lockers := regexp.MustCompile(`\.(addEdge|removeEdge|setEdges|getEdges|edgesCount|pruneNeighbors|storeVertex|removeVertex|GetVertex|Get|anyVertex|Insert|Remove)\(`)
		nested := true
		nRanges := 0
		var walk func(b *ast.BlockStmt)
		walk = func(b *ast.BlockStmt) {
			for i, st := range b.List {
				if rs, ok := st.(*ast.RangeStmt); ok {
					x := norm(rs.X)
					if m := regexp.MustCompile(`^(\w+)\.edges\[(\w+)\]$`).FindStringSubmatch(x); m != nil {
						nRanges++
						lock := m[1] + ".edgeMutexes[" + m[2] + "].RLock()"
						unlock := m[1] + ".edgeMutexes[" + m[2] + "].RUnlock()"
						before, after := false, false
						for j := 0; j < i; j++ {
							if norm(b.List[j]) == lock {
								before = true
							}
						}
						for j := i + 1; j < len(b.List); j++ {
							if norm(b.List[j]) == unlock {
								after = true
							}
						}
						if !before || !after {
							nested = false
						}
						if lockers.MatchString(src(rs.Body)) {
							nested = false
						}
					} else if strings.Contains(x, ".edges[") || strings.Contains(x, "getEdges(") {
						nested = false // iterating an edge map obtained some other way (e.g. through an accessor that has already unlocked)
					}
				}
				ast.Inspect(st, func(n ast.Node) bool {
					if bb, ok := n.(*ast.BlockStmt); ok && bb != b {
						walk(bb)
						return false
					}
					return true
				})
			}
		}
		for _, d := range f.Decls {
			if fd, ok := d.(*ast.FuncDecl); ok && fd.Body != nil {
				walk(fd.Body)
			}
		}
		o.def("indexNoNestedEdgeLocks", "Bool", lbool(nested && nRanges >= 5), "every iteration over an edge map in hnsw.go is inside that vertex-level's RLock/RUnlock pair and calls nothing that locks")
	})
}

// C13: the result of a search is assembled with a tombstone test.
func init() {
	extractors = append(extractors, func(o *out) {
		f := parseFile("index/hnsw.go")
		ok := false
		if fd := funcDecl(f, "Hnsw", "Search"); fd != nil {
			s := norm(fd.Body)
			ok = strings.Contains(s, "item:=neighbors.Pop()vertex:=item.Value().(*hnswVertex)ifvertex.isDeleted(){continue}result=append(result,SearchResultItem{Id:vertex.Id(),Metadata:vertex.Metadata(),Score:item.Priority()})") &&
				strings.Count(s, "result=append(") == 1 && !strings.Contains(s, "result[i].Id=")
		}
		o.def("searchSkipsTombstonedResults", "Bool", lbool(ok), "Hnsw.Search skips a vertex that isDeleted() when it assembles its result (the only place result items are produced)")
	})
}

// C01 / C07 / C13: a search writes nothing that another search (or a writer) can see. In the read path
// (Search, greedyClosestNeighbor, searchLevel, selectNeighbors, selectNeighborsHeuristic) every
// assignment goes to a local variable or into a local map / slice, and the only callees are the
// read-only ones of the unchanged code (queues are local values): a visited mark kept on the vertex, a
// counter on the index, a cache — anything shared — makes simultaneous searches interfere.
func init() {
	extractors = append(extractors, func(o *out) {
		f := parseFile("index/hnsw.go")
		readPath := []string{"Search", "greedyClosestNeighbor", "searchLevel", "selectNeighbors", "selectNeighborsHeuristic"}
		allowed := map[string]bool{}
		for _, n := range []string{"Distance", "Id", "Len", "LoadPointer", "MaxInt", "Metadata", "MinInt", "NewMaxPriorityQueue", "NewMinPriorityQueue",
			"NewPriorityQueueItem", "Peek", "Pop", "Priority", "Push", "RLock", "RUnlock", "Reverse", "ToSlice", "Value", "append", "int", "isDeleted",
			"len", "make", "uint", "float32", "Err", "Done", "greedyClosestNeighbor", "searchLevel", "selectNeighbors", "selectNeighborsHeuristic"} {
			allowed[n] = true
		}
		ok := true
		for _, fn := range readPath {
			fd := funcDecl(f, "Hnsw", fn)
			if fd == nil {
				ok = false
				continue
			}
			ast.Inspect(fd.Body, func(n ast.Node) bool {
				switch x := n.(type) {
				case *ast.AssignStmt:
					for _, l := range x.Lhs {
						root := l
						for {
							if ix, isIx := root.(*ast.IndexExpr); isIx {
								root = ix.X
								continue
							}
							break
						}
						if _, isId := root.(*ast.Ident); !isId { // x.f = …, x.f[i] = …, *p = …
							ok = false
							debugf("searchPath: assignment to %s in %s", norm(l), fn)
						}
					}
				case *ast.IncDecStmt:
					if _, isId := x.X.(*ast.Ident); !isId {
						ok = false
					}
				case *ast.CallExpr:
					name := ""
					switch c := x.Fun.(type) {
					case *ast.SelectorExpr:
						name = c.Sel.Name
					case *ast.Ident:
						name = c.Name
					case *ast.ParenExpr: // a conversion such as (*hnswVertex)(…)
						return true
					}
					if !allowed[name] {
						ok = false
						debugf("searchPath: call of %s in %s", name, fn)
					}
				case *ast.GoStmt:
					ok = false
				}
				return true
			})
		}
		o.def("searchPathWritesNothingShared", "Bool", lbool(ok), "the read path of the index (Search, greedyClosestNeighbor, searchLevel, selectNeighbors*) assigns to local variables only and calls nothing but the read-only callees of the unchanged code")
	})
}

// C12 / C01: the greedy descent ends. Every move of `greedyClosestNeighbor` goes to a neighbour that is
// *strictly* closer than anything seen so far (`distance < minDistance`, false for NaN), so the running
// minimum strictly decreases along a walk over finitely many vertices; a move that is also taken when the
// minimum is NaN (seeded change C12-E) walks for ever on a query whose distances are all NaN.
func init() {
	extractors = append(extractors, func(o *out) {
		f := parseFile("index/hnsw.go")
		ok := false
		if fd := funcDecl(f, "Hnsw", "greedyClosestNeighbor"); fd != nil {
			b := norm(fd.Body)
			ok = strings.Contains(b, "ifdistance:=this.space.Distance(query,neighbor.vector);distance<minDistance{minDistance=distanceclosestNeighbor=neighbor}") &&
				strings.Count(b, "minDistance=") == 1 && strings.Count(b, "closestNeighbor=") == 2 &&
				strings.Contains(b, "ifclosestNeighbor==nil{break}entrypoint=closestNeighbor")
		}
		o.def("greedyDescentStrictlyImproves", "Bool", lbool(ok), "greedyClosestNeighbor moves only to a neighbour strictly closer than the running minimum (false for NaN) and stops when there is none")
	})
}
