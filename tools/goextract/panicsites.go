package main

import (
	"fmt"
	"go/ast"
	"go/token"
	"os"
	"path/filepath"
	"sort"
	"strings"
)

// C12: inventory of the constructs that can take the process down on bad data, in the packages a
// request travels through. The decision model (Model/Validate.lean) lists the primitives it
// guards; a new site changes this inventory and the theorem that pins it stops checking.
func init() {
	extractors = append(extractors, func(o *out) {
		var sites []string
		for _, dir := range []string{"services", "storage", "storage/raft", "utils", "cluster"} {
			ents, err := os.ReadDir(filepath.Join(repo, dir))
			if err != nil {
				continue
			}
			for _, e := range ents {
				n := e.Name()
				if e.IsDir() || !strings.HasSuffix(n, ".go") || strings.HasSuffix(n, "_test.go") || strings.HasPrefix(n, "verif_") {
					continue
				}
				f := parseFile(filepath.Join(dir, n))
				for _, d := range f.Decls {
					fd, ok := d.(*ast.FuncDecl)
					if !ok || fd.Body == nil {
						continue
					}
					fn := fd.Name.Name
					count := map[string]int{}
					ast.Inspect(fd.Body, func(x ast.Node) bool {
						switch v := x.(type) {
						case *ast.CallExpr:
							switch src(v.Fun) {
							case "uuid.Must":
								count["uuid.Must"]++
							case "rand.Intn":
								count["rand.Intn"]++
							case "panic":
								count["panic"]++
							}
							if s := src(v.Fun); strings.HasSuffix(s, ".Fatal") || strings.HasSuffix(s, ".Fatalf") {
								count["Fatal"]++
							}
						case *ast.BinaryExpr:
							if v.Op == token.REM {
								if _, lit := v.Y.(*ast.BasicLit); !lit {
									count["%"]++
								}
							}
						}
						return true
					})
					for k, c := range count {
						sites = append(sites, fmt.Sprintf("%s/%s:%s:%s:%d", dir, n, fn, k, c))
					}
				}
			}
		}
		sort.Strings(sites)
		o.def("panicSites", "List String", lstrs(sites), "every uuid.Must / rand.Intn / non-constant % / panic / log.Fatal in services, storage, storage/raft, utils, cluster (file:function:kind:count)")
	})
}
