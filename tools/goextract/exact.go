package main

import "strings"

// C07: the default link budget.
func init() {
	extractors = append(extractors, func(o *out) {
		c := parseFile("index/config.go")
		m0, mm := false, false
		if fd := funcDecl(c, "", "newHnswConfig"); fd != nil {
			s := norm(fd.Body)
			m0 = strings.Contains(s, "mMax0:-1,") && strings.Contains(s, "ifconfig.mMax0==-1{config.mMax0=2*config.m}") && strings.Count(s, "config.mMax0=") == 2
			mm = strings.Contains(s, "mMax:-1,") && strings.Contains(s, "ifconfig.mMax==-1{config.mMax=config.m}") && strings.Count(s, "config.mMax=") == 2
		}
		o.def("hnswDefaultMMax0TwiceM", "Bool", lbool(m0), "newHnswConfig: when Mmax0 is not given it is 2*M")
		o.def("hnswDefaultMMaxIsM", "Bool", lbool(mm), "newHnswConfig: when Mmax is not given it is M")
	})
}
