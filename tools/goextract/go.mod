module goextract

go 1.14
