package main

import (
	"go/ast"
	"strings"
)

// C16: (a) getPartitionsNodeIds stores, for each partition, a *copy* of the shuffled prefix
// (append to a fresh slice, or make+copy) rather than a re-slice of the shared array;
// (b) cluster.Conn.NodeIds returns a slice it has just made (not a field of Conn), so shuffling
// it in place cannot disturb Conn's own state.
func init() {
	extractors = append(extractors, func(o *out) {
		f := parseFile("storage/allocator.go")
		fd := funcDecl(f, "Allocator", "getPartitionsNodeIds")
		copies := false
		assigns := 0
		if fd != nil {
			copies = true
			ast.Inspect(fd.Body, func(n ast.Node) bool {
				as, ok := n.(*ast.AssignStmt)
				if !ok || len(as.Lhs) != 1 || len(as.Rhs) != 1 {
					return true
				}
				ix, ok := as.Lhs[0].(*ast.IndexExpr)
				if !ok || src(ix.X) != "partitionsNodeIds" {
					return true
				}
				assigns++
				rhs := as.Rhs[0]
				switch r := rhs.(type) {
				case *ast.CallExpr:
					fn := src(r.Fun)
					if fn == "append" && len(r.Args) >= 2 {
						first := src(r.Args[0])
						// append([]uint64{}, x...) / append([]uint64(nil), x...) / append(make(...), x...)
						if !(strings.HasPrefix(first, "[]uint64{") || strings.HasPrefix(first, "[]uint64(nil") || strings.HasPrefix(first, "make(")) {
							copies = false
						}
					} else {
						// any other call: accept only if its result is a local that was made+copied (not analysed)
						copies = false
					}
				case *ast.Ident:
					// a local variable: require that it was created with make and filled with copy in this function
					name := r.Name
					made, copied := false, false
					ast.Inspect(fd.Body, func(m ast.Node) bool {
						if a2, ok := m.(*ast.AssignStmt); ok && len(a2.Lhs) == 1 && src(a2.Lhs[0]) == name && len(a2.Rhs) == 1 {
							if c, ok := a2.Rhs[0].(*ast.CallExpr); ok && src(c.Fun) == "make" {
								made = true
							}
						}
						if c, ok := m.(*ast.CallExpr); ok && src(c.Fun) == "copy" && len(c.Args) == 2 && src(c.Args[0]) == name {
							copied = true
						}
						return true
					})
					if !(made && copied) {
						copies = false
					}
				default:
					copies = false // a slice expression shares the array
				}
				return true
			})
		}
		o.def("placementCopiesPrefix", "Bool", lbool(copies && assigns >= 1),
			"storage/allocator.go getPartitionsNodeIds: each partition's node list is a copy of the shuffled prefix")

		g := parseFile("cluster/conn.go")
		gd := funcDecl(g, "Conn", "NodeIds")
		fresh := false
		if gd != nil {
			// every return statement returns an identifier that is assigned from make(...) in this function
			fresh = true
			nret := 0
			ast.Inspect(gd.Body, func(n ast.Node) bool {
				rs, ok := n.(*ast.ReturnStmt)
				if !ok || len(rs.Results) != 1 {
					return true
				}
				nret++
				id, ok := rs.Results[0].(*ast.Ident)
				if !ok {
					fresh = false
					return true
				}
				made := false
				ast.Inspect(gd.Body, func(m ast.Node) bool {
					if a, ok := m.(*ast.AssignStmt); ok && len(a.Lhs) == 1 && src(a.Lhs[0]) == id.Name && len(a.Rhs) == 1 {
						if c, ok := a.Rhs[0].(*ast.CallExpr); ok && src(c.Fun) == "make" {
							made = true
						}
					}
					return true
				})
				if !made {
					fresh = false
				}
				return true
			})
			if nret == 0 {
				fresh = false
			}
		}
		o.def("connNodeIdsFresh", "Bool", lbool(fresh),
			"cluster/conn.go NodeIds: returns a slice made inside the call")
	})
}
