package main

import (
	"go/ast"
	"strings"
)

// C18: locking shape of the allocator / cluster.Conn / partition raft loading.
func init() {
	extractors = append(extractors, func(o *out) {
		a := parseFile("storage/allocator.go")
		after := true
		for _, fn := range []string{"watch", "unwatch"} {
			fd := funcDecl(a, "Allocator", fn)
			if fd == nil {
				after = false
				continue
			}
			s := norm(fd.Body)
			iu := strings.LastIndex(s, "this.partitionsMu.Unlock()")
			is := strings.Index(s, "this.updatesC<-")
			if iu < 0 || is < 0 || iu > is || strings.Contains(s, "deferthis.partitionsMu.Unlock()") || strings.Count(s, "this.updatesC<-") != 1 {
				after = false
			}
		}
		o.def("allocatorSendsAfterUnlock", "Bool", lbool(after), "Allocator.watch/unwatch send on updatesC after releasing partitionsMu")

		cn := parseFile("cluster/conn.go")
		capv := "0"
		if fd := funcDecl(cn, "Conn", "NodeChangesNotifications"); fd != nil {
			ast.Inspect(fd.Body, func(n ast.Node) bool {
				if c, ok := n.(*ast.CallExpr); ok && src(c.Fun) == "make" && len(c.Args) == 2 && strings.HasPrefix(src(c.Args[0]), "chan") {
					capv = src(c.Args[1])
				}
				return true
			})
		}
		o.def("connNotifyChanCap", "Nat", capv, "capacity of a node-change notification channel")
		under := true
		for _, fn := range []string{"AddNode", "RemoveNode"} {
			fd := funcDecl(cn, "Conn", fn)
			if fd == nil || !strings.HasPrefix(norm(fd.Body), "{this.addressesMu.Lock()deferthis.addressesMu.Unlock()") || !strings.Contains(norm(fd.Body), "this.sendNodesChangeNotification(") {
				under = false
			}
		}
		if fd := funcDecl(cn, "Conn", "sendNodesChangeNotification"); fd == nil || !strings.Contains(norm(fd.Body), "for_,c:=rangethis.notifications{c<-n}") {
			under = false
		}
		o.def("connNotifiesUnderAddressesMu", "Bool", lbool(under), "Conn.AddNode/RemoveNode hold addressesMu while doing a blocking send of the notification")

		onlyEmpty := false
		if fd := funcDecl(a, "Allocator", "canModifyPartition"); fd != nil {
			s := norm(fd.Body)
			onlyEmpty = strings.HasPrefix(s, "{iflen(partition.nodeIds())>0{returnpartition.nodeIds()[0]==this.clusterConn.Id()}") &&
				strings.Count(s, "this.clusterConn.NodeIds()") == 1
		}
		for _, fn := range []string{"addNodeToPartitions", "removeNodeFromPartitions"} {
			fd := funcDecl(a, "Allocator", fn)
			if fd == nil || !strings.HasPrefix(norm(fd.Body), "{this.partitionsMu.RLock()deferthis.partitionsMu.RUnlock()") || strings.Contains(norm(fd.Body), "clusterConn.NodeIds()") {
				onlyEmpty = false
			}
		}
		o.def("allocatorNodeIdsOnlyWhenEmpty", "Bool", lbool(onlyEmpty), "the loop's node-change handlers reach Conn.NodeIds() only through canModifyPartition's empty-replica-list branch")

		// every raftMu acquisition in partition.go is immediately paired with its deferred release
		p := parseFile("storage/partition.go")
		balanced := true
		for _, d := range p.Decls {
			fd, ok := d.(*ast.FuncDecl)
			if !ok || fd.Body == nil {
				continue
			}
			s := norm(fd.Body)
			nr := strings.Count(s, "this.raftMu.RLock()")
			// either released by a defer, or held only to copy the group pointer (released on the next line but one)
			nrd := strings.Count(s, "this.raftMu.RLock()deferthis.raftMu.RUnlock()") + strings.Count(s, "this.raftMu.RLock()group:=this.raftthis.raftMu.RUnlock()")
			nw := strings.Count(s, "this.raftMu.Lock()")
			nwd := strings.Count(s, "this.raftMu.Lock()deferthis.raftMu.Unlock()")
			if nr != nrd || nw != nwd || nr+nw > 1 {
				balanced = false
			}
		}
		o.def("partitionRaftMuBalanced", "Bool", lbool(balanced), "every raftMu.RLock/Lock in storage/partition.go is paired with a deferred release (or held only to copy the group pointer), at most one per function")

		waits := false
		if fd := funcDecl(a, "Allocator", "addNodeToPartitions"); fd != nil && strings.Contains(norm(fd.Body), "partition.proposeAddNode(this.ctx,nodeId)") {
			if pp := funcDecl(p, "partition", "proposeAddNode"); pp != nil && strings.Contains(norm(pp.Body), "this.datasetManager.addPartitionNode(ctx,") {
				dm := parseFile("storage/dataset_manager.go")
				if w := funcDecl(dm, "DatasetManager", "proposePartitionNodesChangeAndWaitForCommit"); w != nil {
					s := norm(w.Body)
					waits = strings.Contains(s, "caseerr:=<-notifC:") && !strings.Contains(s, "context.WithTimeout(")
				}
			}
		}
		o.def("allocatorHandlerWaitsForCommit", "Bool", lbool(waits), "the node-change handler proposes a replica change and waits for its catalogue commit without a timeout, holding partitionsMu.RLock")
	})
}
