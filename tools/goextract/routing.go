package main

import (
	"fmt"
	"go/ast"
	"go/token"
	"os"
	"path/filepath"
	"sort"
	"strings"
)

// C10: literal translation of utils.UuidMod into a Lean definition over UInt64, and the
// facts that make it the single routing function of package storage.

type trEnv struct {
	vars   map[string]string
	failed bool
}

func (e *trEnv) tr(x ast.Expr) string {
	switch v := x.(type) {
	case *ast.ParenExpr:
		return e.tr(v.X)
	case *ast.BinaryExpr:
		op := ""
		switch v.Op {
		case token.ADD:
			op = "+"
		case token.SUB:
			op = "-"
		case token.MUL:
			op = "*"
		case token.REM:
			op = "%"
		case token.QUO:
			op = "/"
		case token.XOR:
			op = "^^^"
		case token.AND:
			op = "&&&"
		case token.OR:
			op = "|||"
		}
		if op == "" {
			e.failed = true
			return "(0 : UInt64)"
		}
		return "(" + e.tr(v.X) + " " + op + " " + e.tr(v.Y) + ")"
	case *ast.Ident:
		if s, ok := e.vars[v.Name]; ok {
			return s
		}
		e.failed = true
		return "(0 : UInt64)"
	case *ast.BasicLit:
		if v.Kind == token.INT {
			return "(" + v.Value + " : UInt64)"
		}
	case *ast.CallExpr:
		fn := src(v.Fun)
		if len(v.Args) == 1 {
			switch fn {
			case "binary.LittleEndian.Uint64":
				return "(Routing.le64 " + e.trBytes(v.Args[0]) + ")"
			case "binary.BigEndian.Uint64":
				return "(Routing.be64 " + e.trBytes(v.Args[0]) + ")"
			case "uint64":
				return e.tr(v.Args[0])
			}
		}
	}
	e.failed = true
	return "(0 : UInt64)"
}

func (e *trEnv) trBytes(x ast.Expr) string {
	if s, ok := x.(*ast.SliceExpr); ok {
		base := src(s.X)
		if b, ok := e.vars["bytes:"+base]; ok {
			lo, hi := "", ""
			if s.Low != nil {
				lo = src(s.Low)
			}
			if s.High != nil {
				hi = src(s.High)
			}
			switch {
			case lo == "" && hi != "":
				return "(" + b + ".take " + hi + ")"
			case lo != "" && hi == "":
				return "(" + b + ".drop " + lo + ")"
			case lo != "" && hi != "":
				return "((" + b + ".drop " + lo + ").take (" + hi + " - " + lo + "))"
			default:
				return b
			}
		}
	}
	e.failed = true
	return "([] : List UInt8)"
}

func goFiles(dir string) []string {
	ms, _ := filepath.Glob(filepath.Join(repo, dir, "*.go"))
	var r []string
	for _, m := range ms {
		b := filepath.Base(m)
		if strings.HasSuffix(b, "_test.go") || strings.HasPrefix(b, "verif_") {
			continue
		}
		rel, _ := filepath.Rel(repo, m)
		r = append(r, rel)
	}
	sort.Strings(r)
	return r
}

// callersOf lists the functions/methods of the given files whose body calls `callee`.
func callersOf(files []string, callee string) []string {
	set := map[string]bool{}
	for _, rel := range files {
		f := parseFile(rel)
		for _, d := range f.Decls {
			fd, ok := d.(*ast.FuncDecl)
			if !ok || fd.Body == nil {
				continue
			}
			if has(calls(fd.Body), callee) {
				set[fd.Name.Name] = true
			}
		}
	}
	var r []string
	for k := range set {
		r = append(r, k)
	}
	sort.Strings(r)
	return r
}

func lstrs(ss []string) string {
	var q []string
	for _, s := range ss {
		q = append(q, lstr(s))
	}
	return "[" + strings.Join(q, ", ") + "]"
}

func init() {
	extractors = append(extractors, func(o *out) {
		f := parseFile("utils/uuid.go")
		fd := funcDecl(f, "", "UuidMod")
		body := "(0 : UInt64)"
		ok := false
		if fd != nil && fd.Type.Params != nil && len(fd.Type.Params.List) == 2 &&
			len(fd.Type.Params.List[0].Names) == 1 && len(fd.Type.Params.List[1].Names) == 1 {
			idName := fd.Type.Params.List[0].Names[0].Name
			modName := fd.Type.Params.List[1].Names[0].Name
			e := &trEnv{vars: map[string]string{modName: "n", "bytes:" + idName: "x"}}
			done := false
			for _, st := range fd.Body.List {
				switch s := st.(type) {
				case *ast.AssignStmt:
					if len(s.Lhs) == 1 && len(s.Rhs) == 1 {
						if id, isId := s.Lhs[0].(*ast.Ident); isId {
							e.vars[id.Name] = e.tr(s.Rhs[0])
							continue
						}
					}
					e.failed = true
				case *ast.ReturnStmt:
					if len(s.Results) == 1 && !done {
						body = e.tr(s.Results[0])
						done = true
						continue
					}
					e.failed = true
				case *ast.EmptyStmt:
				default:
					e.failed = true
				}
			}
			ok = done && !e.failed
		}
		if !ok {
			fmt.Fprintln(os.Stderr, "goextract: utils.UuidMod is not straight-line integer code any more")
			body = "(0 : UInt64)"
		}
		fmt.Fprintf(&o.b, "/-- literal translation of `utils.UuidMod` (utils/uuid.go) -/\ndef uuidModCode (x : List UInt8) (n : UInt64) : UInt64 :=\n  %s\n\n", body)
		o.facts = append(o.facts, "uuidModCode")

		storageFiles := goFiles("storage")
		o.def("routingUuidModCallers", "List String", lstrs(callersOf(storageFiles, "utils.UuidMod")),
			"functions of package storage that call utils.UuidMod")
		o.def("routingUsers", "List String", lstrs(callersOf([]string{"storage/dataset.go"}, "this.getPartitionForId")),
			"functions of storage/dataset.go that route through getPartitionForId")
		// getPartitionForId indexes the catalogue-ordered partition list with the dataset's partition count
		g := parseFile("storage/dataset.go")
		gp := funcDecl(g, "Dataset", "getPartitionForId")
		nd := funcDecl(g, "", "newDataset")
		okMeta := false
		if gp != nil && nd != nil {
			s := strings.Join(strings.Fields(src(gp.Body)), "")
			t := strings.Join(strings.Fields(src(nd.Body)), "")
			okMeta = strings.Contains(s, "returnthis.partitions[utils.UuidMod(id,uint64(this.Meta().GetPartitionCount()))]") &&
				strings.Contains(t, "d.partitions[i]=partition") && strings.Contains(t, "meta.Partitions[i]")
		}
		o.def("routingPartitionCountFromMeta", "Bool", lbool(okMeta),
			"getPartitionForId = partitions[UuidMod(id, meta.PartitionCount)], partitions filled in catalogue order")
	})
}
