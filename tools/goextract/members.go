package main

import "strings"

// C20: how the address book is fed, saved and restored.
func init() {
	extractors = append(extractors, func(o *out) {
		g := parseFile("storage/raft/group.go")
		boot, feed := false, false
		if fd := funcDecl(g, "", "startRaftNode"); fd != nil {
			boot = strings.Contains(norm(fd.Body), "peer:=etcdRaft.Peer{ID:nodeId}ifnodeId==id&&len(address)>0{peer.Context=[]byte(address)}peers=append(peers,peer)")
		}
		if fd := funcDecl(g, "", "NewRaftGroup"); fd == nil || !strings.Contains(norm(fd.Body), `address:=""ifuuid.Equal(id,uuid.Nil){address=transport.Address()}raftNode,err:=startRaftNode(transport.NodeId(),address,nodeIds,storage,logger)`) {
			boot = false
		}
		o.def("bootstrapEntryCarriesAddress", "Bool", lbool(boot), "the zero group's bootstrap membership entry carries the node's own address")
		if fd := funcDecl(g, "RaftGroup", "processConfChange"); fd != nil {
			s := norm(fd.Body)
			feed = strings.Contains(s, "ifuuid.Equal(this.id,uuid.Nil){") &&
				strings.Contains(s, "caseraftpb.ConfChangeAddNode:iflen(cc.Context)>0{this.transport.addNodeAddress(cc.NodeID,string(cc.Context))}caseraftpb.ConfChangeRemoveNode:this.transport.removeNodeAddress(cc.NodeID)}") &&
				strings.Contains(s, "this.membershipChanges[cc.NodeID]=membershipChange{seq:this.membershipChangeSeq,removed:cc.Type==raftpb.ConfChangeRemoveNode,address:string(cc.Context),}") &&
				strings.HasSuffix(s, "this.raftConfState=this.raft.ApplyConfChange(cc)returnnil}")
		}
		o.def("zeroGroupFeedsBook", "Bool", lbool(feed), "only the zero group's membership entries change the address book: add with a non-empty address sets it, remove erases it; every applied change is recorded for the waiting proposer")
		cn := parseFile("cluster/conn.go")
		upd := false
		if fd := funcDecl(cn, "Conn", "AddNode"); fd != nil {
			s := norm(fd.Body)
			upd = strings.Contains(s, "existingAddress,exists:=this.addresses[id]if!exists{this.addresses[id]=address") &&
				strings.Contains(s, "}elseifexistingAddress!=address&&len(address)>0{this.addresses[id]=address")
		}
		if fd := funcDecl(cn, "Conn", "RemoveNode"); fd == nil || !strings.Contains(norm(fd.Body), "if_,exists:=this.addresses[id];exists{delete(this.addresses,id)") {
			upd = false
		}
		o.def("connAddNodeUpdatesAddress", "Bool", lbool(upd), "Conn.AddNode inserts an unknown node and updates a known one that announces a different non-empty address; RemoveNode erases")
		nm := parseFile("storage/raft/nodes_manager.go")
		snap, ack := false, false
		if fd := funcDecl(nm, "", "NewNodesManager"); fd != nil {
			s := norm(fd.Body)
			snap = strings.Contains(s, "snapshots.RegisterSnapshotFn(nm.snapshot)") && strings.Contains(s, "snapshots.RegisterProcessSnapshotFn(nm.processSnapshot)")
		}
		if fd := funcDecl(nm, "NodesManager", "snapshot"); fd == nil || norm(fd.Body) != "{returnjson.Marshal(this.clusterConn.Nodes())}" {
			snap = false
		}
		if fd := funcDecl(nm, "NodesManager", "processSnapshot"); fd == nil || !strings.Contains(norm(fd.Body), "if_,listsMe:=nodes[this.clusterConn.Id()];listsMe{forid,_:=rangethis.clusterConn.Nodes(){if_,exists:=nodes[id];!exists&&id!=this.clusterConn.Id(){this.clusterConn.RemoveNode(id)}}}forid,address:=rangenodes{this.clusterConn.AddNode(id,address)}") {
			snap = false
		}
		sv := parseFile("server.go")
		if fd := funcDecl(sv, "Server", "setup"); fd == nil || !strings.Contains(norm(fd.Body), `this.nodesManager,err=raft.NewNodesManager(this.clusterConn,this.zeroGroup,sharedGroup.Get("nodes"))`) ||
			strings.Index(norm(fd.Body), "raft.NewNodesManager(") > strings.Index(norm(fd.Body), "this.zeroGroup.Start()") {
			snap = false
		}
		sg := parseFile("storage/raft/shared_group.go")
		if fd := funcDecl(sg, "sharedGroup", "snapshot"); fd == nil || !strings.Contains(norm(fd.Body), "for_,proxy:=rangethis.proxies{ifproxy.snapshotFn!=nil{proxySnapshots[proxy.name],err=proxy.snapshotFn()") {
			snap = false
		}
		o.def("bookTravelsWithSnapshot", "Bool", lbool(snap), "the address book is a consumer of the zero group's snapshot: saved with it, and restored when a snapshot is installed — a snapshot that lists this node replaces everything but the node itself, one that does not (cut before the node joined) only adds")
		if fd := funcDecl(nm, "NodesManager", "AddNode"); fd != nil {
			s := norm(fd.Body)
			ack = strings.Contains(s, "if_,known:=this.clusterConn.Nodes()[id];known{this.clusterConn.AddNode(id,address)}") &&
				strings.Contains(s, "this.proposeUntilApplied(ctx,id,func()error{returnthis.zeroGroup.ProposeJoin(id,address)},func(changemembershipChange)bool{return!change.removed&&change.address==address},)")
		}
		if fd := funcDecl(nm, "NodesManager", "RemoveNode"); fd == nil || !strings.Contains(norm(fd.Body), "this.proposeUntilApplied(ctx,id,func()error{returnthis.zeroGroup.ProposeLeave(id)},func(changemembershipChange)bool{returnchange.removed},)") {
			ack = false
		}
		if fd := funcDecl(nm, "NodesManager", "proposeUntilApplied"); fd == nil || !strings.Contains(norm(fd.Body), "ifchange:=this.zeroGroup.lastMembershipChange(id);change.seq>seq&&isApplied(change){returnnil}") ||
			!strings.HasPrefix(norm(fd.Body), "{seq:=this.zeroGroup.lastMembershipChange(id).seqfor{iferr:=propose();err!=nil{returnerr}") {
			ack = false
		}
		o.def("membershipAckAfterApply", "Bool", lbool(ack), "AddNode / RemoveNode return only after this node has applied the change (re-proposing while raft drops it), and a known member's new address is usable at once")
		svc := parseFile("services/nodes_manager.go")
		hs := false
		if fd := funcDecl(svc, "nodesManagerServer", "AddNode"); fd != nil {
			s := norm(fd.Body)
			i1 := strings.Index(s, "this.sendNodes(this.nodesManager.ListNodes(),stream)")
			i2 := strings.Index(s, "this.nodesManager.AddNode(stream.Context(),req.GetId(),req.GetAddress())")
			hs = i1 >= 0 && i2 > i1
		}
		if fd := funcDecl(nm, "NodesManager", "tryJoin"); fd == nil || !strings.Contains(norm(fd.Body), "this.clusterConn.AddNode(node.GetId(),node.GetAddress())") {
			hs = false
		}
		o.def("handshakeListsMembersFirst", "Bool", lbool(hs), "the join handshake streams the current members before it waits for the change (the joiner may be part of the quorum), and the joiner records every streamed node")
	})
}
