package main

import (
	"go/ast"
	"strings"
)

// C09: shape of the search fan-out / fan-in in storage/dataset.go.

func norm(n ast.Node) string { return strings.Join(strings.Fields(src(n)), "") }

// sendsFollowedByReturn checks that every `errorCh <- x` statement in fn is inside a block whose
// last statement is a return, except blocks guarded by an error that comes from uuid.FromBytes
// (a malformed id in a peer's answer; outside the fault model). Returns ok and the number of sends.
func sendsFollowedByReturn(fd *ast.FuncDecl) (bool, int) {
	ok := true
	n := 0
	var walkBlock func(b *ast.BlockStmt, prev ast.Stmt)
	walkBlock = func(b *ast.BlockStmt, prevOuter ast.Stmt) {
		for i, st := range b.List {
			var prev ast.Stmt
			if i > 0 {
				prev = b.List[i-1]
			}
			switch s := st.(type) {
			case *ast.SendStmt:
				if src(s.Chan) == "errorCh" {
					n++
					last := b.List[len(b.List)-1]
					if _, isRet := last.(*ast.ReturnStmt); !isRet {
						if prevOuter == nil || !strings.Contains(src(prevOuter), "uuid.FromBytes") {
							ok = false
						}
					}
				}
			case *ast.IfStmt:
				walkBlock(s.Body, prev)
				if e, isBlock := s.Else.(*ast.BlockStmt); isBlock {
					walkBlock(e, prev)
				}
			case *ast.ForStmt:
				walkBlock(s.Body, prev)
			case *ast.RangeStmt:
				walkBlock(s.Body, prev)
			case *ast.BlockStmt:
				walkBlock(s, prev)
			}
		}
	}
	if fd == nil || fd.Body == nil {
		return false, 0
	}
	walkBlock(fd.Body, nil)
	return ok, n
}

func init() {
	extractors = append(extractors, func(o *out) {
		f := parseFile("storage/dataset.go")
		closes := false
		capOK, onceOK, sortOK := true, true, true
		for _, fn := range []string{"Search", "SearchPartitions"} {
			fd := funcDecl(f, "Dataset", fn)
			if fd == nil {
				capOK, onceOK, sortOK = false, false, false
				continue
			}
			s := norm(fd.Body)
			if strings.Contains(s, "close(resultCh)") || strings.Contains(s, "close(errorCh)") {
				closes = true
			}
			workers := "nodePartitions"
			if fn == "SearchPartitions" {
				workers = "partitions"
			}
			if !(strings.Contains(s, "resultCh:=make(chanindex.SearchResult,len("+workers+"))") &&
				strings.Contains(s, "errorCh:=make(chanerror,len("+workers+"))")) {
				capOK = false
			}
			loop := "fori:=0;i<len(" + workers + ");i++{select{caseitems:=<-resultCh:result=append(result,items...)caseerr:=<-errorCh:returnnil,errcase<-ctx.Done():returnnil,ctx.Err()}}"
			if !strings.Contains(s, loop) {
				onceOK = false
			}
			// exactly one worker is spawned per element of `workers`
			spawn := "range" + workers + "{wg.Add(1)gothis."
			if !strings.Contains(s, spawn) {
				onceOK = false
			}
			if !strings.HasSuffix(s, "sort.Sort(result)returnresult[:math.MinInt(int(k),len(result))],nil}") {
				sortOK = false
			}
		}
		o.def("searchFanInCloses", "Bool", lbool(closes), "Dataset.Search / SearchPartitions close a fan-in channel")
		o.def("searchChanCapIsWorkerCount", "Bool", lbool(capOK), "both fan-in channels are made with capacity len(workers)")
		o.def("searchCollectsOncePerWorker", "Bool", lbool(onceOK), "one worker goroutine per element, collector loop of len(workers) selects: result -> append, error -> return it, ctx -> return its error")
		o.def("searchSortsThenTruncates", "Bool", lbool(sortOK), "after the loop: sort.Sort(result); return result[:min(k, len)]")

		// workers: every path sends exactly one message
		sendOnce := true
		w1 := funcDecl(f, "Dataset", "searchPartition")
		ok1, n1 := sendsFollowedByReturn(w1)
		if w1 == nil || !ok1 || n1 != 1 || !strings.HasSuffix(norm(w1.Body), "resultCh<-result}") ||
			strings.Count(norm(w1.Body), "resultCh<-") != 1 {
			sendOnce = false
		}
		w2 := funcDecl(f, "Dataset", "searchPartitionsOnNode")
		ok2, n2 := sendsFollowedByReturn(w2)
		if w2 == nil || !ok2 || n2 < 3 || !strings.HasSuffix(norm(w2.Body), "resultCh<-result}") ||
			strings.Count(norm(w2.Body), "resultCh<-") != 1 {
			sendOnce = false
		}
		if w2 != nil {
			// the stream loop: Recv; EOF -> break; any other error -> send it and return (inside the loop)
			s := norm(w2.Body)
			if !strings.Contains(s, "for{item,err:=stream.Recv()iferr==io.EOF{break}iferr!=nil{errorCh<-errreturn}") {
				sendOnce = false
			}
		}
		o.def("searchWorkerSendsOnce", "Bool", lbool(sendOnce), "every path of searchPartition / searchPartitionsOnNode sends exactly one message (an error send is followed by return; stream errors are checked inside the receive loop)")
	})
}
