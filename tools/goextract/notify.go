package main

import (
	"fmt"
	"go/ast"
	"strings"
)

// C11: shape of the propose-and-wait notification and decision facts of the write paths.
func init() {
	extractors = append(extractors, func(o *out) {
		files := goFiles("storage")
		var caps []string
		nonBlocking, keyed, removeOwn := true, true, true
		nNotify := 0
		for _, rel := range files {
			f := parseFile(rel)
			for _, d := range f.Decls {
				fd, ok := d.(*ast.FuncDecl)
				if !ok || fd.Body == nil {
					continue
				}
				body := norm(fd.Body)
				ast.Inspect(fd.Body, func(n ast.Node) bool {
					switch x := n.(type) {
					case *ast.AssignStmt:
						if len(x.Rhs) == 1 {
							if c, ok := x.Rhs[0].(*ast.CallExpr); ok && src(c.Fun) == "this.notificator.Create" && len(c.Args) == 1 && len(x.Lhs) == 2 {
								caps = append(caps, src(c.Args[0]))
								idVar := src(x.Lhs[1])
								if !strings.Contains(body, "deferfunc(){this.notificator.Remove("+idVar+")}()") {
									removeOwn = false
								}
							}
						}
					case *ast.CallExpr:
						if src(x.Fun) == "this.notificator.Notify" {
							nNotify++
							if len(x.Args) != 3 || src(x.Args[2]) != "false" {
								nonBlocking = false
							}
							if len(x.Args) < 1 || src(x.Args[0]) != "notificationId" {
								keyed = false
							}
						}
					}
					return true
				})
			}
		}
		// the id that is notified is the one carried by the applied entry
		for _, site := range [][2]string{{"storage/partition.go", "partition"}, {"storage/dataset_manager.go", "DatasetManager"}} {
			fd := funcDecl(parseFile(site[0]), site[1], "process")
			if fd == nil || !strings.Contains(norm(fd.Body), "notificationId,err:=uuid.FromBytes(change.GetNotificationId())") {
				keyed = false
			}
		}
		for i, c := range caps {
			if _, err := fmt.Sscanf(c, "%d", new(int)); err != nil {
				caps[i] = "0"
			}
		}
		o.def("notifCreateCaps", "List Nat", "["+strings.Join(caps, ", ")+"]", "capacity argument of every notificator.Create call in package storage (file order)")
		o.def("notifyAllNonBlocking", "Bool", lbool(nonBlocking && nNotify > 0), "every notificator.Notify call passes blocking=false")
		o.def("notifyKeyedByEntryId", "Bool", lbool(keyed && nNotify > 0), "every Notify is keyed by the notification id parsed from the applied entry")
		o.def("notifRemoveOwnIdDeferred", "Bool", lbool(removeOwn && len(caps) > 0), "every Create is paired with a deferred Remove of the id it returned")

		ds := parseFile("storage/dataset.go")
		dimFirst := true
		for _, fn := range []string{"Insert", "Update"} {
			fd := funcDecl(ds, "Dataset", fn)
			if fd == nil || len(fd.Body.List) == 0 || norm(fd.Body.List[0]) != "iferr:=this.checkDimension(&value);err!=nil{returnerr}" {
				dimFirst = false
			}
		}
		if fd := funcDecl(ds, "Dataset", "Search"); fd == nil || len(fd.Body.List) == 0 || norm(fd.Body.List[0]) != "iferr:=this.checkDimension(&query);err!=nil{returnnil,err}" {
			dimFirst = false
		}
		o.def("writeDimCheckFirst", "Bool", lbool(dimFirst), "Dataset.Insert/Update/Search reject a dimension mismatch before anything else")

		proxyOK := true
		for _, fn := range []string{"Insert", "Update", "Remove"} {
			fd := funcDecl(ds, "Dataset", fn)
			if fd == nil {
				proxyOK = false
				continue
			}
			s := norm(fd.Body)
			if !strings.Contains(s, "client,err:=this.getDataManagerClient(ctx,partition.randomNodeId())iferr!=nil{returnerr}_,err=client."+fn+"(ctx,") {
				proxyOK = false
			}
			// the proxy block ends by returning the RPC's error
			if !strings.Contains(s, ")returnerr}") {
				proxyOK = false
			}
		}
		o.def("writeProxyErrorsReturned", "Bool", lbool(proxyOK), "proxied Insert/Update/Remove return the dial error and the RPC error")

		timeoutOK := true
		nTimeout := 0
		for _, rel := range files {
			f := parseFile(rel)
			for _, d := range f.Decls {
				fd, ok := d.(*ast.FuncDecl)
				if !ok || fd.Body == nil {
					continue
				}
				s := norm(fd.Body)
				if !strings.Contains(s, "<-notifC") {
					continue
				}
				nTimeout++
				// the context whose Done is awaited is the one whose Err is returned, and if a timeout context
				// is derived it has the same name (so the derived deadline is what is reported)
				if strings.Contains(s, "context.WithTimeout(") && !strings.Contains(s, "ctx,cancelCtx:=context.WithTimeout(ctx,") {
					timeoutOK = false
				}
				if !(strings.Contains(s, "case<-ctx.Done():returnnil,ctx.Err()") || strings.Contains(s, "case<-ctx.Done():returnctx.Err()")) {
					timeoutOK = false
				}
			}
		}
		o.def("proposeTimeoutReturnsDerivedCtxErr", "Bool", lbool(timeoutOK && nTimeout >= 4), "every wait-for-commit select returns the error of the context it waits on")

		batchOK := true
		for _, fn := range []string{"BatchInsert", "BatchUpdate"} {
			fd := funcDecl(ds, "Dataset", fn)
			if fd == nil {
				batchOK = false
				continue
			}
			s := norm(fd.Body)
			if !strings.Contains(s, "iferr:=this.checkDimension(&value);err!=nil{errors[uuid.FromBytesOrNil(item.GetId())]=err}else{checkedItems=append(checkedItems,item)}") ||
				!strings.Contains(s, "this.partitionsBatchRequest(ctx,checkedItems,") ||
				!strings.Contains(s, "forid,err:=rangeerrs{errors[id]=err}returnerrors,nil") {
				batchOK = false
			}
		}
		o.def("batchDimPrecheckPerItem", "Bool", lbool(batchOK), "batch insert/update pre-check the dimension per item, forward only the valid items and merge the partitions' error maps")
	})
}

// C11: a notification id must identify its waiter among all replicas of the group, because every
// replica signals the id carried by every applied entry.
func init() {
	extractors = append(extractors, func(o *out) {
		f := parseFile("utils/notificator.go")
		ok := false
		if fd := funcDecl(f, "Notificator", "Create"); fd != nil {
			ok = strings.HasPrefix(norm(fd.Body), "{id:=uuid.NewV4()c:=make(chaninterface{},bufSize)this.mu.Lock()this.chans[id]=c")
		}
		o.def("notifIdsRandomUuid", "Bool", lbool(ok), "Notificator.Create draws the notification id with uuid.NewV4 (unique across processes, not a per-process counter)")
	})
}

// C18 / C11: whoever proposed a catalogue change waits for the notification its apply sends — the
// allocator loop without a timeout. Every path through the apply functions of the catalogue that
// knows the notification id must therefore end in a Notify: a return that is not directly preceded
// by one (other than the return of an entry that cannot even be decoded) parks the waiter for ever.
func init() {
	extractors = append(extractors, func(o *out) {
		f := parseFile("storage/dataset_manager.go")
		ok := true
		silent := []string{}
		for _, fn := range []string{"createDataset", "deleteDataset", "updatePartitionNodes"} {
			fd := funcDecl(f, "DatasetManager", fn)
			if fd == nil {
				ok = false
				continue
			}
			ast.Inspect(fd.Body, func(n ast.Node) bool {
				if _, isLit := n.(*ast.FuncLit); isLit {
					return false
				}
				b, isBlock := n.(*ast.BlockStmt)
				var list []ast.Stmt
				if isBlock {
					list = b.List
				} else if cc, isCase := n.(*ast.CaseClause); isCase {
					list = cc.Body
				} else {
					return true
				}
				for i, st := range list {
					r, isRet := st.(*ast.ReturnStmt)
					if !isRet {
						continue
					}
					if norm(r) == "returnerr" && i == 0 {
						continue // `if err := proto.Unmarshal(...); err != nil { return err }`: nothing to notify about
					}
					if i == 0 || !strings.HasPrefix(norm(list[i-1]), "this.notificator.Notify(notificationId,") {
						ok = false
						silent = append(silent, fn)
					}
				}
				return true
			})
		}
		o.def("catalogueApplyAlwaysNotifies", "Bool", lbool(ok), "every return of createDataset / deleteDataset / updatePartitionNodes that knows the notification id is directly preceded by a Notify of that id")
	})
}

// returnsNotPrecededBy lists the return statements of fd (outside function literals) that are not
// directly preceded, in their own statement list, by a statement whose normalised text starts with
// one of the prefixes. allowFirst: a return that is the first statement of its list and reads exactly
// like that is let through (`if err := decode(...); err != nil { return err }`).
func returnsNotPrecededBy(fd *ast.FuncDecl, allowFirst string, prefixes ...string) int {
	bad := 0
	ast.Inspect(fd.Body, func(n ast.Node) bool {
		if _, isLit := n.(*ast.FuncLit); isLit {
			return false
		}
		var list []ast.Stmt
		switch b := n.(type) {
		case *ast.BlockStmt:
			list = b.List
		case *ast.CaseClause:
			list = b.Body
		case *ast.CommClause:
			list = b.Body
		default:
			return true
		}
		for i, st := range list {
			r, isRet := st.(*ast.ReturnStmt)
			if !isRet {
				continue
			}
			if i == 0 {
				if allowFirst == "" || norm(r) != allowFirst {
					bad++
				}
				continue
			}
			ok := false
			for _, p := range prefixes {
				if strings.HasPrefix(norm(list[i-1]), p) {
					ok = true
				}
			}
			if !ok {
				bad++
			}
		}
		return true
	})
	return bad
}

// C11: the batch fan-in. Every path through the per-partition worker sends exactly one result
// before it returns (the collector counts one value per partition and the channel is closed once all
// workers are done: a worker that returns silently is read as "no id of that partition failed").
func init() {
	extractors = append(extractors, func(o *out) {
		f := parseFile("storage/dataset.go")
		ok := false
		if fd := funcDecl(f, "Dataset", "handlePartitionBatchRequest"); fd != nil {
			b := norm(fd.Body)
			nRet := strings.Count(b, "return")
			nSend := strings.Count(b, "resultCh<-")
			ok = strings.HasPrefix(b, "{deferwg.Done()") && returnsNotPrecededBy(fd, "", "resultCh<-") == 0 && nRet == nSend && nRet > 0 &&
				strings.HasSuffix(b, "return}")
		}
		coll := false
		if fd := funcDecl(f, "Dataset", "partitionsBatchRequest"); fd != nil {
			b := norm(fd.Body)
			coll = strings.Contains(b, "resultCh:=make(chanpartitionBatchResult)") && strings.Contains(b, "gofunc(){wg.Wait()close(resultCh)}()") &&
				strings.Contains(b, "fori:=0;i<len(partitionItems);i++{select{caseresult:=<-resultCh:forid,err:=rangeresult{errors[id]=err}case<-ctx.Done():returnnil,ctx.Err()}}")
		}
		o.def("batchWorkerAlwaysAnswers", "Bool", lbool(ok && coll), "every path through handlePartitionBatchRequest sends exactly one result before it returns, and partitionsBatchRequest takes one value per partition from an unbuffered channel that is closed once all workers are done")
	})
}

// C10: routing is positional in Dataset.partitions. Nothing but newDataset writes that table: no
// element assignment, no append / re-slice assigned to it, and no sort over it or over a copy of its
// slice header.
func init() {
	extractors = append(extractors, func(o *out) {
		ok := true
		for _, rel := range []string{"storage/dataset.go"} { // (the allocator's own `partitions` is a different table)
			f := parseFile(rel)
			if f == nil {
				ok = false
				continue
			}
			aliases := map[string]bool{}
			ast.Inspect(f, func(n ast.Node) bool {
				switch x := n.(type) {
				case *ast.AssignStmt:
					for i, l := range x.Lhs {
						ls := norm(l)
						// writes to the table or to one of its slots
						if ls == "this.partitions" || ls == "d.partitions" || strings.HasPrefix(ls, "this.partitions[") {
							if !(strings.HasSuffix(rel, "dataset.go") && (strings.HasPrefix(ls, "d.partitions") )) {
								ok = false
							}
						}
						// x := this.partitions shares the backing array
						if i < len(x.Rhs) && norm(x.Rhs[i]) == "this.partitions" {
							aliases[ls] = true
						}
					}
				case *ast.CallExpr:
					c := norm(x.Fun)
					if strings.HasPrefix(c, "sort.") || c == "rand.Shuffle" {
						for _, a := range x.Args {
							as := norm(a)
							if as == "this.partitions" || aliases[as] || strings.HasPrefix(as, "this.partitions[") {
								ok = false
							}
						}
					}
				}
				return true
			})
		}
		o.def("datasetPartitionTableFixed", "Bool", lbool(ok), "Dataset.partitions (the positional routing table) is written by newDataset only: no other assignment to it or its slots, and no sort / shuffle over it or over a variable assigned from it")
	})
}
