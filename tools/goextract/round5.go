package main

import (
	"go/ast"
	"strings"
)

// Facts added after the fifth round of seeded changes: each pins one decision of the code that a
// theorem (or the model's shape) rests on and that a plausible rewrite got wrong.
func init() {
	extractors = append(extractors, func(o *out) {
		// C19: the queues order by the float comparison of the priorities (so -0 and +0 are equal), not by
		// their bit patterns
		pq := parseFile("utils/priority_queue.go")
		lessOK := false
		if a, b := funcDecl(pq, "minPriorityQueue", "Less"), funcDecl(pq, "maxPriorityQueue", "Less"); a != nil && b != nil {
			lessOK = norm(a.Body) == "{returnpq[i].priority<pq[j].priority}" && norm(b.Body) == "{returnpq[i].priority>pq[j].priority}"
		}
		o.def("pqLessComparesFloatValues", "Bool", lbool(lessOK), "minPriorityQueue.Less / maxPriorityQueue.Less compare the float32 priorities with < / > (values, not bit patterns)")

		// C15: the kernels' Go wrappers return through locals of the call (re-entrant)
		local := true
		for _, rel := range []string{"simd/avx/AVX_amd64.go", "simd/sse/SSE_amd64.go"} {
			f := parseFile(rel)
			if f == nil {
				local = false
				continue
			}
			for _, d := range f.Decls {
				if g, ok := d.(*ast.GenDecl); ok && g.Tok.String() == "var" {
					local = false // a package-level variable in a wrapper file
				}
			}
			for _, fn := range []string{"EuclideanDistance", "ManhattanDistance", "CosineDistance"} {
				fd := funcDecl(f, "", fn)
				if fd == nil || !(strings.HasPrefix(norm(fd.Body), "{varresultfloat32") || strings.HasPrefix(norm(fd.Body), "{vardotfloat32varnorm_squaredfloat32")) {
					local = false
				}
			}
		}
		o.def("simdWrappersReturnThroughLocals", "Bool", lbool(local), "the AVX / SSE wrappers hand the kernels the addresses of their own local result variables; the wrapper files declare no package-level variable")

		// C07 / C15: the cosine distance is the formula, for vectors of every magnitude (no magnitude guard)
		cos := true
		for _, rel := range []string{"simd/avx/AVX_amd64.go", "simd/sse/SSE_amd64.go"} {
			f := parseFile(rel)
			if fd := funcDecl(f, "", "CosineDistance"); fd == nil || !strings.HasSuffix(norm(fd.Body), "return1.0-dot/float32(math.Sqrt(float64(norm_squared)))}") || strings.Contains(norm(fd.Body), "if") {
				cos = false
			}
		}
		if f := parseFile("index/space/native_impl.go"); f != nil {
			if fd := funcDecl(f, "nativeSpaceImpl", "CosineDistance"); fd == nil || strings.Contains(norm(fd.Body), "return1.0}") || strings.Contains(norm(fd.Body), "return1}") {
				cos = false
			}
		}
		o.def("cosineHasNoMagnitudeGuard", "Bool", lbool(cos), "the three cosine implementations return 1 - dot / (|a||b|) whatever the vectors' magnitude: no branch answers a constant for short vectors")

		// C04 / C08: the metadata limits are limits on bytes — what the length fields of the snapshot hold
		md := parseFile("index/metadata.go")
		bytesOK := false
		if fd := funcDecl(md, "Metadata", "Validate"); fd != nil {
			bytesOK = strings.Contains(norm(fd.Body), "iflen(k)>maxMetadataKeyLength||len(v)>maxMetadataValueLength{") && !strings.Contains(norm(fd.Body), "Rune")
		}
		o.def("metadataLimitsAreByteLengths", "Bool", lbool(bytesOK), "Metadata.Validate compares len(key) and len(value) — byte lengths, like the length fields Save writes — with the format's limits")

		// C13 / C01: Remove unlinks the vertex from its neighbours but leaves the removed vertex's own edge
		// sets alone: whoever stands on it (a search that read it as entry point) still finds its way on
		h := parseFile("index/hnsw.go")
		keeps := false
		if fd := funcDecl(h, "Hnsw", "Remove"); fd != nil {
			b := norm(fd.Body)
			keeps = !strings.Contains(b, "vertex.setEdges(") && !strings.Contains(b, "vertex.edges[l]=") && !strings.Contains(b, "vertex.edges=") &&
				strings.Contains(b, "neighbor.removeEdge(l,vertex)")
		}
		o.def("removeKeepsTheRemovedVertexEdges", "Bool", lbool(keeps), "Hnsw.Remove takes the vertex out of its neighbours' edge sets and never clears or replaces the removed vertex's own edge sets")

		// C16: Create computes id and placement itself, whatever the request message carries in those fields
		dm := parseFile("storage/dataset_manager.go")
		over := false
		if fd := funcDecl(dm, "DatasetManager", "Create"); fd != nil {
			b := norm(fd.Body)
			over = strings.Contains(b, "id:=uuid.NewV4()dataset.Id=id.Bytes()dataset.Partitions=make([]*pb.Partition,dataset.GetPartitionCount())partitionsNodeIds:=this.allocator.getPartitionsNodeIds(") &&
				!strings.Contains(b, "dataset.GetId()") && !strings.Contains(b, "dataset.GetPartitions()")
		}
		o.def("createComputesIdAndPlacement", "Bool", lbool(over), "DatasetManager.Create overwrites the message's id and partitions with a fresh id and the allocator's placement, unconditionally")

		// C09: the search plan names every partition (one replica each), members or not — a replica that
		// cannot be reached makes the search fail, it does not make the partition disappear from the plan
		ds := parseFile("storage/dataset.go")
		plan := false
		if fd := funcDecl(ds, "Dataset", "getSearchQueryNodes"); fd != nil {
			b := norm(fd.Body)
			plan = strings.Contains(b, "for_,partition:=rangethis.partitions{partitionNodeIds:=partition.nodeIds()nodeId:=partitionNodeIds[rand.Intn(len(partitionNodeIds))]") &&
				strings.Contains(b, "result[nodeId]=append(result[nodeId],partition.id)}returnresult}") && !strings.Contains(b, "continue")
		}
		o.def("searchPlanNamesEveryPartition", "Bool", lbool(plan), "getSearchQueryNodes puts every partition of the dataset into the plan, on one replica drawn from its list, without skipping any")

		// C17: every addition to the two totals of SizeInfo is an atomic add (local partitions and remote answers alike)
		atomicOK := false
		if fd := funcDecl(ds, "Dataset", "SizeInfo"); fd != nil {
			b := norm(fd.Body)
			atomicOK = !strings.Contains(b, "resultLen+=") && !strings.Contains(b, "resultBytesSize+=") &&
				strings.Count(b, "atomic.AddUint64(&resultLen,") == 1 && strings.Count(b, "atomic.AddUint64(&resultBytesSize,") == 1 &&
				strings.Contains(b, "atomic.AddUint64(len,resp.GetLen())atomic.AddUint64(bytesSize,resp.GetBytesSize())") &&
				strings.Contains(b, "}(ctx,wg,errorCh,&resultLen,&resultBytesSize)")
		}
		o.def("sizeInfoTotalsAddedAtomically", "Bool", lbool(atomicOK), "Dataset.SizeInfo adds to its two totals with atomic.AddUint64 only, for local partitions and for remote answers")

		// C05: a failed snapshot send is always reported to raft (whatever the error was), and a failed send
		// makes the transport dial again
		tr := parseFile("storage/raft/transport.go")
		rep := false
		if fd := funcDecl(tr, "RaftTransport", "Send"); fd != nil {
			b := norm(fd.Body)
			rep = strings.Count(b, "ifm.Type==raftpb.MsgSnap{group.reportSnapshot(m.To,etcdRaft.SnapshotFailure)}") == 2 &&
				strings.Contains(b, "this.dropNodeRaftTransportClient(m.To)group.reportUnreachable(m.To)")
		}
		o.def("snapshotSendFailureAlwaysReported", "Bool", lbool(rep), "RaftTransport.Send reports SnapshotFailure for every MsgSnap whose send failed (no condition on the error), and drops the cached client of a peer a send to which failed")

		// C14: a replica change from the log is applied to the listing unconditionally (what the node can or
		// cannot load does not decide what the catalogue says)
		pt := parseFile("storage/partition.go")
		uncond := false
		if fd := funcDecl(pt, "partition", "addNode"); fd != nil {
			uncond = strings.HasPrefix(norm(fd.Body), "{this.meta.NodeIds=append(this.meta.NodeIds,nodeId)")
		}
		guard := true
		for _, fn := range []string{"proposeAddNode", "proposeRemoveNode"} {
			fd := funcDecl(pt, "partition", fn)
			if fd == nil || !strings.Contains(norm(fd.Body), "this.raftMu.RLock()group:=this.raftthis.raftMu.RUnlock()ifgroup==nil{returnRaftNotLoadedOnNodeErr}returngroup.Propose") || strings.Contains(norm(fd.Body), "this.raft.Propose") {
				guard = false
			}
		}
		// C03 (D35): the server opens its store so that a record torn by a crash at the end of the value
		// log is cut off instead of refusing to open
		trunc := false
		if fd := funcDecl(parseFile("server.go"), "Server", "setup"); fd != nil {
			trunc = strings.Contains(norm(fd.Body), `this.db,err=badger.Open(badger.LSMOnlyOptions(path.Join(this.config.DataDir,"anndb")).WithTruncate(true).WithLogger(log.New()))`)
		}
		o.def("serverStoreCutsTornTail", "Bool", lbool(trunc), "Server.setup opens the node's Badger store with WithTruncate(true): a value log that ends inside a record (a write the crash interrupted) is cut back to the last complete record on open")
		// C11: the channel a writer waits on is closed by that writer alone (its deferred Remove, after it
		// has read the answer or given up): nobody else can make the wait end with the channel's zero value,
		// which every caller would read as "applied, no error"
		own := false
		if nf := parseFile("utils/notificator.go"); nf != nil {
			closes, inRemove := 0, 0
			for _, d := range nf.Decls {
				if fd, ok := d.(*ast.FuncDecl); ok && fd.Body != nil {
					n := strings.Count(norm(fd.Body), "close(")
					closes += n
					if fd.Name.Name == "Remove" {
						inRemove += n
					}
				}
			}
			removes, deferred := 0, 0
			for _, rel := range []string{"storage/partition.go", "storage/dataset_manager.go", "storage/dataset.go", "storage/allocator.go", "storage/nodes_manager.go", "storage/raft/shared_group.go", "storage/raft/group.go"} {
				f := parseFile(rel)
				if f == nil {
					continue
				}
				for _, d := range f.Decls {
					if fd, ok := d.(*ast.FuncDecl); ok && fd.Body != nil {
						b := norm(fd.Body)
						removes += strings.Count(b, "otificator.Remove(") + strings.Count(b, "otificator.RemoveAll(")
						deferred += strings.Count(b, "deferfunc(){this.notificator.Remove(notifId)}()") + strings.Count(b, "deferthis.notificator.Remove(notifId)")
					}
				}
			}
			own = closes == 1 && inRemove == 1 && removes > 0 && removes == deferred
		}
		o.def("notificationChannelClosedOnlyByItsWaiter", "Bool", lbool(own), "Notificator closes a channel in Remove only, and every Remove in the storage packages is the deferred clean-up of the goroutine that created the channel and waits on it")
		// C03 / C06: the size-limited scan of the stored log stops at the first entry that does not fit (after
		// the first one) — it never steps over an entry and goes on
		scan := false
		if fd := funcDecl(parseFile("storage/wal/badger.go"), "badgerWAL", "getEntries"); fd != nil {
			b := norm(fd.Body)
			scan = strings.Contains(b, "ifbytes.Compare(item.Key(),endKey)>=0{break}size+=uint64(entry.Size())ifsize>maxSize&&!first{break}first=falseentries=append(entries,entry)}returnnil") &&
				strings.Count(b, "continue") == 0
		}
		o.def("walScanStopsAtTheLimit", "Bool", lbool(scan), "badgerWAL.getEntries: the scan loop adds an entry's size, breaks when the sum exceeds maxSize (unless it is the first entry) and has no continue — the shape of Model/Wal's getEntries.go")
		// C04 / C06: a compaction removes every key below the snapshot index in the one batch that writes the
		// snapshot (no bound on their number): a store object opened later finds its first key at the snapshot
		compact := false
		if fd := funcDecl(parseFile("storage/wal/badger.go"), "badgerWAL", "deleteEntriesUntilIndex"); fd != nil {
			b := norm(fd.Body)
			compact = strings.Contains(b, "ifindex>=untilIdx{break}keys=append(keys,string(item.Key()))}returnnil})") && strings.Count(b, "break") == 1
		}
		o.def("walCompactionRemovesEveryKeyBelow", "Bool", lbool(compact), "badgerWAL.deleteEntriesUntilIndex collects every entry key below the index (the scan ends only at the index) and deletes them in the caller's batch")
		o.def("replicaChangeChecksGroupLoaded", "Bool", lbool(guard), "partition.proposeAddNode / proposeRemoveNode look at the partition's raft group under raftMu and return RaftNotLoadedOnNodeErr when it is not loaded (the catalogue change before may have unloaded it)")
		o.def("replicaAddAppliedUnconditionally", "Bool", lbool(uncond), "partition.addNode lists the node first and unconditionally; loading the raft group comes after and cannot undo the listing")
	})
}
