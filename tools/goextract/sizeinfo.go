package main

import (
	"go/ast"
	"os"
	"path/filepath"
	"regexp"
	"strings"
)

// goMinor returns the `go 1.N` language version of /repo's go.mod (loop variables are shared
// across iterations when N < 22).
func goMinor() int {
	b, err := os.ReadFile(filepath.Join(repo, "go.mod"))
	if err != nil {
		return 0
	}
	m := regexp.MustCompile(`(?m)^go 1\.(\d+)`).FindSubmatch(b)
	if m == nil {
		return 0
	}
	n := 0
	for _, ch := range m[1] {
		n = n*10 + int(ch-'0')
	}
	return n
}

// C17: shape of Dataset.SizeInfo and the serving side of PartitionInfo.
func init() {
	extractors = append(extractors, func(o *out) {
		f := parseFile("storage/dataset.go")
		fd := funcDecl(f, "Dataset", "SizeInfo")
		own, capOK, localNil, remoteErrOnly, closeAfter, collect := false, false, false, false, false, false
		if fd != nil {
			s := norm(fd.Body)
			capOK = strings.Contains(s, "errorCh:=make(chanerror,len(this.partitions))")
			localNil = strings.Contains(s, "ifpartition.isOnNode(this.clusterConn.Id()){atomic.AddUint64(&resultLen,uint64(partition.len()))atomic.AddUint64(&resultBytesSize,partition.bytesSize())errorCh<-nil}else{")
			closeAfter = strings.Contains(s, "gofunc(){wg.Wait()close(errorCh)}()")
			collect = strings.Contains(s, "fori:=0;i<len(this.partitions);i++{select{caseerr:=<-errorCh:iferr!=nil{return0,0,err}case<-ctx.Done():return0,0,ctx.Err()}}returnatomic.LoadUint64(&resultLen),atomic.LoadUint64(&resultBytesSize),nil")
			// the remote goroutine: every errorCh send carries err and is followed by return; success adds and sends nothing
			ast.Inspect(fd.Body, func(n ast.Node) bool {
				g, ok := n.(*ast.GoStmt)
				if !ok {
					return true
				}
				fl, ok := g.Call.Fun.(*ast.FuncLit)
				if !ok || !strings.Contains(norm(fl.Body), "client.PartitionInfo(") {
					return true
				}
				b := norm(fl.Body)
				remoteErrOnly = strings.Count(b, "errorCh<-") == 2 && strings.Count(b, "iferr!=nil{errorCh<-errreturn}") == 2 &&
					strings.HasSuffix(b, "atomic.AddUint64(len,resp.GetLen())atomic.AddUint64(bytesSize,resp.GetBytesSize())}") &&
					strings.HasPrefix(b, "{deferwg.Done()")
				// which partition does it ask for? The closure must refer to a per-iteration variable:
				// go >= 1.22, or a re-binding `partition := partition` in the loop body before the go statement,
				// or the partition passed as an argument of the call
				if goMinor() >= 22 {
					own = true
				}
				for _, a := range g.Call.Args {
					if src(a) == "partition" {
						own = true
					}
				}
				return true
			})
			if strings.Contains(s, "wg.Add(1)partition:=partition") || strings.Contains(s, "partition:=partitionwg.Add(1)") {
				own = true
			}
			// the request must name that partition
			if !strings.Contains(s, "PartitionId:partition.id.Bytes(),") {
				own = false
			}
		}
		o.def("sizeInfoGoroutineOwnPartition", "Bool", lbool(own), "each remote-lookup goroutine refers to its own iteration's partition and names it in the request")
		o.def("sizeInfoChanCapIsPartitionCount", "Bool", lbool(capOK), "")
		o.def("sizeInfoLocalPushesNil", "Bool", lbool(localNil), "a local partition adds its size and pushes nil inside the spawning loop")
		o.def("sizeInfoRemoteSendsOnlyErrors", "Bool", lbool(remoteErrOnly), "a remote lookup sends its error and returns, or adds the answer and sends nothing")
		o.def("sizeInfoClosesAfterWait", "Bool", lbool(closeAfter), "")
		o.def("sizeInfoCollectsOncePerPartition", "Bool", lbool(collect), "")
		pi := funcDecl(f, "Dataset", "PartitionInfo")
		rej := pi != nil && strings.Contains(norm(pi.Body), "if!partition.isOnNode(this.clusterConn.Id()){return0,0,PartitionNotOnNodeErr}")
		o.def("partitionInfoRejectsNonHosted", "Bool", lbool(rej), "the serving side refuses to answer for a partition it does not host")
	})
}
