package main

import (
	"go/ast"
	"strings"
)

// C12: the validation guards of the request paths.
func init() {
	extractors = append(extractors, func(o *out) {
		dm := parseFile("storage/dataset_manager.go")
		cv := false
		if fd := funcDecl(dm, "DatasetManager", "Create"); fd != nil {
			s := norm(fd.Body)
			ig := strings.Index(s, "if_,knownSpace:=pb.Space_name[int32(dataset.GetSpace())];!knownSpace||dataset.GetDimension()==0||dataset.GetPartitionCount()==0||dataset.GetReplicationFactor()==0{returnnil,InvalidDatasetErr}")
			ip := strings.Index(s, "this.raft.Propose(")
			ia := strings.Index(s, "this.allocator.getPartitionsNodeIds(")
			cv = ig >= 0 && ip > ig && ia > ig
		}
		o.def("createValidates", "Bool", lbool(cv), "DatasetManager.Create rejects zero dimension / partition count / replication factor and unknown spaces before anything is allocated or proposed")

		ds := parseFile("storage/dataset.go")
		first := true
		for _, fn := range []string{"BatchInsert", "BatchUpdate", "BatchRemove"} {
			fd := funcDecl(ds, "Dataset", fn)
			if fd == nil || !strings.HasPrefix(norm(fd.Body), "{iflen(items)>maxBatchRequestSize{returnnil,BatchRequestTooLargerErr}iferr:=this.checkBatchItemIds(items);err!=nil{returnnil,err}") {
				first = false
			}
		}
		if fd := funcDecl(ds, "Dataset", "checkBatchItemIds"); fd == nil || norm(fd.Body) != "{for_,item:=rangeitems{if_,err:=uuid.FromBytes(item.GetId());err!=nil{returnerr}}returnnil}" {
			first = false
		}
		o.def("batchIdsCheckedFirst", "Bool", lbool(first), "Batch* check the batch size and every item id before grouping")
		pb := true
		for fn, chk := range map[string]string{"PartitionBatchInsert": "checkBatchItems", "PartitionBatchUpdate": "checkBatchItems", "PartitionBatchRemove": "checkBatchItemIds"} {
			fd := funcDecl(ds, "Dataset", fn)
			if fd == nil || !strings.HasPrefix(norm(fd.Body), "{partition,err:=this.getPartition(partitionId)iferr!=nil{returnnil,err}iferr:=this."+chk+"(items);err!=nil{returnnil,err}returnpartition.batch") {
				pb = false
			}
		}
		if fd := funcDecl(ds, "Dataset", "checkBatchItems"); fd == nil || norm(fd.Body) != "{iferr:=this.checkBatchItemIds(items);err!=nil{returnerr}for_,item:=rangeitems{value:=math.Vector(item.GetValue())iferr:=this.checkDimension(&value);err!=nil{returnerr}}returnnil}" {
			pb = false
		}
		o.def("partitionBatchChecked", "Bool", lbool(pb), "PartitionBatch* validate ids (and dimensions) before proposing")
		unsized := true
		for _, fn := range []string{"Search", "SearchPartitions", "searchPartitionsOnNode"} {
			fd := funcDecl(ds, "Dataset", fn)
			if fd == nil || !strings.Contains(norm(fd.Body), "result:=make(index.SearchResult,0)") || strings.Contains(norm(fd.Body), "int(k)*") {
				unsized = false
			}
		}
		o.def("searchBuffersUnsized", "Bool", lbool(unsized), "the dataset-level result slices are not pre-sized by k")
		h := parseFile("index/hnsw.go")
		clamp := false
		if fd := funcDecl(h, "Hnsw", "Search"); fd != nil {
			s := norm(fd.Body)
			ic := strings.Index(s, "ifl:=this.Len();l>0&&k>uint(l){k=uint(l)}")
			ie := strings.Index(s, "ef:=math.MaxInt(this.config.ef,int(k))")
			clamp = ic >= 0 && ie > ic
		}
		o.def("searchClampsK", "Bool", lbool(clamp), "Hnsw.Search clamps k to Len() before sizing the beam")
		sv := parseFile("services/data_manager.go")
		single := true
		for _, fn := range []string{"Insert", "Update", "Remove"} {
			fd := funcDecl(sv, "dataManagerServer", fn)
			if fd == nil || !strings.Contains(norm(fd.Body), "id,err:=uuid.FromBytes(req.GetId())iferr!=nil{returnnil,err}") ||
				!strings.HasPrefix(norm(fd.Body), "{datasetId,err:=uuid.FromBytes(req.GetDatasetId())iferr!=nil{returnnil,err}") {
				single = false
			}
		}
		pt := parseFile("storage/partition.go")
		itemErr := true
		for _, fn := range []string{"insertValue", "updateValue", "deleteValue"} {
			fd := funcDecl(pt, "partition", fn)
			if fd == nil {
				itemErr = false
				continue
			}
			ast.Inspect(fd.Body, func(n ast.Node) bool {
				if r, ok := n.(*ast.ReturnStmt); ok && norm(r) != "returnnil" {
					itemErr = false
				}
				return true
			})
		}
		for _, fn := range []string{"batchInsertValue", "batchUpdateValue", "batchDeleteValue"} {
			fd := funcDecl(pt, "partition", fn)
			if fd == nil {
				itemErr = false
				continue
			}
			// the only non-nil return is the one guarding the id parse
			body := strings.ReplaceAll(norm(fd.Body), "id,err:=uuid.FromBytes(item.GetId())iferr!=nil{returnerr}", "")
			if strings.Contains(body, "returnerr") || strings.Count(body, "return") != 1 || !strings.HasSuffix(body, "returnnil}") {
				itemErr = false
			}
		}
		// levels: the handlers draw every level they propose
		draws := true
		if fd := funcDecl(pt, "partition", "insert"); fd == nil || !strings.Contains(norm(fd.Body), "Level:int32(this.index.RandomLevel()),") {
			draws = false
		}
		if fd := funcDecl(pt, "partition", "batchInsert"); fd == nil || !strings.Contains(norm(fd.Body), "for_,item:=rangeitems{item.Level=int32(this.index.RandomLevel())}") {
			draws = false
		}
		// ... and nothing else in the package writes a Level field of an entry that is proposed
		if n := strings.Count(norm(pt), "Level=") + strings.Count(norm(pt), "Level:"); n != 2 {
			draws = false
		}
		o.def("writeLevelsDrawnByHandler", "Bool", lbool(draws), "partition.insert and partition.batchInsert set the level of every item they propose to their own RandomLevel() draw, whatever the request carried")
		o.def("applyItemErrorsNotReturned", "Bool", lbool(itemErr), "the partition's apply functions report item-level failures through the notification and return nil to the raft apply loop")
		o.def("singleWriteIdErrors", "Bool", lbool(single), "single-item write handlers turn malformed ids into errors")
	})
}
