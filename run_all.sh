#!/bin/sh
# Runs every claimed check once (tier from $1, default quick) and prints one line per check.
cd "$(dirname "$0")"
tier="${1:-quick}"
rc=0
for id in $(python3 -c "import json;print(' '.join(c['property_id'] for c in json.load(open('MANIFEST.json'))['checks']))"); do
  ./check "$id" --tier "$tier" | grep -E "^(VIOLATION|KNOWN-FINDING|C[0-9]+ )" | cut -c1-200 || true
done
