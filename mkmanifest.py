#!/usr/bin/env python3
"""Regenerates MANIFEST.json from props.py (claimed checks) and manifest_meta.py."""
import json, os, sys
ROOT = os.path.dirname(os.path.abspath(__file__))
sys.path.insert(0, ROOT)
from props import PROPS
from manifest_meta import META, NOT_APPLICABLE, ENGINES
import subprocess
HOOK_COMMITS = subprocess.check_output(['git', '-C', '/repo', 'log', '--format=%H', '--grep=^verif hooks'], text=True).split()

ids = [json.loads(l)["id"] for l in open(os.path.join(ROOT, "properties.jsonl"))]
checks = []
for pid in ids:
    if pid not in PROPS:
        continue
    m = META[pid]
    checks.append(dict(
        property_id=pid,
        quick_cmd="./check %s --tier quick" % pid,
        thorough_cmd="./check %s --tier thorough" % pid,
        evidence_file="evidence/%s.json" % pid,
        replay_cmd_template="./check %s --replay {path}" % pid,
        engine=",".join(e["name"] for e in PROPS[pid].get("engines", [])) or "lean",
        level_claimed=dict(category="proof", text=m["text"], design_ref=m.get("design_ref", "DESIGN.md §5 " + pid)),
        level_note=m["note"],
        technique=m["technique"],
    ))
na = [dict(property_id=pid, reason=NOT_APPLICABLE.get(pid, "not yet claimed: machinery under construction")) for pid in ids if pid not in PROPS]
manifest = dict(
    version=1,
    setup_cmd="./setup.sh",
    hooks=dict(guard="verif", enable="go build -tags verif (the harness module replaces github.com/marekgalovic/anndb by /repo)",
               baseline_off_cmd="cd /repo && GOFLAGS=-mod=mod GOPROXY=off GOSUMDB=off GOTOOLCHAIN=local go test -mod=mod -vet=off -count=1 ./...",
               source_commits=HOOK_COMMITS, add_only=True),
    engines=ENGINES,
    checks=checks,
    not_applicable=na,
    notes="Every check = regenerate facts from /repo (goextract) -> lake build of the property's theorem module + #print axioms audit -> Go harness built from /repo's working tree with -tags verif -> transcript diff against the compiled Lean model driver -> oracle. See DESIGN.md.",
)
json.dump(manifest, open(os.path.join(ROOT, "MANIFEST.json"), "w"), indent=1)
print("MANIFEST.json: %d checks, %d not claimed" % (len(checks), len(na)))
