import Anndb.Drive.PQ
import Anndb.Drive.Hnsw
import Anndb.Drive.Partition
import Anndb.Drive.Placement
import Anndb.Drive.Routing
import Anndb.Drive.Codec
import Anndb.Drive.Wal
import Anndb.Drive.Cluster
import Anndb.Drive.Catalogue
import Anndb.Drive.Wedge
import Anndb.Drive.Simd
import Anndb.Drive.Rpc
import Anndb.Drive.Recovery
import Anndb.Drive.RaftLoop
import Anndb.Drive.Members
import Anndb.Drive.Exact
/-! `driver <engine>`: the executable Lean models behind a one-line-in, one-line-out protocol. -/
def main (args : List String) : IO UInt32 := do
  let h ← IO.getStdin
  let out ← IO.getStdout
  match args with
  | ["pq"] => Anndb.Drive.PQ.main h out; return 0
  | ["hnsw"] => Anndb.Drive.Hnsw.main h out; return 0
  | ["partition"] => Anndb.Drive.Partition.main h out; return 0
  | ["placement"] => Anndb.Drive.Placement.main h out; return 0
  | ["routing"] => Anndb.Drive.Routing.main h out; return 0
  | ["codec"] => Anndb.Drive.Codec.main h out; return 0
  | ["wal"] => Anndb.Drive.Wal.main h out; return 0
  | ["cluster"] => Anndb.Drive.Cluster.main h out; return 0
  | ["catalogue"] => Anndb.Drive.Catalogue.main h out; return 0
  | ["wedge"] => Anndb.Drive.Wedge.main h out; return 0
  | ["simd"] => Anndb.Drive.Simd.main h out; return 0
  | ["rpc"] => Anndb.Drive.Rpc.main h out; return 0
  | ["recovery"] => Anndb.Drive.Recovery.main h out; return 0
  | ["raftloop"] => Anndb.Drive.RaftLoop.main h out; return 0
  | ["members"] => Anndb.Drive.Members.main h out; return 0
  | ["exact"] => Anndb.Drive.Exact.main h out; return 0
  | _ => IO.eprintln "usage: driver <engine>"; return 2
