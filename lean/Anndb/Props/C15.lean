import Anndb.Proofs.SimdExact
import Anndb.Proofs.SimdRound
import Anndb.Generated
/-!
# C15 — AVX/SSE distance kernels agree with the portable kernels and stay in bounds (partial)

What is proved (about the lane-faithful model of `simd/cpp/*.cpp` and `native_impl.go`, the same
definitions the `simd` engine runs at `Float32` and compares bit for bit with the real kernels):
in *exact* arithmetic the blocked 8-lane and 4-lane reductions compute the plain sum, so AVX, SSE
and the portable kernel are the same function, symmetric, non-negative and zero on self; and the
loops read exactly the indices `0 … n-1`. What cannot be a theorem here: floating-point rounding
(the engine checks a forward error bound and the properties directly on the real kernels) and the
memory accesses of the hand-assembled `.s` files (the engine places vectors against an
inaccessible page). Where floating point breaks an exact identity the proofs rely on
(`sqrt(x·x) = |x|`, `‖a‖²·‖b‖²` representable) the real kernels do deviate: known findings.
-/
namespace Anndb.C15
open Anndb.Simd

variable {α : Type} [Field α] [LinearOrder α] [IsStrictOrderedRing α] (sq : α → α)

/-- **AVX = SSE = portable** for the (squared) Euclidean distance, every length, exact arithmetic -/
theorem euclid_agree (a b : List α) (h : a.length = b.length) :
    euclidSq (exactOps α sq (|·|)) 8 a b = euclidSq (exactOps α sq (|·|)) 4 a b ∧
    euclidSq (exactOps α sq (|·|)) 8 a b = seqSum (exactOps α sq (|·|)) (sqDiff (exactOps α sq (|·|))) a b :=
  euclid_impls_agree sq a b h

/-- **Euclidean: symmetric, non-negative, zero on self** (both lane widths) -/
theorem euclid_metric (w : Nat) (hw : w = 8 ∨ w = 4) (a b : List α) (h : a.length = b.length) :
    euclidSq (exactOps α sq (|·|)) w a b = euclidSq (exactOps α sq (|·|)) w b a ∧
    0 ≤ euclidSq (exactOps α sq (|·|)) w a b ∧ euclidSq (exactOps α sq (|·|)) w a a = 0 :=
  euclidSq_props sq w hw a b h

/-- **Manhattan: blocked = portable, symmetric, non-negative, zero on self** — under the identity
`sqrt (x·x) = |x|`, which the vector part of the kernels relies on -/
theorem manhattan_metric (hsq : ∀ x : α, sq (x * x) = |x|) (w : Nat) (hw : w = 8 ∨ w = 4)
    (a b : List α) (h : a.length = b.length) :
    manhattan (exactOps α sq (|·|)) w a b = nativeManhattan (exactOps α sq (|·|)) a b ∧
    manhattan (exactOps α sq (|·|)) w a b = manhattan (exactOps α sq (|·|)) w b a ∧
    0 ≤ manhattan (exactOps α sq (|·|)) w a b ∧ manhattan (exactOps α sq (|·|)) w a a = 0 :=
  manhattan_props sq hsq w hw a b h

/-- **Cosine: the blocked sums are the plain sums; symmetric** -/
theorem cosine_symmetric (w : Nat) (hw : w = 8 ∨ w = 4) (a b : List α) (h : a.length = b.length) :
    cosine (exactOps α sq (|·|)) w a b = cosine (exactOps α sq (|·|)) w b a :=
  cosine_symm sq w hw a b h

/-- **Cosine: AVX = SSE = portable in exact arithmetic**, given that the square root is
multiplicative on the two squared norms — the one identity the two formulas differ by -/
theorem cosine_agree (w : Nat) (hw : w = 8 ∨ w = 4) (a b : List α) (h : a.length = b.length)
    (hmul : sq ((List.zipWith (fun x _ => x * x) a b).sum * (List.zipWith (fun _ y => y * y) a b).sum) =
      sq (List.zipWith (fun x _ => x * x) a b).sum * sq (List.zipWith (fun _ y => y * y) a b).sum) :
    cosine (exactOps α sq (|·|)) w a b = nativeCosine (exactOps α sq (|·|)) a b :=
  cosine_impls_agree sq w hw a b h hmul

/-- **In bounds, each element once**: the vector loop and the scalar tail of the C++ kernels read
exactly the indices `0 … n-1` -/
theorem loads (w n : Nat) : vecLoads w n ++ tailLoads w n = List.range n ∧
    ∀ i ∈ vecLoads w n ++ tailLoads w n, i < n :=
  ⟨loads_exact w n, fun i hi => loads_in_bounds w n i hi⟩

/-- the Go wrappers pass `len(a)` as the element count and the address of element 0 of each slice,
and `Cosine.Distance` wraps the kernel's value in `Abs` (regenerated) -/
theorem wrappers : Generated.simdWrappersPassLen = true ∧ Generated.cosineDistanceAbs = true := by decide

/-! ### alignment

The AVX kernels load with `vmovups` (any alignment). The SSE kernels load four floats with aligned
loads: the `j`-th vector load of an operand that starts at byte address `p` reads address
`p + 16 j` and faults unless that is a multiple of 16. `sseSpaceImpl` therefore calls an SSE kernel
only when no vector load happens (`n < 4`) or `(pa | pb) & 15 = 0`. -/

/-- the guard's bit test says: both operands start on a 16-byte boundary -/
theorem guard_iff (pa pb : Nat) : (pa ||| pb) % 16 = 0 ↔ pa % 16 = 0 ∧ pb % 16 = 0 := by
  have h16 : (16 : Nat) = 2 ^ 4 := rfl
  rw [h16, Nat.or_mod_two_pow, Nat.or_eq_zero_iff]

/-- **no aligned load faults**: under the guard every vector load of either operand is 16-byte
aligned, for every length -/
theorem sse_loads_aligned (pa pb n : Nat) (hg : n < 4 ∨ (pa ||| pb) % 16 = 0) (j : Nat) (hj : j < n / 4) :
    (pa + 16 * j) % 16 = 0 ∧ (pb + 16 * j) % 16 = 0 := by
  rcases hg with hn | hg
  · omega
  · obtain ⟨ha, hb⟩ := (guard_iff pa pb).mp hg
    omega

/-- the guard, and the AVX implementation's exclusive use of the AVX kernels, are in the code on
this run (regenerated) -/
theorem alignment_in_code :
    Generated.sseGuardedByAlignment = true ∧ Generated.avxImplCallsAvxKernelsOnly = true := by decide

/-- why `|` and not `&` (seeded change C15-C): `pa & pb & 15 = 0` lets an operand at offset 4 through -/
theorem and_guard_is_wrong : (0 &&& 4) % 16 = 0 ∧ ¬ ((0 : Nat) % 16 = 0 ∧ (4 : Nat) % 16 = 0) := by decide

/-! ### up to floating-point rounding

The same lane-faithful definitions with every operation followed by a rounding `fl` that obeys the
standard model `|fl x - x| ≤ u |x|` (float32, round to nearest: `u = 2⁻²⁴`; valid while nothing
overflows or underflows — the four known findings are exactly inputs where it does). -/

/-- **AVX, SSE and the portable kernel agree up to rounding** (squared Euclidean distance, every
length `n`): each is within `((1+u)^(n+6) - 1) · S` of the exact `S = Σ (aᵢ-bᵢ)²`, hence any two of
them within twice that. -/
theorem euclid_agree_up_to_rounding (fl : α → α) (u : α) (M : StdModel fl u) (a b : List α) (h : a.length = b.length) :
    let S := (List.zipWith (sqDiff (exactOps α sq (|·|))) a b).sum
    let R := roundedOps fl sq
    (|euclidSq R 8 a b - S| ≤ gam u (a.length + 6) * S ∧
     |euclidSq R 4 a b - S| ≤ gam u (a.length + 6) * S ∧
     |seqSum R (sqDiff R) a b - S| ≤ gam u (a.length + 6) * S) ∧
    |euclidSq R 8 a b - seqSum R (sqDiff R) a b| ≤ 2 * (gam u (a.length + 6) * S) ∧
    |euclidSq R 4 a b - seqSum R (sqDiff R) a b| ≤ 2 * (gam u (a.length + 6) * S) :=
  ⟨euclidSq_round fl u sq M a b h, (euclidSq_agree_round fl u sq M a b h).1, (euclidSq_agree_round fl u sq M a b h).2.1⟩

/-- in the familiar linear form: relative deviation at most `4 (n+6) u` between any two
implementations as long as `2 (n+6) u ≤ 1` (for float32 and `n ≤ 4096`: below `10⁻³`) -/
theorem euclid_agree_linear (fl : α → α) (u : α) (M : StdModel fl u) (a b : List α) (h : a.length = b.length)
    (hn : 2 * (((a.length + 6 : Nat) : α) * u) ≤ 1) :
    let S := (List.zipWith (sqDiff (exactOps α sq (|·|))) a b).sum
    let R := roundedOps fl sq
    |euclidSq R 8 a b - seqSum R (sqDiff R) a b| ≤ 4 * (((a.length + 6 : Nat) : α) * u) * S ∧
    |euclidSq R 4 a b - seqSum R (sqDiff R) a b| ≤ 4 * (((a.length + 6 : Nat) : α) * u) * S := by
  intro S R
  have hg := gam_le_linear M.u_nonneg (a.length + 6) hn
  have hS : 0 ≤ S := List.sum_nonneg (by
    intro x hx
    obtain ⟨i, hi, rfl⟩ := List.getElem_of_mem hx
    simp only [List.getElem_zipWith]
    exact sqDiff_exact_nonneg sq _ _)
  obtain ⟨h8, h4, _⟩ := euclidSq_agree_round fl u sq M a b h
  have hb : gam u (a.length + 6) * S ≤ 2 * (((a.length + 6 : Nat) : α) * u) * S :=
    mul_le_mul_of_nonneg_right hg hS
  constructor <;> nlinarith

/-- **The cosine kernels' three sums** (dot product, both squared norms) up to rounding, blocked
and sequential. (The final `1 - dot / sqrt(‖a‖²‖b‖²)` is not carried further: its two forms differ
exactly where the norm product leaves the float32 range — the known findings.) -/
theorem cosine_sums_up_to_rounding (fl : α → α) (u : α) (M : StdModel fl u) (w : Nat) (hw : w = 8 ∨ w = 4)
    (a b : List α) (h : a.length = b.length) :
    let R := roundedOps fl sq
    |blocked R w R.mul R.mul a b - (List.zipWith (· * ·) a b).sum| ≤ gam u (a.length + 4) * (List.zipWith (fun x y => |x * y|) a b).sum ∧
    |seqSum R R.mul a b - (List.zipWith (· * ·) a b).sum| ≤ gam u (a.length + 4) * (List.zipWith (fun x y => |x * y|) a b).sum ∧
    |blocked R w (fun x _ => R.mul x x) (fun x _ => R.mul x x) a b - (List.zipWith (fun x _ => x * x) a b).sum|
        ≤ gam u (a.length + 4) * (List.zipWith (fun x _ => x * x) a b).sum :=
  cosine_sums_round fl u sq M w hw a b h

/-- **Manhattan up to rounding**, under the one step that is not covered by the standard model:
`sqrt(d·d)` is as accurate as three roundings of `|d|` (`hsqrt`). Where `d·d` underflows or
overflows in float32 that fails — known findings `C15/avx/manhattan/square-*`. -/
theorem manhattan_agree_up_to_rounding (fl : α → α) (u : α) (M : StdModel fl u) (w : Nat) (hw : w = 8 ∨ w = 4)
    (hsqrt : ∀ x y, Err u 3 ((roundedOps fl sq).sqrt (sqDiff (roundedOps fl sq) x y)) |x - y| |x - y|)
    (a b : List α) (h : a.length = b.length) :
    let S := (List.zipWith (fun x y => |x - y|) a b).sum
    |manhattan (roundedOps fl sq) w a b - S| ≤ gam u (a.length + 6) * S ∧
    |nativeManhattan (roundedOps fl sq) a b - S| ≤ gam u (a.length + 6) * S :=
  manhattan_round fl u sq M w hw hsqrt a b h

/-- non-vacuity: roundings that obey the standard model exist — the identity (`u = 0`), and a
rounding that errs by the full `u` on every value -/
example : StdModel (fun x : α => x) 0 := ⟨le_refl _, by intro x; simp⟩
example (u : α) (hu : 0 ≤ u) : StdModel (fun x : α => x * (1 + u)) u :=
  ⟨hu, by
    intro x
    have : x * (1 + u) - x = u * x := by ring
    rw [this, abs_mul, abs_of_nonneg hu]⟩
/-- and with exact rounding and an exact square root, the `sqrt(d·d)` hypothesis holds -/
example (hsq : ∀ x : α, sq (x * x) = |x|) (x y : α) :
    Err (0 : α) 3 ((roundedOps (fun z => z) sq).sqrt (sqDiff (roundedOps (fun z => z) sq) x y)) |x - y| |x - y| := by
  have e : (roundedOps (fun z => z) sq).sqrt (sqDiff (roundedOps (fun z => z) sq) x y) = sq ((x - y) * (x - y)) := rfl
  rw [e, hsq]
  exact ⟨by simp [gam], by simp⟩

/-- non-vacuity over ℚ-like arithmetic is immediate: the hypotheses are only equal lengths -/
example (a b : List α) (h : a.length = b.length) : 0 ≤ euclidSq (exactOps α sq (|·|)) 8 a b :=
  (euclid_metric sq 8 (Or.inl rfl) a b h).2.1


/-- the wrappers are re-entrant: results come back through locals of the call, and the wrapper files
hold no package-level variable (regenerated; seeded change C15-E returns through one shared struct) -/
theorem wrappers_return_through_locals : Generated.simdWrappersReturnThroughLocals = true := by decide

/-- the cosine distance is the formula at every magnitude: no implementation answers a constant for
short vectors (regenerated; seeded change C07-E treats `|a|²|b|² < 1e-8` as "zero vector") -/
theorem cosine_has_no_magnitude_guard : Generated.cosineHasNoMagnitudeGuard = true := by decide

end Anndb.C15
