import Anndb.Proofs.SimdExact
import Anndb.Generated
/-!
# C15 — AVX/SSE distance kernels agree with the portable kernels and stay in bounds (partial)

What is proved (about the lane-faithful model of `simd/cpp/*.cpp` and `native_impl.go`, the same
definitions the `simd` engine runs at `Float32` and compares bit for bit with the real kernels):
in *exact* arithmetic the blocked 8-lane and 4-lane reductions compute the plain sum, so AVX, SSE
and the portable kernel are the same function, symmetric, non-negative and zero on self; and the
loops read exactly the indices `0 … n-1`. What cannot be a theorem here: floating-point rounding
(the engine checks a forward error bound and the properties directly on the real kernels) and the
memory accesses of the hand-assembled `.s` files (the engine places vectors against an
inaccessible page). Where floating point breaks an exact identity the proofs rely on
(`sqrt(x·x) = |x|`, `‖a‖²·‖b‖²` representable) the real kernels do deviate: known findings.
-/
namespace Anndb.C15
open Anndb.Simd

variable {α : Type} [Field α] [LinearOrder α] [IsStrictOrderedRing α] (sq : α → α)

/-- **AVX = SSE = portable** for the (squared) Euclidean distance, every length, exact arithmetic -/
theorem euclid_agree (a b : List α) (h : a.length = b.length) :
    euclidSq (exactOps α sq (|·|)) 8 a b = euclidSq (exactOps α sq (|·|)) 4 a b ∧
    euclidSq (exactOps α sq (|·|)) 8 a b = seqSum (exactOps α sq (|·|)) (sqDiff (exactOps α sq (|·|))) a b :=
  euclid_impls_agree sq a b h

/-- **Euclidean: symmetric, non-negative, zero on self** (both lane widths) -/
theorem euclid_metric (w : Nat) (hw : w = 8 ∨ w = 4) (a b : List α) (h : a.length = b.length) :
    euclidSq (exactOps α sq (|·|)) w a b = euclidSq (exactOps α sq (|·|)) w b a ∧
    0 ≤ euclidSq (exactOps α sq (|·|)) w a b ∧ euclidSq (exactOps α sq (|·|)) w a a = 0 :=
  euclidSq_props sq w hw a b h

/-- **Manhattan: blocked = portable, symmetric, non-negative, zero on self** — under the identity
`sqrt (x·x) = |x|`, which the vector part of the kernels relies on -/
theorem manhattan_metric (hsq : ∀ x : α, sq (x * x) = |x|) (w : Nat) (hw : w = 8 ∨ w = 4)
    (a b : List α) (h : a.length = b.length) :
    manhattan (exactOps α sq (|·|)) w a b = nativeManhattan (exactOps α sq (|·|)) a b ∧
    manhattan (exactOps α sq (|·|)) w a b = manhattan (exactOps α sq (|·|)) w b a ∧
    0 ≤ manhattan (exactOps α sq (|·|)) w a b ∧ manhattan (exactOps α sq (|·|)) w a a = 0 :=
  manhattan_props sq hsq w hw a b h

/-- **Cosine: the blocked sums are the plain sums; symmetric** -/
theorem cosine_symmetric (w : Nat) (hw : w = 8 ∨ w = 4) (a b : List α) (h : a.length = b.length) :
    cosine (exactOps α sq (|·|)) w a b = cosine (exactOps α sq (|·|)) w b a :=
  cosine_symm sq w hw a b h

/-- **In bounds, each element once**: the vector loop and the scalar tail of the C++ kernels read
exactly the indices `0 … n-1` -/
theorem loads (w n : Nat) : vecLoads w n ++ tailLoads w n = List.range n ∧
    ∀ i ∈ vecLoads w n ++ tailLoads w n, i < n :=
  ⟨loads_exact w n, fun i hi => loads_in_bounds w n i hi⟩

/-- the Go wrappers pass `len(a)` as the element count and the address of element 0 of each slice,
and `Cosine.Distance` wraps the kernel's value in `Abs` (regenerated) -/
theorem wrappers : Generated.simdWrappersPassLen = true ∧ Generated.cosineDistanceAbs = true := by decide

/-- non-vacuity over ℚ-like arithmetic is immediate: the hypotheses are only equal lengths -/
example (a b : List α) (h : a.length = b.length) : 0 ≤ euclidSq (exactOps α sq (|·|)) 8 a b :=
  (euclid_metric sq 8 (Or.inl rfl) a b h).2.1

end Anndb.C15
