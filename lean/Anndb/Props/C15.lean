import Anndb.Proofs.SimdExact
import Anndb.Generated
/-!
# C15 — AVX/SSE distance kernels agree with the portable kernels and stay in bounds (partial)

What is proved (about the lane-faithful model of `simd/cpp/*.cpp` and `native_impl.go`, the same
definitions the `simd` engine runs at `Float32` and compares bit for bit with the real kernels):
in *exact* arithmetic the blocked 8-lane and 4-lane reductions compute the plain sum, so AVX, SSE
and the portable kernel are the same function, symmetric, non-negative and zero on self; and the
loops read exactly the indices `0 … n-1`. What cannot be a theorem here: floating-point rounding
(the engine checks a forward error bound and the properties directly on the real kernels) and the
memory accesses of the hand-assembled `.s` files (the engine places vectors against an
inaccessible page). Where floating point breaks an exact identity the proofs rely on
(`sqrt(x·x) = |x|`, `‖a‖²·‖b‖²` representable) the real kernels do deviate: known findings.
-/
namespace Anndb.C15
open Anndb.Simd

variable {α : Type} [Field α] [LinearOrder α] [IsStrictOrderedRing α] (sq : α → α)

/-- **AVX = SSE = portable** for the (squared) Euclidean distance, every length, exact arithmetic -/
theorem euclid_agree (a b : List α) (h : a.length = b.length) :
    euclidSq (exactOps α sq (|·|)) 8 a b = euclidSq (exactOps α sq (|·|)) 4 a b ∧
    euclidSq (exactOps α sq (|·|)) 8 a b = seqSum (exactOps α sq (|·|)) (sqDiff (exactOps α sq (|·|))) a b :=
  euclid_impls_agree sq a b h

/-- **Euclidean: symmetric, non-negative, zero on self** (both lane widths) -/
theorem euclid_metric (w : Nat) (hw : w = 8 ∨ w = 4) (a b : List α) (h : a.length = b.length) :
    euclidSq (exactOps α sq (|·|)) w a b = euclidSq (exactOps α sq (|·|)) w b a ∧
    0 ≤ euclidSq (exactOps α sq (|·|)) w a b ∧ euclidSq (exactOps α sq (|·|)) w a a = 0 :=
  euclidSq_props sq w hw a b h

/-- **Manhattan: blocked = portable, symmetric, non-negative, zero on self** — under the identity
`sqrt (x·x) = |x|`, which the vector part of the kernels relies on -/
theorem manhattan_metric (hsq : ∀ x : α, sq (x * x) = |x|) (w : Nat) (hw : w = 8 ∨ w = 4)
    (a b : List α) (h : a.length = b.length) :
    manhattan (exactOps α sq (|·|)) w a b = nativeManhattan (exactOps α sq (|·|)) a b ∧
    manhattan (exactOps α sq (|·|)) w a b = manhattan (exactOps α sq (|·|)) w b a ∧
    0 ≤ manhattan (exactOps α sq (|·|)) w a b ∧ manhattan (exactOps α sq (|·|)) w a a = 0 :=
  manhattan_props sq hsq w hw a b h

/-- **Cosine: the blocked sums are the plain sums; symmetric** -/
theorem cosine_symmetric (w : Nat) (hw : w = 8 ∨ w = 4) (a b : List α) (h : a.length = b.length) :
    cosine (exactOps α sq (|·|)) w a b = cosine (exactOps α sq (|·|)) w b a :=
  cosine_symm sq w hw a b h

/-- **In bounds, each element once**: the vector loop and the scalar tail of the C++ kernels read
exactly the indices `0 … n-1` -/
theorem loads (w n : Nat) : vecLoads w n ++ tailLoads w n = List.range n ∧
    ∀ i ∈ vecLoads w n ++ tailLoads w n, i < n :=
  ⟨loads_exact w n, fun i hi => loads_in_bounds w n i hi⟩

/-- the Go wrappers pass `len(a)` as the element count and the address of element 0 of each slice,
and `Cosine.Distance` wraps the kernel's value in `Abs` (regenerated) -/
theorem wrappers : Generated.simdWrappersPassLen = true ∧ Generated.cosineDistanceAbs = true := by decide

/-! ### alignment

The AVX kernels load with `vmovups` (any alignment). The SSE kernels load four floats with aligned
loads: the `j`-th vector load of an operand that starts at byte address `p` reads address
`p + 16 j` and faults unless that is a multiple of 16. `sseSpaceImpl` therefore calls an SSE kernel
only when no vector load happens (`n < 4`) or `(pa | pb) & 15 = 0`. -/

/-- the guard's bit test says: both operands start on a 16-byte boundary -/
theorem guard_iff (pa pb : Nat) : (pa ||| pb) % 16 = 0 ↔ pa % 16 = 0 ∧ pb % 16 = 0 := by
  have h16 : (16 : Nat) = 2 ^ 4 := rfl
  rw [h16, Nat.or_mod_two_pow, Nat.or_eq_zero_iff]

/-- **no aligned load faults**: under the guard every vector load of either operand is 16-byte
aligned, for every length -/
theorem sse_loads_aligned (pa pb n : Nat) (hg : n < 4 ∨ (pa ||| pb) % 16 = 0) (j : Nat) (hj : j < n / 4) :
    (pa + 16 * j) % 16 = 0 ∧ (pb + 16 * j) % 16 = 0 := by
  rcases hg with hn | hg
  · omega
  · obtain ⟨ha, hb⟩ := (guard_iff pa pb).mp hg
    omega

/-- the guard, and the AVX implementation's exclusive use of the AVX kernels, are in the code on
this run (regenerated) -/
theorem alignment_in_code :
    Generated.sseGuardedByAlignment = true ∧ Generated.avxImplCallsAvxKernelsOnly = true := by decide

/-- why `|` and not `&` (seeded change C15-C): `pa & pb & 15 = 0` lets an operand at offset 4 through -/
theorem and_guard_is_wrong : (0 &&& 4) % 16 = 0 ∧ ¬ ((0 : Nat) % 16 = 0 ∧ (4 : Nat) % 16 = 0) := by decide

/-- non-vacuity over ℚ-like arithmetic is immediate: the hypotheses are only equal lengths -/
example (a b : List α) (h : a.length = b.length) : 0 ≤ euclidSq (exactOps α sq (|·|)) 8 a b :=
  (euclid_metric sq 8 (Or.inl rfl) a b h).2.1

end Anndb.C15
