import Anndb.Model.ConcIndex
import Anndb.Generated
/-!
# C13 — The index is safe under concurrent inserts, removals and searches (partial)

Proved about the micro-step model (all interleavings): what a search finds not tombstoned, and
everything it returns, was stored at some instant of that search (any number of writers); with a
single writer the entry point is a stored vertex whenever the writer is between operations. Proved
as reachable states: the search's *start vertex* may have been removed before the search began (it
is then traversed, not returned), and with two writers the entry point can be handed to a removed
vertex. Not expressible here: data-race
freedom in the Go memory model and runtime panics on concurrent map access — the `conc` engine
runs the real index under the race detector instead.
-/
namespace Anndb.C13
open Anndb.ConcIndex

/-! ## any number of writers: visited-and-not-tombstoned ⇒ stored during the search -/

structure InvA (c : Cfg) : Prop where
  notTomb : ∀ v, c.ever v = true → c.tomb v = false → c.stored v = true
  during : c.started = true → ∀ v, c.stored v = true → c.liveDuring v = true
  visited : ∀ v ∈ c.okVisited, c.liveDuring v = true
  notStarted : c.started = false → c.okVisited = []
  storedEver : ∀ v, c.stored v = true → c.ever v = true

theorem invA_init : InvA init := by
  refine ⟨?_, ?_, ?_, ?_, ?_⟩ <;> simp [init]

theorem invA_step (nw : Nat) (c c' : Cfg) (h : InvA c) (s : Step nw c c') : InvA c' := by
  obtain ⟨h1, h2, h3, h4, h5⟩ := h
  cases s with
  | store i v hi hw he =>
    refine ⟨?_, ?_, ?_, h4, ?_⟩
    · intro u hu ht
      simp only [setF] at hu ⊢
      by_cases huv : u = v
      · simp [huv]
      · simp only [huv, if_false] at hu ⊢; exact h1 u hu ht
    · intro hs u hu
      simp only [setF] at hu ⊢
      by_cases huv : u = v
      · simp [huv]
      · simp only [huv, if_false] at hu ⊢; exact h2 hs u hu
    · intro u hu
      simp only [setF]
      by_cases huv : u = v
      · simp [huv]
      · simp only [huv, if_false]; exact h3 u hu
    · intro u hu
      simp only [setF] at hu ⊢
      by_cases huv : u = v
      · simp [huv]
      · simp only [huv, if_false] at hu ⊢; exact h5 u hu
  | insPromote i v hi hw hs => exact ⟨h1, h2, h3, h4, h5⟩
  | remTomb i v hi hw hs =>
    refine ⟨?_, ?_, h3, h4, ?_⟩
    · intro u hu ht
      simp only [setF] at ht ⊢
      by_cases huv : u = v
      · simp [huv] at ht
      · simp only [huv, if_false] at ht ⊢; exact h1 u hu ht
    · intro hst u hu
      simp only [setF] at hu
      by_cases huv : u = v
      · simp [huv] at hu
      · simp only [huv, if_false] at hu; exact h2 hst u hu
    · intro u hu
      simp only [setF] at hu
      by_cases huv : u = v
      · simp [huv] at hu
      · simp only [huv, if_false] at hu; exact h5 u hu
  | remChoose i v w hi hw _ _ => exact ⟨h1, h2, h3, h4, h5⟩
  | remHandover i v w hi hw => exact ⟨h1, h2, h3, h4, h5⟩
  | searchStart hs =>
    refine ⟨h1, fun _ u hu => hu, ?_, by simp, h5⟩
    intro u hu
    rw [h4 hs] at hu; cases hu
  | searchVisit v hs he ht =>
    refine ⟨h1, h2, ?_, by simp [hs], h5⟩
    intro u hu
    rcases List.mem_cons.mp hu with rfl | hu
    · exact h2 hs u (h1 u he ht)
    · exact h3 u hu
  | searchReturn v hs hv ht => exact ⟨h1, h2, h3, h4, h5⟩

theorem invA_reach (nw : Nat) (c : Cfg) (r : Reach nw init c) : InvA c := by
  induction r with
  | refl => exact invA_init
  | step _ s ih => exact invA_step nw _ _ ih s

/-- **Whatever a search found not tombstoned was stored at some instant during that search** —
for every interleaving with any number of concurrent writers. (A search returns its start
vertex and vertices it found not tombstoned; the start vertex is the exception below.) -/
theorem visited_was_live_during_search (nw : Nat) (c : Cfg) (r : Reach nw init c) :
    ∀ v ∈ c.okVisited, c.liveDuring v = true :=
  (invA_reach nw c r).visited

/-! ## any number of writers: what a search returns was stored at some instant of that search -/

/-- the entry point, a writer's hand-over target and a search's start vertex are vertices that
were stored at some time; everything handed back was stored during the search -/
structure InvR (c : Cfg) : Prop where
  entryEver : ∀ u, c.entry = some u → c.ever u = true
  chosenEver : ∀ i v x, c.wpc i = .chosen v (some x) → c.ever x = true
  startEver : ∀ v, c.start = some v → c.ever v = true
  ret : ∀ v ∈ c.returned, c.liveDuring v = true
  retNotStarted : c.started = false → c.returned = []

theorem invR_init : InvR init := by
  refine ⟨?_, ?_, ?_, ?_, ?_⟩ <;> simp [init]

theorem invR_step (nw : Nat) (c c' : Cfg) (ha : InvA c) (h : InvR c) (s : Step nw c c') : InvR c' := by
  obtain ⟨h1, h2, h3, h4, h5⟩ := h
  cases s with
  | store i v hi hw he =>
    refine ⟨?_, ?_, ?_, ?_, h5⟩
    · intro u hu
      simp only [setF]
      by_cases huv : u = v
      · simp [huv]
      · simp only [huv, if_false]
        by_cases hen : c.entry = none
        · simp only [hen, if_true, Option.some.injEq] at hu; exact absurd hu.symm huv
        · simp only [hen, if_false] at hu; exact h1 u hu
    · intro j a x hc
      simp only [setF]
      by_cases hxv : x = v
      · simp [hxv]
      · simp only [hxv, if_false]; exact h2 j a x hc
    · intro u hu
      simp only [setF]
      by_cases huv : u = v
      · simp [huv]
      · simp only [huv, if_false]; exact h3 u hu
    · intro u hu
      simp only [setF]
      by_cases huv : u = v
      · simp [huv]
      · simp only [huv, if_false]; exact h4 u hu
  | insPromote i v hi hw hs =>
    refine ⟨?_, h2, h3, h4, h5⟩
    intro u hu
    have : v = u := Option.some.inj hu
    subst this
    exact ha.storedEver _ hs
  | remTomb i v hi hw hs =>
    refine ⟨h1, ?_, h3, h4, h5⟩
    intro j a x hc
    simp only [setF] at hc
    by_cases hji : j = i
    · simp [hji] at hc
    · simp only [hji, if_false] at hc; exact h2 j a x hc
  | remChoose i v w hi hw hst hnone =>
    refine ⟨h1, ?_, h3, h4, h5⟩
    intro j a x hc
    simp only [setF] at hc
    by_cases hji : j = i
    · simp only [hji, if_true] at hc
      injection hc with _ hwx
      exact ha.storedEver x (hst x hwx)
    · simp only [hji, if_false] at hc; exact h2 j a x hc
  | remHandover i v w hi hw =>
    refine ⟨?_, ?_, h3, h4, h5⟩
    · intro u hu
      by_cases hev : c.entry = some v
      · simp only [hev, if_true] at hu
        exact h2 i v u (by rw [hw, hu])
      · simp only [hev, if_false] at hu; exact h1 u hu
    · intro j a x hc
      simp only [setF] at hc
      by_cases hji : j = i
      · simp [hji] at hc
      · simp only [hji, if_false] at hc; exact h2 j a x hc
  | searchStart hs =>
    refine ⟨h1, h2, ?_, ?_, ?_⟩
    · intro v hv; exact h1 v hv
    · intro v hv
      rw [h5 hs] at hv; cases hv
    · intro hst; simp at hst
  | searchVisit v hs he ht => exact ⟨h1, h2, h3, h4, h5⟩
  | searchReturn v hs hv ht =>
    refine ⟨h1, h2, h3, ?_, ?_⟩
    · intro u hu
      rcases List.mem_cons.mp hu with rfl | hu
      · rcases hv with hstart | hvis
        · exact ha.during hs u (ha.notTomb u (h3 u hstart) ht)
        · exact ha.visited u hvis
      · exact h4 u hu
    · intro hst; rw [hs] at hst; cases hst

theorem invAR_reach (nw : Nat) (c : Cfg) (r : Reach nw init c) : InvA c ∧ InvR c := by
  induction r with
  | refl => exact ⟨invA_init, invR_init⟩
  | step _ s ih => exact ⟨invA_step nw _ _ ih.1 s, invR_step nw _ _ ih.1 ih.2 s⟩

/-- **Every vertex a search returns was stored at some instant of that search** — for every
interleaving with any number of concurrent writers, including a search whose start vertex had been
removed before it began (the result assembly tests the tombstone: `search_skips_tombstoned`). -/
theorem returned_was_live_during_search (nw : Nat) (c : Cfg) (r : Reach nw init c) :
    ∀ v ∈ c.returned, c.liveDuring v = true :=
  (invAR_reach nw c r).2.ret

/-! ## single writer: the entry point is a stored vertex whenever the writer is between operations -/

structure InvW (c : Cfg) : Prop where
  others : ∀ i, i ≠ 0 → c.wpc i = .idle
  entry : ∀ u, c.entry = some u →
    match c.wpc 0 with
    | .idle => c.stored u = true
    | .removing v => u = v ∨ c.stored u = true
    | .chosen v _ => u = v ∨ c.stored u = true
  chosen : ∀ v w, c.wpc 0 = .chosen v w → (∀ x, w = some x → c.stored x = true)
  removingNot : ∀ v, (c.wpc 0 = .removing v ∨ ∃ w, c.wpc 0 = .chosen v w) → c.stored v = false

theorem invW_init : InvW init := by
  refine ⟨by simp [init], by simp [init], by simp [init], by simp [init]⟩

theorem invW_step (c c' : Cfg) (h : InvW c) (s : Step 1 c c') : InvW c' := by
  obtain ⟨h1, h2, h3, h4⟩ := h
  cases s with
  | store i v hi hw he =>
    have hi0 : i = 0 := by omega
    subst hi0
    refine ⟨h1, ?_, ?_, ?_⟩
    · intro u hu
      simp only [hw]
      simp only [setF]
      by_cases huv : u = v
      · simp [huv]
      · simp only [huv, if_false]
        by_cases hen : c.entry = none
        · simp only [hen, if_true, Option.some.injEq] at hu; exact absurd hu.symm huv
        · simp only [hen, if_false] at hu
          have := h2 u hu; simp only [hw] at this; exact this
    · intro a w hc; simp [hw] at hc
    · intro a hc; simp [hw] at hc
  | insPromote i v hi hw hs =>
    have hi0 : i = 0 := by omega
    subst hi0
    refine ⟨h1, ?_, h3, h4⟩
    intro u hu
    simp only [Option.some.injEq] at hu
    subst hu
    simp only [hw]; exact hs
  | remTomb i v hi hw hs =>
    have hi0 : i = 0 := by omega
    subst hi0
    refine ⟨?_, ?_, ?_, ?_⟩
    · intro j hj; simp only [setF, hj, if_false]; exact h1 j hj
    · intro u hu
      simp only [setF, if_true]
      by_cases huv : u = v
      · exact Or.inl huv
      · right; simp only [huv, if_false]
        have := h2 u hu; simp only [hw] at this; exact this
    · intro a w hc; simp [setF] at hc
    · intro a hc
      simp only [setF, if_true] at hc
      rcases hc with hc | ⟨w, hc⟩
      · cases hc; simp [setF]
      · cases hc
  | remChoose i v w hi hw hsome hnone =>
    have hi0 : i = 0 := by omega
    subst hi0
    refine ⟨?_, ?_, ?_, ?_⟩
    · intro j hj; simp only [setF, hj, if_false]; exact h1 j hj
    · intro u hu
      simp only [setF, if_true]
      have := h2 u hu; simp only [hw] at this; exact this
    · intro a b hc
      simp only [setF, if_true, WPc.chosen.injEq] at hc
      obtain ⟨_, rfl⟩ := hc
      exact hsome
    · intro a hc
      simp only [setF, if_true] at hc
      rcases hc with hc | ⟨b, hc⟩
      · cases hc
      · simp only [WPc.chosen.injEq] at hc
        obtain ⟨hav, _⟩ := hc
        show c.stored a = false
        rw [← hav]
        exact h4 v (Or.inl hw)
  | remHandover i v w hi hw =>
    have hi0 : i = 0 := by omega
    subst hi0
    refine ⟨?_, ?_, ?_, ?_⟩
    · intro j hj; simp only [setF, hj, if_false]; exact h1 j hj
    · intro u hu
      simp only [setF, if_true]
      by_cases hev : c.entry = some v
      · simp only [hev, if_true] at hu
        exact h3 v w hw u hu
      · simp only [hev, if_false] at hu
        have := h2 u hu
        simp only [hw] at this
        rcases this with rfl | hs
        · exact absurd hu hev
        · exact hs
    · intro a b hc; simp [setF] at hc
    · intro a hc; simp [setF] at hc
  | searchStart hs => exact ⟨h1, h2, h3, h4⟩
  | searchVisit v hs he ht => exact ⟨h1, h2, h3, h4⟩
  | searchReturn v hs hv ht => exact ⟨h1, h2, h3, h4⟩

theorem invW_reach (c : Cfg) (r : Reach 1 init c) : InvW c := by
  induction r with
  | refl => exact invW_init
  | step _ s ih => exact invW_step _ _ ih s

/-- **Single writer, quiescence**: whenever the writer is between operations the entry point is a
stored (hence not tombstoned) vertex — the structural invariant C01's theorems start from —
however searches interleave with it. -/
theorem single_writer_entry_live (c : Cfg) (r : Reach 1 init c) (hq : c.wpc 0 = .idle)
    (u : Nat) (hu : c.entry = some u) : c.stored u = true := by
  have := (invW_reach c r).entry u hu
  simpa [hq] using this

/-! ## the two exceptions, as reachable states -/

/-- a search that starts after `removeVertex` tombstoned the entry point and before the hand-over
takes the removed vertex as its start vertex: it was stored at no instant of the search. One writer
suffices. (This was defect D23 while the result was assembled without a tombstone test; by
`returned_was_live_during_search` such a start vertex is traversed but never returned.) -/
theorem search_may_start_at_removed_entry :
    ∃ c, Reach 1 init c ∧ c.started = true ∧ c.start = some 7 ∧ c.liveDuring 7 = false := by
  have r1 := Reach.step (nw := 1) .refl (Step.store init 0 7 (by decide) rfl rfl)
  have r2 := Reach.step r1 (Step.remTomb _ 0 7 (by decide) (by simp [init]) (by simp [init, setF]))
  have r3 := Reach.step r2 (Step.searchStart _ (by simp [init]))
  exact ⟨_, r3, rfl, by simp [init], by simp [init, setF]⟩

/-- **Two writers**: writer 0 removes the entry point `1` and chooses its neighbour `2` while `2`
is still stored; writer 1 removes `2`; writer 0's CAS then installs the removed `2` as entry
point — at quiescence the entry point is not stored. -/
theorem two_writers_break_entry :
    ∃ c, Reach 2 init c ∧ c.wpc 0 = .idle ∧ c.wpc 1 = .idle ∧ c.entry = some 2 ∧ c.stored 2 = false := by
  have r1 := Reach.step (nw := 2) .refl (Step.store init 0 1 (by decide) rfl rfl)
  have r2 := Reach.step r1 (Step.store _ 0 2 (by decide) (by simp [init]) (by simp [init, setF]))
  have r3 := Reach.step r2 (Step.remTomb _ 0 1 (by decide) (by simp [init]) (by simp [init, setF]))
  have r4 := Reach.step r3 (Step.remChoose _ 0 1 (some 2) (by decide) (by simp [init, setF])
    (by intro x hx; cases hx; simp [init, setF]) (by intro h; cases h))
  have r5 := Reach.step r4 (Step.remTomb _ 1 2 (by decide) (by simp [init, setF]) (by simp [init, setF]))
  have r6 := Reach.step r5 (Step.remChoose _ 1 2 none (by decide) (by simp [init, setF])
    (by intro x hx; cases hx) (by intro _ x; simp only [init, setF]; split <;> simp_all))
  have r7 := Reach.step r6 (Step.remHandover _ 1 2 none (by decide) (by simp [init, setF]))
  have r8 := Reach.step r7 (Step.remHandover _ 0 1 (some 2) (by decide) (by simp [init, setF]))
  exact ⟨_, r8, by simp [init, setF], by simp [init, setF], by simp [init, setF], by simp [init, setF]⟩

/-! ## what the code does (regenerated facts) -/

/-- `storeVertex` / `removeVertex` test and update the shard map, the counters and (remove) the
tombstone inside one critical section of the id's shard lock; `Get`/`GetVertex` read under the read
lock; no edge lock is taken while another edge lock or a shard lock is held -/
theorem locking_shape :
    Generated.indexStoreRemoveAtomic = true ∧ Generated.indexReadsUnderShardLock = true ∧
    Generated.indexNoNestedEdgeLocks = true := by decide

/-- `Search` tests the tombstone of every vertex it puts into its result -/
theorem search_skips_tombstoned : Generated.searchSkipsTombstonedResults = true := by decide


/-- **searches share nothing they write** (regenerated from `index/hnsw.go`): in the read path of the
index — `Search`, `greedyClosestNeighbor`, `searchLevel`, `selectNeighbors*` — every assignment goes to
a local variable (or into a local map / slice) and nothing is called but read-only accessors and the
search's own local queues. Hence what the theorems of this file say about one search holds for each
of any number of simultaneous searches on an index nobody writes (seeded changes C01-D / C07-D keep
the visited marks on the vertices: simultaneous searches then return an id twice). -/
theorem search_path_writes_nothing_shared : Generated.searchPathWritesNothingShared = true := by decide


/-- frame: a search's own steps change nothing but the search's bookkeeping — membership, tombstones,
the entry point and the writers' program counters are what they were -/
theorem search_steps_write_nothing_shared (nw : Nat) (c c' : ConcIndex.Cfg) (s : ConcIndex.Step nw c c') :
    (c'.started ≠ c.started ∨ c'.okVisited ≠ c.okVisited ∨ c'.returned ≠ c.returned) →
      c'.stored = c.stored ∧ c'.ever = c.ever ∧ c'.tomb = c.tomb ∧ c'.entry = c.entry ∧ c'.wpc = c.wpc := by
  intro hch
  cases s <;> simp_all


/-- a removed vertex keeps its own edge sets: an operation that already stands on it (it read it as
entry point) goes on through them to live vertices — what `searchVisit` of the model allows
(regenerated; seeded change C13-E clears them "to help the garbage collector") -/
theorem remove_keeps_the_removed_vertex_edges : Generated.removeKeepsTheRemovedVertexEdges = true := by decide

end Anndb.C13
