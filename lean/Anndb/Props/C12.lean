import Anndb.Model.Validate
import Anndb.Generated
/-!
# C12 — No request can crash a node or poison the replicated log
-/
namespace Anndb.C12
open Anndb.Validate

theorem runPrims_ok_of_all (ps : List Prim) (h : ∀ p ∈ ps, p.outcome = .ok) : runPrims ps = .ok := by
  induction ps with
  | nil => rfl
  | cons p t ih =>
    simp only [runPrims, h p List.mem_cons_self]
    exact ih (fun q hq => h q (List.mem_cons_of_mem _ hq))

theorem runPrims_append (a b : List Prim) (ha : runPrims a = .ok) : runPrims (a ++ b) = runPrims b := by
  induction a with
  | nil => rfl
  | cons p t ih =>
    simp only [List.cons_append, runPrims] at ha ⊢
    cases hp : p.outcome <;> simp only [hp] at ha ⊢
    · exact ih ha
    all_goals cases ha

/-- every dataset that `Create` lets in satisfies the invariant the other handlers rely on -/
theorem create_wf (members : Nat) (hm : 1 ≤ members) (r : CreateReq) (d : Ds)
    (h : create members r = (.ok, some d)) : d.Wf := by
  unfold create at h
  split at h
  · rename_i hg
    simp only [Prod.mk.injEq, Option.some.injEq, true_and] at h
    subst h
    simp only [createGuard, Bool.and_eq_true, decide_eq_true_eq, bne_iff_ne, ne_eq] at hg
    obtain ⟨⟨⟨_, h1⟩, h2⟩, h3⟩ := hg
    refine ⟨by show 1 ≤ r.dim; omega, by show 1 ≤ r.parts; omega, ?_, rfl⟩
    show 1 ≤ min r.repl members
    omega
  · simp at h

theorem create_never_panics (members : Nat) (r : CreateReq) :
    (create members r).1 = .ok ∨ (create members r).1 = .err := by
  unfold create; split <;> simp

theorem writePrims_ok (d : Ds) (hw : d.Wf) (hstored : True) : runPrims (writePrims d d.dim) = .ok := by
  obtain ⟨h1, h2, h3, h4⟩ := hw
  apply runPrims_ok_of_all
  intro p hp
  simp only [writePrims, List.mem_append, List.mem_cons, List.not_mem_nil, or_false] at hp
  rcases hp with (rfl | rfl | rfl) | hp
  · simp [Prim.outcome]; omega
  · simp [Prim.outcome]; omega
  · simp [Prim.outcome, h4]
  · split at hp
    · cases hp
    · simp only [List.mem_cons, List.not_mem_nil, or_false] at hp
      rcases hp with rfl | rfl
      · simp [Prim.outcome]; omega
      · simp [Prim.outcome]

/-- **single writes**: for every id length and vector length the answer is ok or an error -/
theorem insert_safe (d : Ds) (hw : d.Wf) (idLen vecLen : Nat) :
    Validate.insert d idLen vecLen = .ok ∨ Validate.insert d idLen vecLen = .err := by
  unfold Validate.insert
  split
  · exact Or.inr rfl
  · split
    · exact Or.inr rfl
    · rename_i hv
      have : vecLen = d.dim := by omega
      subst this
      exact Or.inl (writePrims_ok d hw trivial)

theorem remove_safe (d : Ds) (hw : d.Wf) (idLen : Nat) :
    remove d idLen = .ok ∨ remove d idLen = .err := by
  unfold remove
  split
  · exact Or.inr rfl
  · obtain ⟨_, h2, h3, _⟩ := hw
    left
    apply runPrims_ok_of_all
    intro p hp
    simp only [List.mem_cons, List.not_mem_nil, or_false] at hp
    rcases hp with rfl | rfl <;> simp [Prim.outcome] <;> omega

/-- **batches**: whatever ids and vectors the items carry -/
theorem batchWrite_safe (d : Ds) (hw : d.Wf) (items : List Item) :
    batchWrite d items = .ok ∨ batchWrite d items = .err := by
  unfold batchWrite
  split
  · exact Or.inr rfl
  · split
    · exact Or.inr rfl
    · rename_i hids
      left
      have hids' : ∀ it ∈ items, it.1 = 16 := by
        intro it hit
        have : idsOk items = true := by simpa using hids
        simp only [idsOk, List.all_eq_true, beq_iff_eq] at this
        exact this it hit
      apply runPrims_ok_of_all
      intro p hp
      simp only [List.mem_append, List.mem_map, List.mem_flatMap, List.mem_filter] at hp
      rcases hp with ⟨it, ⟨hit, _⟩, rfl⟩ | ⟨it, ⟨hit, hdim⟩, hp⟩
      · simp [Prim.outcome, hids' it hit]
      · have hd : it.2 = d.dim := by simpa using hdim
        rw [hd] at hp
        obtain ⟨h1, h2, h3, h4⟩ := hw
        simp only [writePrims, List.mem_append, List.mem_cons, List.not_mem_nil, or_false] at hp
        rcases hp with (rfl | rfl | rfl) | hp
        · simp [Prim.outcome]; omega
        · simp [Prim.outcome]; omega
        · simp [Prim.outcome, h4]
        · split at hp
          · cases hp
          · simp only [List.mem_cons, List.not_mem_nil, or_false] at hp
            rcases hp with rfl | rfl
            · simp [Prim.outcome]; omega
            · simp [Prim.outcome]

/-- **node-to-node batch RPCs never append an entry that fails at apply** -/
theorem partitionBatchWrite_safe (d : Ds) (hw : d.Wf) (items : List Item) :
    partitionBatchWrite d items = .ok ∨ partitionBatchWrite d items = .err := by
  unfold partitionBatchWrite
  split
  · exact Or.inr rfl
  · split
    · exact Or.inr rfl
    · rename_i hids hdims
      left
      have hids' : ∀ it ∈ items, it.1 = 16 := by
        intro it hit
        have : idsOk items = true := by simpa using hids
        simp only [idsOk, List.all_eq_true, beq_iff_eq] at this
        exact this it hit
      have hdims' : ∀ it ∈ items, it.2 = d.dim := by
        intro it hit
        have : dimsOk d items = true := by simpa using hdims
        simp only [dimsOk, List.all_eq_true, beq_iff_eq] at this
        exact this it hit
      obtain ⟨h1, _, _, h4⟩ := hw
      apply runPrims_ok_of_all
      intro p hp
      simp only [List.mem_append, List.mem_map, List.mem_flatMap] at hp
      rcases hp with ⟨it, hit, rfl⟩ | ⟨it, hit, hp⟩
      · simp [Prim.outcome, hids' it hit]
      · simp only [List.mem_append, List.mem_cons, List.not_mem_nil, or_false] at hp
        rcases hp with rfl | hp
        · simp [Prim.outcome, h4]
        · split at hp
          · cases hp
          · simp only [List.mem_cons, List.not_mem_nil, or_false] at hp
            rcases hp with rfl | rfl
            · simp [Prim.outcome, hdims' it hit]; omega
            · simp [Prim.outcome, hdims' it hit]

theorem partitionBatchRemove_safe (d : Ds) (items : List Item) :
    partitionBatchRemove d items = .ok ∨ partitionBatchRemove d items = .err := by
  unfold partitionBatchRemove
  split
  · exact Or.inr rfl
  · rename_i hids
    left
    apply runPrims_ok_of_all
    intro p hp
    simp only [List.mem_map] at hp
    obtain ⟨it, hit, rfl⟩ := hp
    have : idsOk items = true := by simpa using hids
    simp only [idsOk, List.all_eq_true, beq_iff_eq] at this
    simp [Prim.outcome, this it hit]

/-- **search with any k** (0 … 2^32-1 and beyond): buffers are bounded by the collection -/
theorem search_safe (d : Ds) (hw : d.Wf) (qLen k ef mMax0 : Nat) :
    search d qLen k ef mMax0 = .ok ∨ search d qLen k ef mMax0 = .err := by
  unfold search
  split
  · exact Or.inr rfl
  · split
    · exact Or.inl rfl
    · rename_i hq hs
      have hqd : qLen = d.dim := by omega
      obtain ⟨h1, _, _, h4⟩ := hw
      left
      apply runPrims_ok_of_all
      intro p hp
      simp only [List.mem_cons, List.not_mem_nil, or_false] at hp
      rcases hp with rfl | rfl | rfl | rfl
      · simp [Prim.outcome, h4]
      · simp [Prim.outcome]; omega
      · simp [Prim.outcome, hqd]
      · simp only [Prim.outcome]
        have : (if k > d.stored then d.stored else k) ≤ d.stored ∨ (if k > d.stored then d.stored else k) = k := by
          split <;> simp
        have hle : max ef (if k > d.stored then d.stored else k) ≤ max ef d.stored := by
          split <;> omega
        simp [Nat.mul_le_mul_right mMax0 hle]

/-- **C12 on the model**: every request of every class is answered `ok` or with an error — never a
panic, never a poisoned log entry — on every dataset that creation lets in. -/
theorem no_panic_no_poison (members : Nat) (hm : 1 ≤ members) (r : CreateReq) (d : Ds)
    (hc : create members r = (.ok, some d)) (stored : Nat)
    (idLen vecLen k ef mMax0 : Nat) (items : List Item) :
    let d' : Ds := { d with stored := stored }
    (∀ o ∈ [Validate.insert d' idLen vecLen, remove d' idLen, batchWrite d' items, partitionBatchWrite d' items,
            partitionBatchRemove d' items, search d' vecLen k ef mMax0], o = .ok ∨ o = .err) := by
  intro d' o ho
  have hw : d.Wf := create_wf members hm r d hc
  have hw' : d'.Wf := hw
  simp only [List.mem_cons, List.not_mem_nil, or_false] at ho
  rcases ho with rfl | rfl | rfl | rfl | rfl | rfl
  · exact insert_safe d' hw' _ _
  · exact remove_safe d' hw' _
  · exact batchWrite_safe d' hw' _
  · exact partitionBatchWrite_safe d' hw' _
  · exact partitionBatchRemove_safe d' _
  · exact search_safe d' hw' _ _ _ _

/-! ## without the guards the same requests do crash or poison (what the fixes repaired) -/

theorem unguarded_create_then_insert_crashes :
    Validate.insert (createUnguarded 1 ⟨2, 0, 1, 0⟩) 16 2 = .panic ∧      -- partition count 0: x % 0
    Validate.insert (createUnguarded 1 ⟨2, 1, 0, 0⟩) 16 2 = .panic ∧      -- replication factor 0: rand.Intn(0)
    Validate.insert { createUnguarded 1 ⟨2, 1, 1, 7⟩ with stored := 1 } 16 2 = .poison ∧   -- unknown metric
    Validate.insert { createUnguarded 1 ⟨0, 1, 1, 0⟩ with stored := 1 } 16 0 = .poison := by decide  -- dimension 0: &v[0]

theorem unguarded_batch_malformed_id_panics :
    batchWriteUnguarded ⟨2, 2, 1, true, 3⟩ [(16, 2), (3, 2)] = .panic := by decide

theorem unguarded_partition_batch_poisons :
    partitionBatchWriteUnguarded ⟨2, 2, 1, true, 3⟩ [(3, 2)] = .poison ∧
    partitionBatchWriteUnguarded ⟨2, 2, 1, true, 3⟩ [(16, 5)] = .poison := by decide

theorem unguarded_search_k_max_allocates : searchUnguarded ⟨2, 2, 1, true, 10⟩ 2 4294967295 20 32 = .panic := by decide

/-- a space outside the three known values — negative ones included — is refused -/
theorem create_unknown_space_refused (members dim parts repl : Nat) (space : Int) (h : space < 0 ∨ 3 ≤ space) :
    (createInt members dim parts repl space).1 = .err := by
  unfold createInt
  split
  · rename_i h0
    have h3 : 3 ≤ space.toNat := by omega
    have hg : createGuard ⟨dim, parts, repl, space.toNat⟩ = false := by
      simp only [createGuard]
      have : ¬ (space.toNat < 3) := by omega
      simp [this]
    simp [create, hg]
  · rfl

/-! ## item-level failures stay item-level -/

theorem applyItem_safe (f : Bool) : applyItem false f ≠ .panic ∧ applyItem false f ≠ .poison := by
  cases f <;> decide

theorem unguarded_applyItem : applyItem true true = .poison := by decide

/-! ## the guards are in the code (regenerated facts) -/

theorem guards_in_code :
    Generated.createValidates = true ∧ Generated.batchIdsCheckedFirst = true ∧
    Generated.partitionBatchChecked = true ∧ Generated.searchBuffersUnsized = true ∧
    Generated.searchClampsK = true ∧ Generated.singleWriteIdErrors = true ∧
    Generated.applyItemErrorsNotReturned = true := by decide

/-- the inventory of constructs that can take the process down on bad data, in the packages a
request travels through (regenerated): `uuid.Must` only where ids were validated before
(`groupBatchItemsByPartition`, after `checkBatchItemIds`) or come from a peer's answer, `rand.Intn` and
the modulo only on replica and partition counts that `Create` bounds below, the raft loop's `Fatal`
on a failing log store or apply function, the queue's panics on a negative priority / empty pop. A
new site changes the list and this theorem stops checking. -/
theorem panic_site_inventory :
    Generated.panicSites = ["storage/dataset.go:errorsResponseToPartitionBatchResult:uuid.Must:1", "storage/dataset.go:getSearchQueryNodes:rand.Intn:1", "storage/dataset.go:groupBatchItemsByPartition:uuid.Must:1", "storage/partition.go:randomNodeId:rand.Intn:1", "storage/raft/group.go:run:Fatal:3", "utils/priority_queue.go:Peek:panic:1", "utils/priority_queue.go:Pop:panic:1", "utils/priority_queue.go:Push:panic:1", "utils/priority_queue.go:Reverse:panic:1", "utils/priority_queue.go:ToSlice:panic:1", "utils/uuid.go:UuidMod:%:3"] := by decide

/-! ## levels: a wire field the client controls -/

/-- **no client-chosen level reaches the apply loop**: a handler that draws the level of every item
it proposes (regenerated fact) proposes only levels `setLevel` can take, whatever 32-bit value the
request carried — for every drawn level in the range of `RandomLevel` -/
theorem client_level_never_applied (client drawn : Int) (hd : 0 ≤ drawn ∧ drawn ≤ 1024) :
    Generated.writeLevelsDrawnByHandler = true ∧
    setLevelOutcome (proposedLevel Generated.writeLevelsDrawnByHandler client drawn) = .ok := by
  refine ⟨by decide, ?_⟩
  have : Generated.writeLevelsDrawnByHandler = true := by decide
  rw [this]
  simp [proposedLevel, setLevelOutcome, levelOk, hd.1, hd.2]

/-- a handler that keeps a non-zero client level (seeded change C12-D) lets a request poison the
log: level -7 is proposed as it came and `setLevel` panics in the apply loop of every replica -/
theorem kept_client_level_poisons : setLevelOutcome (proposedLevel false (-7) 3) = .poison := by decide

/-- **no request wedges a handler or the apply loop in the greedy descent**: the walk moves only to a
strictly closer neighbour, so the running minimum strictly decreases over finitely many vertices (the
model's `greedyClosest` takes the number of vertices as fuel for that reason) — also for queries whose
distances are all NaN, for which the strict comparison is never true (regenerated; seeded change
C12-E adds "or the minimum is NaN") -/
theorem greedy_descent_strictly_improves : Generated.greedyDescentStrictlyImproves = true := by decide

/-- the metadata limits a request is held to are limits on bytes — the unit of the snapshot format's
length fields — so no accepted request can write a snapshot its replicas cannot read back
(regenerated from `Metadata.Validate`; seeded C12-F counted characters) -/
theorem metadata_limits_are_byte_lengths : Generated.metadataLimitsAreByteLengths = true := by decide

/-! ## non-vacuity -/

example : (create 3 ⟨4, 2, 2, 1⟩).1 = .ok := by decide

end Anndb.C12
