import Anndb.Model.RaftLoop
import Anndb.Model.SnapTransfer
import Anndb.Proofs.Quorum
import Anndb.Generated
/-!
# C05 — the raft glue keeps its side of the contract

etcd/raft's safety (no two replicas apply different entries at one position) is the library's,
conditional on the host loop; it is *trusted*, and observed end to end by the `raft` engine on
real groups under faults. What is proved here, for every sequence of `Ready`s the library can
hand over (`ReadyOK`), is the host's side:

* `loop_attests` / `run_attests`  no message leaves a replica before the log store holds what it
  attests — with the statement order extracted from `RaftGroup.run` on this run (`order_in_code`);
* `send_first_breaks`             sending before saving (for a non-leader) breaks it, explicit `Ready`;
* `applied_in_order`              the apply cursor hands over every committed index once, in order;
* `restart_resumes_from_store`    a replica with a non-empty log store resumes from it (term, vote,
  next index), whatever peers it is given; `bootstrap_over_store_forks` shows the alternative forks;
* `start_in_code`                 the decision is the one in `startRaftNode` on this run;
* `at_most_one_leader_per_term`   what those two obligations buy for the election: a replica whose vote
  is stored before the grant leaves and that resumes from its store grants one candidate per term
  through any crashes, so two candidates cannot both hold a majority (`quorum_intersection`);
  `grant_before_save_elects_two` is the explicit history for the other order.

`ReadyOK` is etcd/raft's documented contract ("messages are sent after HardState and Entries are
written to stable storage") plus the one relaxation the code uses: a replica that is leader after
the Ready's soft state may send before saving. (b) is the assumption that a leader's messages
attest nothing that is not durable yet; the engine checks it on every message that leaves.
-/
namespace Anndb.RaftLoop

/-- the library's side -/
structure ReadyOK (self : Nat) (h : Host) (rd : Ready) : Prop where
  afterSave : ∀ m ∈ rd.msgs, attested self m (saveDur h.dur rd) = true
  leaderEarly : rd.lead.getD h.leader = self → ∀ m ∈ rd.msgs, attested self m h.dur = true

theorem order_in_code : Generated.readyLoopOrder.map parseStmt = canonical := by decide

theorem iteration_canonical (self : Nat) (h : Host) (rd : Ready) :
    iteration canonical self h rd =
      (let lead := rd.lead.getD h.leader
       let early : Emitted := if lead = self then rd.msgs.map (·, h.dur) else []
       let late : Emitted := if lead ≠ self then rd.msgs.map (·, saveDur h.dur rd) else []
       ({ dur := saveDur h.dur rd, leader := lead, applied := h.applied ++ rd.committed }, early ++ late)) := by
  simp only [iteration, canonical, List.foldl_cons, List.foldl_nil, execStmt]
  by_cases hl : rd.lead.getD h.leader = self <;> simp [hl]

/-- **C05 (durable before it leaves), one iteration.** -/
theorem loop_attests (self : Nat) (h : Host) (rd : Ready) (ok : ReadyOK self h rd) :
    ∀ md ∈ (iteration canonical self h rd).2, attested self md.1 md.2 = true := by
  rw [iteration_canonical]
  intro md hmd
  simp only at hmd
  rcases List.mem_append.mp hmd with hm | hm
  · split at hm
    · rename_i hl
      obtain ⟨m, hm', rfl⟩ := List.mem_map.mp hm
      exact ReadyOK.leaderEarly ok hl m hm'
    · simp at hm
  · split at hm
    · obtain ⟨m, hm', rfl⟩ := List.mem_map.mp hm
      exact ReadyOK.afterSave ok m hm'
    · simp at hm

/-- every Ready of a run satisfies the contract relative to the host state it is handed to -/
def RunOK (self : Nat) : Host → List Ready → Prop
  | _, [] => True
  | h, rd :: rest => ReadyOK self h rd ∧ RunOK self (iteration canonical self h rd).1 rest

/-- **C05 (durable before it leaves), every run.** -/
theorem run_attests (self : Nat) (h : Host) (rds : List Ready) (ok : RunOK self h rds) :
    ∀ md ∈ (run canonical self h rds).2, attested self md.1 md.2 = true := by
  induction rds generalizing h with
  | nil => simp [run]
  | cons rd rest ih =>
    obtain ⟨ok1, ok2⟩ := ok
    intro md hmd
    simp only [run] at hmd
    rcases List.mem_append.mp hmd with hm | hm
    · exact loop_attests self h rd ok1 md hm
    · exact ih _ ok2 md hm

/-- the mutated order: a follower that grants a vote tells the candidate before its vote is stored -/
def grantVote : Ready := ⟨none, some (2, 5), none, [⟨.voteResp, 2, 0, false, 5⟩], []⟩
def follower : Host := ⟨⟨1, 0, 4⟩, 9, []⟩

theorem grantVote_ok : ReadyOK 3 follower grantVote :=
  ⟨by decide, by decide⟩

theorem send_first_breaks :
    ∃ md ∈ (iteration (.softState :: .sendAlways :: .save :: [.apply, .advance]) 3 follower grantVote).2,
      attested 3 md.1 md.2 = false :=
  ⟨(⟨.voteResp, 2, 0, false, 5⟩, ⟨1, 0, 4⟩), by decide, by decide⟩

/-! ## apply cursor -/

/-- etcd/raft hands over the committed indices contiguously, starting after the last one handed over -/
def Contiguous : Nat → List Ready → Prop
  | _, [] => True
  | n, rd :: rest => rd.committed = (List.range' (n + 1) rd.committed.length) ∧ Contiguous (n + rd.committed.length) rest

theorem run_applied (self : Nat) (h : Host) (rds : List Ready) :
    (run canonical self h rds).1.applied = h.applied ++ (rds.map (·.committed)).flatten := by
  induction rds generalizing h with
  | nil => simp [run]
  | cons rd rest ih =>
    simp only [run]
    rw [ih]
    rw [iteration_canonical]
    simp [List.append_assoc]

theorem contiguous_flatten (n : Nat) (rds : List Ready) (hc : Contiguous n rds) :
    (rds.map (·.committed)).flatten = List.range' (n + 1) ((rds.map (·.committed.length)).sum) := by
  induction rds generalizing n with
  | nil => simp
  | cons rd rest ih =>
    obtain ⟨h1, h2⟩ := hc
    simp only [List.map_cons, List.flatten_cons, List.sum_cons]
    rw [ih _ h2]
    generalize rd.committed.length = k at h1 ⊢
    rw [h1]
    rw [show n + k + 1 = (n + 1) + 1 * k from by omega]
    exact List.range'_append (s := n + 1) (m := k) (n := (rest.map (·.committed.length)).sum) (step := 1)

/-- **C05 (positions in order).** Starting with nothing applied, after any run the apply function
has been handed the positions 1, 2, …, k once each, in order. -/
theorem applied_in_order (self : Nat) (h : Host) (rds : List Ready) (h0 : h.applied = [])
    (hc : Contiguous 0 rds) :
    (run canonical self h rds).1.applied = List.range' 1 ((rds.map (·.committed.length)).sum) := by
  rw [run_applied, h0, contiguous_flatten 0 rds hc]
  simp

/-! ## restart -/

theorem start_in_code : Generated.raftBootstrapsOnlyOnEmptyStore = true ∧ Generated.raftReceiveSteps = true := by decide

/-- **C05 (restart).** A replica whose log store is not empty resumes from it, whatever peers the
caller passes: same term, same vote, next index after the stored log. -/
theorem restart_resumes_from_store (peers : List Nat) (d : Dur) :
    resume (startMode Generated.raftBootstrapsOnlyOnEmptyStore peers false) d = ⟨d.term, d.vote, d.last + 1⟩ := by
  have : Generated.raftBootstrapsOnlyOnEmptyStore = true := by decide
  simp [this, startMode, resume]

/-- bootstrap happens exactly when peers are given and the store is empty -/
theorem bootstrap_iff (peers : List Nat) (e : Bool) :
    startMode true peers e = .bootstrap ↔ (peers ≠ [] ∧ e = true) := by
  simp [startMode]

/-- the alternative (bootstrap whenever peers are given): a replica with a stored log of 7 entries
at term 3 starts appending at index 1 in term 0 — it forks its own history -/
theorem bootstrap_over_store_forks :
    resume (startMode false [1, 2, 3] false) ⟨3, 2, 7⟩ = ⟨0, 0, 1⟩ := by decide

/-! ## election safety from the two host obligations -/

open Anndb.Quorum in
/-- **C05 (one leader per term).** Replicas `0 … n-1`; replica `r` sees, in one term, the vote
requests and crash/restarts `evs r`, stores its vote before the grant leaves (`run_attests`) and
resumes from the store (`restart_resumes_from_store`). Two candidates that both hold the grants of
a majority are one candidate. -/
theorem at_most_one_leader_per_term (n : Nat) (evs : Nat → List VEv) (c₁ c₂ : Nat) (Q₁ Q₂ : List Nat)
    (h₁ : Majority n Q₁) (h₂ : Majority n Q₂)
    (g₁ : ∀ r ∈ Q₁, c₁ ∈ (Voter.init.run true (evs r)).sent)
    (g₂ : ∀ r ∈ Q₂, c₂ ∈ (Voter.init.run true (evs r)).sent) : c₁ = c₂ :=
  election_safety n evs c₁ c₂ Q₁ Q₂ h₁ h₂ g₁ g₂

open Anndb.Quorum in
/-- the other order (grant leaves, crash, restart without the vote): three replicas, two majorities,
two leaders in one term -/
theorem grant_before_save_elects_two :
    let evs : Nat → List VEv := fun r =>
      if r = 0 then [.request 1] else if r = 1 then [.request 1, .restart, .request 2] else [.request 2]
    Majority 3 [0, 1] ∧ Majority 3 [1, 2] ∧
    (∀ r ∈ [0, 1], 1 ∈ (Voter.init.run false (evs r)).sent) ∧
    (∀ r ∈ [1, 2], 2 ∈ (Voter.init.run false (evs r)).sent) := send_before_save_elects_two

open Anndb.Quorum in
/-- **C05 (one leader in every term).** The same with terms: a request of a newer term makes the
replica adopt it and frees its vote, term and vote are stored together before the grant leaves.
Whatever requests and crashes each replica sees, no term has two candidates holding a majority. -/
theorem at_most_one_leader_in_any_term (n : Nat) (evs : Nat → List VEvT) (t c₁ c₂ : Nat) (Q₁ Q₂ : List Nat)
    (h₁ : Majority n Q₁) (h₂ : Majority n Q₂)
    (g₁ : ∀ r ∈ Q₁, (t, c₁) ∈ (VoterT.init.run true (evs r)).sent)
    (g₂ : ∀ r ∈ Q₂, (t, c₂) ∈ (VoterT.init.run true (evs r)).sent) : c₁ = c₂ :=
  election_safety_every_term n evs t c₁ c₂ Q₁ Q₂ h₁ h₂ g₁ g₂

/-! ## non-vacuity -/

def sampleRun : List Ready :=
  [ ⟨none, some (2, 3), some 5, [⟨.vote, 2, 4, false, 1⟩], []⟩,           -- campaign: vote for itself, ask 1
    ⟨some 3, none, some 6, [⟨.app, 2, 5, false, 1⟩], [1, 2]⟩,              -- elected: leader sends before saving
    ⟨some 1, some (3, 1), none, [⟨.voteResp, 3, 0, false, 1⟩], [3]⟩ ]      -- steps down, grants a vote

example : RunOK 3 ⟨⟨1, 0, 4⟩, 0, []⟩ sampleRun := by
  refine ⟨⟨by decide, by decide⟩, ⟨by decide, by decide⟩, ⟨by decide, by decide⟩, trivial⟩

example : Contiguous 0 sampleRun := by
  refine ⟨by decide, by decide, by decide, trivial⟩

example : (run canonical 3 ⟨⟨1, 0, 4⟩, 0, []⟩ sampleRun).1.applied = [1, 2, 3] := by decide


/-- a snapshot whose send failed is always reported to raft as failed — a follower in the snapshot
state is sent nothing else until then — and a peer a send to which failed is dialled again
(regenerated) -/
theorem snapshot_send_failure_always_reported : Generated.snapshotSendFailureAlwaysReported = true := by decide


/-! ## a snapshot for a replica that fell behind a compaction

"Once faults stop, all live replicas converge" needs the leader to send the snapshot *again* when a
transfer was lost. etcd/raft does that only when the host reports the failure. -/

/-- **never waiting for a snapshot that nobody sends**: if every failed send of a snapshot is reported
to raft, no reachable state has the leader in the snapshot state with nothing in flight and nothing
installed — whatever messages are lost, and how often -/
theorem snapshot_transfer_never_stuck (c : SnapTransfer.Cfg) (r : SnapTransfer.Reach true c) :
    ¬ SnapTransfer.Stuck c := by
  have inv : c.lstate = SnapTransfer.LState.snapshot → c.inflight = true ∨ c.installed = true := by
    induction r with
    | init => intro h; cases h
    | @step c c' _ s ih =>
      cases s with
      | send h1 h2 => intro _; exact Or.inl rfl
      | deliver h1 => intro _; exact Or.inr rfl
      | ack h1 h2 => intro h; cases h
      | lose h1 => intro h; simp at h
  intro ⟨h1, h2, h3⟩
  rcases inv h1 with h | h
  · rw [h2] at h; cases h
  · rw [h3] at h; cases h

/-- a transport that keeps a lost transfer to itself (seeded change C05-E: "the deadline passed, the
snapshot may still arrive") leaves the follower stuck after one lost message -/
theorem unreported_loss_is_stuck : ∃ c, SnapTransfer.Reach false c ∧ SnapTransfer.Stuck c := by
  refine ⟨⟨.snapshot, false, false⟩, ?_, rfl, rfl, rfl⟩
  have h1 : SnapTransfer.Reach false ⟨.snapshot, true, false⟩ := .step .init (.send _ rfl rfl)
  exact .step h1 (.lose _ rfl)

end Anndb.RaftLoop
