import Anndb.Model.Routing
import Anndb.Props.C14
import Anndb.Generated
/-!
# C10 — Item routing is a stable, total function of the id and the partition count
-/
namespace Anndb.C10
open Anndb.Routing

theorem pos_of_ne_zero (n : UInt64) (hn : n ≠ 0) : 0 < n.toNat := by
  rcases Nat.eq_zero_or_pos n.toNat with h | h
  · exact absurd (UInt64.toNat_inj.mp (by simpa using h)) hn
  · exact h

/-- **total**: for every 128-bit id and every non-zero partition count the owner is a valid
partition index -/
theorem uuidMod_lt (lo hi n : UInt64) (hn : n ≠ 0) : uuidMod lo hi n < n := by
  unfold uuidMod
  rw [UInt64.lt_iff_toNat_lt, UInt64.toNat_mod]
  exact Nat.mod_lt _ (pos_of_ne_zero n hn)

/-- **no overflow**: the result is the mathematical `(lo + hi) mod n` — reducing both halves
before adding keeps the 64-bit sum from wrapping (for every n up to 2^63, far beyond 1024) -/
theorem uuidMod_spec (lo hi n : UInt64) (hn : n ≠ 0) (hb : n.toNat ≤ 2 ^ 63) :
    (uuidMod lo hi n).toNat = (lo.toNat + hi.toNat) % n.toNat := by
  have hpos := pos_of_ne_zero n hn
  unfold uuidMod
  have h1 : (lo % n).toNat < n.toNat := by rw [UInt64.toNat_mod]; exact Nat.mod_lt _ hpos
  have h2 : (hi % n).toNat < n.toNat := by rw [UInt64.toNat_mod]; exact Nat.mod_lt _ hpos
  rw [UInt64.toNat_mod, UInt64.toNat_add, UInt64.toNat_mod, UInt64.toNat_mod]
  have : lo.toNat % n.toNat + hi.toNat % n.toNat < 2 ^ 64 := by
    rw [UInt64.toNat_mod] at h1 h2; omega
  rw [Nat.mod_eq_of_lt this, ← Nat.add_mod]

/-- the owner is a valid index for every id -/
theorem owner_lt (id : List UInt8) (n : UInt64) (hn : n ≠ 0) : owner id n < n := uuidMod_lt _ _ n hn

/-- **the code is the model**: the expression `goextract` translated from `utils/uuid.go` on
this run is definitionally the model's `owner` -/
theorem code_is_model (x : List UInt8) (n : UInt64) : Generated.uuidModCode x n = owner x n := rfl

/-- **one routing function for every API path**: the only call of `utils.UuidMod` in package
storage is inside `getPartitionForId`, single insert/update/remove and the batch grouping all
go through `getPartitionForId`, and the partition list it indexes is built in catalogue order
(regenerated facts) -/
theorem single_routing_function :
    Generated.routingUuidModCallers = ["getPartitionForId"] ∧
    Generated.routingUsers = ["Insert", "Remove", "Update", "groupBatchItemsByPartition"] ∧
    Generated.routingPartitionCountFromMeta = true := by decide

/-- **batch grouping routes every item to its owner, and only there**: the groups partition the
batch — an item is in group `p` iff `p` is its owner -/
theorem group_by_owner (ids : List (List UInt8)) (n : UInt64) (p : UInt64) (id : List UInt8) :
    id ∈ group ids n p ↔ id ∈ ids ∧ owner id n = p := by
  simp [group, List.mem_filter]

theorem group_disjoint (ids : List (List UInt8)) (n p q : UInt64) (hpq : p ≠ q) (id : List UInt8)
    (h1 : id ∈ group ids n p) : id ∉ group ids n q := by
  rw [group_by_owner] at h1 ⊢
  intro h2
  exact hpq (h1.2.symm.trans h2.2)

/-- every item of the batch is in the group of its owner, which is a valid partition -/
theorem group_covers (ids : List (List UInt8)) (n : UInt64) (hn : n ≠ 0) (id : List UInt8) (h : id ∈ ids) :
    id ∈ group ids n (owner id n) ∧ owner id n < n :=
  ⟨(group_by_owner ids n _ id).mpr ⟨h, rfl⟩, owner_lt id n hn⟩

/-- **stable**: the owner depends on nothing but the id bytes and the count (it is a function) -/
theorem owner_stable (id id' : List UInt8) (n n' : UInt64) (h1 : id = id') (h2 : n = n') :
    owner id n = owner id' n' := by rw [h1, h2]

/-! ## every restart computes the same owner

Routing is positional: the owner of `id` in a dataset is the partition at index
`owner id (number of partitions)` of the dataset's partition list. The list is part of the
catalogue, so "every node and every restart computes the same owner" needs the list to come back
in the same order from the catalogue log and from a catalogue snapshot. -/
open Anndb.Catalogue in
/-- the partition (its identity, not its index) that owns `id` in dataset `d` -/
def ownerPart (d : Catalogue.Dataset) (id : List UInt8) : Option Catalogue.Part :=
  d.parts[(owner id (UInt64.ofNat d.parts.length)).toNat]?

open Anndb.Catalogue in
/-- **restart from a catalogue snapshot**: a node that builds its catalogue from the snapshot of
`c` finds, for every dataset and id, the same owner partition as the node that took it -/
theorem owner_survives_snapshot_restart (c : Cat) (h : C14.Wf c) (ds : Nat) (id : List UInt8) :
    (find (restore [] (snapshot c)) ds).bind (ownerPart · id) = (find c ds).bind (ownerPart · id) := by
  rw [C14.snapshot_restore_fresh c h]

open Anndb.Catalogue in
/-- **a node caught up by snapshot + log suffix and a node that replayed the whole log route
alike** -/
theorem owner_same_on_replayed_and_restored (pre suf : List Change) (ds : Nat) (id : List UInt8) :
    (find (run (restore [] (snapshot (run [] pre))) suf) ds).bind (ownerPart · id)
      = (find (run [] (pre ++ suf)) ds).bind (ownerPart · id) := by
  rw [C14.snapshot_cut_fresh pre suf]

open Anndb.Catalogue in
/-- the owner partition's *id* depends only on the order of the partition ids -/
theorem ownerPart_id_of_ids (d e : Catalogue.Dataset) (h : d.parts.map (·.id) = e.parts.map (·.id)) (id : List UInt8) :
    (ownerPart d id).map (·.id) = (ownerPart e id).map (·.id) := by
  have hl : d.parts.length = e.parts.length := by simpa using congrArg List.length h
  unfold ownerPart
  rw [hl, ← List.getElem?_map, ← List.getElem?_map, h]

open Anndb.Catalogue in
/-- **the owner of an id is fixed when the dataset is created**: on a node that has applied any
catalogue log with fresh ids — any prefix, any number of replica-set changes, deletions and creations
of other datasets — a listed dataset routes every id to the partition its creation entry names for
it. Hence every node, at every time and after every restart, computes the same owner. -/
theorem owner_fixed_by_the_creation_entry (log : List Change) (d : Catalogue.Dataset)
    (hd : d ∈ run [] log) (id : List UInt8) :
    ∃ e ∈ C14.creates log, e.id = d.id ∧ (ownerPart d id).map (·.id) = (ownerPart e id).map (·.id) := by
  obtain ⟨e, he, h1, h2⟩ := C14.src_run [] [] log (by simp) d hd
  simp only [List.nil_append] at he
  exact ⟨e, he, h1, ownerPart_id_of_ids d e h2.2.2.2 id⟩

open Anndb.Catalogue in
/-- two nodes that have applied different prefixes of one log agree on the owner of every id of a
dataset both list -/
theorem nodes_at_different_prefixes_route_alike (pre suf : List Change) (hf : C14.FreshIds (pre ++ suf))
    (d d' : Catalogue.Dataset) (hd : d ∈ run [] pre) (hd' : d' ∈ run [] (pre ++ suf)) (hid : d.id = d'.id)
    (id : List UInt8) : (ownerPart d id).map (·.id) = (ownerPart d' id).map (·.id) := by
  obtain ⟨e, he, h1, h2⟩ := owner_fixed_by_the_creation_entry pre d hd id
  obtain ⟨e', he', h1', h2'⟩ := owner_fixed_by_the_creation_entry (pre ++ suf) d' hd' id
  have hmem : e ∈ C14.creates (pre ++ suf) := by rw [C14.creates_append]; exact List.mem_append_left _ he
  have : e = e' := hf.once e hmem e' he' (by rw [h1, h1', hid])
  subst this
  rw [h2, h2']

/-- the positional routing table is written once, when the dataset object is built: nothing sorts,
shuffles or reassigns it afterwards (regenerated; seeded change C10-D sorts an alias of it inside a
size query) -/
theorem routing_table_fixed_in_code : Generated.datasetPartitionTableFixed = true := by decide

/-- the snapshot in the code is the model's: metadata verbatim, no reordering (regenerated) -/
theorem snapshot_is_verbatim_in_code : Generated.catalogueSnapshotVerbatim = true := by decide

/-- why the order matters: the same two partitions listed in the other order give the id another
owner -/
theorem reordered_partitions_move_items :
    let d : Catalogue.Dataset := { id := 1, dim := 2, space := 0, repl := 1, parts := [⟨7, [1]⟩, ⟨3, [1]⟩] }
    let id : List UInt8 := [1, 0, 0, 0, 0, 0, 0, 0, 0, 0, 0, 0, 0, 0, 0, 0]
    ownerPart d id ≠ ownerPart { d with parts := d.parts.reverse } id := by decide

/-- non-vacuity: an id whose halves sum past 2^64 is still routed by the true sum
(here lo = hi = 2^64 - 1, n = 3: (2^65 - 2) mod 3 = 0) -/
example : uuidMod 0xFFFFFFFFFFFFFFFF 0xFFFFFFFFFFFFFFFF 3 = 0 := by decide

end Anndb.C10
