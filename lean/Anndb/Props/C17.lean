import Anndb.Model.SizeInfo
import Anndb.Generated
/-!
# C17 — Dataset size is the sum of its partitions, each counted once
-/
namespace Anndb.C17
open Anndb.SizeInfo

@[simp] theorem sumOk_append (a b : List (Option Nat)) : sumOk (a ++ b) = sumOk a + sumOk b := by
  induction a with
  | nil => simp [sumOk]
  | cons h t ih => cases h <;> simp [sumOk, ih] <;> omega

@[simp] theorem fails_append (a b : List (Option Nat)) : fails (a ++ b) = fails a + fails b := by
  induction a with
  | nil => simp [fails]
  | cons h t ih => cases h <;> simp [fails, ih] <;> omega

def nils : List Bool → Nat
  | [] => 0
  | false :: t => nils t + 1
  | true :: t => nils t

def errs : List Bool → Nat
  | [] => 0
  | false :: t => errs t
  | true :: t => errs t + 1

theorem nils_append_true (l : List Bool) : nils (l ++ [true]) = nils l := by
  induction l with
  | nil => rfl
  | cons h t ih => cases h <;> simp [nils, ih]

theorem errs_append_true (l : List Bool) : errs (l ++ [true]) = errs l + 1 := by
  induction l with
  | nil => rfl
  | cons h t ih => cases h <;> simp [errs, ih]

theorem nils_map_false (l : List Nat) : nils (l.map fun _ => false) = l.length := by
  induction l with
  | nil => rfl
  | cons h t ih => simp [nils, ih]

theorem errs_map_false (l : List Nat) : errs (l.map fun _ => false) = 0 := by
  induction l with
  | nil => rfl
  | cons h t ih => simp [errs, ih]

structure Inv (locals : List Nat) (remotes : List (Option Nat)) (c : Cfg) : Prop where
  sum : c.total + sumOk c.pend = locals.sum + sumOk remotes
  pendLen : c.pend.length ≤ remotes.length
  closedPend : c.closed = true → c.pend = []
  phase : c.got + nils c.buf = locals.length ∨ (c.closed = true ∧ c.buf = [] ∧ locals.length ≤ c.got)
  errsLeft : c.out = none → errs c.buf + fails c.pend = fails remotes
  okOut : ∀ t, c.out = some (some t) → t = c.total ∧ c.pend = [] ∧ fails remotes = 0

theorem inv_init (locals : List Nat) (remotes : List (Option Nat)) : Inv locals remotes (init locals remotes) := by
  refine ⟨rfl, Nat.le_refl _, by simp [init], Or.inl ?_, ?_, by simp [init]⟩
  · simp [init, nils_map_false]
  · intro _; simp [init, errs_map_false]

theorem inv_step (locals : List Nat) (remotes : List (Option Nat)) (c c' : Cfg) (h : Inv locals remotes c)
    (s : Step (locals.length + remotes.length) c c') : Inv locals remotes c' := by
  obtain ⟨h1, h2, h3, h4, h5, h6⟩ := h
  cases s with
  | workerOk pre post sz hp =>
    have hne : c.pend ≠ [] := by rw [hp]; simp
    refine ⟨?_, ?_, ?_, ?_, ?_, ?_⟩
    · rw [hp] at h1; simp [sumOk] at h1 ⊢; omega
    · rw [hp] at h2; simp at h2 ⊢; omega
    · intro hc; exact absurd (h3 hc) hne
    · rcases h4 with h | ⟨hc, _, _⟩
      · exact Or.inl h
      · exact absurd (h3 hc) hne
    · intro ho; have := h5 ho; rw [hp] at this; simp [fails] at this ⊢; omega
    · intro t ht; exact absurd (h6 t ht).2.1 hne
  | workerFail pre post hp =>
    have hne : c.pend ≠ [] := by rw [hp]; simp
    refine ⟨?_, ?_, ?_, ?_, ?_, ?_⟩
    · rw [hp] at h1; simp [sumOk] at h1 ⊢; omega
    · rw [hp] at h2; simp at h2 ⊢; omega
    · intro hc; exact absurd (h3 hc) hne
    · rcases h4 with h | ⟨hc, _, _⟩
      · exact Or.inl (by simp only [nils_append_true]; exact h)
      · exact absurd (h3 hc) hne
    · intro ho; have := h5 ho; rw [hp] at this
      simp only [fails_append, fails, errs_append_true] at this ⊢; omega
    · intro t ht; exact absurd (h6 t ht).2.1 hne
  | close hp hc =>
    refine ⟨h1, h2, fun _ => hp, ?_, h5, h6⟩
    rcases h4 with h | ⟨hc', _, _⟩
    · exact Or.inl h
    · simp [hc] at hc'
  | recvNil rest ho hg hb =>
    refine ⟨h1, h2, h3, ?_, ?_, ?_⟩
    · rcases h4 with h | ⟨_, hb', _⟩
      · rw [hb] at h; simp only [nils] at h; exact Or.inl (by show c.got + 1 + nils rest = _; omega)
      · rw [hb] at hb'; cases hb'
    · intro _; have := h5 ho; rw [hb] at this; simpa [errs] using this
    · intro t ht; simp [ho] at ht
  | recvErr rest ho hg hb =>
    refine ⟨h1, h2, h3, ?_, ?_, ?_⟩
    · rcases h4 with h | ⟨_, hb', _⟩
      · rw [hb] at h; simp only [nils] at h; exact Or.inl h
      · rw [hb] at hb'; cases hb'
    · intro ho'; simp at ho'
    · intro t ht; simp at ht
  | recvClosed ho hg hc hb =>
    refine ⟨h1, h2, h3, ?_, h5, ?_⟩
    · refine Or.inr ⟨hc, hb, ?_⟩
      rcases h4 with h | ⟨_, _, hl⟩
      · rw [hb] at h; simp only [nils] at h; show locals.length ≤ c.got + 1; omega
      · show locals.length ≤ c.got + 1; omega
    · intro t ht; simp [ho] at ht
  | finish ho hg =>
    refine ⟨h1, h2, h3, h4, ?_, ?_⟩
    · intro ho'; simp at ho'
    · intro t ht
      simp only [Option.some.injEq] at ht
      refine ⟨ht.symm, ?_⟩
      rcases h4 with h | ⟨hc, hb, _⟩
      · have hr : remotes.length = 0 := by omega
        have hre : remotes = [] := List.eq_nil_of_length_eq_zero hr
        have hpe : c.pend = [] := List.eq_nil_of_length_eq_zero (by omega)
        exact ⟨hpe, by rw [hre]; rfl⟩
      · have hpe := h3 hc
        have := h5 ho
        rw [hb, hpe] at this
        exact ⟨hpe, by simpa [errs, fails] using this.symm⟩

theorem inv_reach (locals : List Nat) (remotes : List (Option Nat)) (c : Cfg)
    (r : Reach (locals.length + remotes.length) (init locals remotes) c) : Inv locals remotes c := by
  induction r with
  | refl => exact inv_init locals remotes
  | step _ s ih => exact inv_step _ _ _ _ ih s

theorem sumOk_of_no_fails (rs : List (Option Nat)) (h : fails rs = 0) :
    sumOk rs = (rs.filterMap id).sum := by
  induction rs with
  | nil => rfl
  | cons x t ih =>
    cases x with
    | none => simp [fails] at h
    | some s => simp [fails] at h; simp [sumOk, ih h]

/-- **Success means the exact sum, in every schedule**: whenever `SizeInfo` reports a number,
no remote lookup failed and the number is Σ local sizes + Σ remote sizes, each partition once —
whatever the completion order of the remote lookups and the moment the channel is closed. -/
theorem size_sum (locals : List Nat) (remotes : List (Option Nat)) (c : Cfg) (t : Nat)
    (r : Reach (locals.length + remotes.length) (init locals remotes) c) (ho : c.out = some (some t)) :
    fails remotes = 0 ∧ t = locals.sum + (remotes.filterMap id).sum := by
  have inv := inv_reach locals remotes c r
  obtain ⟨ht, hp, hf⟩ := inv.okOut t ho
  refine ⟨hf, ?_⟩
  have := inv.sum
  rw [hp] at this
  simp only [sumOk, Nat.add_zero] at this
  rw [ht, this, sumOk_of_no_fails remotes hf]

/-- **A failing lookup is never masked**: if any remote lookup fails, no schedule reports a number. -/
theorem size_error_is_loud (locals : List Nat) (remotes : List (Option Nat)) (c : Cfg) (t : Nat)
    (r : Reach (locals.length + remotes.length) (init locals remotes) c) (hf : 0 < fails remotes) :
    c.out ≠ some (some t) := by
  intro ho
  have := (size_sum locals remotes c t r ho).1
  omega

/-- **each goroutine must ask for its own partition**: with the loop variable shared, three
remote partitions of sizes 1, 2, 3 are reported as 9 (the last one three times), never 6 (D12) -/
theorem shared_variable_counterexample :
    (asked false [1, 2, 3]).sum = 9 ∧ (asked true [1, 2, 3]).sum = 6 := by decide

theorem asked_captured (sizes : List Nat) : asked true sizes = sizes := rfl

/-! ## what the code does (regenerated facts) -/

theorem code_shape :
    Generated.sizeInfoGoroutineOwnPartition = true ∧ Generated.sizeInfoChanCapIsPartitionCount = true ∧
    Generated.sizeInfoLocalPushesNil = true ∧ Generated.sizeInfoRemoteSendsOnlyErrors = true ∧
    Generated.sizeInfoClosesAfterWait = true ∧ Generated.sizeInfoCollectsOncePerPartition = true ∧
    Generated.partitionInfoRejectsNonHosted = true := by decide

/-! ## non-vacuity -/

example : ∃ c, Reach 2 (init [5] [some 7]) c ∧ c.out = some (some 12) := by
  refine ⟨⟨[], [], true, 12, 2, some (some 12)⟩, ?_, rfl⟩
  have s1 : Step 2 (init [5] [some 7]) ⟨[], [false], false, 12, 0, none⟩ := Step.workerOk _ [] [] 7 rfl
  have s2 : Step 2 ⟨[], [false], false, 12, 0, none⟩ ⟨[], [], false, 12, 1, none⟩ := Step.recvNil _ [] rfl (by decide) rfl
  have s3 : Step 2 ⟨[], [], false, 12, 1, none⟩ ⟨[], [], true, 12, 1, none⟩ := Step.close _ rfl rfl
  have s4 : Step 2 ⟨[], [], true, 12, 1, none⟩ ⟨[], [], true, 12, 2, none⟩ := Step.recvClosed _ rfl (by decide) rfl rfl
  have s5 : Step 2 ⟨[], [], true, 12, 2, none⟩ ⟨[], [], true, 12, 2, some (some 12)⟩ := Step.finish _ rfl rfl
  exact .step (.step (.step (.step (.step .refl s1) s2) s3) s4) s5


/-- every addition to the two totals is an atomic add, for local partitions as for remote answers
(regenerated; the size trials also run under the race detector) -/
theorem totals_added_atomically : Generated.sizeInfoTotalsAddedAtomically = true := by decide

end Anndb.C17
