import Anndb.Proofs.PartitionRefine
import Anndb.Proofs.HeapLawful
import Anndb.Model.ListPQ
import Anndb.Generated
/-!
# C02 — A partition is a faithful map id → (vector, metadata) with exact errors

Model: `Anndb/Model/Partition.lean` — `process` is `partition.process` and its callees
(`insertValue`, `updateValue`, `deleteValue` and the three batch forms) on top of the HNSW model,
with the two counters `len` and `bytesSize` in `UInt64` and the subtraction written as the code
writes it (`x + ^(y-1)`). Specification: `Spec`, a finite map id ↦ (vector, metadata, level).

The `partition` engine checks on every run that the real partition, the specification and (in
the order-independent regime) the graph model answer identically entry by entry.
-/
namespace Anndb.C02
open Anndb

section
variable {Pmin Pmax : PQImpl} {dist : VecRef → VecRef → Score} (cfg : Cfg) (dim : Nat)
variable (pick : List ItemId → Option ItemId)

/-- **The partition refines the finite map, for every log.** Starting from the empty partition,
after any sequence of the six change kinds (any ids, repeats, re-insert after remove, updates
of items with and without metadata, duplicate ids inside a batch), every notified outcome
(ok / already exists / not found; per id for batches, later errors overwriting earlier ones)
is the specification's, and the final state refines the specification's final state. -/
theorem partition_refines_map (hp : PickOK pick) (log : List Change) :
    let impl := runLog (Pmin := Pmin) (Pmax := Pmax) (dist := dist) cfg dim pick PState.empty log
    let spec := Spec.empty.runLog log
    Refines dim impl.1 spec.1 ∧ impl.2 = spec.2 :=
  refines_runLog cfg dim pick hp PState.empty Spec.empty (refines_empty dim) log

/-- contents: what can be retrieved is exactly what the map holds -/
theorem contents_eq (hp : PickOK pick) (log : List Change) (i : ItemId) :
    absI (runLog (Pmin := Pmin) (Pmax := Pmax) (dist := dist) cfg dim pick PState.empty log).1.idx i
      = (Spec.empty.runLog log).1.get i :=
  (partition_refines_map cfg dim pick hp log).1.abs i

/-- **The item count equals the number of live ids** (and the live ids are duplicate free). -/
theorem len_eq_live (hp : PickOK pick) (log : List Change) :
    let impl := (runLog (Pmin := Pmin) (Pmax := Pmax) (dist := dist) cfg dim pick PState.empty log).1
    let spec := (Spec.empty.runLog log).1
    impl.len = UInt64.ofNat spec.ids.length ∧ spec.ids.Nodup ∧ impl.idx.ids = spec.ids ∧
    (∀ i, i ∈ spec.ids ↔ spec.get i ≠ none) := by
  intro impl spec
  have h := (partition_refines_map (Pmin := Pmin) (Pmax := Pmax) (dist := dist) cfg dim pick hp log).1
  exact ⟨h.len, h.nodup, h.ids, h.mem_ids_iff⟩

/-- **The byte counter accounts for exactly the live items' data and never wraps**: it equals
Σ over live ids of (16 + 4·dim + metadata bytes) whenever that sum fits in 64 bits — each
removal subtracts exactly what the insertion of that incarnation added. -/
theorem bytes_exact (hp : PickOK pick) (log : List Change)
    (hfit : ((Spec.empty.runLog log).1.dataBytes dim) < 2 ^ 64) :
    (runLog (Pmin := Pmin) (Pmax := Pmax) (dist := dist) cfg dim pick PState.empty log).1.bytes.toNat
      = (Spec.empty.runLog log).1.dataBytes dim := by
  have h := (partition_refines_map (Pmin := Pmin) (Pmax := Pmax) (dist := dist) cfg dim pick hp log).1
  rw [h.bytes, UInt64.toNat_ofNat']
  exact Nat.mod_eq_of_lt hfit

end

/-! ### What the specification says (the meaning of "faithful map with exact errors") -/

/-- inserting a new id makes exactly that vector and metadata retrievable, changing nothing else -/
theorem spec_insert_new (s : Spec) (id : ItemId) (vec : VecRef) (md : Meta) (level : Nat)
    (h : s.get id = none) (hfit : mdFits md = true) :
    (s.insert id vec md level).2 = .ok ∧
    (∃ l, (s.insert id vec md level).1.get id = some ⟨vec, md, l⟩) ∧
    (∀ j, j ≠ id → (s.insert id vec md level).1.get j = s.get j) := by
  unfold Spec.insert
  simp only [h, hfit, Bool.true_eq_false, if_false]
  refine ⟨by first | rfl | trivial, ⟨(if s.ids.isEmpty then 0 else level), by simp [Spec.set]⟩, ?_⟩
  intro j hj; simp [Spec.set, hj]

/-- inserting an existing id fails with "already exists" and changes nothing -/
theorem spec_insert_existing (s : Spec) (id : ItemId) (vec : VecRef) (md : Meta) (level : Nat)
    (it : SItem) (h : s.get id = some it) (hfit : mdFits md = true) : s.insert id vec md level = (s, .exists) := by
  unfold Spec.insert; simp [h, hfit]

/-- metadata that the snapshot format cannot hold is refused — on insert, and on update when the
*merged* metadata would not fit — and nothing changes (the item that was to be updated is kept) -/
theorem spec_insert_too_large (s : Spec) (id : ItemId) (vec : VecRef) (md : Meta) (level : Nat)
    (hfit : mdFits md = false) : s.insert id vec md level = (s, .mdTooLarge) := by
  unfold Spec.insert; simp [hfit]

theorem spec_update_too_large (s : Spec) (id : ItemId) (vec : VecRef) (md : Meta) (it : SItem)
    (h : s.get id = some it) (hfit : mdFits (mergeMd md it.md) = false) :
    s.update id vec md = (s, .mdTooLarge) := by
  unfold Spec.update; simp [h, hfit]

/-- removing / updating an absent id fails with "not found" and changes nothing -/
theorem spec_delete_absent (s : Spec) (id : ItemId) (h : s.get id = none) : s.delete id = (s, .notFound) := by
  unfold Spec.delete; simp [h]

theorem spec_update_absent (s : Spec) (id : ItemId) (vec : VecRef) (md : Meta) (h : s.get id = none) :
    s.update id vec md = (s, .notFound) := by
  unfold Spec.update; simp [h]

/-- removing makes the id unretrievable, changing nothing else -/
theorem spec_delete_present (s : Spec) (id : ItemId) (it : SItem) (h : s.get id = some it) :
    (s.delete id).2 = .ok ∧ (s.delete id).1.get id = none ∧
    (∀ j, j ≠ id → (s.delete id).1.get j = s.get j) := by
  unfold Spec.delete
  simp only [h]
  refine ⟨by first | rfl | trivial, by simp [Spec.erase], ?_⟩
  intro j hj; simp [Spec.erase, hj]

/-- updating replaces the vector, merges the metadata and keeps the level, changing nothing else -/
theorem spec_update_present (s : Spec) (id : ItemId) (vec : VecRef) (md : Meta) (it : SItem)
    (h : s.get id = some it) (hfit : mdFits (mergeMd md it.md) = true) :
    (s.update id vec md).2 = .ok ∧
    (∃ l, (s.update id vec md).1.get id = some ⟨vec, mergeMd md it.md, l⟩) ∧
    (∀ j, j ≠ id → (s.update id vec md).1.get j = s.get j) := by
  unfold Spec.update
  simp only [h, hfit, Bool.true_eq_false, if_false]
  have he : (s.erase id).get id = none := by simp [Spec.erase]
  obtain ⟨h1, h2, h3⟩ := spec_insert_new (s.erase id) id vec (mergeMd md it.md) it.level he hfit
  refine ⟨h1, h2, ?_⟩
  intro j hj
  rw [h3 j hj]; simp [Spec.erase, hj]

/-- lookup in merged metadata: new keys win, old keys are kept -/
def lookupMd (m : Meta) (k : String) : Option String := (m.find? fun kv => kv.1 == k).map (·.2)

theorem find?_and_of_imp {α : Type} (l : List α) (p q : α → Bool) (h : ∀ x, q x = true → p x = true) :
    l.find? (fun a => p a && q a) = l.find? q := by
  induction l with
  | nil => rfl
  | cons a t ih =>
    simp only [List.find?_cons]
    by_cases hq : q a = true
    · simp [hq, h a hq]
    · have : q a = false := by simpa using hq
      simp [this, ih]

theorem mergeMd_lookup (new old : Meta) (k : String) :
    lookupMd (mergeMd new old) k = match lookupMd new k with
      | some v => some v
      | none => lookupMd old k := by
  unfold lookupMd mergeMd
  rw [List.find?_append]
  cases hn : new.find? (fun kv => kv.1 == k) with
  | some kv => simp
  | none =>
    simp only [Option.none_or, Option.map_none]
    rw [List.find?_filter]
    simp only [Bool.decide_and, Bool.decide_eq_true]
    rw [find?_and_of_imp old (fun a => !(new.any fun nk => nk.1 == a.1)) (fun kv => kv.1 == k)]
    intro kv hk
    have hk' : kv.1 = k := by simpa using hk
    have : new.any (fun nk => nk.1 == kv.1) = false := by
      rw [List.any_eq_false]
      intro nk hnk
      have := List.find?_eq_none.mp hn nk hnk
      rw [hk']; simpa using this
    simp [this]

/-! ### every stored item's metadata fits the snapshot format -/

/-- every stored item's metadata can be written without truncating a length field -/
def AllFit (s : Spec) : Prop := ∀ i it, s.get i = some it → mdFits it.md = true

theorem allFit_insert (s : Spec) (h : AllFit s) (id : ItemId) (vec : VecRef) (md : Meta) (level : Nat) :
    AllFit (s.insert id vec md level).1 := by
  unfold Spec.insert
  cases hfit : mdFits md with
  | false => simpa using h
  | true =>
    simp only [Bool.true_eq_false, if_false]
    cases hg : s.get id with
    | some _ => exact h
    | none =>
      intro i it hi
      simp only [Spec.set] at hi
      by_cases hii : i = id
      · simp only [hii, if_true, Option.some.injEq] at hi
        rw [← hi]; exact hfit
      · simp only [hii, if_false] at hi
        exact h i it hi

theorem allFit_erase (s : Spec) (h : AllFit s) (id : ItemId) : AllFit (s.erase id) := by
  intro i it hi
  simp only [Spec.erase] at hi
  by_cases hii : i = id
  · simp [hii] at hi
  · simp only [hii, if_false] at hi; exact h i it hi

theorem allFit_delete (s : Spec) (h : AllFit s) (id : ItemId) : AllFit (s.delete id).1 := by
  unfold Spec.delete
  cases hg : s.get id with
  | none => exact h
  | some _ => exact allFit_erase s h id

theorem allFit_update (s : Spec) (h : AllFit s) (id : ItemId) (vec : VecRef) (md : Meta) :
    AllFit (s.update id vec md).1 := by
  unfold Spec.update
  cases hg : s.get id with
  | none => exact h
  | some old =>
    simp only
    cases hfit : mdFits (mergeMd md old.md) with
    | false => simpa using h
    | true =>
      simp only [Bool.true_eq_false, if_false]
      exact allFit_insert _ (allFit_erase s h id) _ _ _ _

theorem allFit_batchFold (g : Spec → BatchItem → Spec × Outcome)
    (hg : ∀ s it, AllFit s → AllFit (g s it).1) (s : Spec) (h : AllFit s) (items : List BatchItem) :
    AllFit (Spec.batchFold g s items).1 := by
  unfold Spec.batchFold
  generalize ([] : List (ItemId × Outcome)) = errs
  induction items generalizing s errs with
  | nil => exact h
  | cons it rest ih =>
    simp only [List.foldl_cons]
    have h1 := hg s it h
    generalize g s it = r at h1
    obtain ⟨s', o⟩ := r
    cases o <;> exact ih s' h1 _

theorem allFit_step (s : Spec) (h : AllFit s) (c : Change) : AllFit (s.step c).1 := by
  cases c with
  | insert id vec md level => exact allFit_insert s h id vec md level
  | update id vec md => exact allFit_update s h id vec md
  | delete id => exact allFit_delete s h id
  | batchInsert items => exact allFit_batchFold _ (fun s it hs => allFit_insert s hs _ _ _ _) s h items
  | batchUpdate items => exact allFit_batchFold _ (fun s it hs => allFit_update s hs _ _ _) s h items
  | batchDelete items => exact allFit_batchFold _ (fun s it hs => allFit_delete s hs _) s h items

/-- **every reachable partition state can be snapshotted**: after any log, every stored item's
metadata fits the format's length fields (with `partition_refines_map`: the real index's items
are the specification's) -/
theorem reachable_metadata_fits (log : List Change) : AllFit (Spec.empty.runLog log).1 := by
  suffices ∀ s, AllFit s → AllFit (s.runLog log).1 from this _ (by intro i it hi; simp [Spec.empty] at hi)
  induction log with
  | nil => intro s h; exact h
  | cons c rest ih => intro s h; exact ih _ (allFit_step s h c)

set_option maxRecDepth 8192 in
example : mdFits [("k", "v")] = true ∧ mdFits [(String.ofList (List.replicate 256 'a'), "")] = false := by decide

/-! ### Instantiation at the repo's own queue, and non-vacuity -/

theorem partition_refines_map_goheap (dist : VecRef → VecRef → Score) (cfg : Cfg) (dim : Nat)
    (log : List Change) :
    let impl := runLog (Pmin := goHeap ltMin ltMin_ok) (Pmax := goHeap ltMax ltMax_ok) (dist := dist)
      cfg dim (fun ids => ids.head?) PState.empty log
    Refines dim impl.1 (Spec.empty.runLog log).1 ∧ impl.2 = (Spec.empty.runLog log).2 :=
  partition_refines_map cfg dim _ ⟨fun _ _ h => List.mem_of_mem_head? h, fun _ h => List.head?_eq_none_iff.mp h⟩ log

/-- the model's `insert` tests existence and stores in one step; in the code that is one critical section
of the shard's lock in `storeVertex` / `removeVertex` (regenerated). With the test outside the lock
(seeded C02-F) two simultaneous inserts of one id are both told success and the counters count the id
twice — engine `conc-dupinsert` is the failing input for that. -/
theorem existence_test_and_store_are_one_step : Generated.indexStoreRemoveAtomic = true := by decide

/-- a concrete log with re-insert, update-with-merge and a batch with a duplicate id -/
example : (Spec.empty.runLog
    [.insert 1 0 [("a", "1")] 2, .update 1 1 [("b", "x")], .delete 1, .insert 1 2 [] 0,
     .batchInsert [⟨2, 3, [], 0⟩, ⟨2, 4, [], 1⟩, ⟨1, 5, [], 0⟩]]).2
    = [.single .ok, .single .ok, .single .ok, .single .ok, .batch [(1, .exists), (2, .exists)]] := by
  decide

end Anndb.C02
