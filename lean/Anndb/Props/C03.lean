import Anndb.Model.Recovery
import Anndb.Model.RaftLoop
import Anndb.Proofs.Quorum
import Anndb.Proofs.TornTail
import Anndb.Props.C06
import Anndb.Generated
/-!
# C03 — acknowledged writes survive a crash at any instant and restart

`Inv` is an invariant of every reachable state of the micro-step model with the order the code
has (`wal.Save` before `processFn`), crashes allowed between any two micro-steps. From it:

* `acked_durable`      every acknowledged entry is in what a restart + replay yields;
* `nothing_invented`   what a restart + replay yields is a sub-sequence of what was submitted;
* `replay_reaches`     after `restart`, applying the suffix gives exactly the durable list;
* `apply_first_loses`  with the two statements swapped an acknowledged entry is lost (explicit trace);
* `acked_entry_meets_every_election`  quorum intersection: an entry stored by a majority is met by
  every later election, whichever minority crashed and restarted in between;
* `order_in_code`      the order is the one extracted from `storage/raft/group.go` on this run.
-/
namespace Anndb.Recovery

structure Inv (s : St) : Prop where
  sub : (s.snap ++ s.log ++ s.unstable).Sublist s.submitted
  app : s.up = true → s.applied <+: s.snap ++ s.log
  ack : ∀ e ∈ s.acked, e ∈ s.snap ++ s.log
  down : s.up = false → s.unstable = [] ∧ s.applied = []

theorem inv_init : Inv init :=
  ⟨by simp [init], by intro _; simp [init], by simp [init], by simp [init]⟩

theorem getElem?_prefix_append {l p : List Entry} {e : Entry} (hp : p <+: l) (he : l[p.length]? = some e) :
    p ++ [e] <+: l := by
  obtain ⟨t, rfl⟩ := hp
  cases t with
  | nil => simp at he
  | cons x t =>
    simp at he
    subst he
    exact ⟨t, by simp⟩

theorem inv_step {s t : St} (h : Inv s) (st : Step true s t) : Inv t := by
  cases st with
  | propose e hup hfresh =>
    refine ⟨?_, h.app, h.ack, ?_⟩
    · show (s.snap ++ s.log ++ (s.unstable ++ [e])).Sublist (s.submitted ++ [e])
      rw [← List.append_assoc]
      exact List.Sublist.append h.sub (List.Sublist.refl _)
    · intro hd; simp [hup] at hd
  | save hup =>
    refine ⟨?_, ?_, ?_, ?_⟩
    · show (s.snap ++ (s.log ++ s.unstable) ++ []).Sublist s.submitted
      simpa [List.append_assoc] using h.sub
    · intro hu
      show s.applied <+: s.snap ++ (s.log ++ s.unstable)
      rw [← List.append_assoc]
      exact List.IsPrefix.trans (h.app hu) (List.prefix_append _ _)
    · intro e he
      show e ∈ s.snap ++ (s.log ++ s.unstable)
      rw [← List.append_assoc]
      exact List.mem_append_left _ (h.ack e he)
    · intro hd; simp [hup] at hd
  | applyOne e hup hget =>
    have hsrc : s.source true = s.snap ++ s.log := by simp [St.source]
    rw [hsrc] at hget
    refine ⟨h.sub, ?_, ?_, ?_⟩
    · intro _
      exact getElem?_prefix_append (h.app hup) hget
    · intro x hx
      rcases List.mem_append.mp hx with hx | hx
      · exact h.ack x hx
      · simp at hx; subst hx
        exact List.mem_of_getElem? hget
    · intro hd; simp [hup] at hd
  | compact hup hle =>
    have hd : s.durable.take s.applied.length ++ s.durable.drop s.applied.length = s.snap ++ s.log :=
      List.take_append_drop _ _
    refine ⟨?_, ?_, ?_, ?_⟩
    · show (s.durable.take s.applied.length ++ s.durable.drop s.applied.length ++ s.unstable).Sublist s.submitted
      rw [hd]; exact h.sub
    · intro hu
      show s.applied <+: s.durable.take s.applied.length ++ s.durable.drop s.applied.length
      rw [hd]; exact h.app hu
    · intro e he
      show e ∈ s.durable.take s.applied.length ++ s.durable.drop s.applied.length
      rw [hd]; exact h.ack e he
    · intro hdn; simp [hup] at hdn
  | crash =>
    refine ⟨?_, ?_, h.ack, ?_⟩
    · show (s.snap ++ s.log ++ []).Sublist s.submitted
      have := h.sub
      rw [List.append_nil]
      exact List.Sublist.trans (List.sublist_append_left _ _) this
    · intro hu; simp at hu
    · intro _; exact ⟨rfl, rfl⟩
  | restart hdown =>
    refine ⟨h.sub, ?_, h.ack, ?_⟩
    · intro _; exact List.prefix_append _ _
    · intro hd; simp at hd

theorem inv_reach {s : St} (r : Reach true s) : Inv s := by
  induction r with
  | init => exact inv_init
  | step _ st ih => exact inv_step ih st

/-- **C03 (durability).** In every reachable state — in particular right after a crash at any
instant — every write that was ever acknowledged is part of what restart + replay rebuilds. -/
theorem acked_durable {s : St} (r : Reach true s) : ∀ e ∈ s.acked, e ∈ s.durable :=
  (inv_reach r).ack

/-- **C03 (nothing invented, order kept).** What restart + replay rebuilds is a sub-sequence of
what was submitted: acknowledged writes, optionally extended by writes that were in flight. -/
theorem nothing_invented {s : St} (r : Reach true s) : s.durable.Sublist s.submitted := by
  have := (inv_reach r).sub
  exact List.Sublist.trans (List.sublist_append_left _ _) this

/-- the in-memory index of a running replica never runs ahead of the log store -/
theorem applied_is_durable_prefix {s : St} (r : Reach true s) (hu : s.up = true) : s.applied <+: s.durable :=
  (inv_reach r).app hu

/-- replay: from a restarted replica, `n` apply steps with `n` the length of the suffix rebuild
exactly the durable list -/
theorem applyAll_reaches (s : St) (n : Nat) (hp : s.applied <+: s.snap ++ s.log)
    (hn : s.applied.length + n = (s.snap ++ s.log).length) :
    (applyAll true n s).applied = s.snap ++ s.log := by
  induction n generalizing s with
  | zero =>
    simp [applyAll]
    obtain ⟨t, ht⟩ := hp
    have : t = [] := by
      have hl := congrArg List.length ht
      simp at hl hn
      cases t with
      | nil => rfl
      | cons x t => simp at hl; omega
    rw [← ht, this]; simp
  | succ n ih =>
    have hlt : s.applied.length < (s.snap ++ s.log).length := by omega
    have hsome : (s.source true)[s.applied.length]? = some ((s.snap ++ s.log)[s.applied.length]) := by
      simp [St.source, List.getElem?_eq_getElem hlt]
    unfold applyAll
    rw [hsome]
    simp only
    have hp' : s.applied ++ [(s.snap ++ s.log)[s.applied.length]] <+: s.snap ++ s.log :=
      getElem?_prefix_append hp (by simp [List.getElem?_eq_getElem hlt])
    have := ih { s with applied := s.applied ++ [(s.snap ++ s.log)[s.applied.length]],
                        acked := s.acked ++ [(s.snap ++ s.log)[s.applied.length]] } hp'
      (by simp; simp at hn; omega)
    simpa using this

theorem replay_reaches (s : St) :
    (applyAll true s.log.length (restart s)).applied = s.durable := by
  have := applyAll_reaches (restart s) s.log.length (by simp [restart]) (by simp [restart])
  simpa [restart, St.durable] using this

/-- the order in the code: `wal.Save` precedes `processFn` in the ready loop, and `Start`
installs the stored snapshot before the loop runs (regenerated from the sources) -/
theorem order_in_code :
    Generated.raftSaveBeforeApply = true ∧ Generated.raftStartInstallsSnapshot = true ∧
    Generated.raftSnapshotAtLastApplied = true := by decide

/-- for a replicated group the quorum argument (trusted to etcd/raft) needs every replica to store
an append before acknowledging it: the whole statement order of the loop is the one proved in C05 -/
theorem follower_acks_after_save :
    Generated.readyLoopOrder.map RaftLoop.parseStmt = RaftLoop.canonical := by decide

/-- **C03 (any minority of replicas crashes and restarts).** An acknowledgement needs the entry in
the log stores of a majority (the leader's own: `acked_durable`; a follower's append
acknowledgement leaves only after its `wal.Save`: `follower_acks_after_save` / C05). Restarts change
no log store. Hence whichever replicas crashed in between, every majority of voters that elects a
later leader contains a replica whose store holds the entry; that the elected leader then has it
is Raft's election restriction (etcd/raft, trusted). -/
theorem acked_entry_meets_every_election (stores : List (List Nat)) (e : Nat)
    (hack : stores.length < 2 * (Quorum.holders stores e).length)
    (Q : List Nat) (hQ : Quorum.Majority stores.length Q) :
    ∃ r, r ∈ Q ∧ e ∈ stores.getD r [] :=
  Quorum.acked_entry_meets_every_election stores e hack Q hQ

/-! ## the mutated order loses an acknowledged write -/

def lossTrace : St := crash (applyAll false 1 (propose init 7))

theorem lossTrace_reach : Reach false lossTrace := by
  have h1 : Reach false (propose init 7) := .step .init (.propose init 7 rfl (by simp [init]))
  have h2 : Reach false (applyAll false 1 (propose init 7)) :=
    .step h1 (.applyOne (propose init 7) 7 rfl (by decide))
  exact .step h2 (.crash _)

theorem apply_first_loses : ∃ s, Reach false s ∧ ∃ e ∈ s.acked, e ∉ s.durable :=
  ⟨lossTrace, lossTrace_reach, 7, by decide, by decide⟩

/-! ## sequential client: the recovered history is the acknowledged one, optionally plus the in-flight write -/

theorem admissible_acked (a : List Entry) (i : Option Entry) : admissible a i a = true := by
  simp [admissible]

theorem admissible_inflight (a : List Entry) (e : Entry) : admissible a (some e) (a ++ [e]) = true := by
  simp [admissible]

/-! ## non-vacuity: a run with a compaction, a crash with an entry in flight, and a restart -/

def demo : St :=
  let s := propose init 1
  let s := applyAll true 1 (save s)
  let s := propose s 2
  let s := applyAll true 1 (save s)
  let s := compact s
  let s := save (propose s 3)      -- saved, not yet applied: in flight
  let s := crash s
  applyAll true 5 (restart s)

example : demo.acked = [1, 2, 3] ∧ demo.applied = [1, 2, 3] ∧ demo.snap = [1, 2] ∧ demo.log = [3] := by decide

/-- **C03 (a replica that crashed catches up without a hole).** The leader builds the appends for a
follower that was down from size-limited reads of its stored log; each is a non-empty run starting at the
index asked for (C06's refinement of the read), so the follower's log — and what it applies — has every
acknowledged entry at its index. -/
theorem catch_up_reads_have_no_hole (w : Wal.Wal) (h : Wal.WF w) (lo hi maxSize : Nat)
    (hlo : (Wal.abs w).firstIndex ≤ lo) (hlt : lo < hi) (hhi : hi ≤ (Wal.abs w).lastIndex + 1) :
    ∃ es w', w.entries lo hi maxSize = .ok (es, w') ∧
      es <+: (((Wal.abs w).ents.drop (lo - (Wal.abs w).offset)).take (hi - lo)) ∧ es ≠ [] :=
  C06.limited_read_is_a_run_from_lo w h lo hi maxSize hlo hlt hhi

/-! ## a crash in the middle of an append to the store's value log (D35)

The file holds the records written so far — every acknowledged write among them, an acknowledgement
follows the completed write — and then the first `k` bytes of the record whose write the kill
interrupted, for any `k` from nothing to all of it. -/

open Anndb.TornTail

/-- **C03 (crash at any instant, also inside a write).** Opened the way `server.go` opens its store,
the file left by a kill after any number of bytes of the append in progress yields every record
written before, plus the interrupted one exactly when all of it had reached the file. -/
theorem reopen_after_crash_at_any_byte (written : List Rec) (next : Rec) (k : Nat) (hk : k ≤ (encode next).length) :
    reopen true (encodeAll written ++ (encode next).take k)
      = some (written ++ if k = (encode next).length then [next] else []) := by
  simp only [reopen, Bool.or_true, if_true, parse_encodeAll_append]
  by_cases hfull : k = (encode next).length
  · subst hfull
    have h := parse_encodeAll_append [next] []
    simp only [encodeAll, List.append_nil, parse_nil] at h
    simp [List.take_length, h]
  · by_cases h0 : k = 0
    · subst h0; simp [parse_nil, hfull]
    · rw [parse_torn next k (by omega) (by omega)]; simp [hfull]

/-- without the truncation a kill strictly inside a record leaves a store that refuses to open: the
node does not come back, with all its acknowledged writes on disk -/
theorem torn_record_blocks_restart_without_truncate (written : List Rec) (next : Rec) (k : Nat)
    (h0 : 0 < k) (hk : k < (encode next).length) :
    reopen false (encodeAll written ++ (encode next).take k) = none := by
  simp [reopen, parse_encodeAll_append, parse_torn next k h0 hk]

/-- the option in the code (regenerated from `server.go`) -/
theorem store_cuts_torn_tail_in_code : Generated.serverStoreCutsTornTail = true := by decide

/-- the two together: the server's store, as the code opens it, comes back after a kill at any byte -/
theorem server_store_reopens (written : List Rec) (next : Rec) (k : Nat) (hk : k ≤ (encode next).length) :
    ∃ rs, reopen Generated.serverStoreCutsTornTail (encodeAll written ++ (encode next).take k) = some rs ∧
      written <+: rs := by
  rw [store_cuts_torn_tail_in_code, reopen_after_crash_at_any_byte written next k hk]
  exact ⟨_, rfl, List.prefix_append _ _⟩

/-- non-vacuity: two records on disk, the third torn after two of its four bytes -/
example : reopen true (encodeAll [[7, 8], [9]] ++ (encode [1, 2, 3]).take 2) = some [[7, 8], [9]] := by
  rw [reopen_after_crash_at_any_byte [[7, 8], [9]] [1, 2, 3] 2 (by simp [encode])]
  simp [encode]

example : reopen false (encodeAll [[7, 8], [9]] ++ (encode [1, 2, 3]).take 2) = none :=
  torn_record_blocks_restart_without_truncate [[7, 8], [9]] [1, 2, 3] 2 (by omega) (by simp [encode])

end Anndb.Recovery

