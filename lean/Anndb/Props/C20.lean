import Anndb.Model.Members
import Anndb.Generated
/-!
# C20 — every member's view of the membership converges and survives restart

With the rules the code has (`rules_in_code`, regenerated):

* `listed_after_join`   once a join entry `add j a` (a ≠ "") is applied, and until a later entry
  names `j` again, every member that has applied the log lists `j` at `a` — whatever it listed before;
* `gone_after_remove`   after `remove j` nobody who applied it lists `j`;
* `restart_from_log`    restart + full replay gives the running book (cut = 0);
* `restart_recovers`    restart from a snapshot taken after *any* prefix of the log, by any member
  that is itself in that prefix, followed by the replay of the rest, gives the running book —
  for every log in which the restarting member is not removed;
* `old_*`               each of the three repaired behaviours, as an explicit log on which the
  book of a restarted / lagging member differs from the running one.

The acknowledgement (`AddNode` / `RemoveNode` return only after the change is applied on the
answering member) and the order of the handshake are shape facts (`ack_in_code`).
-/
namespace Anndb.Members

theorem rules_in_code :
    Generated.connAddNodeUpdatesAddress = Rules.code.update ∧
    Generated.zeroGroupFeedsBook = Rules.code.skipEmpty ∧
    Generated.bookTravelsWithSnapshot = Rules.code.snapBook ∧
    Generated.bootstrapEntryCarriesAddress = Rules.code.bootAddr := by decide

theorem ack_in_code :
    Generated.membershipAckAfterApply = true ∧ Generated.handshakeListsMembersFirst = true := by decide

/-! ## point-wise behaviour of one entry under the code's rules -/

/-- an entry that does not name `j` leaves `j`'s address alone -/
def Names (j : Nat) : ZEntry → Prop
  | .add id _ => id = j
  | .remove id => id = j
  | .other => False

theorem connAdd_other (r : Rules) (b : Book) (id j : Nat) (a : Addr) (h : id ≠ j) :
    connAdd r b id a j = b j := by
  unfold connAdd
  cases hb : b id with
  | none => simp [Book.set, Ne.symm h]
  | some old =>
    simp only
    by_cases hc : (r.update && old != a && a != "") = true
    · simp [hc, Book.set, Ne.symm h]
    · simp [hc]

theorem applyEntry_other (r : Rules) (b : Book) (e : ZEntry) (j : Nat) (h : ¬ Names j e) :
    applyEntry r b e j = b j := by
  cases e with
  | add id a =>
    simp only [Names] at h
    simp only [applyEntry]
    split
    · rfl
    · exact connAdd_other r b id j a h
  | remove id =>
    simp only [Names] at h
    simp [applyEntry, Book.erase, Ne.symm h]
  | other => rfl

theorem replay_other (r : Rules) (b : Book) (log : List ZEntry) (j : Nat) (h : ∀ e ∈ log, ¬ Names j e) :
    replay r b log j = b j := by
  induction log generalizing b with
  | nil => rfl
  | cons e t ih =>
    simp only [replay, List.foldl_cons]
    have := ih (applyEntry r b e) (fun x hx => h x (List.mem_cons_of_mem _ hx))
    simp only [replay] at this
    rw [this, applyEntry_other r b e j (h e List.mem_cons_self)]

theorem connAdd_code_self (b : Book) (id : Nat) (a : Addr) (ha : a ≠ "") :
    connAdd Rules.code b id a id = some a := by
  unfold connAdd
  cases hb : b id with
  | none => simp [Book.set]
  | some old =>
    simp only
    by_cases hoa : old = a
    · simp [Rules.code, hoa, hb]
    · simp [Rules.code, hoa, ha, Book.set]

/-- **C20 (join).** -/
theorem listed_after_join (b : Book) (pre post : List ZEntry) (j : Nat) (a : Addr) (ha : a ≠ "")
    (hpost : ∀ e ∈ post, ¬ Names j e) :
    replay Rules.code b (pre ++ [.add j a] ++ post) j = some a := by
  simp only [replay, List.foldl_append, List.foldl_cons, List.foldl_nil]
  have := replay_other Rules.code (applyEntry Rules.code (List.foldl (applyEntry Rules.code) b pre) (.add j a)) post j hpost
  simp only [replay] at this
  rw [this]
  simp only [applyEntry]
  have : (Rules.code.skipEmpty && a == "") = false := by simp [ha]
  rw [this]
  exact connAdd_code_self _ j a ha

/-- **C20 (removal).** -/
theorem gone_after_remove (r : Rules) (b : Book) (pre post : List ZEntry) (j : Nat)
    (hpost : ∀ e ∈ post, ¬ Names j e) :
    replay r b (pre ++ [.remove j] ++ post) j = none := by
  simp only [replay, List.foldl_append, List.foldl_cons, List.foldl_nil]
  have := replay_other r (applyEntry r (List.foldl (applyEntry r) b pre) (.remove j)) post j hpost
  simp only [replay] at this
  rw [this]
  simp [applyEntry, Book.erase]

/-! ## restart -/

/-- **C20 (restart, log replay).** -/
theorem restart_from_log (r : Rules) (self : Nat) (a : Addr) (sn : Nat) (sa : Addr) (log : List ZEntry) :
    restarted r self a sn sa log 0 = running r self a log := by
  simp [restarted, running]

/-- two books that agree everywhere except that the second may lack `self`, which the first then
lists at `a`: the relation between "started from {self}" and "started from nothing" -/
def Rel (self : Nat) (a : Addr) (b1 b0 : Book) : Prop :=
  (∀ i, i ≠ self → b1 i = b0 i) ∧ (b1 self = match b0 self with | some x => some x | none => some a)


theorem rel_init (self : Nat) (a : Addr) : Rel self a (Book.single self a) Book.empty := by
  constructor
  · intro i hi; simp [Book.single, Book.empty, hi]
  · simp [Book.single, Book.empty]

theorem connAdd_congr (r : Rules) (b1 b0 : Book) (id : Nat) (x : Addr) (h : b1 id = b0 id) :
    connAdd r b1 id x id = connAdd r b0 id x id := by
  unfold connAdd
  rw [h]
  cases hb : b0 id with
  | none => simp [Book.set]
  | some old =>
    simp only
    by_cases hc : (r.update && old != x && x != "") = true
    · simp [hc, Book.set]
    · simp [hc, h, hb]

theorem rel_step (self : Nat) (a : Addr) (b1 b0 : Book) (e : ZEntry) (h : Rel self a b1 b0)
    (he : e ≠ .remove self) : Rel self a (applyEntry Rules.code b1 e) (applyEntry Rules.code b0 e) := by
  obtain ⟨hoff, hself⟩ := h
  cases e with
  | other => exact ⟨hoff, hself⟩
  | remove id =>
    have hid : id ≠ self := fun h => he (by rw [h])
    constructor
    · intro i hi
      simp only [applyEntry, Book.erase]
      split
      · rfl
      · exact hoff i hi
    · simp only [applyEntry, Book.erase, Ne.symm hid, if_false]
      exact hself
  | add id x =>
    simp only [applyEntry]
    by_cases hx : (Rules.code.skipEmpty && x == "") = true
    · simp only [hx, if_true]; exact ⟨hoff, hself⟩
    · have hxne : x ≠ "" := by
        intro h; apply hx; simp [Rules.code, h]
      simp only [hx, Bool.false_eq_true, if_false]
      by_cases hid : id = self
      · subst hid
        constructor
        · intro i hi
          rw [connAdd_other _ _ _ _ _ (Ne.symm hi), connAdd_other _ _ _ _ _ (Ne.symm hi)]
          exact hoff i hi
        · rw [connAdd_code_self b1 id x hxne, connAdd_code_self b0 id x hxne]
      · constructor
        · intro i hi
          by_cases hii : i = id
          · subst hii
            exact connAdd_congr _ _ _ _ _ (hoff i hi)
          · rw [connAdd_other _ _ _ _ _ (Ne.symm hii), connAdd_other _ _ _ _ _ (Ne.symm hii)]
            exact hoff i hi
        · rw [connAdd_other _ _ _ _ _ hid, connAdd_other _ _ _ _ _ hid]
          exact hself

theorem rel_replay (self : Nat) (a : Addr) (b1 b0 : Book) (log : List ZEntry) (h : Rel self a b1 b0)
    (hr : ∀ e ∈ log, e ≠ .remove self) :
    Rel self a (replay Rules.code b1 log) (replay Rules.code b0 log) := by
  induction log generalizing b1 b0 with
  | nil => exact h
  | cons e t ih =>
    simp only [replay, List.foldl_cons]
    exact ih _ _ (rel_step self a b1 b0 e h (hr e List.mem_cons_self)) (fun x hx => hr x (List.mem_cons_of_mem _ hx))

/-- no recorded address is empty -/
def NonEmpty (b : Book) : Prop := ∀ j x, b j = some x → x ≠ ""

theorem nonEmpty_step (b : Book) (e : ZEntry) (h : NonEmpty b) : NonEmpty (applyEntry Rules.code b e) := by
  cases e with
  | other => exact h
  | remove id =>
    intro j x hj
    simp only [applyEntry, Book.erase] at hj
    split at hj
    · cases hj
    · exact h j x hj
  | add id y =>
    simp only [applyEntry]
    by_cases hy : (Rules.code.skipEmpty && y == "") = true
    · simp only [hy, if_true]; exact h
    · have hyne : y ≠ "" := by intro hh; apply hy; simp [Rules.code, hh]
      simp only [hy, Bool.false_eq_true, if_false]
      intro j x hj
      by_cases hji : j = id
      · subst hji
        rw [connAdd_code_self b j y hyne] at hj
        cases hj; exact hyne
      · rw [connAdd_other _ _ _ _ _ (Ne.symm hji)] at hj
        exact h j x hj

theorem nonEmpty_replay (b : Book) (log : List ZEntry) (h : NonEmpty b) : NonEmpty (replay Rules.code b log) := by
  induction log generalizing b with
  | nil => exact h
  | cons e t ih => simp only [replay, List.foldl_cons]; exact ih _ (nonEmpty_step b e h)

theorem names_mem_idsOf (j : Nat) (log : List ZEntry) (e : ZEntry) (he : e ∈ log) (hn : Names j e) : j ∈ idsOf log := by
  induction log with
  | nil => cases he
  | cons x t ih =>
    rcases List.mem_cons.mp he with rfl | ht
    · cases e with
      | add id a => simp only [Names] at hn; subst hn; simp [idsOf]
      | remove id => simp only [Names] at hn; subst hn; simp [idsOf]
      | other => cases hn
    · have := ih ht
      cases x <;> simp [idsOf, this]

theorem replay_untouched (b : Book) (log : List ZEntry) (j : Nat) (h : j ∉ idsOf log) :
    replay Rules.code b log j = b j :=
  replay_other _ b log j (fun e he hn => h (names_mem_idsOf j log e he hn))

/-! ### installing the snapshot's book -/

theorem installFold_cons (r : Rules) (s acc : Book) (i : Nat) (t : List Nat) :
    installFold r s acc (i :: t) = installFold r s (installStep r s acc i) t := rfl

theorem installStep_other (r : Rules) (s acc : Book) (i j : Nat) (h : i ≠ j) :
    installStep r s acc i j = acc j := by
  unfold installStep
  cases s i with
  | none => rfl
  | some a => exact connAdd_other _ _ _ _ _ h

theorem installStep_self (s acc : Book) (j : Nat) (x : Addr) (hs : s j = some x) (hx : x ≠ "") :
    installStep Rules.code s acc j j = some x := by
  unfold installStep
  rw [hs]
  exact connAdd_code_self acc j x hx

theorem installStep_none (r : Rules) (s acc : Book) (i : Nat) (hs : s i = none) :
    installStep r s acc i = acc := by
  unfold installStep; rw [hs]

theorem installFold_notMem (s acc : Book) (ids : List Nat) (j : Nat) (h : j ∉ ids) :
    installFold Rules.code s acc ids j = acc j := by
  induction ids generalizing acc with
  | nil => rfl
  | cons i t ih =>
    have hji : i ≠ j := fun hh => h (by simp [hh])
    have ht : j ∉ t := fun hh => h (List.mem_cons_of_mem _ hh)
    rw [installFold_cons, ih _ ht, installStep_other _ _ _ _ _ hji]

theorem installFold_keep (s acc : Book) (ids : List Nat) (j : Nat) (x : Addr) (hs : s j = some x)
    (hx : x ≠ "") (hacc : acc j = some x) : installFold Rules.code s acc ids j = some x := by
  induction ids generalizing acc with
  | nil => exact hacc
  | cons i t ih =>
    rw [installFold_cons]
    apply ih
    by_cases hij : i = j
    · subst hij; exact installStep_self s acc i x hs hx
    · rw [installStep_other _ _ _ _ _ hij]; exact hacc

theorem installFold_mem (s acc : Book) (ids : List Nat) (j : Nat) (x : Addr) (hs : s j = some x)
    (hx : x ≠ "") (hm : j ∈ ids) : installFold Rules.code s acc ids j = some x := by
  induction ids generalizing acc with
  | nil => cases hm
  | cons i t ih =>
    rw [installFold_cons]
    by_cases hij : i = j
    · subst hij
      exact installFold_keep s _ t i x hs hx (installStep_self s acc i x hs hx)
    · have hjt : j ∈ t := by
        rcases List.mem_cons.mp hm with h | h
        · exact absurd h.symm hij
        · exact h
      exact ih _ hjt

theorem installFold_none (s acc : Book) (ids : List Nat) (j : Nat) (hs : s j = none) :
    installFold Rules.code s acc ids j = acc j := by
  induction ids generalizing acc with
  | nil => rfl
  | cons i t ih =>
    rw [installFold_cons, ih]
    by_cases hij : i = j
    · subst hij; rw [installStep_none _ _ _ _ hs]
    · exact installStep_other _ _ _ _ _ hij

/-- **C20 (restart after compaction).** For every log in which the restarting member is not
removed, every cut, and every snapshotting member that the log prefix itself lists: installing
the snapshot taken after `cut` entries and replaying the rest gives exactly the book of a member
that applied the whole log. -/
theorem restart_recovers (self : Nat) (a : Addr) (sn : Nat) (sa : Addr) (log : List ZEntry) (cut : Nat)
    (hself : ∀ e ∈ log, e ≠ .remove self)
    (hsnr : ∀ e ∈ log.take cut, e ≠ .remove sn)
    (hsn : (replay Rules.code Book.empty (log.take cut)) sn ≠ none) :
    restarted Rules.code self a sn sa log cut = running Rules.code self a log := by
  by_cases hc : cut = 0
  · subst hc; exact restart_from_log _ _ _ _ _ _
  · have hsplit : running Rules.code self a log =
        replay Rules.code (replay Rules.code (Book.single self a) (log.take cut)) (log.drop cut) := by
      simp only [running, replay, ← List.foldl_append, List.take_append_drop]
    rw [hsplit]
    simp only [restarted, hc, if_false, Rules.code, if_true]
    congr 1
    -- the two starting points of the suffix replay are the same book
    let B0 := replay Rules.code Book.empty (log.take cut)
    have hB0ne : NonEmpty B0 := nonEmpty_replay _ _ (by intro j x h; simp [Book.empty] at h)
    have hrelSelf : Rel self a (replay Rules.code (Book.single self a) (log.take cut)) B0 :=
      rel_replay self a _ _ _ (rel_init self a) (fun e he => hself e (List.mem_of_mem_take he))
    have hrelSn : Rel sn sa (replay Rules.code (Book.single sn sa) (log.take cut)) B0 :=
      rel_replay sn sa _ _ _ (rel_init sn sa) hsnr
    -- the snapshot's book is the prefix's own book
    have hS : running Rules.code sn sa (log.take cut) = B0 := by
      funext i
      by_cases hi : i = sn
      · subst hi
        have := hrelSn.2
        cases hb : B0 i with
        | none => exact absurd hb hsn
        | some x => rw [hb] at this; exact this
      · exact hrelSn.1 i hi
    show restoreBook Rules.code self (Book.single self a) (running Rules.code sn sa (log.take cut))
        (sn :: idsOf (log.take cut)) = replay Rules.code (Book.single self a) (log.take cut)
    rw [hS]
    funext j
    have hkept : keptBook self (Book.single self a) B0 = Book.single self a := by
      unfold keptBook keptBookIf
      split
      · rfl
      · funext i
        by_cases hi : i = self
        · simp [hi]
        · simp only [hi, if_false]
          cases B0 i <;> simp [Book.single, hi]
    have hrb : restoreBook Rules.code self (Book.single self a) B0 (sn :: idsOf (log.take cut)) =
        installFold Rules.code B0 (Book.single self a) (sn :: idsOf (log.take cut)) := by
      unfold restoreBook
      rw [hkept]
    rw [hrb]
    cases hb : B0 j with
    | some x =>
      have hjmem : j ∈ sn :: idsOf (log.take cut) := by
        by_cases hjm : j ∈ idsOf (log.take cut)
        · exact List.mem_cons_of_mem _ hjm
        · have := replay_untouched Book.empty (log.take cut) j hjm
          rw [show replay Rules.code Book.empty (log.take cut) j = B0 j from rfl, hb] at this
          simp [Book.empty] at this
      rw [installFold_mem B0 _ _ j x hb (hB0ne j x hb) hjmem]
      by_cases hjs : j = self
      · subst hjs
        have := hrelSelf.2
        rw [hb] at this
        exact this.symm
      · rw [hrelSelf.1 j hjs, hb]
    | none =>
      rw [installFold_none B0 _ _ j hb]
      by_cases hjs : j = self
      · subst hjs
        have := hrelSelf.2
        rw [hb] at this
        rw [this]; simp [Book.single]
      · rw [hrelSelf.1 j hjs, hb]; simp [Book.single, hjs]

/-! ## a joiner and the snapshots that are older than its join

A node that joins learns the current members from the handshake. While it catches up it is sent
whatever snapshot the leader holds — possibly one cut before members joined that the handshake
listed, among them the leader itself. -/

/-- **a snapshot that does not list the joiner drops nothing**: every address the joiner holds it
still holds after installing it (so it can go on answering whoever leads) -/
theorem old_snapshot_drops_nothing (self : Nat) (b s : Book) (ids : List Nat) (hs : s self = none)
    (j : Nat) (hj : b j ≠ none) : restoreBook Rules.code self b s ids j ≠ none := by
  unfold restoreBook keptBook keptBookIf
  simp only [hs, Option.isNone_none, Bool.and_self, if_true]
  -- installing only adds or updates
  have hset : ∀ (acc : Book) (i : Nat) (a : Addr), acc j ≠ none → (acc.set i a) j ≠ none := by
    intro acc i a h
    unfold Book.set
    by_cases hji : j = i
    · simp [hji]
    · simp [hji, h]
  have hadd : ∀ (acc : Book) (i : Nat) (a : Addr), acc j ≠ none → connAdd Rules.code acc i a j ≠ none := by
    intro acc i a h
    unfold connAdd
    cases acc i with
    | none => exact hset acc i a h
    | some old =>
      simp only
      split
      · exact hset acc i a h
      · exact h
  have hstep : ∀ (acc : Book) (i : Nat), acc j ≠ none → installStep Rules.code s acc i j ≠ none := by
    intro acc i h
    unfold installStep
    cases s i with
    | none => exact h
    | some x => exact hadd acc i x h
  have hmono : ∀ (ids : List Nat) (acc : Book), acc j ≠ none → installFold Rules.code s acc ids j ≠ none := by
    intro ids
    induction ids with
    | nil => intro acc h; exact h
    | cons i t ih =>
      intro acc h
      rw [installFold_cons]
      exact ih _ (hstep acc i h)
  exact hmono ids b hj

/-- the scenario: node 1 cut a snapshot while alone; 2 and 3 joined; 3 learnt of 2 from the
handshake and is then sent that snapshot. With the rule "drop whatever the snapshot does not list"
it forgets node 2 — if node 2 leads by then, node 3 can never answer it. With the code's rule it
keeps it. -/
theorem joiner_keeps_the_late_leader :
    let handshake : Book := fun i => if i = 1 then some "a1" else if i = 2 then some "a2" else if i = 3 then some "a3" else none
    let snap : Book := Book.single 1 "a1"
    installFold Rules.code snap (keptBookIf false 3 handshake snap) [1] 2 = none ∧
    restoreBook Rules.code 3 handshake snap [1] 2 = some "a2" := by
  decide

/-! ## the repaired behaviours, as explicit logs (the rules before the repairs) -/

/-- the bootstrap entry carried no address and was recorded as it was: a joiner (node 2) that
restarts and replays its log lists node 1 at the empty address -/
theorem old_empty_address :
    running Rules.old 2 "a2" [bootEntry Rules.old 1 "a1", .add 2 "a2"] 1 = some "" := by decide

/-- a member announcing a new address was kept at the old one -/
theorem old_stale_address :
    running Rules.old 1 "a1" [.add 1 "a1", .add 2 "a2", .add 2 "a2'"] 2 = some "a2" := by decide

/-- the snapshot did not carry the book: node 1 restarts after a compaction behind the joins and
no longer lists nodes 2 and 3 -/
theorem old_lost_after_compaction :
    restarted Rules.old 1 "a1" 1 "a1" [.add 1 "a1", .add 2 "a2", .add 3 "a3", .other] 4 2 = none ∧
    running Rules.old 1 "a1" [.add 1 "a1", .add 2 "a2", .add 3 "a3", .other] 2 = some "a2" := by decide

/-! ## non-vacuity: the same logs under the code's rules -/

example : running Rules.code 2 "a2" [bootEntry Rules.code 1 "a1", .add 2 "a2"] 1 = some "a1" := by decide
example : running Rules.code 1 "a1" [.add 1 "a1", .add 2 "a2", .add 2 "a2'"] 2 = some "a2'" := by decide
example : restarted Rules.code 1 "a1" 1 "a1" [.add 1 "a1", .add 2 "a2", .add 3 "a3", .other] 4 2 = some "a2" := by decide
example : (replay Rules.code Book.empty ([ZEntry.add 1 "a1", .add 2 "a2", .add 3 "a3", .other].take 4)) 1 ≠ none := by decide


/-! ## reaching a member that left and joined again (`RaftTransport`'s client cache, `cluster.Conn`)

Listing a member is not reaching it. The transport keeps one client per peer; `Conn.RemoveNode` closes
the connection under it. `drops` is whether a failed send makes the transport forget the cached client
(the regenerated fact `snapshotSendFailureAlwaysReported` covers that line too). -/

/-- what a member holds about one peer: its address in the book, and the cached client (the address it
was dialled at, and whether its connection is still open) -/
structure Peer where
  book : Option String
  cache : Option (String × Bool)
deriving DecidableEq, Repr

/-- `Conn.RemoveNode`: the address goes, the connection is closed — the transport's cached client
still points at it -/
def Peer.remove (p : Peer) : Peer := ⟨none, p.cache.map fun c => (c.1, false)⟩

/-- the peer is admitted again (membership entry applied) -/
def Peer.add (p : Peer) (a : String) : Peer := { p with book := some a }

/-- one send to the peer, which listens at `at_`: delivered or not, and what the member holds afterwards -/
def Peer.send (drops : Bool) (at_ : String) (p : Peer) : Peer × Bool :=
  match p.cache with
  | some (a, true) => if a = at_ then (p, true) else ((if drops then { p with cache := none } else p), false)
  | some (_, false) => ((if drops then { p with cache := none } else p), false)
  | none =>
    match p.book with
    | some a => ({ p with cache := some (a, true) }, a = at_)
    | none => (p, false)

/-- **a member that left and joined again is reached**: whatever the sender held about it, after it has
applied the removal and the re-admission the second send at the latest is delivered -/
theorem rejoined_member_is_reached (p : Peer) (a : String) :
    let p1 := (p.remove.add a)
    ((Peer.send true a (Peer.send true a p1).1).2 = true) := by
  cases p with
  | mk book cache =>
    cases cache with
    | none => simp [Peer.remove, Peer.add, Peer.send]
    | some c => cases c with
      | mk addr isOpen => simp [Peer.remove, Peer.add, Peer.send]

/-- a transport that keeps its cached client for ever (the code before the repair D34) never reaches
it again: every send goes to the closed connection and leaves everything as it was -/
theorem stale_client_never_reaches (book : Option String) (addr a : String) (isOpen : Bool) :
    let p1 := ((⟨book, some (addr, isOpen)⟩ : Peer).remove.add a)
    Peer.send false a p1 = (p1, false) := by
  simp [Peer.remove, Peer.add, Peer.send]


/-- a failed send makes the transport dial the peer again, and a replica change for a partition whose
group is not loaded (a member replaying its own removal) is an error, not a nil dereference (regenerated) -/
theorem rejoin_repairs_in_code : Generated.snapshotSendFailureAlwaysReported = true ∧
    Generated.replicaChangeChecksGroupLoaded = true := by decide

end Anndb.Members
