import Anndb.Model.Allocator
import Anndb.Generated
import Anndb.Model.Unload
/-!
# C18 — Membership changes and restarts never wedge a node's control plane (partial)

`no_wedge` is proved under two stated side conditions about the *situation* (not about the code):
the allocator loop does not have to propose-and-wait on this notification (`proposes = false`:
this node is not the modifier of an under-replicated / affected partition) and no watched
partition has an empty replica list (`needsAddr = false`). Where a side condition fails, the
wedge is real and is proved as a reachable stuck state: `wedge_when_loop_waits_for_commit`
(known finding D19), `wedge_when_loop_needs_addresses`, and `wedge_when_sending_under_lock` for
the pre-fix locking (D18).
-/
namespace Anndb.C18
open Anndb.Allocator

/-- invariant: the notification channel never exceeds its capacity; a pending proposal is in A's
queue; L waits for a commit only with a proposal outstanding or already applied -/
structure Inv (p : Params) (c : Cfg) : Prop where
  chanCap : c.chan ≤ p.cap

theorem inv_reach (p : Params) (todo : List Ev) (c : Cfg) (r : Reach p (init todo) c) : Inv p c := by
  induction r with
  | refl => exact ⟨Nat.zero_le _⟩
  | step _ s ih =>
    obtain ⟨h⟩ := ih
    cases s <;> first | exact ⟨h⟩ | exact ⟨by simp; omega⟩

/-- without propose-and-wait and without empty replica lists, no commit entry ever enters the queue and
the loop is never in `wantAddrR` / `waitCommit` -/
theorem side_reach (p : Params) (hprop : p.proposes = false) (haddr : p.needsAddr = false)
    (todo : List Ev) (hnc : .commit ∉ todo) (c : Cfg) (r : Reach p (init todo) c) :
    .commit ∉ c.todo ∧ c.l ≠ .wantAddrR ∧ c.l ≠ .waitCommit := by
  induction r with
  | refl => exact ⟨hnc, by simp [init], by simp [init]⟩
  | step _ s ih =>
    obtain ⟨h1, h2, h3⟩ := ih
    cases s with
    | confLock t ha ht => exact ⟨by rw [ht] at h1; exact fun h => h1 (List.mem_cons_of_mem _ h), h2, h3⟩
    | confSend ha hc => exact ⟨h1, h2, h3⟩
    | watchLock t ha ht hl => exact ⟨by rw [ht] at h1; exact fun h => h1 (List.mem_cons_of_mem _ h), h2, h3⟩
    | watchSend ha hl => exact ⟨h1, h2, h3⟩
    | applyCommit t ha ht => exact absurd (by rw [ht]; exact List.mem_cons_self) h1
    | recvNotif hl hc => exact ⟨h1, by simp, by simp⟩
    | takePartR hl ha => exact ⟨h1, by simp, by simp⟩
    | handlerAddr hl hn => simp [haddr] at hn
    | takeAddrR hl ha => exact absurd hl h2
    | handlerPropose hl hn hp => simp [hprop] at hp
    | handlerDone hl hn hp => exact ⟨h1, by simp, by simp⟩
    | commitSeen hl hp => exact absurd hl h3

/-- **No wedge**: with the send outside the lock, capacity ≥ 1, no propose-and-wait in the loop and
no empty replica list, every reachable configuration that is not quiescent can take a step —
whatever the interleaving of conf changes, dataset creations/deletions (watch/unwatch) and the
allocator loop, and however long the burst (a restart's replay included). -/
theorem no_wedge (p : Params) (hcap : 1 ≤ p.cap) (hlock : p.sendUnderLock = false)
    (hprop : p.proposes = false) (haddr : p.needsAddr = false)
    (todo : List Ev) (hnc : .commit ∉ todo)
    (c : Cfg) (r : Reach p (init todo) c) (hq : ¬ Quiescent c) : ∃ c', Step p c c' := by
  have hcc := (inv_reach p todo c r).chanCap
  obtain ⟨hnocommit, hnaddr, hnwait⟩ := side_reach p hprop haddr todo hnc c r
  cases hl : c.l with
  | wantPartR => exact ⟨_, Step.takePartR c hl (by simp [aHoldsPartW, hlock])⟩
  | handler => exact ⟨_, Step.handlerDone c hl haddr hprop⟩
  | wantAddrR => exact absurd hl hnaddr
  | waitCommit => exact absurd hl hnwait
  | select =>
    by_cases hch : 0 < c.chan
    · exact ⟨_, Step.recvNotif c hl hch⟩
    · have hch0 : c.chan = 0 := by omega
      cases ha : c.a with
      | confLocked => exact ⟨_, Step.confSend c ha (by omega)⟩
      | watchSending => exact ⟨_, Step.watchSend c ha hl⟩
      | idle =>
        cases ht : c.todo with
        | nil => exact absurd ⟨ht, ha, hl, hch0⟩ hq
        | cons e t =>
          cases e with
          | conf => exact ⟨_, Step.confLock c t ha ht⟩
          | watch => exact ⟨_, Step.watchLock c t ha ht (by simp [lHoldsPartR, hl])⟩
          | commit => exact absurd (by rw [ht]; exact List.mem_cons_self) hnocommit

/-! ## where the side conditions fail, the wedge is real -/

def stuck (p : Params) (c : Cfg) : Prop := ¬ Quiescent c ∧ ∀ c', ¬ Step p c c'

/-- **D19 (known finding)**: the loop proposes a replica change and waits for its commit while the
apply goroutine, which would have to apply that very entry, is blocked handing a `watch` to the
loop. One membership notification followed by one dataset creation is enough. -/
theorem wedge_when_loop_waits_for_commit :
    ∃ c, Reach ⟨10, false, true, false⟩ (init [.conf, .watch]) c ∧ stuck ⟨10, false, true, false⟩ c := by
  let p : Params := ⟨10, false, true, false⟩
  refine ⟨⟨[.commit], .watchSending, .waitCommit, 0, true⟩, ?_, ?_⟩
  · have s1 : Step p (init [.conf, .watch]) ⟨[.watch], .confLocked, .select, 0, false⟩ := Step.confLock _ [.watch] rfl rfl
    have s2 : Step p ⟨[.watch], .confLocked, .select, 0, false⟩ ⟨[.watch], .idle, .select, 1, false⟩ := Step.confSend _ rfl (by decide)
    have s3 : Step p ⟨[.watch], .idle, .select, 1, false⟩ ⟨[], .watchSending, .select, 1, false⟩ := Step.watchLock _ [] rfl rfl rfl
    have s4 : Step p ⟨[], .watchSending, .select, 1, false⟩ ⟨[], .watchSending, .wantPartR, 0, false⟩ := Step.recvNotif _ rfl (by decide)
    have s5 : Step p ⟨[], .watchSending, .wantPartR, 0, false⟩ ⟨[], .watchSending, .handler, 0, false⟩ := Step.takePartR _ rfl rfl
    have s6 : Step p ⟨[], .watchSending, .handler, 0, false⟩ ⟨[.commit], .watchSending, .waitCommit, 0, true⟩ := Step.handlerPropose _ rfl rfl rfl
    exact .step (.step (.step (.step (.step (.step .refl s1) s2) s3) s4) s5) s6
  · refine ⟨by simp [Quiescent], ?_⟩
    intro c' s
    cases s <;> simp_all

/-- a watched partition with an empty replica list makes the loop take `addressesMu` while the apply
goroutine may hold it blocked on a full notification channel (capacity 1 shown; the code's 10 needs
a burst of 11) -/
theorem wedge_when_loop_needs_addresses :
    ∃ c, Reach ⟨1, false, false, true⟩ (init [.conf, .conf, .conf]) c ∧ stuck ⟨1, false, false, true⟩ c := by
  let p : Params := ⟨1, false, false, true⟩
  refine ⟨⟨[], .confLocked, .wantAddrR, 1, false⟩, ?_, ?_⟩
  · have s1 : Step p (init [.conf, .conf, .conf]) ⟨[.conf, .conf], .confLocked, .select, 0, false⟩ := Step.confLock _ _ rfl rfl
    have s2 : Step p ⟨[.conf, .conf], .confLocked, .select, 0, false⟩ ⟨[.conf, .conf], .idle, .select, 1, false⟩ := Step.confSend _ rfl (by decide)
    have s3 : Step p ⟨[.conf, .conf], .idle, .select, 1, false⟩ ⟨[.conf, .conf], .idle, .wantPartR, 0, false⟩ := Step.recvNotif _ rfl (by decide)
    have s4 : Step p ⟨[.conf, .conf], .idle, .wantPartR, 0, false⟩ ⟨[.conf, .conf], .idle, .handler, 0, false⟩ := Step.takePartR _ rfl rfl
    have s5 : Step p ⟨[.conf, .conf], .idle, .handler, 0, false⟩ ⟨[.conf], .confLocked, .handler, 0, false⟩ := Step.confLock _ _ rfl rfl
    have s6 : Step p ⟨[.conf], .confLocked, .handler, 0, false⟩ ⟨[.conf], .idle, .handler, 1, false⟩ := Step.confSend _ rfl (by decide)
    have s7 : Step p ⟨[.conf], .idle, .handler, 1, false⟩ ⟨[], .confLocked, .handler, 1, false⟩ := Step.confLock _ _ rfl rfl
    have s8 : Step p ⟨[], .confLocked, .handler, 1, false⟩ ⟨[], .confLocked, .wantAddrR, 1, false⟩ := Step.handlerAddr _ rfl rfl
    exact .step (.step (.step (.step (.step (.step (.step (.step .refl s1) s2) s3) s4) s5) s6) s7) s8
  · refine ⟨by simp [Quiescent], ?_⟩
    intro c' s
    cases s <;> simp_all [aHoldsAddrW]

/-- **D18 (fixed)**: sending on `updatesC` while holding `partitionsMu` wedges as soon as the loop has
taken a notification and wants the read lock -/
theorem wedge_when_sending_under_lock :
    ∃ c, Reach ⟨10, true, false, false⟩ (init [.conf, .watch]) c ∧ stuck ⟨10, true, false, false⟩ c := by
  let p : Params := ⟨10, true, false, false⟩
  refine ⟨⟨[], .watchSending, .wantPartR, 0, false⟩, ?_, ?_⟩
  · have s1 : Step p (init [.conf, .watch]) ⟨[.watch], .confLocked, .select, 0, false⟩ := Step.confLock _ [.watch] rfl rfl
    have s2 : Step p ⟨[.watch], .confLocked, .select, 0, false⟩ ⟨[.watch], .idle, .select, 1, false⟩ := Step.confSend _ rfl (by decide)
    have s3 : Step p ⟨[.watch], .idle, .select, 1, false⟩ ⟨[], .watchSending, .select, 1, false⟩ := Step.watchLock _ [] rfl rfl rfl
    have s4 : Step p ⟨[], .watchSending, .select, 1, false⟩ ⟨[], .watchSending, .wantPartR, 0, false⟩ := Step.recvNotif _ rfl (by decide)
    exact .step (.step (.step (.step .refl s1) s2) s3) s4
  · refine ⟨by simp [Quiescent], ?_⟩
    intro c' s
    cases s <;> simp_all [aHoldsPartW]

/-! ## the executable successor function used by the model driver is exactly `Step` -/

theorem step_mem_succ (p : Params) (c c' : Cfg) (s : Step p c c') : c' ∈ succ p c := by
  cases s with
  | confLock t ha ht => simp [succ, ha, ht]
  | confSend ha hc => simp [succ, ha, hc]
  | watchLock t ha ht hl => simp [succ, ha, ht, hl]
  | watchSend ha hl => simp [succ, ha, hl]
  | applyCommit t ha ht => simp [succ, ha, ht]
  | recvNotif hl hc => simp [succ, hl, hc]
  | takePartR hl ha => simp [succ, hl, ha]
  | handlerAddr hl hn => simp [succ, hl, hn]
  | takeAddrR hl ha => simp [succ, hl, ha]
  | handlerPropose hl hn hp => simp [succ, hl, hn, hp]
  | handlerDone hl hn hp => simp [succ, hl, hn, hp]
  | commitSeen hl hp => simp [succ, hl, hp]

theorem succ_mem_step (p : Params) (c c' : Cfg) (h : c' ∈ succ p c) : Step p c c' := by
  unfold succ at h
  simp only [List.mem_append] at h
  rcases h with ((((((((h | h) | h) | h) | h) | h) | h) | h) | h) | h
  · -- A starts its next entry
    cases ha : c.a <;> simp only [ha] at h
    · cases ht : c.todo with
      | nil => simp [ht] at h
      | cons e t =>
        cases e <;> simp only [ht] at h
        · simp only [List.mem_cons, List.not_mem_nil, or_false] at h; subst h; exact Step.confLock c t ha ht
        · split at h
          · rename_i hl
            simp only [List.mem_cons, List.not_mem_nil, or_false] at h; subst h; exact Step.watchLock c t ha ht hl
          · cases h
        · simp only [List.mem_cons, List.not_mem_nil, or_false] at h; subst h
          have := Step.applyCommit (p := p) c t ha ht
          simpa [ha] using this
    · cases c.todo <;> simp at h
    · cases c.todo <;> simp at h
  · split at h
    · rename_i hc; simp only [List.mem_cons, List.not_mem_nil, or_false] at h; subst h; exact Step.confSend c hc.1 hc.2
    · cases h
  · split at h
    · rename_i hc; simp only [List.mem_cons, List.not_mem_nil, or_false] at h; subst h; exact Step.watchSend c hc.1 hc.2
    · cases h
  · split at h
    · rename_i hc; simp only [List.mem_cons, List.not_mem_nil, or_false] at h; subst h; exact Step.recvNotif c hc.1 hc.2
    · cases h
  · split at h
    · rename_i hc; simp only [List.mem_cons, List.not_mem_nil, or_false] at h; subst h; exact Step.takePartR c hc.1 hc.2
    · cases h
  · split at h
    · rename_i hc; simp only [List.mem_cons, List.not_mem_nil, or_false] at h; subst h; exact Step.handlerAddr c hc.1 hc.2
    · cases h
  · split at h
    · rename_i hc; simp only [List.mem_cons, List.not_mem_nil, or_false] at h; subst h; exact Step.takeAddrR c hc.1 hc.2
    · cases h
  · split at h
    · rename_i hc; simp only [List.mem_cons, List.not_mem_nil, or_false] at h; subst h; exact Step.handlerPropose c hc.1 hc.2.1 hc.2.2
    · cases h
  · split at h
    · rename_i hc; simp only [List.mem_cons, List.not_mem_nil, or_false] at h; subst h; exact Step.handlerDone c hc.1 hc.2.1 hc.2.2
    · cases h
  · split at h
    · rename_i hc; simp only [List.mem_cons, List.not_mem_nil, or_false] at h; subst h; exact Step.commitSeen c hc.1 hc.2
    · cases h

/-- the driver's successor function is exactly the transition relation -/
theorem mem_succ_iff (p : Params) (c c' : Cfg) : c' ∈ succ p c ↔ Step p c c' :=
  ⟨succ_mem_step p c c', step_mem_succ p c c'⟩

/-! ## what the code does (regenerated facts) -/

/-- `watch`/`unwatch` send after releasing `partitionsMu`; `Conn.AddNode/RemoveNode` send the
notification while holding `addressesMu` on a channel of capacity 10; the loop's node-change
handlers hold `partitionsMu.RLock` and call `Conn.NodeIds()` only for a partition with an empty
replica list; `loadRaft` releases every lock it takes on every path -/
theorem code_shape :
    Generated.allocatorSendsAfterUnlock = true ∧ Generated.connNotifyChanCap = 10 ∧
    Generated.connNotifiesUnderAddressesMu = true ∧ Generated.allocatorNodeIdsOnlyWhenEmpty = true ∧
    Generated.partitionRaftMuBalanced = true := by decide

/-- …and (the reason this property is only partially established) the loop does propose and wait
for a catalogue commit inside the handler, without a timeout -/
theorem loop_waits_for_commit_in_handler : Generated.allocatorHandlerWaitsForCommit = true := by decide

/-- whoever waits for a catalogue change (the allocator loop: without a timeout) is woken on every
path through its apply function: no return that knows the notification id comes without a Notify
(regenerated; seeded change C18-D returns early for a replica that is listed already) -/
theorem catalogue_apply_always_notifies : Generated.catalogueApplyAlwaysNotifies = true := by decide

/-! ## unloading a raft group (dataset deleted, replica moved away, catalogue replayed after a restart)

`unloadRaft` stops the group and deletes its log. The group's loop may hold a `Ready` whose
`wal.Save` is still to come; if that write finds the log gone the node ends itself (`log.Fatal`).
Replaying "create dataset, delete dataset" after a restart does exactly this to a group that has
just started. Repaired in `/repo`: `Stop` returns only once the loop has ended. -/

/-- **no write after the delete**: when `Stop` waits for the loop, in every interleaving of the loop
and the unloader the log is deleted only after the loop has ended, so no write ever finds it gone -/
theorem unload_never_fatal (c : Unload.Cfg) (r : Unload.Reach true c) :
    c.fatal = false ∧ (c.u = Unload.UPc.deleted → c.loop = Unload.LoopPc.ended) := by
  induction r with
  | init => exact ⟨rfl, by intro h; cases h⟩
  | @step c c' _ s ih =>
    obtain ⟨hf, hd⟩ := ih
    cases s with
    | take hl hu => exact ⟨hf, by intro h; simp_all⟩
    | save hl =>
      refine ⟨?_, by intro h; have := hd h; simp_all⟩
      by_cases hdel : c.u = Unload.UPc.deleted
      · have := hd hdel; simp_all
      · simp [hf, hdel]
    | finish hl hu => exact ⟨hf, by intro _; rfl⟩
    | stop hu => exact ⟨hf, by intro h; cases h⟩
    | delete hu hw => exact ⟨hf, by intro _; exact hw rfl⟩

/-- without the wait (the code before the repair) the loop's pending write can come after the
delete: take a Ready, stop, delete the log, write — the node is gone -/
theorem unload_without_wait_can_be_fatal : ∃ c : Unload.Cfg, Unload.Reach false c ∧ c.fatal = true := by
  refine ⟨⟨.select, .deleted, true⟩, ?_, rfl⟩
  have h1 : Unload.Reach false ⟨.handling, .running, false⟩ := .step .init (.take _ rfl rfl)
  have h2 : Unload.Reach false ⟨.handling, .stopped, false⟩ := .step h1 (.stop _ rfl)
  have h3 : Unload.Reach false ⟨.handling, .deleted, false⟩ := .step h2 (.delete _ rfl (by intro h; cases h))
  exact .step h3 (.save _ rfl)

/-- the wait is in the code on this run, and `unloadRaft` deletes the log after `Stop` (regenerated) -/
theorem stop_waits_for_loop_in_code : Generated.raftStopWaitsForLoop = true := by decide

/-! ## non-vacuity: a burst longer than the channel drains completely -/

example : ∃ c', Step ⟨10, false, false, false⟩ (init [.conf, .watch, .conf]) c' :=
  no_wedge ⟨10, false, false, false⟩ (by decide) rfl rfl rfl _ (by decide) _ .refl (by simp [Quiescent, init])


/-- proposing a replica change for a partition whose raft group is not loaded on this node returns an
error (regenerated): the allocator's goroutine survives a member that proposes its own removal -/
theorem replica_change_checks_group_loaded : Generated.replicaChangeChecksGroupLoaded = true := by decide

end Anndb.C18
