import Anndb.Proofs.CodecLemmas
import Anndb.Props.C02
import Anndb.Generated
/-!
# C08 — Index snapshots round-trip exactly for every reachable state and any reader

Model: `Anndb/Model/Codec.lean` — the byte format of `Hnsw.Save` / `Hnsw.Load`
(`index/hnsw_persistence.go`, `index/metadata.go`, `math/vector.go`, `index/config.go`):
big-endian fixed-width fields, 16-byte ids, `int32` level, raw `float32` words, metadata with
`u16` count / `u8` key length / `u16` value length, 16 × (count, vertex records), then edge
records grouped by shard, each level from the top down as (live-link count, (id, score) pairs);
the empty index is the empty stream; optionally a 33-byte header.

`File` is exactly what is written; `File.wf` are the explicit bounds under which the length
fields do not truncate. The `codec` engine checks on every run that the real `Save` output of
reached states decodes under this model to the dumped state, re-encodes to the same bytes, and
that the model's re-encodings load back (through fragmenting readers, into fresh and used
indexes) to the same state.
-/
namespace Anndb.C08
open Anndb.Codec

/-- the stream of a non-empty index is not empty (it starts with the 16-byte entry id) -/
theorem encode_some_ne_nil (f : File) : encode (some f) ≠ [] := by
  intro h
  have := congrArg List.length h
  simp [encode, beBytes_length] at this

/-- **Round trip with exact consumption (non-empty index)**: decoding what was written, followed
by any other bytes, yields exactly the records written and leaves exactly the other bytes. -/
theorem roundtrip_nonempty (dim : Nat) (f : File) (h : f.wf dim) (rest : Bytes) :
    decode dim (encode (some f) ++ rest) = some (some f, rest) := by
  obtain ⟨h1, h2, h3, h4⟩ := h
  unfold decode
  have hne : (encode (some f) ++ rest).isEmpty = false := by
    cases he : encode (some f) ++ rest with
    | nil =>
      have : encode (some f) = [] := (List.append_eq_nil_iff.mp he).1
      exact absurd this (encode_some_ne_nil f)
    | cons a t => rfl
  simp only [hne, Bool.false_eq_true, if_false, encode, List.append_assoc, Option.bind_eq_bind]
  rw [readBE_append 16 f.entry h1]
  simp only [Option.bind_some]
  have hs := decMany_append (fun sh => beBytes 4 sh.length ++ (sh.map encV).flatten) (decShard dim) f.shards
    (fun sh hsh r => by
      have := decShard_append dim sh (h3 sh hsh).1 (h3 sh hsh).2 r
      simpa using this)
  rw [h2] at hs
  rw [hs]
  simp only [Option.bind_some]
  rw [decEdgeGroups_append f.shards f.edges h4]
  rfl

/-- **Round trip, every state** (the empty index is the empty stream): loading its own output
never fails and consumes all of it. -/
theorem roundtrip (dim : Nat) (f : Option File) (h : ∀ g, f = some g → g.wf dim) :
    decode dim (encode f) = some (f, []) := by
  cases f with
  | none => simp [decode, encode]
  | some g =>
    have := roundtrip_nonempty dim g (h g rfl) []
    simpa using this

def Header.wf (h : Header) : Prop :=
  h.algo < 256 ^ 4 ∧ h.levelMult < 256 ^ 4 ∧ h.ef < 256 ^ 4 ∧ h.efC < 256 ^ 4 ∧ h.m < 256 ^ 4 ∧
  h.mMax < 256 ^ 4 ∧ h.mMax0 < 256 ^ 4 ∧ h.dim < 256 ^ 4 ∧ h.space < 256

theorem header_roundtrip (h : Header) (hw : Header.wf h) (rest : Bytes) :
    decHeader (encHeader h ++ rest) = some (h, rest) := by
  obtain ⟨h1, h2, h3, h4, h5, h6, h7, h8, h9⟩ := hw
  unfold decHeader encHeader
  simp only [List.append_assoc, Option.bind_eq_bind]
  rw [readBE_append 4 h.algo h1]; simp only [Option.bind_some]
  rw [readBE_append 4 h.levelMult h2]; simp only [Option.bind_some]
  rw [readBE_append 4 h.ef h3]; simp only [Option.bind_some]
  rw [readBE_append 4 h.efC h4]; simp only [Option.bind_some]
  rw [readBE_append 4 h.m h5]; simp only [Option.bind_some]
  rw [readBE_append 4 h.mMax h6]; simp only [Option.bind_some]
  rw [readBE_append 4 h.mMax0 h7]; simp only [Option.bind_some]
  rw [readBE_append 4 h.dim h8]; simp only [Option.bind_some]
  rw [readBE_append 1 h.space (by simpa using h9)]
  rfl

/-- **Round trip with header**: the header decides the dimension used for the rest -/
theorem roundtrip_with_header (h : Header) (hw : Header.wf h) (f : Option File)
    (hf : ∀ g, f = some g → g.wf h.dim) :
    decodeH (encodeH h f) = some (h, f, []) := by
  unfold decodeH encodeH
  simp only [Option.bind_eq_bind]
  rw [header_roundtrip h hw]
  simp only [Option.bind_some]
  rw [roundtrip h.dim f hf]
  rfl

/-! ### memory proportional to the input -/

theorem takeN_len (n : Nat) (bs a rest : Bytes) (h : takeN n bs = some (a, rest)) :
    rest.length + n = bs.length ∧ a.length = n := by
  unfold takeN at h
  split at h
  · cases h
  · simp only [Option.some.injEq, Prod.mk.injEq] at h
    obtain ⟨h1, h2⟩ := h
    subst h1; subst h2
    simp only [List.length_drop, List.length_take]
    omega

theorem readBE_len (w : Nat) (bs : Bytes) (n : Nat) (rest : Bytes) (h : readBE w bs = some (n, rest)) :
    rest.length + w = bs.length := by
  unfold readBE at h
  cases ht : takeN w bs with
  | none => simp [ht] at h
  | some p =>
    obtain ⟨a, r⟩ := p
    simp only [ht, Option.map_some, Option.some.injEq, Prod.mk.injEq] at h
    obtain ⟨_, h2⟩ := h
    subst h2
    exact (takeN_len w bs a r ht).1

/-- every vertex record consumes at least its 16 id bytes -/
theorem decV_consumes (dim : Nat) (bs : Bytes) (v : VRec) (rest : Bytes) (h : decV dim bs = some (v, rest)) :
    rest.length < bs.length := by
  unfold decV at h
  simp only [Option.bind_eq_bind] at h
  cases h1 : readBE 16 bs with
  | none => simp [h1] at h
  | some p1 =>
    obtain ⟨id, b1⟩ := p1
    have l1 := readBE_len 16 bs id b1 h1
    simp only [h1, Option.bind_some] at h
    cases h2 : readBE 4 b1 with
    | none => simp [h2] at h
    | some p2 =>
      obtain ⟨lvl, b2⟩ := p2
      have l2 := readBE_len 4 b1 lvl b2 h2
      simp only [h2, Option.bind_some] at h
      cases h3 : decMany (readBE 4) dim b2 with
      | none => simp [h3] at h
      | some p3 =>
        obtain ⟨vec, b3⟩ := p3
        have l3 := (decMany_count_le (readBE 4) (fun bs x r hh => by have := readBE_len 4 bs x r hh; omega) dim b2 vec b3 h3).1
        simp only [h3, Option.bind_some] at h
        cases h4 : readBE 2 b3 with
        | none => simp [h4] at h
        | some p4 =>
          obtain ⟨n, b4⟩ := p4
          have l4 := readBE_len 2 b3 n b4 h4
          simp only [h4, Option.bind_some] at h
          cases h5 : decMany decKV n b4 with
          | none => simp [h5] at h
          | some p5 =>
            obtain ⟨md, b5⟩ := p5
            simp only [h5, Option.bind_some, Option.pure_def, Option.some.injEq, Prod.mk.injEq] at h
            obtain ⟨_, hr⟩ := h
            subst hr
            have hkv : ∀ bs x r, decKV bs = some (x, r) → r.length < bs.length := by
              intro bs x r hh
              unfold decKV at hh
              simp only [Option.bind_eq_bind] at hh
              cases k1 : readBE 1 bs with
              | none => simp [k1] at hh
              | some q1 =>
                obtain ⟨kl, c1⟩ := q1
                have m1 := readBE_len 1 bs kl c1 k1
                simp only [k1, Option.bind_some] at hh
                cases k2 : takeN kl c1 with
                | none => simp [k2] at hh
                | some q2 =>
                  obtain ⟨k, c2⟩ := q2
                  have m2 := (takeN_len kl c1 k c2 k2).1
                  simp only [k2, Option.bind_some] at hh
                  cases k3 : readBE 2 c2 with
                  | none => simp [k3] at hh
                  | some q3 =>
                    obtain ⟨vl, c3⟩ := q3
                    have m3 := readBE_len 2 c2 vl c3 k3
                    simp only [k3, Option.bind_some] at hh
                    cases k4 : takeN vl c3 with
                    | none => simp [k4] at hh
                    | some q4 =>
                      obtain ⟨vv, c4⟩ := q4
                      have m4 := (takeN_len vl c3 vv c4 k4).1
                      simp only [k4, Option.bind_some, Option.pure_def, Option.some.injEq, Prod.mk.injEq] at hh
                      obtain ⟨_, hr⟩ := hh
                      subst hr
                      omega
            have l5 := (decMany_count_le decKV hkv n b4 md b5 h5).1
            omega

/-- **The vertex count read from the stream never exceeds the bytes that follow it**: a shard
that decodes successfully had at most as many vertices as input bytes — so the map and the
records `Load` allocates for a shard are bounded by the input length, not by the number read.
(This is what makes loading one's own output use memory proportional to the input.) -/
theorem shard_count_bounded (dim : Nat) (bs : Bytes) (sh : List VRec) (rest : Bytes)
    (h : decShard dim bs = some (sh, rest)) : sh.length + 4 ≤ bs.length := by
  unfold decShard at h
  simp only [Option.bind_eq_bind] at h
  cases h1 : readBE 4 bs with
  | none => simp [h1] at h
  | some p =>
    obtain ⟨n, b1⟩ := p
    have l1 := readBE_len 4 bs n b1 h1
    simp only [h1, Option.bind_some] at h
    have := decMany_count_le (decV dim) (decV_consumes dim) n b1 sh rest h
    omega

/-! ### any reader: fragmentation cannot matter -/

/-- `Load`, `Metadata.load`, `Vector.Load` and `hnswConfig.load` read only through
`io.ReadFull` / `binary.Read` (which itself uses `io.ReadFull`): no bare `Read` call whose
short count could be ignored (regenerated from the four files on every run). Under that
fact the bytes a `Load` sees are the concatenation of the chunks, which is what `decode`
consumes — so decoding is independent of how the reader fragments the stream. -/
theorem no_bare_reads : Generated.codecBareReads = [] := by decide

/-- the widths of the length fields are the ones the model uses (regenerated) -/
theorem length_field_widths :
    Generated.codecMetadataCountType = "uint16" ∧ Generated.codecKeyLenType = "uint8" ∧
    Generated.codecValLenType = "uint16" := by decide

/-! ### loading into a used index

`Hnsw.Load` works on the receiver: what is left of the old contents depends on which fields it
clears before reading. `loadInto rs old f` is the index state after `Load` of the stream of `f`
(`none` = the empty stream, where `Load` returns right after the resets) into an index in state
`old`, when exactly the fields named in `rs` are cleared first; the vertex loop replaces shard `i`
and adds to `len` / `bytesSize`, as the code does. -/

structure IdxState where
  len : Nat
  bytes : Nat
  entry : Option Nat
  shards : List (List VRec)
deriving DecidableEq, Repr

def IdxState.empty : IdxState := ⟨0, 0, none, List.replicate 16 []⟩

def vbytes (v : VRec) : Nat := 16 + 4 * v.vec.length + (v.md.map fun kv => kv.key.length + kv.val.length).sum

def loadInto (rs : List String) (old : IdxState) : Option File → IdxState
  | none =>
    { len := if "len" ∈ rs then 0 else old.len,
      bytes := if "bytesSize" ∈ rs then 0 else old.bytes,
      entry := if "entrypoint" ∈ rs then none else old.entry,
      shards := if "vertices" ∈ rs then List.replicate 16 [] else old.shards }
  | some f =>
    { len := (if "len" ∈ rs then 0 else old.len) + (f.shards.map List.length).sum,
      bytes := (if "bytesSize" ∈ rs then 0 else old.bytes) + ((f.shards.map fun sh => (sh.map vbytes).sum).sum),
      entry := some f.entry,
      shards := f.shards }

/-- **nothing stale**: with the resets the code performs on this run (regenerated), loading any
stream into any used index gives exactly the state that loading it into a brand-new index gives —
no stale item, no stale counter, no stale entry point; for the empty stream that state is the
empty index -/
theorem load_into_used_is_load_into_fresh (old : IdxState) (f : Option File) :
    loadInto Generated.hnswLoadResets old f = loadInto Generated.hnswLoadResets IdxState.empty f := by
  have : Generated.hnswLoadResets = ["len", "bytesSize", "entrypoint", "vertices"] := by decide
  rw [this]
  cases f <;> simp [loadInto, IdxState.empty]

theorem load_empty_stream_empties (old : IdxState) :
    loadInto Generated.hnswLoadResets old none = IdxState.empty := by
  have : Generated.hnswLoadResets = ["len", "bytesSize", "entrypoint", "vertices"] := by decide
  rw [this]; simp [loadInto, IdxState.empty]

/-- without the shard reset, the empty stream loaded into a used index keeps its items (the shape
of seeded change C08-A and of defect D5) -/
theorem no_shard_reset_keeps_stale_items :
    let old : IdxState := ⟨1, 24, some 7, [[⟨7, 0, [0, 0], []⟩]] ++ List.replicate 15 []⟩
    (loadInto ["len", "bytesSize", "entrypoint"] old none).shards ≠ IdxState.empty.shards := by decide

/-! ### every reachable state's metadata fits the format

`File.wf` bounds the metadata of every vertex record by the width of the length fields. Since the
repair of D5 that is no assumption about the saved state: the partition refuses metadata that does
not fit (`Metadata.Validate`, model `mdFits`), so every item a partition can hold satisfies the
bound (`C02.reachable_metadata_fits`, with `C02.partition_refines_map` for "the index holds what
the specification holds"). -/

/-- a stored item's metadata as the codec writes it: the UTF-8 bytes of key and value -/
def kvOf (kv : String × String) : KV :=
  ⟨kv.1.toUTF8.data.toList.map (·.toNat), kv.2.toUTF8.data.toList.map (·.toNat)⟩

theorem metadata_wf_of_fits (md : Meta) (h : mdFits md = true) :
    (md.map kvOf).length < 65536 ∧ ∀ kv ∈ md.map kvOf, kv.wf := by
  unfold mdFits at h
  simp only [Bool.and_eq_true, decide_eq_true_eq, List.all_eq_true] at h
  refine ⟨by simp only [List.length_map]; omega, ?_⟩
  intro kv hkv
  obtain ⟨x, hx, rfl⟩ := List.mem_map.mp hkv
  have := h.2 x hx
  simp only [KV.wf, kvOf, List.length_map, Array.length_toList]
  have h1 : x.1.toUTF8.data.size = x.1.utf8ByteSize := by
    have : x.1.toUTF8.size = x.1.utf8ByteSize := by simp
    exact this
  have h2 : x.2.toUTF8.data.size = x.2.utf8ByteSize := by
    have : x.2.toUTF8.size = x.2.utf8ByteSize := by simp
    exact this
  omega

/-- **the metadata clause of `File.wf` holds in every reachable partition state** -/
theorem reachable_metadata_wf (log : List Change) (i : ItemId) (it : SItem)
    (h : (Spec.empty.runLog log).1.get i = some it) :
    (it.md.map kvOf).length < 65536 ∧ ∀ kv ∈ it.md.map kvOf, kv.wf :=
  metadata_wf_of_fits it.md (C02.reachable_metadata_fits log i it h)

/-- the repair is in the code on this run: `Hnsw.Insert` validates first, both update paths validate
the merged metadata before the old item is removed, and the limits are the format's (regenerated) -/
theorem metadata_validated_in_code :
    Generated.metadataValidatedOnInsert = true ∧ Generated.metadataValidatedBeforeRemoveOnUpdate = true ∧
    Generated.metadataLimits = [65535, 255, 65535] := by decide

/-! ### non-vacuity -/

def sampleFile : File :=
  { entry := 7,
    shards := [[⟨7, 1, [1065353216, 0], [⟨[107], [118, 49]⟩]⟩], [⟨9, 0, [0, 1073741824], []⟩]] ++ List.replicate 14 [],
    edges := [[⟨7, [[], [(9, 1084227584)]]⟩], [⟨9, [[(7, 1084227584)]]⟩]] ++ List.replicate 14 [] }

theorem sampleFile_wf : sampleFile.wf 2 := by
  refine ⟨by decide, by decide, ?_, ?_⟩
  · intro sh hsh
    simp only [sampleFile, List.mem_append, List.mem_cons, List.not_mem_nil, or_false, List.mem_replicate] at hsh
    rcases hsh with (rfl | rfl) | ⟨_, rfl⟩
    · refine ⟨by decide, ?_⟩
      intro v hv
      simp only [List.mem_cons, List.not_mem_nil, or_false] at hv
      subst hv
      refine ⟨by decide, by decide, rfl, by decide, by decide, ?_⟩
      intro kv hkv
      simp only [List.mem_cons, List.not_mem_nil, or_false] at hkv
      subst hkv
      exact ⟨by decide, by decide⟩
    · refine ⟨by decide, ?_⟩
      intro v hv
      simp only [List.mem_cons, List.not_mem_nil, or_false] at hv
      subst hv
      exact ⟨by decide, by decide, rfl, by decide, by decide, by simp⟩
    · exact ⟨by decide, by simp⟩
  · simp only [sampleFile, List.replicate, List.cons_append, List.nil_append, File.wf.List.Forall₂']
    refine ⟨rfl, ?_, rfl, ?_, ?_⟩
    · intro e he
      simp only [List.mem_cons, List.not_mem_nil, or_false] at he
      subst he
      refine ⟨by decide, by decide, by decide, ?_⟩
      intro l hl
      simp only [List.mem_cons, List.not_mem_nil, or_false] at hl
      rcases hl with rfl | rfl
      · exact ⟨by decide, by simp⟩
      · exact ⟨by decide, by decide⟩
    · intro e he
      simp only [List.mem_cons, List.not_mem_nil, or_false] at he
      subst he
      refine ⟨by decide, by decide, by decide, ?_⟩
      intro l hl
      simp only [List.mem_cons, List.not_mem_nil, or_false] at hl
      subst hl
      exact ⟨by decide, by decide⟩
    · simp

example : decode 2 (encode (some sampleFile) ++ [1, 2, 3]) = some (some sampleFile, [1, 2, 3]) :=
  roundtrip_nonempty 2 sampleFile sampleFile_wf [1, 2, 3]


/-- `Metadata.Validate` and the length fields `Save` writes agree on the unit: bytes (regenerated) -/
theorem metadata_limits_are_byte_lengths : Generated.metadataLimitsAreByteLengths = true := by decide

end Anndb.C08
