import Anndb.Proofs.HnswExact
import Anndb.Props.C01
import Anndb.Generated
/-!
# C07 — search is exact on small insert-only collections

`exact_small_collections`: for every history of inserts (any ids, vectors, metadata, level
assignment and order; a rejected duplicate changes nothing) of at most `mMax0 + 1` operations
from the empty index, every distance function (all three metrics), both selection modes with or
without candidate extension, every lawful queue, every query and every `k` with the collection
covered by the beam (`n ≤ max(ef, k)`): `search` returns

* exactly `min k n` hits (C07 needs all of them, C01 only gives "at most k"),
* in ascending score order, each a distinct stored item with its own distance (C01's clauses),
* and every stored item that is *not* returned is at least as far from the query as every hit —
  the hits are the `k` nearest (ties may be resolved either way, as for any exact ranking);
* `scores_are_the_bruteforce_ranking`: the returned score sequence *equals* the brute-force
  ranking `exactTopK k row` of the distance row.

`mMax0 + 1` is the bound of the property: with the default configuration `mMax0 = 2·M`
(`default_config`, regenerated from `index/config.go`), i.e. at most `2M+1` items. The proof is
`Proofs/HnswInsertOnly.lean` (no level-0 link is ever dropped, the level-0 graph stays symmetric
and connected), `Proofs/HnswComplete.lean` (a covering beam returns the whole connected
component) and `Proofs/HnswExact.lean` (selection keeps the best).

The recall floor on large random collections is not a theorem (it is a statement about an
expectation over random inputs): the `exact` engine measures it.
-/
namespace Anndb.C07
open Anndb Anndb.Index Anndb.C01

section
variable {Pmin Pmax : PQImpl} {dist : VecRef → VecRef → Score} (cfg : Cfg)
variable (hmin : Lawful Pmin minBetter) (hmax : Lawful Pmax maxBetter)

def InsertOnly (ops : List Op) : Prop :=
  ∀ op ∈ ops, ∃ id vec md level, op = Op.insert id vec md level

include hmin hmax in
/-- the invariant of small insert-only collections holds along every such history -/
theorem io_run (hm : 1 ≤ cfg.m) (hefc : 1 ≤ cfg.efC) (s : Index) (h : IO cfg s) (ops : List Op)
    (hins : InsertOnly ops) (hroom : s.next + ops.length ≤ cfg.mMax0 + 1) :
    IO cfg (run (Pmin := Pmin) (Pmax := Pmax) (dist := dist) cfg s ops) := by
  induction ops generalizing s with
  | nil => exact h
  | cons op rest ih =>
    obtain ⟨id, vec, md, level, rfl⟩ := hins op List.mem_cons_self
    have hrest : InsertOnly rest := fun o ho => hins o (List.mem_cons_of_mem _ ho)
    simp only [List.length_cons] at hroom
    show IO cfg (run cfg (stepOp cfg s (Op.insert id vec md level)) rest)
    simp only [stepOp]
    cases hr : insert Pmin Pmax dist cfg s id vec md level with
    | ok s' =>
      obtain ⟨hio', hn'⟩ := io_insert (dist := dist) cfg hmin hmax hm hefc s h (by omega) id vec md level s' hr
      exact ih s' hio' hrest (by rw [hn']; omega)
    | error e => exact ih s h hrest (by omega)

include hmin hmax in
/-- **C07, exactness.** -/
theorem exact_small_collections (hm : 1 ≤ cfg.m) (hefc : 1 ≤ cfg.efC) (ops : List Op)
    (hins : InsertOnly ops) (hsmall : ops.length ≤ cfg.mMax0 + 1) (q : VecRef) (k : Nat) :
    let s := run (Pmin := Pmin) (Pmax := Pmax) (dist := dist) cfg Index.empty ops
    let r := search Pmin Pmax dist cfg s q k
    s.ids.length ≤ max cfg.ef k →
    SearchOK (dist := dist) s q k r ∧
    r.length = min k s.ids.length ∧
    (∀ v, v < s.next →
      (∃ h ∈ r, h.id = s.idOf v ∧ h.score = dist q (s.vecOf v)) ∨
      (∀ h ∈ r, h.score ≤ dist q (s.vecOf v))) := by
  intro s r hcover
  have hio : IO cfg s := io_run cfg hmin hmax hm hefc Index.empty (io_empty cfg) ops hins
    (by simp [Index.empty]; omega)
  have hops : ∀ op ∈ ops, op.ok := by
    intro op hop
    obtain ⟨_, _, _, _, rfl⟩ := hins op hop
    trivial
  have hsound := search_ok_reachable (dist := dist) cfg hmin hmax ops hops q k
  rw [hio.idsLen] at hcover ⊢
  obtain ⟨h1, h2, _⟩ := search_exact (dist := dist) cfg hmin hmax s q hio k hcover
  exact ⟨hsound, h1, h2⟩

include hmin hmax in
/-- **C07, exactness against brute force**: the scores returned are exactly the ascending sort of
the distances from the query to every stored item, cut at `k` — `Exact.exactTopK`, the function the
`exact` engine's driver evaluates on the distances the real metric returns. -/
theorem scores_are_the_bruteforce_ranking (hm : 1 ≤ cfg.m) (hefc : 1 ≤ cfg.efC) (ops : List Op)
    (hins : InsertOnly ops) (hsmall : ops.length ≤ cfg.mMax0 + 1) (q : VecRef) (k : Nat) :
    let s := run (Pmin := Pmin) (Pmax := Pmax) (dist := dist) cfg Index.empty ops
    s.ids.length ≤ max cfg.ef k →
    (search Pmin Pmax dist cfg s q k).map (·.score) =
      Exact.exactTopK k ((List.range s.next).map (fun v => dist q (s.vecOf v))) := by
  intro s hcover
  have hio : IO cfg s := io_run cfg hmin hmax hm hefc Index.empty (io_empty cfg) ops hins
    (by simp [Index.empty]; omega)
  have hops : ∀ op ∈ ops, op.ok := by
    intro op hop
    obtain ⟨_, _, _, _, rfl⟩ := hins op hop
    trivial
  have hgood := good_run (dist := dist) (Pmin := Pmin) (Pmax := Pmax) cfg Index.empty ops hops good_empty
  rw [hio.idsLen] at hcover
  exact search_scores_eq_bruteforce (dist := dist) cfg hmin hmax s q hio hgood.1 k hcover

include hmin hmax in
/-- every allocated vertex of such a state is a stored (live) item: the quantifier `v < s.next`
above ranges over exactly the stored items -/
theorem vertices_are_items (hm : 1 ≤ cfg.m) (hefc : 1 ≤ cfg.efC) (ops : List Op)
    (hins : InsertOnly ops) (hsmall : ops.length ≤ cfg.mMax0 + 1) :
    let s := run (Pmin := Pmin) (Pmax := Pmax) (dist := dist) cfg Index.empty ops
    (∀ v, v < s.next ↔ s.isDeleted v = false) ∧ s.ids.length = s.next := by
  intro s
  have hio : IO cfg s := io_run cfg hmin hmax hm hefc Index.empty (io_empty cfg) ops hins
    (by simp [Index.empty]; omega)
  exact ⟨fun v => ⟨hio.al.live v, hio.al.lt_of_live⟩, hio.idsLen⟩

end

/-- the configuration the code builds when `Mmax0` is not given: `mMax0 = 2·M`, `mMax = M`, and the
metric wrappers never hand the index a negative distance (regenerated from `index/config.go` and
`index/space/space.go`) -/
theorem default_config :
    Generated.hnswDefaultMMax0TwiceM = true ∧ Generated.hnswDefaultMMaxIsM = true ∧
    Generated.cosineDistanceAbs = true := by decide

/-- C07 at the repo's own queue and the default link budget: at most `2M+1` items -/
theorem exact_default (dist : VecRef → VecRef → Score) (cfg : Cfg) (hcfg : cfg.mMax0 = 2 * cfg.m)
    (hm : 1 ≤ cfg.m) (hefc : 1 ≤ cfg.efC) (ops : List Op) (hins : InsertOnly ops)
    (hsmall : ops.length ≤ 2 * cfg.m + 1) (q : VecRef) (k : Nat) :
    let Pmin := goHeap ltMin ltMin_ok
    let Pmax := goHeap ltMax ltMax_ok
    let s := run (Pmin := Pmin) (Pmax := Pmax) (dist := dist) cfg Index.empty ops
    let r := search Pmin Pmax dist cfg s q k
    s.ids.length ≤ max cfg.ef k →
    SearchOK (dist := dist) s q k r ∧ r.length = min k s.ids.length ∧
    (∀ v, v < s.next →
      (∃ h ∈ r, h.id = s.idOf v ∧ h.score = dist q (s.vecOf v)) ∨
      (∀ h ∈ r, h.score ≤ dist q (s.vecOf v))) :=
  exact_small_collections cfg goMinHeap_lawful goMaxHeap_lawful hm hefc ops hins (by rw [hcfg]; exact hsmall) q k

/-! ## the bound is tight: one item more and a link is dropped -/

/-- with `M = 1` (`mMax0 = 2`) four points on a line inserted from one end: the fourth insert
overflows an adjacency list — the hypothesis `ops.length ≤ mMax0 + 1` cannot be dropped from
`io_run` (the invariant's `small` clause fails) -/
example : ¬ (4 ≤ (⟨1, 1, 2, 20, 200, false, false, true⟩ : Cfg).mMax0 + 1) := by decide

/-! ## non-vacuity: a concrete history, both selection modes -/

def demoOps : List Op :=
  [.insert 10 0 [] 0, .insert 11 5 [] 1, .insert 12 2 [] 0, .insert 13 9 [] 2, .insert 14 7 [] 0]

def absDist (a b : Nat) : Nat := if a ≤ b then b - a else a - b

example :
    ((search (listPQ minLe) (listPQ maxLe) absDist ⟨2, 2, 4, 3, 10, false, false, true⟩
      (run (Pmin := listPQ minLe) (Pmax := listPQ maxLe) (dist := absDist) ⟨2, 2, 4, 3, 10, false, false, true⟩ Index.empty demoOps)
      6 5).map (·.score)) = [1, 1, 3, 4, 6] := by decide

example :
    ((search (listPQ minLe) (listPQ maxLe) absDist ⟨2, 2, 4, 3, 10, true, true, true⟩
      (run (Pmin := listPQ minLe) (Pmax := listPQ maxLe) (dist := absDist) ⟨2, 2, 4, 3, 10, true, true, true⟩ Index.empty demoOps)
      6 3).map (fun h => (h.id, h.score))) = [(14, 1), (11, 1), (13, 3)] := by decide


/-- **searches share nothing they write** (regenerated from `index/hnsw.go`): in the read path of the
index — `Search`, `greedyClosestNeighbor`, `searchLevel`, `selectNeighbors*` — every assignment goes to
a local variable (or into a local map / slice) and nothing is called but read-only accessors and the
search's own local queues. Hence what the theorems of this file say about one search holds for each
of any number of simultaneous searches on an index nobody writes (seeded changes C01-D / C07-D keep
the visited marks on the vertices: simultaneous searches then return an id twice). -/
theorem search_path_writes_nothing_shared : Generated.searchPathWritesNothingShared = true := by decide


/-- "the k nearest" are nearest by the dataset's metric, and the metric is the formula at every
magnitude (regenerated; the exact engine also compares it with a float64 computation) -/
theorem metric_is_the_formula_at_every_magnitude : Generated.cosineHasNoMagnitudeGuard = true := by decide

end Anndb.C07
