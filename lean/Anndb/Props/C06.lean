import Anndb.Model.WalKeys
import Anndb.Proofs.WalFlush
import Anndb.Proofs.WalEntries
import Anndb.Proofs.WalBelow
import Anndb.Proofs.WalBoth
import Anndb.Proofs.CodecLemmas
import Anndb.Generated
/-!
# C06 — Badger raft log honours the raft storage contract, per group, across reopen

This file: the key layout (injectivity, prefix disjointness), group isolation on the shared
database, and the refinement of the per-group store model (`Model/Wal.lean`, which the `wal`
engine ties to the real `badgerWAL` *and* whose specification `Mem` it ties to etcd's real
`MemoryStorage`, transcript-exact) to that specification:

* `store_refines_memorystorage` — for every history of legal calls (batches of consecutive entries
  with a hard state, local snapshot + compaction, installation of a received snapshot, reopen of
  the database) that `MemoryStorage`
  accepts from its initial state, the Badger-backed store accepts it, keeps its representation
  invariant `WF` (consecutive keys, dummy = snapshot entry, every cached value equal to what a
  scan returns) and stands for exactly the `MemoryStorage` state (`abs`);
* `reads_agree` — in every such state `FirstIndex`, `LastIndex`, `Term i` (value and error class),
  `Snapshot` and the hard state are what `MemoryStorage` answers;
* `reopen_changes_nothing` — dropping all caches (`NewBadgerWAL` over the same database) changes
  neither the abstract state nor the invariant.

* `entries_agree` — in every such state, for every window `first ≤ lo < hi ≤ last + 1` and every
  size limit, `Entries` returns exactly the list `MemoryStorage.Entries` returns (the single-key
  read for a window of one, the prefix scan cut at `hi` and at the size limit otherwise), and at or
  below the compacted prefix both refuse with `ErrCompacted`;
* `delete_group_leaves_nothing` — `DeleteGroup` leaves none of the group's keys and a reopen
  afterwards is a fresh store (with `isolation_batch`: and touches no other group's keys).

* `store_refines_memorystorage_any_start` — the same refinement for histories whose batches may
  start below the first index (entries compacted away meanwhile): the store drops what
  `MemoryStorage.Append` drops.

* `store_refines_memorystorage_every_save` — the same again for histories that also contain a
  `Save` carrying a received snapshot *and* the entries that follow it (one `Ready` of etcd/raft can
  hold both): it equals the save of the snapshot followed by the save of the entries (`save_seq`),
  and refines `ApplySnapshot`, `Append`, `SetHardState`.

Every call shape etcd/raft's `Ready` loop can produce is covered by a theorem; shapes it cannot
produce (a snapshot with entries that do not start right after it, a batch that leaves a gap) are
exercised by the `wal` engine only, where `MemoryStorage` itself panics or misbehaves.
-/
namespace Anndb.C06
open Anndb.Wal Anndb.WalKeys Anndb.Codec

theorem beBytes_inj (w a b : Nat) (ha : a < 256 ^ w) (hb : b < 256 ^ w) (h : beBytes w a = beBytes w b) : a = b := by
  have := congrArg beNat h
  rwa [beNat_beBytes w a ha, beNat_beBytes w b hb] at this

/-- **entry keys are injective** in (group, index) for 16-byte group ids and 64-bit indices -/
theorem entryKey_inj (g g' : Key) (i j : Nat) (hg : g.length = 16) (hg' : g'.length = 16)
    (hi : i < 256 ^ 8) (hj : j < 256 ^ 8) (h : entryKey g i = entryKey g' j) : g = g' ∧ i = j := by
  unfold entryKey at h
  have h1 := List.append_inj h (by rw [hg, hg'])
  exact ⟨h1.1, beBytes_inj 8 i j hi hj h1.2⟩

/-- the three kinds of key never collide: lengths 24 / 18, and "hs" ≠ "ss" -/
theorem kinds_disjoint (g g' : Key) (i : Nat) (hg : g.length = 16) (hg' : g'.length = 16) :
    entryKey g i ≠ hsKey g' ∧ entryKey g i ≠ ssKey g' ∧ hsKey g ≠ ssKey g' := by
  refine ⟨?_, ?_, ?_⟩
  · intro h
    have := congrArg List.length h
    simp [entryKey, hsKey, beBytes_length, hg, hg'] at this
  · intro h
    have := congrArg List.length h
    simp [entryKey, ssKey, beBytes_length, hg, hg'] at this
  · intro h
    simp [hsKey, ssKey] at h

theorem hsKey_inj (g g' : Key) (h : hsKey g = hsKey g') : g = g' := by
  simpa [hsKey] using h

theorem ssKey_inj (g g' : Key) (h : ssKey g = ssKey g') : g = g' := by
  simpa [ssKey] using h

/-- **prefix iteration stays inside the group**: an entry key of another group never has this
group's id as a prefix -/
theorem entry_prefix_disjoint (g g' : Key) (i : Nat) (hg : g.length = 16) (hg' : g'.length = 16)
    (hne : g ≠ g') : ¬ g <+: entryKey g' i := by
  intro ⟨t, ht⟩
  unfold entryKey at ht
  have := (List.append_inj ht (by rw [hg, hg'])).1
  exact hne this

/-- a hard-state or snapshot key of *any* group has this group's id as a prefix only at the
excluded point: the id starts with the bytes "hs" (resp. "ss") followed by the first 14 bytes of
the other id. Random (v4) partition ids hit it with probability 2^-128; the zero group's id is
all zero bytes. The hypothesis is stated so that the excluded point is visible. -/
theorem meta_prefix_disjoint (g g' : Key) (hg : g.length = 16) (hg' : g'.length = 16)
    (hhs : g.take 2 ≠ [104, 115]) (hss : g.take 2 ≠ [115, 115]) :
    ¬ g <+: hsKey g' ∧ ¬ g <+: ssKey g' := by
  constructor
  · intro ⟨t, ht⟩
    apply hhs
    have := congrArg (List.take 2) ht
    rw [List.take_append_of_le_length (by omega)] at this
    simpa [hsKey] using this
  · intro ⟨t, ht⟩
    apply hss
    have := congrArg (List.take 2) ht
    rw [List.take_append_of_le_length (by omega)] at this
    simpa [ssKey] using this

/-- **Group isolation, one batch operation**: whatever group `g` writes or deletes, every key of a
different group `g'` reads as before. -/
theorem isolation_op (g g' : Key) (hg : g.length = 16) (hg' : g'.length = 16) (hne : g ≠ g')
    (db : Db) (op : BOp) (i : Nat) (hi : i < 256 ^ 8)
    (hidx : ∀ e, op = .setEntry e → e.index < 256 ^ 8) (hdel : ∀ j, op = .delEntry j → j < 256 ^ 8) :
    entryAt g' (applyOp g db op) i = entryAt g' db i ∧
    hsOf g' (applyOp g db op) = hsOf g' db ∧ ssOf g' (applyOp g db op) = ssOf g' db := by
  have kd := kinds_disjoint
  cases op with
  | setEntry e =>
    have hk : entryKey g' i ≠ entryKey g e.index := fun h =>
      hne (entryKey_inj g' g i e.index hg' hg hi (hidx e rfl) h).1.symm
    refine ⟨by simp [entryAt, applyOp, Db.set, hk], ?_, ?_⟩
    · simp [hsOf, applyOp, Db.set, (kd g g' e.index hg hg').1.symm]
    · simp [ssOf, applyOp, Db.set, (kd g g' e.index hg hg').2.1.symm]
  | delEntry j =>
    have hk : entryKey g' i ≠ entryKey g j := fun h =>
      hne (entryKey_inj g' g i j hg' hg hi (hdel j rfl) h).1.symm
    refine ⟨by simp [entryAt, applyOp, Db.del, hk], ?_, ?_⟩
    · simp [hsOf, applyOp, Db.del, (kd g g' j hg hg').1.symm]
    · simp [ssOf, applyOp, Db.del, (kd g g' j hg hg').2.1.symm]
  | setHS h =>
    refine ⟨by simp [entryAt, applyOp, Db.set, (kd g' g i hg' hg).1], ?_, ?_⟩
    · have : hsKey g' ≠ hsKey g := fun h => hne (hsKey_inj g' g h).symm
      simp [hsOf, applyOp, Db.set, this]
    · simp [ssOf, applyOp, Db.set, (kd g g' 0 hg hg').2.2.symm]
  | setSS s =>
    refine ⟨by simp [entryAt, applyOp, Db.set, (kd g' g i hg' hg).2.1], ?_, ?_⟩
    · simp [hsOf, applyOp, Db.set, (kd g' g 0 hg' hg).2.2]
    · have : ssKey g' ≠ ssKey g := fun h => hne (ssKey_inj g' g h).symm
      simp [ssOf, applyOp, Db.set, this]

/-- **Group isolation, any batch**: a whole `WriteBatch` of group `g` (what `Save`,
`CreateSnapshot`, `reset` and `DeleteGroup` flush) leaves every other group's keys untouched. -/
theorem isolation_batch (g g' : Key) (hg : g.length = 16) (hg' : g'.length = 16) (hne : g ≠ g')
    (ops : List BOp) (db : Db) (i : Nat) (hi : i < 256 ^ 8)
    (hops : ∀ op ∈ ops, (∀ e, op = .setEntry e → e.index < 256 ^ 8) ∧ (∀ j, op = .delEntry j → j < 256 ^ 8)) :
    entryAt g' (ops.foldl (applyOp g) db) i = entryAt g' db i ∧
    hsOf g' (ops.foldl (applyOp g) db) = hsOf g' db ∧ ssOf g' (ops.foldl (applyOp g) db) = ssOf g' db := by
  induction ops generalizing db with
  | nil => exact ⟨rfl, rfl, rfl⟩
  | cons op rest ih =>
    simp only [List.foldl_cons]
    obtain ⟨a, b, c⟩ := ih (applyOp g db op) (fun o ho => hops o (List.mem_cons_of_mem _ ho))
    obtain ⟨a', b', c'⟩ := isolation_op g g' hg hg' hne db op i hi (hops op List.mem_cons_self).1 (hops op List.mem_cons_self).2
    exact ⟨a.trans a', b.trans b', c.trans c'⟩

/-! ## refinement -/

/-- **C06 (storage contract, every history).** -/
theorem store_refines_memorystorage (ops : List WOp)
    (hes : ∀ hs es, WOp.append hs es ∈ ops → Contig es) (m' : Mem)
    (hm : runM Mem.init ops = some m') :
    ∃ w', runW Wal.fresh ops = some w' ∧ WF w' ∧ abs w' = m' :=
  run_refines ops Wal.fresh Mem.init m' wf_fresh.1 wf_fresh.2 hes hm

/-- **C06 (storage contract, batches from anywhere below or inside the log).** -/
theorem store_refines_memorystorage_any_start (ops : List WOp)
    (hes : ∀ hs es, WOp.append hs es ∈ ops → Contig es) (m' : Mem)
    (hm : runMA Mem.init ops = some m') :
    ∃ w', runW Wal.fresh ops = some w' ∧ WF w' ∧ abs w' = m' :=
  run_refines_any_start ops Wal.fresh Mem.init m' wf_fresh.1 wf_fresh.2 hes hm

/-- **C06 (storage contract, every kind of `Save`).** -/
theorem store_refines_memorystorage_every_save (ops : List WOpX)
    (hes : ∀ op ∈ ops, Contig op.batch) (m' : Mem) (hm : runMX Mem.init ops = some m') :
    ∃ w', runWX Wal.fresh ops = some w' ∧ WF w' ∧ abs w' = m' :=
  run_refines_x ops Wal.fresh Mem.init m' wf_fresh.1 wf_fresh.2 hes hm

/-- **C06 (reads).** -/
theorem reads_agree (w : Wal) (h : WF w) (i : Nat) :
    (∃ w', w.firstIndex = .ok ((abs w).firstIndex, w') ∧ w'.disk = w.disk ∧ WF w') ∧
    w.lastIndex = .ok (abs w).lastIndex ∧
    (w.term i).map (·.1) = (abs w).term i ∧
    w.snapshot = (abs w).snap ∧ w.hardState = (abs w).hs :=
  ⟨firstIndex_refines w h, lastIndex_refines w h, term_refines w h i, snapshot_refines w h, rfl⟩

/-- **C06 (the size-limited read).** -/
theorem entries_agree (w : Wal) (h : WF w) (lo hi maxSize : Nat)
    (hlo : (abs w).firstIndex ≤ lo) (hlt : lo < hi) (hhi : hi ≤ (abs w).lastIndex + 1) :
    ∃ es w', w.entries lo hi maxSize = .ok (es, w') ∧ (abs w).entries lo hi maxSize = .ok es
      ∧ w'.disk = w.disk ∧ WF w' := entries_refines w h lo hi maxSize hlo hlt hhi

theorem entries_below_first_refused (w : Wal) (h : WF w) (lo hi maxSize : Nat) (hlo : lo < (abs w).firstIndex) :
    w.entries lo hi maxSize = .error .compacted ∧ (abs w).entries lo hi maxSize = .error .compacted :=
  entries_compacted w h lo hi maxSize hlo

/-- **C06 (a size-limited read steps over nothing).** What `Entries(lo, hi, maxSize)` returns is a
non-empty run of the stored log starting at `lo`: a follower that catches up from these reads is sent
no log with a hole (seeded C03-F skipped an entry that did not fit and went on). -/
theorem limited_read_is_a_run_from_lo (w : Wal) (h : WF w) (lo hi maxSize : Nat)
    (hlo : (abs w).firstIndex ≤ lo) (hlt : lo < hi) (hhi : hi ≤ (abs w).lastIndex + 1) :
    ∃ es w', w.entries lo hi maxSize = .ok (es, w') ∧
      es <+: (((abs w).ents.drop (lo - (abs w).offset)).take (hi - lo)) ∧ es ≠ [] := by
  obtain ⟨es, w', h1, h2, _, _⟩ := entries_agree w h lo hi maxSize hlo hlt hhi
  refine ⟨es, w', h1, ?_⟩
  simp only [Mem.firstIndex, Mem.lastIndex] at hlo hhi
  have hoff : ¬ lo ≤ (abs w).offset := by omega
  have hlen : ((abs w).ents.length == 1) = false := by
    simp only [beq_eq_false_iff_ne, ne_eq]; omega
  simp only [Mem.entries, hoff, if_false, hlen] at h2
  injection h2 with h2
  subst h2
  refine ⟨Mem.limitSize_prefix _ _, Mem.limitSize_ne_nil _ _ ?_⟩
  intro hnil
  have := congrArg List.length hnil
  simp only [List.length_take, List.length_drop, List.length_nil] at this
  omega

/-- the loop the theorem above is about is the loop in the code (regenerated from `getEntries`) -/
theorem scan_loop_in_code : Generated.walScanStopsAtTheLimit = true := by decide

/-- a compaction leaves no key below the snapshot index behind, however many there are (regenerated from
`deleteEntriesUntilIndex`; the model's compaction drops them all — seeded C04-F / C06-F bounded the number) -/
theorem compaction_removes_every_key_below : Generated.walCompactionRemovesEveryKeyBelow = true := by decide

/-- **C06 (`DeleteGroup`).** -/
theorem delete_group_leaves_nothing (w : Wal) :
    (Wal.deleteGroup w).disk = ⟨[], none, none⟩ ∧ Wal.open_ (Wal.deleteGroup w).disk = Wal.fresh :=
  ⟨deleteGroup_erases w, open_after_deleteGroup w⟩

/-- **C06 (across reopen).** -/
theorem reopen_changes_nothing (w : Wal) (h : WF w) :
    WF (Wal.open_ w.disk) ∧ abs (Wal.open_ w.disk) = abs w := reopen_refines w h

/-- non-vacuity: a history with an overwrite of an uncommitted tail, a compaction, a reopen and a
further batch is legal for the specification -/
def demoHistory : List WOp :=
  [.append ⟨1, 1, 0⟩ [⟨1, 1, 10, 1⟩, ⟨2, 1, 11, 1⟩, ⟨3, 1, 12, 1⟩],
   .append ⟨2, 2, 1⟩ [⟨3, 2, 13, 1⟩, ⟨4, 2, 14, 1⟩],
   .compact 2 7 99, .reopen,
   .append ⟨2, 2, 4⟩ [⟨5, 2, 15, 1⟩],
   .install ⟨3, 0, 9⟩ ⟨9, 3, 5, 7⟩, .reopen,
   .append ⟨3, 0, 9⟩ [⟨10, 3, 16, 1⟩]]

example : (runM Mem.init demoHistory).map (fun m => (m.firstIndex, m.lastIndex, m.snap.index)) = some (10, 10, 9) := by
  decide

example : (runW Wal.fresh demoHistory).map (fun w => w.disk.ents.map (·.index)) = some [9, 10] := by
  decide

/-- non-vacuity of `entries_agree`: a store holding entries 10..13 of sizes 1, 4, 4, 1; the window
[11, 14) under a limit of 6 is cut after entry 11 (1 + 4 + 4 > 6 … the scan stops at 12), a
limit of 0 still yields one entry -/
def demoReads : List WOp := demoHistory ++ [.append ⟨3, 0, 9⟩ [⟨11, 3, 17, 4⟩, ⟨12, 3, 18, 4⟩, ⟨13, 3, 19, 1⟩]]

example : (runW Wal.fresh demoReads).map (fun w =>
      ((w.entries 10 14 6).toOption.map (·.1.map (·.index)), (w.entries 11 14 0).toOption.map (·.1.map (·.index)),
       (w.entries 11 14 100).toOption.map (·.1.map (·.index)), (w.entries 12 13 0).toOption.map (·.1.map (·.index))))
    = some (some [10, 11], some [11], some [11, 12, 13], some [12]) := by decide

example : (runM Mem.init demoReads).map (fun m =>
      ((m.entries 10 14 6).toOption.map (·.map (·.index)), (m.entries 11 14 0).toOption.map (·.map (·.index))))
    = some (some [10, 11], some [11]) := by decide

/-- non-vacuity of `store_refines_memorystorage_any_start`: after the compaction at 2 a batch 1..4
arrives (entries 1 and 2 are gone: dropped), and later a batch 1..2 (entirely below: skipped) -/
def demoBelow : List WOp :=
  [.append ⟨1, 1, 0⟩ [⟨1, 1, 10, 1⟩, ⟨2, 1, 11, 1⟩, ⟨3, 1, 12, 1⟩],
   .compact 2 7 99,
   .append ⟨2, 2, 1⟩ [⟨1, 1, 10, 1⟩, ⟨2, 1, 11, 1⟩, ⟨3, 2, 13, 1⟩, ⟨4, 2, 14, 1⟩],
   .append ⟨2, 2, 4⟩ [⟨1, 1, 10, 1⟩, ⟨2, 1, 11, 1⟩]]

example : (runMA Mem.init demoBelow).map (fun m => (m.firstIndex, m.lastIndex, m.ents.map (·.term))) = some (3, 4, [1, 2, 2]) := by
  decide
example : runM Mem.init demoBelow = none := by decide
example : (runW Wal.fresh demoBelow).map (fun w => w.disk.ents.map (fun e => (e.index, e.term))) = some [(2, 1), (3, 2), (4, 2)] := by
  decide

/-- non-vacuity of `store_refines_memorystorage_every_save`: a follower with entries 1..3 receives
snapshot 9 together with entries 10, 11, reopens, appends 12 -/
def demoBoth : List WOpX :=
  [.base (.append ⟨1, 1, 0⟩ [⟨1, 1, 10, 1⟩, ⟨2, 1, 11, 1⟩, ⟨3, 1, 12, 1⟩]),
   .installWith ⟨3, 0, 9⟩ ⟨9, 3, 5, 7⟩ [⟨10, 3, 16, 1⟩, ⟨11, 3, 17, 1⟩],
   .base .reopen,
   .base (.append ⟨3, 0, 11⟩ [⟨12, 3, 18, 1⟩])]

example : (runMX Mem.init demoBoth).map (fun m => (m.firstIndex, m.lastIndex, m.snap.index, m.hs.commit)) = some (10, 12, 9, 11) := by
  decide
example : (runWX Wal.fresh demoBoth).map (fun w => w.disk.ents.map (·.index)) = some [9, 10, 11, 12] := by
  decide

/-- the key layout in the code is the one modelled (regenerated facts) -/
theorem key_layout_in_code :
    Generated.walEntryKeyLen = 24 ∧ Generated.walMetaKeyLen = 18 ∧
    Generated.walHardStatePrefix = "hs" ∧ Generated.walSnapshotPrefix = "ss" ∧
    Generated.walIndexBigEndian = true := by decide

/-- non-vacuity: two neighbouring 16-byte ids -/
example : entryKey (List.replicate 16 7) 300 ≠ entryKey (List.replicate 15 7 ++ [6]) 300 := by decide

end Anndb.C06
