import Anndb.Proofs.HnswInv
import Anndb.Generated
import Anndb.Proofs.HeapLawful
import Anndb.Model.ListPQ
/-!
# C01 — Search returns only live items with true scores, sorted, unique, at most k, non-empty

Model: `Anndb/Model/Hnsw.lean`, line by line after `index/hnsw.go` (`Insert`, `Remove` with the
entry-point hand-over, `pruneNeighbors`, both neighbour-selection modes, `searchLevel`,
`Search`) and `Index.reload` (the effect of `Save` + `Load` on the graph). The `hnsw` engine
checks on every run that the real index and this model produce the identical graph and the
identical search results, operation by operation, in the order-independent regime.

Every theorem below quantifies over: all priority-queue implementations satisfying `Lawful`
(and is instantiated at the model of the repo's own queue, proved lawful for C19), all distance
functions `dist` (so all three metrics — none of the clauses needs a metric axiom), all
configurations `cfg` (M, Mmax, Mmax0, ef, efConstruction, both selection modes, extension,
keep-pruned), all link orders (the states are arbitrary states satisfying the invariant), all
operation histories of any length, all queries and all k.
-/
namespace Anndb.C01
open Anndb Anndb.Index

section
variable {Pmin Pmax : PQImpl} {dist : VecRef → VecRef → Score} (cfg : Cfg)
variable (hmin : Lawful Pmin minBetter) (hmax : Lawful Pmax maxBetter)

/-- the representation invariant of an index: `Inv` is what `search` needs (entry point present
iff non-empty; entry point live; a vertex is tombstoned iff it is not the current incarnation
of its id), `Alloc` the allocation discipline that makes `Inv` inductive -/
def Good (s : Index) : Prop := Inv s ∧ Alloc s

/-- one index operation of a history. `update` of the partition layer is `remove` followed by
`insert` with the old level, so it needs no case of its own. `pick` resolves the one residual
choice of `Remove` ("any stored vertex" when the removed entry point has no live neighbour). -/
inductive Op where
  | insert (id : ItemId) (vec : VecRef) (md : Meta) (level : Nat)
  | remove (id : ItemId) (pick : List ItemId → Option ItemId)
  | reload
  /-- the snapshot of an *empty* index (no bytes) loaded into this one: a replica that is handed the
  snapshot of a partition emptied meanwhile -/
  | loadEmpty

def Op.ok : Op → Prop
  | .remove _ pick => PickOK pick
  | _ => True

/-- apply one operation; a rejected operation (`already exists` / `not found`) changes nothing -/
def stepOp (s : Index) : Op → Index
  | .insert id vec md level =>
    match insert Pmin Pmax dist cfg s id vec md level with
    | .ok s' => s'
    | .error _ => s
  | .remove id pick =>
    match remove Pmin Pmax dist cfg s id pick with
    | .ok s' => s'
    | .error _ => s
  | .reload => s.reload
  | .loadEmpty => Index.empty

def run (s : Index) : List Op → Index
  | [] => s
  | op :: ops => run (stepOp (Pmin := Pmin) (Pmax := Pmax) (dist := dist) cfg s op) ops

theorem good_empty : Good Index.empty := by
  refine ⟨⟨?_, ?_, ?_⟩, ⟨?_, ?_, ?_⟩⟩
  · intro _ i; rfl
  · intro v h; simp [Index.empty] at h
  · intro v x h; simp [Index.empty] at h
  · intro v _; rfl
  · intro i v h; simp [Index.empty] at h
  · intro i; simp [Index.empty]

/-- `Save`+`Load` changes nothing but link lists -/
theorem reload_frame (s : Index) : EdgeFrame s s.reload := by
  refine ⟨rfl, rfl, rfl, rfl, ?_⟩
  intro v
  unfold Index.reload
  simp only
  cases s.verts v with
  | none => rfl
  | some x => rfl

theorem good_reload (s : Index) (h : Good s) : Good s.reload :=
  ⟨h.1.of_frame (reload_frame s), h.2.of_frame (reload_frame s)⟩

/-- **Invariant, one step** (insert / remove with hand-over / save+load) — for every queue
implementation, lawful or not: well-formedness does not depend on the queues. -/
theorem good_step (s : Index) (op : Op) (hop : op.ok) (h : Good s) :
    Good (stepOp (Pmin := Pmin) (Pmax := Pmax) (dist := dist) cfg s op) := by
  cases op with
  | insert id vec md level =>
    show Good (match insert Pmin Pmax dist cfg s id vec md level with
      | .ok s' => s'
      | .error _ => s)
    cases hr : insert Pmin Pmax dist cfg s id vec md level with
    | ok s' => exact inv_insert (dist := dist) cfg s id vec md level h.1 h.2 s' hr
    | error e => exact h
  | remove id pick =>
    show Good (match remove Pmin Pmax dist cfg s id pick with
      | .ok s' => s'
      | .error _ => s)
    cases hr : remove Pmin Pmax dist cfg s id pick with
    | ok s' => exact inv_remove (dist := dist) cfg s id pick hop h.1 h.2 s' hr
    | error e => exact h
  | reload => exact good_reload s h
  | loadEmpty => exact good_empty

/-- **Invariant, every reachable state**: after any history the index is well formed. -/
theorem good_run (s : Index) (ops : List Op) (hops : ∀ op ∈ ops, op.ok) (h : Good s) :
    Good (run (Pmin := Pmin) (Pmax := Pmax) (dist := dist) cfg s ops) := by
  induction ops generalizing s with
  | nil => exact h
  | cons op ops ih =>
    exact ih _ (fun o ho => hops o (List.mem_cons_of_mem _ ho))
      (good_step cfg s op (hops op List.mem_cons_self) h)

/-- the statement of C01 for one search on state `s` -/
def SearchOK (s : Index) (q : VecRef) (k : Nat) (r : List Hit) : Prop :=
  (∀ h ∈ r, ∃ v x, s.live h.id = some v ∧ s.verts v = some x ∧ x.deleted = false ∧
      h.md = x.md ∧ h.score = dist q x.vec) ∧
  (r.map (·.score)).Pairwise (· ≤ ·) ∧
  (r.map (·.id)).Nodup ∧
  r.length ≤ k ∧
  ((∃ i v, s.live i = some v) → 1 ≤ k → r ≠ [])

include hmin hmax in
/-- **C01 on any well-formed state.** -/
theorem search_ok (s : Index) (h : Good s) (q : VecRef) (k : Nat) :
    SearchOK (dist := dist) s q k (search Pmin Pmax dist cfg s q k) :=
  search_sound (dist := dist) cfg hmin hmax s q h.1 k

include hmin hmax in
/-- **C01 for every history**: whatever sequence of inserts, removes (hence updates) and
snapshot save+loads was applied to an empty index, every search answers with live items only,
each with its current metadata and a score equal to `dist` between the query and its current
vector, in ascending score order, no id twice, at most `k` items, and at least one item
whenever the index holds one and `k ≥ 1`. -/
theorem search_ok_reachable (ops : List Op) (hops : ∀ op ∈ ops, op.ok) (q : VecRef) (k : Nat) :
    let s := run (Pmin := Pmin) (Pmax := Pmax) (dist := dist) cfg Index.empty ops
    SearchOK (dist := dist) s q k (search Pmin Pmax dist cfg s q k) := by
  intro s
  exact search_ok cfg hmin hmax s (good_run cfg _ ops hops good_empty) q k

end

/-! ### Instantiation at the repo's own queue (C19) -/

/-- C01 with the model of `utils.PriorityQueue` over `container/heap` as the queue -/
theorem search_ok_goheap (dist : VecRef → VecRef → Score) (cfg : Cfg) (ops : List Op)
    (hops : ∀ op ∈ ops, op.ok) (q : VecRef) (k : Nat) :
    let Pmin := goHeap ltMin ltMin_ok
    let Pmax := goHeap ltMax ltMax_ok
    let s := run (Pmin := Pmin) (Pmax := Pmax) (dist := dist) cfg Index.empty ops
    SearchOK (dist := dist) s q k (search Pmin Pmax dist cfg s q k) :=
  search_ok_reachable cfg goMinHeap_lawful goMaxHeap_lawful ops hops q k

/-- the resolver the driver uses ("the vertex the dump shows, if it is stored, else the first
stored id") is well behaved -/
theorem pick_observed_ok (a : Option ItemId) :
    PickOK (fun ids => match a with
      | some a => if a ∈ ids then some a else ids.head?
      | none => ids.head?) := by
  constructor
  · intro l i h
    cases a with
    | none => exact List.mem_of_mem_head? h
    | some a =>
      simp only at h
      split at h
      · cases h; assumption
      · exact List.mem_of_mem_head? h
  · intro l h
    cases a with
    | none => exact List.head?_eq_none_iff.mp h
    | some a =>
      simp only at h
      split at h
      · cases h
      · exact List.head?_eq_none_iff.mp h

/-! ### Non-vacuity: a concrete history reaches a non-empty well-formed state -/

example : Good (run (Pmin := listPQ minLe) (Pmax := listPQ maxLe) (dist := fun a b => a + b)
    ⟨2, 2, 4, 20, 200, false, false, true⟩ Index.empty
    [.insert 1 10 [] 0, .insert 2 20 [("a", "1")] 1, .remove 1 (fun ids => ids.head?), .reload]) := by
  apply good_run _ _ _ _ good_empty
  intro op hop
  simp only [List.mem_cons, List.not_mem_nil, or_false] at hop
  rcases hop with rfl | rfl | rfl | rfl <;> try trivial
  exact pick_observed_ok none


/-- **searches share nothing they write** (regenerated from `index/hnsw.go`): in the read path of the
index — `Search`, `greedyClosestNeighbor`, `searchLevel`, `selectNeighbors*` — every assignment goes to
a local variable (or into a local map / slice) and nothing is called but read-only accessors and the
search's own local queues. Hence what the theorems of this file say about one search holds for each
of any number of simultaneous searches on an index nobody writes (seeded changes C01-D / C07-D keep
the visited marks on the vertices: simultaneous searches then return an id twice). -/
theorem search_path_writes_nothing_shared : Generated.searchPathWritesNothingShared = true := by decide

end Anndb.C01
