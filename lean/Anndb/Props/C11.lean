import Anndb.Model.Notify
import Anndb.Generated
import Anndb.Model.BatchFanIn
/-!
# C11 — Write acknowledgements are truthful and reach the right caller

The notification protocol (`Model/Notify.lean`) as an LTS over all interleavings of one caller
with the apply loop — in particular "apply completes before the caller starts waiting" — plus the
decision facts regenerated from the write paths of `storage/dataset.go` / `storage/partition.go`.
Callers do not interact: every notificator operation is keyed by a fresh v4 uuid, so the
statement for one caller is the statement for each, and "to no one else" is the keying itself.
-/
namespace Anndb.C11
open Anndb.Notify

/-- invariant of the protocol when the channel has room for one outcome (capacity ≥ 1) -/
structure Inv (c : Cfg) : Prop where
  capPos : 1 ≤ c.cap
  chan : c.chanExists = true ↔
    (c.pc = .created ∨ c.pc = .proposed ∨ c.pc = .waiting ∨ (∃ o, c.pc = .got o) ∨ c.pc = .timedOut)
  appliedPc : c.applied ≠ none → c.pc ≠ .init ∧ c.pc ≠ .created
  notifiedApplied : c.notified = true → c.applied ≠ none
  bufOk : ∀ o, c.buf = some o → c.applied = some o ∧ c.notified = true ∧ c.dropped = false
  gotOk : ∀ o, (c.pc = .got o ∨ c.pc = .removed (some o)) → c.applied = some o ∧ c.notified = true
  dropOk : c.dropped = true → c.pc = .removed none
  bufNone : c.notified = false → c.buf = none
  noLost : c.notified = true → c.dropped = false → (c.pc = .proposed ∨ c.pc = .waiting) →
    c.buf = c.applied

theorem inv_init (cap : Nat) (h : 1 ≤ cap) : Inv (init cap) := by
  refine ⟨h, ?_, ?_, ?_, ?_, ?_, ?_, ?_, ?_⟩ <;> simp [init]

theorem inv_step (c c' : Cfg) (h : Inv c) (s : Step c c') : Inv c' := by
  obtain ⟨h1, h2, h3, h4, h5, h6, h7, h8, h9⟩ := h
  cases s with
  | create hp =>
    have ha : c.applied = none := by
      cases hx : c.applied with
      | none => rfl
      | some o => exact absurd hp (h3 (by simp [hx])).1
    have hn : c.notified = false := by
      cases hx : c.notified with
      | false => rfl
      | true => exact absurd ha (h4 hx)
    have hd : c.dropped = false := by
      cases hx : c.dropped with
      | false => rfl
      | true => have := h7 hx; simp [hp] at this
    refine ⟨h1, by simp, by simp [ha], by simp [hn], ?_, by simp, by simp [hd], ?_, by simp [hn]⟩
    · intro o ho; simp [h8 hn] at ho
    · intro _; exact h8 hn
  | propose hp =>
    have ha : c.applied = none := by
      cases hx : c.applied with
      | none => rfl
      | some o => exact absurd hp (h3 (by simp [hx])).2
    have hn : c.notified = false := by
      cases hx : c.notified with
      | false => rfl
      | true => exact absurd ha (h4 hx)
    have hd : c.dropped = false := by
      cases hx : c.dropped with
      | false => rfl
      | true => have := h7 hx; simp [hp] at this
    refine ⟨h1, ?_, by simp [ha], by simp [hn], ?_, by simp, by simp [hd], ?_, by simp [hn]⟩
    · have := h2; simp [hp] at this; simp [this]
    · intro o ho; simp [h8 hn] at ho
    · intro _; exact h8 hn
  | apply o hpc ha =>
    have hn : c.notified = false := by
      cases hx : c.notified with
      | false => rfl
      | true => exact absurd ha (h4 hx)
    refine ⟨h1, h2, fun _ => hpc, by simp, ?_, ?_, h7, h8, by simp [hn]⟩
    · intro o' ho'; simp [h8 hn] at ho'
    · intro o' ho'
      have := (h6 o' ho').1
      simp [ha] at this
  | notifyBuffered o ha hn hc hcap hb =>
    have hd : c.dropped = false := by
      cases hx : c.dropped with
      | false => rfl
      | true =>
        have hp := h7 hx
        have := h2.mp hc
        simp [hp] at this
    refine ⟨h1, h2, h3, by simp [ha], ?_, ?_, h7, by simp, ?_⟩
    · intro o' ho'
      simp only [Option.some.injEq] at ho'
      subst ho'
      exact ⟨ha, rfl, hd⟩
    · intro o' ho'
      have := (h6 o' ho').2
      simp [hn] at this
    · intro _ _ _; simp [ha]
  | notifyHandoff o ha hn hc hcap hw => omega
  | notifyDropped o ha hn hcond =>
    have hpc : c.pc = .removed none := by
      rcases hcond with hce | ⟨hc0, _⟩ | ⟨_, hb⟩
      · have hnot : ¬ (c.pc = .created ∨ c.pc = .proposed ∨ c.pc = .waiting ∨ (∃ o, c.pc = .got o) ∨ c.pc = .timedOut) := by
          intro hx; have := h2.mpr hx; simp [hce] at this
        have h3' := h3 (by simp [ha])
        cases hp : c.pc with
        | init => exact absurd hp h3'.1
        | created => exact absurd hp h3'.2
        | proposed => exact absurd (Or.inr (Or.inl hp)) hnot
        | waiting => exact absurd (Or.inr (Or.inr (Or.inl hp))) hnot
        | got o' => exact absurd (Or.inr (Or.inr (Or.inr (Or.inl ⟨o', hp⟩)))) hnot
        | timedOut => exact absurd (Or.inr (Or.inr (Or.inr (Or.inr hp)))) hnot
        | removed x =>
          cases x with
          | none => rfl
          | some o' =>
            have := (h6 o' (Or.inr hp)).2
            simp [hn] at this
      · omega
      · exact absurd (h8 hn) hb
    refine ⟨h1, h2, h3, by simp [ha], ?_, ?_, fun _ => hpc, by simp, by simp⟩
    · intro o' ho'; simp [h8 hn] at ho'
    · intro o' ho'
      have := (h6 o' ho').2
      simp [hn] at this
  | startWait hp =>
    have hd : c.dropped = false := by
      cases hx : c.dropped with
      | false => rfl
      | true => have := h7 hx; simp [hp] at this
    refine ⟨h1, ?_, ?_, h4, h5, by simp, by simp [hd], h8, ?_⟩
    · have := h2; simp [hp] at this; simp [this]
    · intro hx; have := h3 hx; simp
    · intro hn hdd _; exact h9 hn hdd (Or.inl hp)
  | recv o hp hb =>
    obtain ⟨ha, hn, hd⟩ := h5 o hb
    refine ⟨h1, ?_, ?_, h4, by simp, ?_, by simp [hd], by simp, by simp⟩
    · have := h2; simp [hp] at this; simp [this]
    · intro hx; simp
    · intro o' ho'
      simp only [Pc.got.injEq, reduceCtorEq, or_false] at ho'
      subst ho'
      exact ⟨ha, hn⟩
  | timeout hp =>
    have hd : c.dropped = false := by
      cases hx : c.dropped with
      | false => rfl
      | true => have := h7 hx; simp [hp] at this
    refine ⟨h1, ?_, ?_, h4, h5, by simp, by simp [hd], h8, by simp⟩
    · have := h2; simp [hp] at this; simp [this]
    · intro hx; simp
  | removeGot o hp =>
    have hd : c.dropped = false := by
      cases hx : c.dropped with
      | false => rfl
      | true => have := h7 hx; simp [hp] at this
    refine ⟨h1, by simp, ?_, h4, h5, ?_, by simp [hd], h8, by simp⟩
    · intro hx; simp
    · intro o' ho'
      simp only [reduceCtorEq, Pc.removed.injEq, Option.some.injEq, false_or] at ho'
      subst ho'
      exact h6 o (Or.inl hp)
  | removeTimedOut hp =>
    refine ⟨h1, by simp, ?_, h4, h5, by simp, by simp, h8, by simp⟩
    intro hx; simp

theorem inv_reach (cap : Nat) (hcap : 1 ≤ cap) (c : Cfg) (r : Reach (init cap) c) : Inv c := by
  induction r with
  | refl => exact inv_init cap hcap
  | step _ s ih => exact inv_step _ _ ih s

/-- **What a caller receives is the outcome of its own applied proposal** (every interleaving). -/
theorem received_is_truthful (cap : Nat) (hcap : 1 ≤ cap) (c : Cfg) (r : Reach (init cap) c) (o : Nat)
    (h : c.pc = .got o ∨ c.pc = .removed (some o)) : c.applied = some o :=
  ((inv_reach cap hcap c r).gotOk o h).1

/-- **An applied outcome is lost only to a caller that already gave up**: with a buffered
channel, `Notify` drops the outcome only when the caller has timed out and removed its channel —
never because apply finished before the caller started waiting. -/
theorem dropped_only_after_timeout (cap : Nat) (hcap : 1 ≤ cap) (c : Cfg) (r : Reach (init cap) c)
    (h : c.dropped = true) : c.pc = .removed none :=
  (inv_reach cap hcap c r).dropOk h

/-- **No lost wake-up**: a caller that starts waiting after (or while) its proposal was applied
and notified finds the outcome in its channel, so its `select` can take it — whatever the
relative timing of commit and caller. -/
theorem no_lost_wakeup (cap : Nat) (hcap : 1 ≤ cap) (c : Cfg) (r : Reach (init cap) c)
    (hn : c.notified = true) (hw : c.pc = .waiting ∨ c.pc = .proposed) :
    ∃ o, c.buf = some o ∧ c.applied = some o := by
  have inv := inv_reach cap hcap c r
  have hd : c.dropped = false := by
    cases hx : c.dropped with
    | false => rfl
    | true => have := inv.dropOk hx; rcases hw with h | h <;> simp [h] at this
  have hb := inv.noLost hn hd (hw.symm)
  cases ha : c.applied with
  | none => exact absurd ha (inv.notifiedApplied hn)
  | some o => exact ⟨o, by rw [hb, ha], rfl⟩

/-- **With an unbuffered channel the outcome is lost** (D10): create, propose, apply and notify
before the caller reaches its select; the caller then waits for a notification that was dropped. -/
theorem cap0_counterexample :
    ∃ c, Reach (init 0) c ∧ c.applied = some 7 ∧ c.notified = true ∧ c.dropped = true ∧
      c.pc = .waiting ∧ c.buf = none := by
  refine ⟨⟨0, true, none, .waiting, some 7, true, true⟩, ?_, rfl, rfl, rfl, rfl, rfl⟩
  have s1 : Step (init 0) ⟨0, true, none, .created, none, false, false⟩ := Step.create _ rfl
  have s2 : Step ⟨0, true, none, .created, none, false, false⟩ ⟨0, true, none, .proposed, none, false, false⟩ :=
    Step.propose _ rfl
  have s3 : Step ⟨0, true, none, .proposed, none, false, false⟩ ⟨0, true, none, .proposed, some 7, false, false⟩ :=
    Step.apply _ 7 (by simp) rfl
  have s4 : Step ⟨0, true, none, .proposed, some 7, false, false⟩ ⟨0, true, none, .proposed, some 7, true, true⟩ :=
    Step.notifyDropped _ 7 rfl rfl (Or.inr (Or.inl ⟨rfl, by simp⟩))
  have s5 : Step ⟨0, true, none, .proposed, some 7, true, true⟩ ⟨0, true, none, .waiting, some 7, true, true⟩ :=
    Step.startWait _ rfl
  exact .step (.step (.step (.step (.step .refl s1) s2) s3) s4) s5

/-! ## what the code does (regenerated facts) -/

/-- every notification channel is created with capacity 1, the apply paths notify without
blocking and with the id carried in the entry, and each caller removes only its own channel -/
theorem notification_shape :
    Generated.notifCreateCaps = [1, 1, 1, 1] ∧ Generated.notifyAllNonBlocking = true ∧
    Generated.notifyKeyedByEntryId = true ∧ Generated.notifRemoveOwnIdDeferred = true ∧
    Generated.notifIdsRandomUuid = true := by decide

/-- decision logic of the write paths: the dimension check comes before anything is proposed or
proxied; a failed dial and a failed RPC on the proxy path are returned, not swallowed; the wait
for commit returns the derived (timeout) context's error, never nil, when nothing was notified;
the batch paths pre-check the dimension per item and merge the partitions' error maps -/
theorem write_path_decisions :
    Generated.writeDimCheckFirst = true ∧ Generated.writeProxyErrorsReturned = true ∧
    Generated.proposeTimeoutReturnsDerivedCtxErr = true ∧ Generated.batchDimPrecheckPerItem = true := by decide

/-! ## batches: an error for exactly the ids that failed

A batch call fans out to one worker per owning partition and merges their per-id error maps. An id
without a reported error counts as written — so the collector must never take an "empty map" that no
worker sent. -/

/-- invariant of the fan-in when every worker answers -/
theorem batch_inv (n : Nat) (c : BatchFanIn.Cfg) (r : BatchFanIn.Reach n true c) :
    c.pending + c.got = n ∧ c.zeros = 0 ∧ (c.closed = true → c.pending = 0) := by
  induction r with
  | init => simp [BatchFanIn.init]
  | @step c c' _ s ih =>
    obtain ⟨h1, h2, h3⟩ := ih
    cases s with
    | deliver hp hl => exact ⟨by simp; omega, h2, by intro hc; have := h3 hc; simp; omega⟩
    | silent ha hp => cases ha
    | close hp hc => exact ⟨h1, h2, by intro _; exact hp⟩
    | zero hc hl => exfalso; have := h3 hc; omega

/-- **every value the collector takes is a worker's answer**, in every schedule: with workers that
always answer, a collector that has taken its `n` values has `n` real results and not one zero value
of the closed channel — so an id without a reported error was reported as written by its partition -/
theorem batch_collects_only_real_answers (n : Nat) (c : BatchFanIn.Cfg) (r : BatchFanIn.Reach n true c)
    (hc : BatchFanIn.Collected n c) : c.got = n ∧ c.zeros = 0 := by
  obtain ⟨_, h2, _⟩ := batch_inv n c r
  unfold BatchFanIn.Collected at hc
  exact ⟨by omega, h2⟩

/-- a worker that can return without an answer (seeded change C11-D: a local batch that ran into the
partition's own proposal timeout) lets the collector finish on the closed channel's zero value: the
call succeeds and reports no error for ids that were never written -/
theorem silent_worker_is_read_as_success :
    ∃ c, BatchFanIn.Reach 1 false c ∧ BatchFanIn.Collected 1 c ∧ c.got = 0 := by
  refine ⟨⟨0, 0, 1, true⟩, ?_, rfl, rfl⟩
  have h1 : BatchFanIn.Reach 1 false ⟨0, 0, 0, false⟩ := .step .init (.silent _ rfl (by decide))
  have h2 : BatchFanIn.Reach 1 false ⟨0, 0, 0, true⟩ := .step h1 (.close _ rfl rfl)
  exact .step h2 (.zero _ rfl (by decide))

/-- every path through the batch worker ends in exactly one send of its result (regenerated) -/
theorem batch_worker_always_answers : Generated.batchWorkerAlwaysAnswers = true := by decide

/-- the LTS above has no step that ends the writer's wait other than a delivered answer or its own
timeout; in the code that rests on the channel being closed by nobody but the waiter (its deferred
`Remove`): a channel closed under a waiting writer yields the zero value, which every write path reads
as "applied, no error" (seeded C11-F released the writers when a replica is unloaded) -/
theorem waiter_channel_closed_only_by_the_waiter :
    Generated.notificationChannelClosedOnlyByItsWaiter = true := by decide

/-- the system with one more step: somebody other than the waiter closes its channel while it waits; the
receive then yields the channel's zero value — outcome 0, "no error" -/
inductive StepForeign : Cfg → Cfg → Prop where
  | base {c c' : Cfg} : Step c c' → StepForeign c c'
  | foreignClose (c : Cfg) : c.pc = .waiting → c.buf = none →
      StepForeign c { c with pc := .got 0, chanExists := false }

inductive ReachForeign (c0 : Cfg) : Cfg → Prop where
  | refl : ReachForeign c0 c0
  | step {c c'} : ReachForeign c0 c → StepForeign c c' → ReachForeign c0 c'

/-- **With a foreign close an unapplied write is acknowledged**: `received_is_truthful` fails in the
extended system (what seeded C11-F does when a replica is unloaded under a waiting writer). -/
theorem foreign_close_acknowledges_an_unapplied_write :
    ∃ c, ReachForeign (init 1) c ∧ c.pc = .got 0 ∧ c.applied = none := by
  refine ⟨⟨1, false, none, .got 0, none, false, false⟩, ?_, rfl, rfl⟩
  have s1 : Step (init 1) ⟨1, true, none, .created, none, false, false⟩ := Step.create _ rfl
  have s2 : Step ⟨1, true, none, .created, none, false, false⟩ ⟨1, true, none, .proposed, none, false, false⟩ := Step.propose _ rfl
  have s3 : Step ⟨1, true, none, .proposed, none, false, false⟩ ⟨1, true, none, .waiting, none, false, false⟩ := Step.startWait _ rfl
  have s4 : StepForeign ⟨1, true, none, .waiting, none, false, false⟩ ⟨1, false, none, .got 0, none, false, false⟩ :=
    StepForeign.foreignClose _ rfl rfl
  exact .step (.step (.step (.step .refl (.base s1)) (.base s2)) (.base s3)) s4

/-- non-vacuity: three workers, all delivered, then the channel is closed -/
example : ∃ c, BatchFanIn.Reach 3 true c ∧ BatchFanIn.Collected 3 c ∧ c.closed = true := by
  refine ⟨⟨0, 3, 0, true⟩, ?_, rfl, rfl⟩
  have h1 : BatchFanIn.Reach 3 true ⟨2, 1, 0, false⟩ := .step .init (.deliver _ (by decide) (by decide))
  have h2 : BatchFanIn.Reach 3 true ⟨1, 2, 0, false⟩ := .step h1 (.deliver _ (by decide) (by decide))
  have h3 : BatchFanIn.Reach 3 true ⟨0, 3, 0, false⟩ := .step h2 (.deliver _ (by decide) (by decide))
  exact .step h3 (.close _ rfl rfl)

/-! ## non-vacuity: the good path is reachable with capacity 1 even when apply comes first -/

example : ∃ c, Reach (init 1) c ∧ c.pc = .got 7 := by
  refine ⟨⟨1, true, none, .got 7, some 7, true, false⟩, ?_, rfl⟩
  have s1 : Step (init 1) ⟨1, true, none, .created, none, false, false⟩ := Step.create _ rfl
  have s2 : Step ⟨1, true, none, .created, none, false, false⟩ ⟨1, true, none, .proposed, none, false, false⟩ := Step.propose _ rfl
  have s3 : Step ⟨1, true, none, .proposed, none, false, false⟩ ⟨1, true, none, .proposed, some 7, false, false⟩ := Step.apply _ 7 (by simp) rfl
  have s4 : Step ⟨1, true, none, .proposed, some 7, false, false⟩ ⟨1, true, some 7, .proposed, some 7, true, false⟩ :=
    Step.notifyBuffered _ 7 rfl rfl rfl (by decide) rfl
  have s5 : Step ⟨1, true, some 7, .proposed, some 7, true, false⟩ ⟨1, true, some 7, .waiting, some 7, true, false⟩ := Step.startWait _ rfl
  have s6 : Step ⟨1, true, some 7, .waiting, some 7, true, false⟩ ⟨1, true, none, .got 7, some 7, true, false⟩ := Step.recv _ 7 rfl rfl
  exact .step (.step (.step (.step (.step (.step .refl s1) s2) s3) s4) s5) s6

end Anndb.C11
