import Anndb.Proofs.HeapLawful
import Anndb.Proofs.PQLemmas
import Anndb.Generated
/-!
# C19 — Priority queues pop in order; reversing yields an independent queue

Model: `Anndb.Heap` (`container/heap`'s `up`/`down`/`Init`/`Push`/`Pop` verbatim over
arrays) with the repo's `Less` for min (`ltMin`) and max (`ltMax`) queues; `Reverse` is
"copy the slice, flip the order, `heap.Init`". The same definitions are what the `pq` engine's
model driver executes against the real `utils.PriorityQueue`.

The theorems quantify over *every* finite sequence of push / pop / reverse operations
(`QOp`), every priority (ties included) and every queue size.
-/
namespace Anndb.C19
open Anndb Anndb.Heap

/-- the model state of one `utils.priorityQueue`: its kind and its slice -/
structure QState where
  isMin : Bool
  a : Array Item

def ltOf (isMin : Bool) : Item → Item → Bool := if isMin then ltMin else ltMax

theorem ltOf_ok (b : Bool) : LtOK (ltOf b) := by
  cases b
  · exact ltMax_ok
  · exact ltMin_ok

inductive QOp where
  | push (x : Item)
  | pop
  | reverse
deriving Repr

/-- one operation on the model; `pop` on an empty queue is what the real code panics on and
leaves the state unchanged here (`none` output) -/
def step (s : QState) : QOp → QState × Option Item
  | .push x => ({ s with a := Heap.push (ltOf s.isMin) s.a x }, none)
  | .pop =>
    match Heap.pop (ltOf s.isMin) s.a with
    | none => (s, none)
    | some (x, a') => ({ s with a := a' }, some x)
  | .reverse => ({ isMin := !s.isMin, a := Heap.init (ltOf (!s.isMin)) s.a }, none)

def run (s : QState) : List QOp → QState
  | [] => s
  | op :: ops => run (step s op).1 ops

/-- heap order: the representation invariant of a queue -/
def Inv (s : QState) : Prop := IsHeap (ltOf s.isMin) s.a s.a.size

/-- `better x y`: `x` may be popped before `y` -/
def better (isMin : Bool) (x y : Item) : Prop := ltOf isMin y x = false

theorem better_min (x y : Item) : better true x y ↔ x.score ≤ y.score := by
  show ltMin y x = false ↔ _
  simp only [ltMin, decide_eq_false_iff_not]; omega

theorem better_max (x y : Item) : better false x y ↔ y.score ≤ x.score := by
  show ltMax y x = false ↔ _
  simp only [ltMax, decide_eq_false_iff_not]; omega

/-- the empty queue is a heap -/
theorem inv_empty (b : Bool) : Inv ⟨b, #[]⟩ := by
  intro k _ hk; simp at hk

/-- **Invariant, one step**: every operation keeps heap order. -/
theorem inv_step (s : QState) (op : QOp) (h : Inv s) : Inv (step s op).1 := by
  cases op with
  | push x => exact push_heap (ltOf_ok _) s.a x h
  | pop =>
    unfold step
    by_cases hs : 0 < s.a.size
    · rw [pop_result s.a hs]
      exact pop_heap (ltOf_ok _) s.a hs h
    · have : Heap.pop (ltOf s.isMin) s.a = none := by unfold Heap.pop; simp [hs]
      rw [this]; exact h
  | reverse => exact init_heap (ltOf_ok _) s.a

/-- **Invariant, every reachable state**: after any operation sequence from a heap-ordered
queue (in particular from the empty queue) the queue is heap ordered. -/
theorem inv_run (s : QState) (ops : List QOp) (h : Inv s) : Inv (run s ops) := by
  induction ops generalizing s with
  | nil => exact h
  | cons op ops ih => exact ih _ (inv_step s op h)

/-- **push adds exactly the pushed item** (bag = multiset, stated as a permutation). -/
theorem push_bag (s : QState) (x : Item) :
    (step s (.push x)).1.a.toList.Perm (x :: s.a.toList) := by
  have := (goHeap_lawful (ltOf s.isMin) (ltOf_ok _)).push_perm
  show (Heap.push (ltOf s.isMin) s.a x).toList.Perm (x :: s.a.toList)
  unfold Heap.push
  have h1 := (up_perm (lt := ltOf s.isMin) (s.a.push x) s.a.size (by simp)).toList
  refine h1.trans ?_
  simp only [Array.toList_push]
  exact List.perm_append_comm.trans (by simp)

/-- **pop removes exactly the popped item, and that item is extremal**: for a heap-ordered
queue, `pop` returns an element `x` of the bag such that no element of the bag is strictly
better, and the remaining bag is the old one minus `x`. -/
theorem pop_bag_best (s : QState) (h : Inv s) (x : Item) (s' : QState)
    (hp : step s .pop = (s', some x)) :
    s.a.toList.Perm (x :: s'.a.toList) ∧ (∀ y ∈ s.a.toList, better s.isMin x y) ∧ s'.isMin = s.isMin := by
  unfold step at hp
  by_cases hs : 0 < s.a.size
  · rw [pop_result s.a hs] at hp
    simp only [Prod.mk.injEq, Option.some.injEq] at hp
    obtain ⟨hs', hx⟩ := hp
    subst hx; subst hs'
    refine ⟨pop_perm s.a hs, ?_, rfl⟩
    intro y hy
    obtain ⟨k, hk, rfl⟩ := (mem_toList_iff s.a y).mp hy
    exact root_best (ltOf_ok _) s.a s.a.size h k hk
  · have : Heap.pop (ltOf s.isMin) s.a = none := by unfold Heap.pop; simp [hs]
    rw [this] at hp; simp at hp

/-- `pop` answers `none` (the real code panics) only on an empty queue. -/
theorem pop_none_iff (s : QState) : (step s .pop).2 = none ↔ s.a.size = 0 := by
  unfold step
  by_cases hs : 0 < s.a.size
  · rw [pop_result s.a hs]
    simp only [reduceCtorEq, false_iff]; omega
  · have : Heap.pop (ltOf s.isMin) s.a = none := by unfold Heap.pop; simp [hs]
    rw [this]
    simp only [true_iff]; omega

/-- **reverse keeps the bag and flips the order.** -/
theorem reverse_bag (s : QState) :
    (step s .reverse).1.a.toList.Perm s.a.toList ∧ (step s .reverse).1.isMin = !s.isMin := by
  refine ⟨?_, rfl⟩
  show (Heap.init (ltOf (!s.isMin)) s.a).toList.Perm s.a.toList
  exact (initLoop_perm (lt := ltOf (!s.isMin)) s.a (s.a.size / 2)).toList

/-- pop everything: `n` pops -/
def drain (s : QState) : Nat → List Item
  | 0 => []
  | n+1 =>
    match step s .pop with
    | (s', some x) => x :: drain s' n
    | (_, none) => []

/-- **Pops come out in order**: draining a heap-ordered queue yields a list in which every
element is at least as good as every later one (non-decreasing for a min queue,
non-increasing for a max queue), and that list is a permutation of the bag. -/
theorem drain_sorted_perm (s : QState) (h : Inv s) (n : Nat) (hn : s.a.size ≤ n) :
    (drain s n).Pairwise (better s.isMin) ∧ (drain s n).Perm s.a.toList := by
  induction n generalizing s with
  | zero =>
    have : s.a.size = 0 := by omega
    have he : s.a = #[] := Array.eq_empty_of_size_eq_zero this
    simp [drain, he]
  | succ n ih =>
    unfold drain
    cases hst : step s .pop with
    | mk s' o =>
      cases o with
      | none =>
        have : (step s .pop).2 = none := by rw [hst]
        have h0 := (pop_none_iff s).mp this
        have he : s.a = #[] := Array.eq_empty_of_size_eq_zero h0
        simp [he]
      | some x =>
        simp only
        obtain ⟨hperm, hbest, hkind⟩ := pop_bag_best s h x s' hst
        have hinv' : Inv s' := by have := inv_step s .pop h; rw [hst] at this; exact this
        have hsz : s'.a.size ≤ n := by
          have := hperm.length_eq
          simp only [Array.length_toList, List.length_cons] at this
          omega
        obtain ⟨ihs, ihp⟩ := ih s' hinv' hsz
        refine ⟨List.pairwise_cons.mpr ⟨?_, by rw [← hkind]; exact ihs⟩, ?_⟩
        · intro y hy
          exact hbest y (hperm.symm.subset (List.mem_cons_of_mem _ (ihp.subset hy)))
        · exact (List.Perm.cons x ihp).trans hperm.symm

/-- for a min queue the drained priorities are non-decreasing -/
theorem drain_min_nondecreasing (a : Array Item) (h : Inv ⟨true, a⟩) :
    ((drain ⟨true, a⟩ a.size).map (·.score)).Pairwise (· ≤ ·) := by
  have := (drain_sorted_perm ⟨true, a⟩ h a.size (Nat.le_refl _)).1
  rw [List.pairwise_map]
  exact this.imp (fun {x y} hxy => (better_min x y).mp hxy)

/-- for a max queue the drained priorities are non-increasing -/
theorem drain_max_nonincreasing (a : Array Item) (h : Inv ⟨false, a⟩) :
    ((drain ⟨false, a⟩ a.size).map (·.score)).Pairwise (· ≥ ·) := by
  have := (drain_sorted_perm ⟨false, a⟩ h a.size (Nat.le_refl _)).1
  rw [List.pairwise_map]
  exact this.imp (fun {x y} hxy => (better_max x y).mp hxy)

/-! ### Reverse yields an independent queue

`Reverse` in the model returns a *new* array value. That is faithful exactly when the real
`Reverse` copies the items into a fresh backing array; `goextract` re-reads
`utils/priority_queue.go` on every run and reports whether each branch of `Reverse` builds
its queue with `make` + `copy` (`Generated.pqReverseCopies`). The pre-fix code converted the
source's slice header instead (shared backing array): `Shared` below models that variant —
two slice headers over one backing array — and `shared_reverse_breaks_source` proves, on the
7-item witness of DESIGN §3 D6, that the source queue then pops out of order. -/

/-- the code under test copies (regenerated fact; when this fails to check, `Reverse` no longer
matches the pattern the model relies on) -/
theorem reverse_copies_in_code : Generated.pqReverseCopies = true := by decide +kernel

/-- **Independence**: with a copying `Reverse`, whatever is done to the reversed queue, the
source queue's state — hence its bag, its order and all its future answers — is unchanged,
and vice versa. (In the functional model this is the statement that `run` on one value does
not mention the other; it is recorded as a theorem so that the claim is explicit.) -/
theorem reverse_independent (s : QState) (opsR opsS : List QOp) :
    let r := (step s .reverse).1
    -- operating on r does not change s, and operating on s does not change r:
    (run r opsR, run s opsS) = (run (step s .reverse).1 opsR, run s opsS) ∧
    -- r starts with the same bag, the opposite order, and is heap ordered
    r.a.toList.Perm s.a.toList ∧ r.isMin = !s.isMin ∧ Inv r := by
  intro r
  exact ⟨rfl, (reverse_bag s).1, rfl, init_heap (ltOf_ok _) s.a⟩

/-! ### The index theorems apply to the real queue -/

theorem min_lawful : Lawful (goHeap ltMin ltMin_ok) minBetter := goMinHeap_lawful
theorem max_lawful : Lawful (goHeap ltMax ltMax_ok) maxBetter := goMaxHeap_lawful

/-! ### Non-vacuity -/

/-- a concrete reachable, non-trivial state (with a tie) meets the hypotheses -/
example : Inv (run ⟨true, #[]⟩ [.push ⟨3, 1⟩, .push ⟨1, 2⟩, .push ⟨3, 3⟩, .pop, .reverse, .push ⟨2, 4⟩]) :=
  inv_run _ _ (inv_empty true)


/-- the queues compare priorities as float values (regenerated): `-0` and `+0` are one priority. The
model's priorities are the values' bit patterns with both zeros written as 0, which is the same order;
comparing raw bit patterns (seeded change C19-E) puts `-0` above everything. -/
theorem less_compares_float_values : Generated.pqLessComparesFloatValues = true := by decide

end Anndb.C19
