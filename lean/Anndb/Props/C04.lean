import Anndb.Proofs.PartitionRefine
import Anndb.Model.ListPQ
import Anndb.Props.C03
import Anndb.Generated
/-!
# C04 — Replicas applying the same log hold identical contents; snapshot equals replay

Model: `process` (C02) and `Index.reload` (the effect of snapshot `Save` + `Load`; the
byte-level codec is C08). A *replica* is any implementation state related to the specification
by `Refines` — whatever its link lists look like (Go map iteration order, heap tie-breaking and
the entry-point fallback are all free: they are universally quantified here as the queue
implementations, the distance function, the `pick` resolver and the state itself).
-/
namespace Anndb.C04
open Anndb

section
variable {Pmin Pmax Pmin' Pmax' : PQImpl} {dist dist' : VecRef → VecRef → Score} (cfg cfg' : Cfg) (dim : Nat)
variable (pick pick' : List ItemId → Option ItemId)

/-- **Two replicas, one entry**: replicas that agree with the same map before an entry report
the same outcome for it and agree with the same map afterwards — even if they differ in
queue implementation, metric, index parameters, fallback choice and graph. Outcomes are a
function of the map alone. -/
theorem replicas_agree_step (hp : PickOK pick) (hp' : PickOK pick')
    (p p' : PState) (sp : Spec) (h : Refines dim p sp) (h' : Refines dim p' sp) (c : Change) :
    let r := process Pmin Pmax dist cfg dim pick p c
    let r' := process Pmin' Pmax' dist' cfg' dim pick' p' c
    r.2 = r'.2 ∧ (∀ i, absI r.1.idx i = absI r'.1.idx i) ∧ r.1.len = r'.1.len ∧ r.1.bytes = r'.1.bytes ∧
    Refines dim r.1 (sp.step c).1 ∧ Refines dim r'.1 (sp.step c).1 := by
  intro r r'
  obtain ⟨h1, h2⟩ := refines_process (Pmin := Pmin) (Pmax := Pmax) (dist := dist) cfg dim pick hp p sp h c
  obtain ⟨h1', h2'⟩ := refines_process (Pmin := Pmin') (Pmax := Pmax') (dist := dist') cfg' dim pick' hp' p' sp h' c
  refine ⟨h2.trans h2'.symm, ?_, ?_, ?_, h1, h1'⟩
  · intro i; rw [h1.abs i, h1'.abs i]
  · rw [h1.len, h1'.len]
  · rw [h1.bytes, h1'.bytes]

/-- **Two replicas, any log**: same outcomes for every entry, same contents and counters at the end. -/
theorem replicas_agree (hp : PickOK pick) (hp' : PickOK pick')
    (p p' : PState) (sp : Spec) (h : Refines dim p sp) (h' : Refines dim p' sp) (log : List Change) :
    let r := runLog (Pmin := Pmin) (Pmax := Pmax) (dist := dist) cfg dim pick p log
    let r' := runLog (Pmin := Pmin') (Pmax := Pmax') (dist := dist') cfg' dim pick' p' log
    r.2 = r'.2 ∧ (∀ i, absI r.1.idx i = absI r'.1.idx i) ∧ r.1.len = r'.1.len ∧ r.1.bytes = r'.1.bytes := by
  intro r r'
  obtain ⟨h1, h2⟩ := refines_runLog (Pmin := Pmin) (Pmax := Pmax) (dist := dist) cfg dim pick hp p sp h log
  obtain ⟨h1', h2'⟩ := refines_runLog (Pmin := Pmin') (Pmax := Pmax') (dist := dist') cfg' dim pick' hp' p' sp h' log
  refine ⟨h2.trans h2'.symm, ?_, ?_, ?_⟩
  · intro i; rw [h1.abs i, h1'.abs i]
  · rw [h1.len, h1'.len]
  · rw [h1.bytes, h1'.bytes]

/-- every outcome equals what a sequential map reports -/
theorem outcomes_are_the_maps (hp : PickOK pick) (log : List Change) :
    (runLog (Pmin := Pmin) (Pmax := Pmax) (dist := dist) cfg dim pick PState.empty log).2
      = (Spec.empty.runLog log).2 :=
  (refines_runLog cfg dim pick hp PState.empty Spec.empty (refines_empty dim) log).2

theorem spec_runLog_append (s : Spec) (a b : List Change) :
    (s.runLog (a ++ b)).1 = ((s.runLog a).1.runLog b).1 ∧
    (s.runLog (a ++ b)).2 = (s.runLog a).2 ++ ((s.runLog a).1.runLog b).2 := by
  induction a generalizing s with
  | nil => exact ⟨rfl, rfl⟩
  | cons c cs ih =>
    obtain ⟨h1, h2⟩ := ih (s.step c).1
    exact ⟨h1, by show _ :: ((s.step c).1.runLog (cs ++ b)).2 = _ :: _ ++ _; rw [h2]; rfl⟩

/-- **Snapshot equals replay, at every cut**: a replica that applied `pre`, was snapshotted,
had the snapshot installed (on itself or on any other replica — the result of `Load` is the
same state), and then applied `suf`, reports for `suf` exactly the outcomes of a replica that
applied `pre ++ suf` without interruption, and ends with the same contents and counters. -/
theorem snapshot_cut (hp : PickOK pick) (hp' : PickOK pick') (pre suf : List Change) :
    let full := runLog (Pmin := Pmin) (Pmax := Pmax) (dist := dist) cfg dim pick PState.empty (pre ++ suf)
    let atCut := (runLog (Pmin := Pmin') (Pmax := Pmax') (dist := dist') cfg' dim pick' PState.empty pre).1
    let restored : PState := ⟨atCut.idx.reload, atCut.len, atCut.bytes⟩
    let rest := runLog (Pmin := Pmin') (Pmax := Pmax') (dist := dist') cfg' dim pick' restored suf
    (Spec.empty.runLog pre).2 ++ rest.2 = full.2 ∧
    (∀ i, absI rest.1.idx i = absI full.1.idx i) ∧ rest.1.len = full.1.len ∧ rest.1.bytes = full.1.bytes := by
  intro full atCut restored rest
  obtain ⟨hf1, hf2⟩ := refines_runLog (Pmin := Pmin) (Pmax := Pmax) (dist := dist) cfg dim pick hp
    PState.empty Spec.empty (refines_empty dim) (pre ++ suf)
  obtain ⟨hc1, _⟩ := refines_runLog (Pmin := Pmin') (Pmax := Pmax') (dist := dist') cfg' dim pick' hp'
    PState.empty Spec.empty (refines_empty dim) pre
  have hr := refines_reload dim _ _ hc1
  obtain ⟨hs1, hs2⟩ := refines_runLog (Pmin := Pmin') (Pmax := Pmax') (dist := dist') cfg' dim pick' hp'
    restored _ hr suf
  obtain ⟨ha1, ha2⟩ := spec_runLog_append Spec.empty pre suf
  rw [ha1] at hf1
  refine ⟨?_, ?_, ?_, ?_⟩
  · show _ ++ rest.2 = full.2
    rw [hf2, ha2, hs2]
  · intro i; rw [hs1.abs i, hf1.abs i]
  · rw [hs1.len, hf1.len]
  · rw [hs1.bytes, hf1.bytes]

/-- **Restart and replay**: a fresh replica that replays the whole log (with whatever link
orders it happens to produce) ends where the replica that never restarted is. This is
`replicas_agree` from the empty state. -/
theorem restart_replay (hp : PickOK pick) (hp' : PickOK pick') (log : List Change) :
    let r := runLog (Pmin := Pmin) (Pmax := Pmax) (dist := dist) cfg dim pick PState.empty log
    let r' := runLog (Pmin := Pmin') (Pmax := Pmax') (dist := dist') cfg' dim pick' PState.empty log
    r.2 = r'.2 ∧ (∀ i, absI r.1.idx i = absI r'.1.idx i) ∧ r.1.len = r'.1.len ∧ r.1.bytes = r'.1.bytes :=
  replicas_agree cfg cfg' dim pick pick' hp hp' _ _ Spec.empty (refines_empty dim) (refines_empty dim) log

end

/-- `snapshot_cut` speaks about the state after a *prefix* of the log. The snapshot the code stores
is one: it is serialised by the goroutine that applies the entries, between two entries, and is
labelled with that goroutine's last applied index (regenerated from storage/raft/group.go). -/
theorem snapshot_is_a_log_prefix :
    Generated.raftSnapshotInline = true ∧ Generated.raftSnapshotAtLastApplied = true := by decide

/-! ### the label of a snapshot

`trySnapshot` stores the in-memory state and cuts the log after `label` entries. With the label the
code uses — the apply loop's own last applied index — that is exactly the `compact` step of the
recovery model (C03), because what is applied is a prefix of what is durable. With a label that
runs ahead of the applied state (raft's commit index, seeded change C04-C) the entries in between
are in neither the snapshot nor the log any more: a restart never applies them. -/
open Anndb.Recovery in
def compactLabelled (s : St) (label : Nat) : St :=
  { s with snap := s.applied, log := s.durable.drop label }

open Anndb.Recovery in
theorem label_at_applied_is_compact {s : St} (r : Reach true s) (hu : s.up = true) :
    compactLabelled s s.applied.length = compact s := by
  obtain ⟨t, ht⟩ := Recovery.applied_is_durable_prefix r hu
  unfold compactLabelled compact
  have : s.durable.take s.applied.length = s.applied := by
    rw [← ht]; simp
  rw [this]

open Anndb.Recovery in
/-- entries 1 and 2 are durable, only 1 is applied; a snapshot labelled 2 drops entry 2 for good -/
theorem label_ahead_loses_entries :
    let s := applyAll true 1 (save (propose (propose init 1) 2))
    s.durable = [1, 2] ∧ s.applied = [1] ∧
    (compactLabelled s 2).durable = [1] ∧
    (applyAll true 5 (restart (crash (compactLabelled s 2)))).applied = [1] ∧
    (applyAll true 5 (restart (crash (compactLabelled s 1)))).applied = [1, 2] := by decide

/-! ### Non-vacuity: two genuinely different replica implementations -/

example (log : List Change) :
    let r := runLog (Pmin := listPQ minLe) (Pmax := listPQ maxLe) (dist := fun a b => a + b)
      ⟨1, 1, 2, 3, 5, false, false, true⟩ 2 (fun ids => ids.head?) PState.empty log
    let r' := runLog (Pmin := listPQ minLe) (Pmax := listPQ maxLe) (dist := fun a b => a * b + 1)
      ⟨16, 16, 32, 20, 200, true, true, false⟩ 2 (fun ids => ids.getLast?) PState.empty log
    r.2 = r'.2 ∧ (∀ i, absI r.1.idx i = absI r'.1.idx i) ∧ r.1.len = r'.1.len ∧ r.1.bytes = r'.1.bytes := by
  apply restart_replay
  · exact ⟨fun _ _ h => List.mem_of_mem_head? h, fun _ h => List.head?_eq_none_iff.mp h⟩
  · exact ⟨fun _ _ h => List.mem_of_getLast? h, fun _ h => List.getLast?_eq_none_iff.mp h⟩


/-- what `Validate` admits is what the snapshot's length fields can hold: both count bytes
(regenerated; seeded change C04-E counts characters on one side only) -/
theorem metadata_limits_are_byte_lengths : Generated.metadataLimitsAreByteLengths = true := by decide

/-- restart-and-replay starts right after the snapshot because the log store holds nothing below it: a
compaction removes every key below the snapshot index (regenerated; with a bounded compaction a restarted
replica is handed the leftover entries again, on top of the snapshot) -/
theorem compaction_removes_every_key_below : Generated.walCompactionRemovesEveryKeyBelow = true := by decide

end Anndb.C04
