import Anndb.Model.FanIn
import Anndb.Generated
/-!
# C09 — Dataset search equals top-k of the union of its partitions, or fails loudly
-/
namespace Anndb.C09
open Anndb.Merge Anndb.FanIn

/-! ## the merge -/

theorem insertSorted_perm (x : Hit) (l : List Hit) : (insertSorted x l).Perm (x :: l) := by
  induction l with
  | nil => exact List.Perm.refl _
  | cons y ys ih =>
    unfold insertSorted
    split
    · exact List.Perm.refl _
    · exact (List.Perm.cons y ih).trans (List.Perm.swap x y ys)

theorem sortByScore_perm (l : List Hit) : (sortByScore l).Perm l := by
  induction l with
  | nil => exact List.Perm.refl _
  | cons x t ih =>
    show (insertSorted x (sortByScore t)).Perm (x :: t)
    exact (insertSorted_perm x _).trans (List.Perm.cons x ih)

theorem insertSorted_sorted (x : Hit) (l : List Hit) (h : l.Pairwise (fun a b => a.score ≤ b.score)) :
    (insertSorted x l).Pairwise (fun a b => a.score ≤ b.score) := by
  induction l with
  | nil => simp [insertSorted]
  | cons y ys ih =>
    unfold insertSorted
    rw [List.pairwise_cons] at h
    split
    · rename_i hxy
      refine List.pairwise_cons.mpr ⟨?_, List.pairwise_cons.mpr h⟩
      intro z hz
      rcases List.mem_cons.mp hz with rfl | hz
      · exact hxy
      · exact Nat.le_trans hxy (h.1 z hz)
    · rename_i hxy
      refine List.pairwise_cons.mpr ⟨?_, ih h.2⟩
      intro z hz
      have := (insertSorted_perm x ys).subset hz
      rcases List.mem_cons.mp this with rfl | hz'
      · omega
      · exact h.1 z hz'

theorem sortByScore_sorted (l : List Hit) : (sortByScore l).Pairwise (fun a b => a.score ≤ b.score) := by
  induction l with
  | nil => exact List.Pairwise.nil
  | cons x t ih => exact insertSorted_sorted x _ ih

/-- **ascending score order** -/
theorem merge_sorted (k : Nat) (lists : List (List Hit)) :
    (mergeTopK k lists).Pairwise (fun a b => a.score ≤ b.score) :=
  (sortByScore_sorted _).sublist (List.take_sublist _ _)

/-- **at most k, and exactly min(k, total)** -/
theorem merge_length (k : Nat) (lists : List (List Hit)) :
    (mergeTopK k lists).length = min k lists.flatten.length := by
  unfold mergeTopK
  rw [List.length_take, (sortByScore_perm _).length_eq]

/-- **only what the partitions returned** -/
theorem merge_sub (k : Nat) (lists : List (List Hit)) (x : Hit) (h : x ∈ mergeTopK k lists) :
    ∃ l ∈ lists, x ∈ l := by
  have := (sortByScore_perm lists.flatten).subset (List.mem_of_mem_take h)
  exact List.mem_flatten.mp this

/-- **the k best**: nothing that was left out scores strictly better than something returned -/
theorem merge_optimal (k : Nat) (lists : List (List Hit)) (x y : Hit)
    (hx : x ∈ mergeTopK k lists) (hy : y ∈ (sortByScore lists.flatten).drop k) : x.score ≤ y.score := by
  have hs := sortByScore_sorted lists.flatten
  rw [← List.take_append_drop k (sortByScore lists.flatten)] at hs
  exact (List.pairwise_append.mp hs).2.2 x hx y hy

/-- **the score sequence does not depend on the order in which the workers' lists arrive**:
any two arrival orders (permutations of the list of result lists) give the same scores -/
theorem merge_scores_order_independent (k : Nat) (l₁ l₂ : List (List Hit)) (h : l₁.Perm l₂) :
    (mergeTopK k l₁).map (·.score) = (mergeTopK k l₂).map (·.score) := by
  unfold mergeTopK
  rw [List.map_take, List.map_take]
  congr 1
  have p : ((sortByScore l₁.flatten).map (·.score)).Perm ((sortByScore l₂.flatten).map (·.score)) :=
    ((sortByScore_perm _).trans ((List.Perm.flatten h).trans (sortByScore_perm _).symm)).map _
  have s1 := (List.pairwise_map (f := fun (h : Hit) => h.score) (R := (· ≤ ·))).mpr (sortByScore_sorted l₁.flatten)
  have s2 := (List.pairwise_map (f := fun (h : Hit) => h.score) (R := (· ≤ ·))).mpr (sortByScore_sorted l₂.flatten)
  exact List.Perm.eq_of_pairwise (fun a b _ _ hab hba => Nat.le_antisymm hab hba) s1 s2 p

/-! ## the fan-in, for every schedule -/

@[simp] theorem resOf_append (a b : List Msg) : resOf (a ++ b) = resOf a ++ resOf b := by
  induction a with
  | nil => rfl
  | cons h t ih => cases h <;> simp [resOf, ih]

@[simp] theorem errCount_append (a b : List Msg) : errCount (a ++ b) = errCount a + errCount b := by
  induction a with
  | nil => simp [errCount]
  | cons h t ih => cases h <;> simp [errCount, ih] <;> omega

theorem resOf_length_add (ms : List Msg) : (resOf ms).length + errCount ms = ms.length := by
  induction ms with
  | nil => rfl
  | cons h t ih => cases h <;> simp [resOf, errCount] <;> omega

/-- the invariant of the protocol without the closer -/
structure Inv (ms : List Msg) (c : Cfg) : Prop where
  notClosed : c.closed = false
  count : c.got = c.acc.length
  /-- nothing is lost or invented: received ++ buffered ++ still to be sent = all result lists -/
  conserve : (c.acc ++ c.resCh ++ resOf c.pend).Perm (resOf ms)
  errs  : c.out = none → c.errCh + errCount c.pend = errCount ms
  okOut : ∀ a, c.out = some (some a) → a = c.acc ∧ c.got = ms.length

theorem inv_init (ms : List Msg) : Inv ms (init ms) := by
  refine ⟨rfl, rfl, ?_, ?_, ?_⟩ <;> simp [init]

theorem inv_step (ms : List Msg) (c c' : Cfg) (h : Inv ms c) (s : Step ms.length false c c') : Inv ms c' := by
  obtain ⟨h1, h2, h3, h4, h5⟩ := h
  cases s with
  | sendRes pre post r hp =>
    refine ⟨h1, h2, ?_, ?_, ?_⟩
    · rw [hp] at h3
      simp only [resOf_append, resOf] at h3 ⊢
      refine List.Perm.trans ?_ h3
      simp only [List.append_assoc]
      apply List.Perm.append_left
      apply List.Perm.append_left
      simp only [List.singleton_append]
      exact (List.perm_middle).symm
    · intro ho; have := h4 ho; simp [hp, errCount] at this ⊢; omega
    · intro a ha; exact h5 a ha
  | sendErr pre post hp =>
    refine ⟨h1, h2, ?_, ?_, ?_⟩
    · rw [hp] at h3; simpa [resOf] using h3
    · intro ho; have := h4 ho; simp [hp, errCount] at this ⊢; omega
    · intro a ha; exact h5 a ha
  | close hc _ _ => cases hc
  | recvRes r rest ho hg hr =>
    refine ⟨h1, ?_, ?_, ?_, ?_⟩
    · simp [h2]
    · rw [hr] at h3; simpa using h3
    · intro _; exact h4 ho
    · intro a ha; simp [ho] at ha
  | recvErr k ho hg hk =>
    refine ⟨h1, h2, h3, ?_, ?_⟩
    · intro ho'; simp at ho'
    · intro a ha; simp at ha
  | recvClosedRes ho hg hc _ => simp [h1] at hc
  | recvClosedErr ho hg hc _ => simp [h1] at hc
  | finish ho hg =>
    refine ⟨h1, h2, h3, ?_, ?_⟩
    · intro ho'; simp at ho'
    · intro a ha; simp at ha; exact ⟨ha.symm, hg⟩

theorem inv_reach (ms : List Msg) (c : Cfg) (r : Reach ms.length false (init ms) c) : Inv ms c := by
  induction r with
  | refl => exact inv_init ms
  | step _ s ih => exact inv_step ms _ _ ih s

/-- **Success is complete, in every schedule**: if the collector returns success then no worker
failed and what it returns is, as a multiset, exactly the result lists of all workers — never
a partial or empty collection. -/
theorem fanin_success_complete (ms : List Msg) (c : Cfg) (a : List (List Hit))
    (r : Reach ms.length false (init ms) c) (ho : c.out = some (some a)) :
    a.Perm (resOf ms) ∧ errCount ms = 0 ∧ a.length = ms.length := by
  have inv := inv_reach ms c r
  obtain ⟨ha, hg⟩ := inv.okOut a ho
  subst ha
  have hlen := resOf_length_add ms
  have hc := inv.conserve
  have hcl := hc.length_eq
  have h2 := inv.count
  simp only [List.length_append] at hcl
  have hall : c.acc.length = ms.length := by omega
  have hz : c.resCh.length + (resOf c.pend).length = 0 ∧ errCount ms = 0 := by omega
  have hr : c.resCh = [] := List.eq_nil_of_length_eq_zero (by omega)
  have hp : resOf c.pend = [] := List.eq_nil_of_length_eq_zero (by omega)
  rw [hr, hp] at hc
  exact ⟨by simpa using hc, hz.2, hall⟩

/-- **A failing worker is never masked**: if some worker failed, no schedule ends in success. -/
theorem fanin_error_is_loud (ms : List Msg) (c : Cfg) (a : List (List Hit))
    (r : Reach ms.length false (init ms) c) (herr : 0 < errCount ms) : c.out ≠ some (some a) := by
  intro ho
  have := (fanin_success_complete ms c a r ho).2.1
  omega

/-- **No schedule gets stuck**: while the collector has not returned, some action is enabled
(a worker can send, or a buffered message can be received, or the collector can finish). -/
theorem fanin_progress (ms : List Msg) (c : Cfg) (r : Reach ms.length false (init ms) c)
    (ho : c.out = none) : ∃ c', Step ms.length false c c' := by
  have inv := inv_reach ms c r
  cases hp : c.pend with
  | cons m t =>
    cases m with
    | res x => exact ⟨_, Step.sendRes c [] t x (by simp [hp])⟩
    | err => exact ⟨_, Step.sendErr c [] t (by simp [hp])⟩
  | nil =>
    have hc := inv.conserve.length_eq
    have he := inv.errs ho
    have h2 := inv.count
    have hlen := resOf_length_add ms
    simp only [hp, resOf, errCount, List.length_append, List.length_nil, Nat.add_zero, List.append_nil] at hc he
    by_cases hg : c.got = ms.length
    · exact ⟨_, Step.finish c ho hg⟩
    · have hlt : c.got < ms.length := by omega
      cases hr : c.resCh with
      | cons x rest => exact ⟨_, Step.recvRes c x rest ho hlt hr⟩
      | nil =>
        have : c.errCh = (c.errCh - 1) + 1 := by
          simp only [hr, List.length_nil] at hc; omega
        exact ⟨_, Step.recvErr c (c.errCh - 1) ho hlt this⟩

/-- end-to-end: a successful dataset search returns the model merge of all workers' lists, and its
score sequence is the same for every schedule -/
theorem search_result_scores (k : Nat) (ms : List Msg) (c : Cfg) (a : List (List Hit))
    (r : Reach ms.length false (init ms) c) (ho : c.out = some (some a)) :
    (mergeTopK k a).map (·.score) = (mergeTopK k (resOf ms)).map (·.score) :=
  merge_scores_order_independent k a (resOf ms) (fanin_success_complete ms c a r ho).1

/-! ## the closing variant is wrong -/

def c1 : Cfg := { pend := [], resCh := [[⟨1, 1⟩]], errCh := 0, closed := false, got := 0, acc := [], out := none }
def c2 : Cfg := { c1 with closed := true }
def cfgBad : Cfg := { c2 with out := some (some []) }

/-- **Counterexample with the closer (D8)**: one worker, which succeeded; the helper closes both
channels; the collector's select picks the closed error channel, reads a nil error and returns
`(nil, nil)`: an empty list with success although a result was buffered. -/
theorem closing_counterexample :
    Reach 1 true (init [Msg.res [⟨1, 1⟩]]) cfgBad ∧ cfgBad.out = some (some []) := by
  refine ⟨?_, rfl⟩
  have s1 : Step 1 true (init [Msg.res [⟨1, 1⟩]]) c1 := .sendRes _ [] [] [⟨1, 1⟩] rfl
  have s2 : Step 1 true c1 c2 := .close c1 rfl rfl rfl
  have s3 : Step 1 true c2 cfgBad := .recvClosedErr c2 rfl (by decide) rfl rfl
  exact .step (.step (.step .refl s1) s2) s3

/-! ## each partition exactly once -/

/-- **every partition is consulted exactly once**: the groups of `getSearchQueryNodes` partition
the partition list — partition `p` is in the group of node `n` iff `n` is the replica chosen for it -/
theorem query_nodes_cover (parts : List Nat) (choice : Nat → Nat) (p n : Nat) :
    p ∈ queryNodes parts choice n ↔ p ∈ parts ∧ choice p = n := by
  simp [queryNodes, List.mem_filter]

theorem query_nodes_once (parts : List Nat) (hn : parts.Nodup) (choice : Nat → Nat) (n : Nat) :
    (queryNodes parts choice n).Nodup := hn.filter _

theorem query_nodes_disjoint (parts : List Nat) (choice : Nat → Nat) (p n m : Nat) (hnm : n ≠ m)
    (h : p ∈ queryNodes parts choice n) : p ∉ queryNodes parts choice m := by
  rw [query_nodes_cover] at h ⊢
  intro h2
  exact hnm (h.2.symm.trans h2.2)

/-! ## what the code does (regenerated facts) -/

/-- neither `Search` nor `SearchPartitions` closes its fan-in channels (so `closing = false` is the
model of the code), both channels have capacity = number of workers (sends never block), and the
collector loops exactly once per worker; results are sorted and truncated after the loop -/
theorem code_shape :
    Generated.searchFanInCloses = false ∧ Generated.searchChanCapIsWorkerCount = true ∧
    Generated.searchCollectsOncePerWorker = true ∧ Generated.searchSortsThenTruncates = true ∧
    Generated.searchWorkerSendsOnce = true := by decide

/-! ## non-vacuity -/

example : (mergeTopK 3 [[⟨1, 5⟩, ⟨2, 9⟩], [], [⟨3, 1⟩, ⟨4, 5⟩]]).map (·.score) = [1, 5, 5] := by decide

def cOk : Cfg := { pend := [], resCh := [], errCh := 0, closed := false, got := 1, acc := [[⟨1, 1⟩]], out := some (some [[⟨1, 1⟩]]) }

example : Reach 1 false (init [Msg.res [⟨1, 1⟩]]) cOk := by
  have s1 : Step 1 false (init [Msg.res [⟨1, 1⟩]]) c1 := .sendRes _ [] [] [⟨1, 1⟩] rfl
  have s2 : Step 1 false c1 { c1 with resCh := [], got := 1, acc := [[⟨1, 1⟩]] } := .recvRes c1 [⟨1, 1⟩] [] rfl (by decide) rfl
  have s3 := Step.finish (n := 1) (closing := false) { c1 with resCh := [], got := 1, acc := [[⟨1, 1⟩]] } rfl rfl
  exact .step (.step (.step .refl s1) s2) s3


/-- the plan names every partition, on one replica drawn from its list, member or not: a replica that
cannot be reached fails the search, it does not take the partition out of it (regenerated) -/
theorem search_plan_names_every_partition : Generated.searchPlanNamesEveryPartition = true := by decide

end Anndb.C09
