import Anndb.Model.Catalogue
import Anndb.Generated
import Anndb.Proofs.SharedGroup
/-!
# C14 — The dataset catalogue is replicated consistently and survives restart
-/
namespace Anndb.C14
open Anndb.Catalogue

/-- ids are unique in every reachable catalogue -/
def Wf (c : Cat) : Prop := (c.map (·.id)).Nodup

theorem find_none_iff (c : Cat) (id : Nat) : find c id = none ↔ id ∉ c.map (·.id) := by
  unfold find
  rw [List.find?_eq_none]
  constructor
  · intro h hm
    obtain ⟨d, hd, he⟩ := List.mem_map.mp hm
    exact h d hd (by simp [he])
  · intro h d hd he
    exact h (List.mem_map.mpr ⟨d, hd, by simpa using he⟩)

theorem map_id_updDataset (c : Cat) (id : Nat) (f : Dataset → Dataset) (hf : ∀ d, (f d).id = d.id) :
    (updDataset c id f).map (·.id) = c.map (·.id) := by
  unfold updDataset
  rw [List.map_map]
  apply List.map_congr_left
  intro d _
  simp only [Function.comp]
  split
  · exact hf d
  · rfl

theorem process_create_some (c : Cat) (d x : Dataset) (h : find c d.id = some x) :
    process c (.create d) = (c, .exists) := by simp [process, h]
theorem process_create_none (c : Cat) (d : Dataset) (h : find c d.id = none) :
    process c (.create d) = (c ++ [d], .ok) := by simp [process, h]
theorem process_delete_none (c : Cat) (id : Nat) (h : find c id = none) :
    process c (.delete id) = (c, .notFound) := by simp [process, h]
theorem process_delete_some (c : Cat) (id : Nat) (x : Dataset) (h : find c id = some x) :
    process c (.delete id) = (c.filter (·.id != id), .ok) := by simp [process, h]
theorem process_addNode_none (c : Cat) (ds part node : Nat) (h : find c ds = none) :
    process c (.addNode ds part node) = (c, .notFound) := by simp [process, h]
theorem process_removeNode_none (c : Cat) (ds part node : Nat) (h : find c ds = none) :
    process c (.removeNode ds part node) = (c, .notFound) := by simp [process, h]
theorem process_addNode_ids (c : Cat) (ds part node : Nat) :
    (process c (.addNode ds part node)).1.map (·.id) = c.map (·.id) := by
  cases hf : find c ds with
  | none => rw [process_addNode_none c ds part node hf]
  | some d =>
    simp only [process, hf]
    by_cases hp : (d.parts.any (·.id == part)) = true
    · simp only [hp, if_true]; exact map_id_updDataset _ _ _ (fun _ => rfl)
    · simp only [hp]; rfl
theorem process_removeNode_ids (c : Cat) (ds part node : Nat) :
    (process c (.removeNode ds part node)).1.map (·.id) = c.map (·.id) := by
  cases hf : find c ds with
  | none => rw [process_removeNode_none c ds part node hf]
  | some d =>
    simp only [process, hf]
    by_cases hp : (d.parts.any (·.id == part)) = true
    · simp only [hp, if_true]; exact map_id_updDataset _ _ _ (fun _ => rfl)
    · simp only [hp]; rfl

/-- **well-formedness is an invariant of the replicated state machine** -/
theorem wf_process (c : Cat) (ch : Change) (h : Wf c) : Wf (process c ch).1 := by
  cases ch with
  | create d =>
    cases hf : find c d.id with
    | some x => rw [process_create_some c d x hf]; exact h
    | none =>
      rw [process_create_none c d hf]
      unfold Wf
      simp only [List.map_append, List.map_cons, List.map_nil]
      rw [List.nodup_append]
      refine ⟨h, by simp, ?_⟩
      intro a ha b hb
      simp only [List.mem_cons, List.not_mem_nil, or_false] at hb
      subst hb
      intro he; subst he
      exact (find_none_iff c d.id).mp hf ha
  | delete id =>
    cases hf : find c id with
    | none => rw [process_delete_none c id hf]; exact h
    | some x =>
      rw [process_delete_some c id x hf]
      unfold Wf
      exact List.Nodup.sublist (List.Sublist.map _ (List.filter_sublist)) h
  | addNode ds part node => unfold Wf; rw [process_addNode_ids]; exact h
  | removeNode ds part node => unfold Wf; rw [process_removeNode_ids]; exact h

theorem wf_run (c : Cat) (log : List Change) (h : Wf c) : Wf (run c log) := by
  induction log generalizing c with
  | nil => exact h
  | cons ch rest ih => exact ih _ (wf_process c ch h)

/-- **Every node computes the same catalogue**: the catalogue is a function of the committed log
(two nodes that applied the same log hold equal catalogues, and so does a node that restarts
and replays) — `run` is a function, stated for the record. -/
theorem replicas_agree (log : List Change) (c₁ c₂ : Cat) (h : c₁ = c₂) : run c₁ log = run c₂ log := by
  rw [h]

/-- **Replay is compositional**: applying a log in two sittings (restart in between) is applying it once. -/
theorem run_append (c : Cat) (a b : List Change) : run c (a ++ b) = run (run c a) b := by
  induction a generalizing c with
  | nil => rfl
  | cons ch rest ih => exact ih _

/-- **A created dataset is listed with exactly the proposed metadata** -/
theorem create_listed (c : Cat) (d : Dataset) (h : find c d.id = none) :
    (process c (.create d)).2 = .ok ∧ d ∈ (process c (.create d)).1 := by
  rw [process_create_none c d h]; simp

/-- **A deleted dataset is gone** and stays gone until created again -/
theorem delete_unlisted (c : Cat) (id : Nat) : find (process c (.delete id)).1 id = none := by
  cases hf : find c id with
  | none => rw [process_delete_none c id hf]; exact hf
  | some x =>
    rw [process_delete_some c id x hf]
    rw [find_none_iff]
    intro hm
    obtain ⟨d, hd, he⟩ := List.mem_map.mp hm
    have := (List.mem_filter.mp hd).2
    simp [he] at this

theorem deleted_stays_deleted (c : Cat) (id : Nat) (ch : Change) (h : find c id = none)
    (hne : ∀ d, ch = .create d → d.id ≠ id) : find (process c ch).1 id = none := by
  rw [find_none_iff] at h ⊢
  cases ch with
  | create d =>
    cases hf : find c d.id with
    | some x => rw [process_create_some c d x hf]; exact h
    | none =>
      rw [process_create_none c d hf]
      simp only [List.map_append, List.map_cons, List.map_nil, List.mem_append, List.mem_cons, List.not_mem_nil, or_false]
      rintro (hm | he)
      · exact h hm
      · exact hne d rfl he.symm
  | delete i =>
    cases hf : find c i with
    | none => rw [process_delete_none c i hf]; exact h
    | some x =>
      rw [process_delete_some c i x hf]
      intro hm
      exact h ((List.Sublist.map _ List.filter_sublist).subset hm)
  | addNode ds part node => rw [process_addNode_ids]; exact h
  | removeNode ds part node => rw [process_removeNode_ids]; exact h

/-! ## snapshots -/

/-- a dataset that is already present and has the shape of the snapshot's dataset (same creation
entry) becomes exactly the snapshot's dataset -/
theorem reconcile_eq (d s : Dataset) (hid : d.id = s.id) (hdim : d.dim = s.dim) (hsp : d.space = s.space)
    (hr : d.repl = s.repl) (hp : d.parts.map (·.id) = s.parts.map (·.id))
    (hn : (s.parts.map (·.id)).Nodup) : reconcile d s = s := by
  have hparts : (d.parts.map fun p => match s.parts.find? (·.id == p.id) with
      | some q => ({ p with nodes := q.nodes } : Part)
      | none => p) = s.parts := by
    generalize d.parts = dp at hp
    generalize hsp' : s.parts = sp at hp hn
    -- the lookup goes into the *whole* list `sp`; walk along a suffix of it
    suffices ∀ (pre suf : List Part) (dsuf : List Part), sp = pre ++ suf → dsuf.map (·.id) = suf.map (·.id) →
        (dsuf.map fun p => match sp.find? (·.id == p.id) with
          | some q => ({ p with nodes := q.nodes } : Part)
          | none => p) = suf from this [] sp dp rfl hp
    intro pre suf
    induction suf generalizing pre with
    | nil =>
      intro dsuf _ hm
      cases dsuf with
      | nil => rfl
      | cons _ _ => simp at hm
    | cons q rest ih =>
      intro dsuf hsplit hm
      cases dsuf with
      | nil => simp at hm
      | cons p drest =>
        simp only [List.map_cons, List.cons.injEq] at hm
        obtain ⟨hpq, hrest⟩ := hm
        have hfind : sp.find? (·.id == p.id) = some q := by
          rw [hsplit, List.find?_append]
          have hnone : pre.find? (·.id == p.id) = none := by
            apply List.find?_eq_none.mpr
            intro x hx hxe
            have hxe' : x.id = q.id := by rw [← hpq]; simpa using hxe
            rw [hsplit, List.map_append, List.nodup_append] at hn
            exact hn.2.2 x.id (List.mem_map.mpr ⟨x, hx, rfl⟩) q.id (by simp) hxe'
          rw [hnone]
          simp [hpq]
        simp only [List.map_cons, hfind]
        congr 1
        · cases p; cases q; simp_all
        · exact ih (pre ++ [q]) drest (by rw [hsplit]; simp) hrest
  cases d; cases s
  simp only [reconcile] at *
  simp_all
  exact hparts

/-- what makes a present dataset and the snapshot's dataset "the same dataset": created by the same
entry (dataset ids are fresh random uuids: an id is created once) -/
def SameShape (d s : Dataset) : Prop :=
  d.dim = s.dim ∧ d.space = s.space ∧ d.repl = s.repl ∧ d.parts.map (·.id) = s.parts.map (·.id)

/-- **Installing a catalogue snapshot gives exactly the snapshotted catalogue, whatever the member
held before** (D17 repaired): datasets deleted meanwhile disappear, replica lists that changed
are updated, new datasets appear. -/
theorem restore_is_the_snapshot (c : Cat) (snap : List Dataset)
    (hshape : ∀ s ∈ snap, ∀ d, find c s.id = some d → SameShape d s)
    (hparts : ∀ s ∈ snap, (s.parts.map (·.id)).Nodup) : restore c snap = snap := by
  unfold restore
  conv => rhs; rw [← List.map_id snap]
  apply List.map_congr_left
  intro s hs
  cases hf : find c s.id with
  | none => rfl
  | some d =>
    simp only [id]
    have hid : d.id = s.id := by
      have := List.find?_some hf
      simpa using this
    obtain ⟨h1, h2, h3, h4⟩ := hshape s hs d hf
    exact reconcile_eq d s hid h1 h2 h3 h4 (hparts s hs)

/-! ### the hypothesis of `restore_is_the_snapshot` holds between any two points of one log

Dataset and partition ids are fresh random uuids: the log creates an id at most once, and the
partitions of one creation have distinct ids (`FreshIds`). Then a dataset that a lagging member
holds and the dataset of the same id in the leader's snapshot stem from the same creation entry
and differ in replica lists only. -/

theorem SameShape.refl (d : Dataset) : SameShape d d := ⟨rfl, rfl, rfl, rfl⟩
theorem SameShape.symm {d s : Dataset} (h : SameShape d s) : SameShape s d :=
  ⟨h.1.symm, h.2.1.symm, h.2.2.1.symm, h.2.2.2.symm⟩
theorem SameShape.trans {a b c : Dataset} (h1 : SameShape a b) (h2 : SameShape b c) : SameShape a c :=
  ⟨h1.1.trans h2.1, h1.2.1.trans h2.2.1, h1.2.2.1.trans h2.2.2.1, h1.2.2.2.trans h2.2.2.2⟩

/-- the creation entries of a log -/
def creates : List Change → List Dataset
  | [] => []
  | .create e :: rest => e :: creates rest
  | _ :: rest => creates rest

theorem creates_append (a b : List Change) : creates (a ++ b) = creates a ++ creates b := by
  induction a with
  | nil => rfl
  | cons ch rest ih => cases ch <;> simp [creates, ih]

/-- `d` stems from one of the creation entries `srcs` -/
def Src (srcs : List Dataset) (d : Dataset) : Prop := ∃ e ∈ srcs, e.id = d.id ∧ SameShape d e

theorem Src.mono {srcs more : List Dataset} {d : Dataset} (h : Src srcs d) : Src (srcs ++ more) d := by
  obtain ⟨e, he, h1, h2⟩ := h
  exact ⟨e, List.mem_append_left _ he, h1, h2⟩

theorem updPart_shape (f : Part → Part) (hf : ∀ p, (f p).id = p.id) (pid : Nat) (d : Dataset) :
    (updPart f pid d).id = d.id ∧ SameShape (updPart f pid d) d := by
  refine ⟨rfl, rfl, rfl, rfl, ?_⟩
  simp only [updPart, List.map_map]
  apply List.map_congr_left
  intro p _
  simp only [Function.comp]
  split
  · exact hf p
  · rfl

theorem src_updDataset (srcs : List Dataset) (c : Cat) (ds : Nat) (g : Dataset → Dataset)
    (hg : ∀ d, (g d).id = d.id ∧ SameShape (g d) d) (h : ∀ d ∈ c, Src srcs d) :
    ∀ d ∈ updDataset c ds g, Src srcs d := by
  intro d hd
  obtain ⟨x, hx, rfl⟩ := List.mem_map.mp hd
  obtain ⟨e, he, h1, h2⟩ := h x hx
  split
  · exact ⟨e, he, h1.trans (hg x).1.symm, (hg x).2.trans h2⟩
  · exact ⟨e, he, h1, h2⟩

theorem src_process (srcs : List Dataset) (c : Cat) (ch : Change) (h : ∀ d ∈ c, Src srcs d) :
    ∀ d ∈ (process c ch).1, Src (srcs ++ creates [ch]) d := by
  cases ch with
  | create e =>
    cases hf : find c e.id with
    | some x => rw [process_create_some c e x hf]; intro d hd; exact (h d hd).mono
    | none =>
      rw [process_create_none c e hf]
      intro d hd
      rcases List.mem_append.mp hd with hd | hd
      · exact (h d hd).mono
      · have : d = e := by simpa using hd
        subst this
        exact ⟨d, by simp [creates], rfl, SameShape.refl d⟩
  | delete i =>
    cases hf : find c i with
    | none => rw [process_delete_none c i hf]; intro d hd; exact (h d hd).mono
    | some x =>
      rw [process_delete_some c i x hf]
      intro d hd
      exact (h d (List.mem_filter.mp hd).1).mono
  | addNode ds part node =>
    intro d hd
    simp only [process] at hd
    split at hd
    · exact (h d hd).mono
    · split at hd
      · exact (src_updDataset srcs c ds (updPart (fun p => { p with nodes := p.nodes ++ [node] }) part)
          (fun x => updPart_shape (fun p => { p with nodes := p.nodes ++ [node] }) (fun _ => rfl) part x) h d hd).mono
      · exact (h d hd).mono
  | removeNode ds part node =>
    intro d hd
    simp only [process] at hd
    split at hd
    · exact (h d hd).mono
    · split at hd
      · exact (src_updDataset srcs c ds (updPart (fun p => { p with nodes := p.nodes.filter (· != node) }) part)
          (fun x => updPart_shape (fun p => { p with nodes := p.nodes.filter (· != node) }) (fun _ => rfl) part x) h d hd).mono
      · exact (h d hd).mono

theorem src_run (srcs : List Dataset) (c : Cat) (log : List Change) (h : ∀ d ∈ c, Src srcs d) :
    ∀ d ∈ run c log, Src (srcs ++ creates log) d := by
  induction log generalizing c srcs with
  | nil => intro d hd; exact (h d hd).mono
  | cons ch rest ih =>
    intro d hd
    have := ih (srcs ++ creates [ch]) (process c ch).1 (src_process srcs c ch h) d hd
    have hc : creates (ch :: rest) = creates [ch] ++ creates rest := creates_append [ch] rest
    rw [hc, ← List.append_assoc]
    exact this

/-- ids are created once, and the partitions of one creation are distinct -/
structure FreshIds (log : List Change) : Prop where
  once : ∀ e ∈ creates log, ∀ e' ∈ creates log, e.id = e'.id → e = e'
  parts : ∀ e ∈ creates log, (e.parts.map (·.id)).Nodup

/-- **C14 (a lagging member is caught up by the leader's snapshot).** Whatever prefix of the
catalogue log a member has applied, installing the snapshot of the catalogue after the whole log
leaves it with exactly that catalogue — for every log whose ids are fresh. -/
theorem lagging_member_gets_the_leaders_catalogue (pre suf : List Change) (hf : FreshIds (pre ++ suf)) :
    restore (run [] pre) (snapshot (run [] (pre ++ suf))) = run [] (pre ++ suf) := by
  apply restore_is_the_snapshot
  · intro s hs d hd
    have hdm : d ∈ run [] pre := List.mem_of_find?_eq_some hd
    have hdid : d.id = s.id := by simpa using List.find?_some hd
    obtain ⟨e, he, he1, he2⟩ := src_run [] [] pre (by simp) d hdm
    obtain ⟨e', he', he1', he2'⟩ := src_run [] [] (pre ++ suf) (by simp) s hs
    simp only [List.nil_append] at he he'
    have hemem : e ∈ creates (pre ++ suf) := by rw [creates_append]; exact List.mem_append_left _ he
    have : e = e' := hf.once e hemem e' he' (by rw [he1, he1', hdid])
    subst this
    exact he2.trans he2'.symm
  · intro s hs
    obtain ⟨e', he', _, he2'⟩ := src_run [] [] (pre ++ suf) (by simp) s hs
    simp only [List.nil_append] at he'
    rw [he2'.2.2.2]
    exact hf.parts e' he'

/-- non-vacuity: the history of `lagging_member_catches_up` has fresh ids -/
example : FreshIds [.create ⟨1, 2, 0, 1, [⟨10, [1]⟩]⟩, .create ⟨3, 4, 1, 2, [⟨30, [1, 2]⟩, ⟨31, [2, 3]⟩]⟩,
    .delete 1, .create ⟨2, 2, 0, 1, [⟨20, [1]⟩]⟩, .removeNode 3 30 1, .addNode 3 31 1] :=
  ⟨by decide, by decide⟩

/-- **Snapshot restore on a fresh node = the snapshotted catalogue** (restart from a compacted log) -/
theorem snapshot_restore_fresh (c : Cat) (_h : Wf c) : restore [] (snapshot c) = c := by
  unfold restore snapshot
  conv => rhs; rw [← List.map_id c]
  apply List.map_congr_left
  intro s _
  simp [find]

/-- **Snapshot + suffix = full replay, at every cut, on a restarting node** -/
theorem snapshot_cut_fresh (pre suf : List Change) :
    run (restore [] (snapshot (run [] pre))) suf = run [] (pre ++ suf) := by
  rw [snapshot_restore_fresh _ (wf_run [] pre (by simp [Wf])), run_append]

/-- **a lagging member**: it still lists dataset 1 (deleted meanwhile) and an old replica list of
dataset 3; after installing the leader's snapshot it lists exactly what the leader lists -/
theorem lagging_member_catches_up :
    let stale : Cat := [⟨1, 2, 0, 1, [⟨10, [1]⟩]⟩, ⟨3, 4, 1, 2, [⟨30, [1, 2]⟩, ⟨31, [2, 3]⟩]⟩]
    let leader : Cat := run stale [.delete 1, .create ⟨2, 2, 0, 1, [⟨20, [1]⟩]⟩, .removeNode 3 30 1, .addNode 3 31 1]
    restore stale (snapshot leader) = leader := by
  decide

/-- before the repair `processSnapshot` only added: the deleted dataset stayed listed -/
theorem add_only_restore_kept_stale_datasets :
    let stale : Cat := [⟨1, 2, 0, 1, [⟨10, [1]⟩]⟩]
    let leader : Cat := run stale [.delete 1, .create ⟨2, 2, 0, 1, [⟨20, [1]⟩]⟩]
    restoreAddOnly stale (snapshot leader) ≠ leader ∧ (restoreAddOnly stale (snapshot leader)).length = 2 := by
  decide

/-- the repair is in the code on this run (regenerated): `processSnapshot` drops what the snapshot
does not list and sets the replica lists of what it does -/
theorem snapshot_replaces_in_code : Generated.catalogueSnapshotReplaces = true := by decide

/-! ## regenerated facts -/

/-! ### through the shared group

The catalogue is one of the named consumers of the zero group (`storage/raft/shared_group.go`): the
snapshot a lagging member installs is the *shared group's* — a map consumer name → that consumer's
snapshot — and the catalogue only sees its own slot. An empty catalogue marshals to zero bytes. -/

/-- the catalogue as a consumer of the shared group -/
def catalogueConsumer : Shared.Consumer Cat (List Dataset) :=
  ⟨fun c _ => c, snapshot, restore, List.isEmpty⟩

/-- **installing the shared group's snapshot installs every consumer's own part** — also a part of
zero bytes — provided the group gives every consumer a slot (`keepEmpty = true`, the regenerated
fact `sharedSnapshotKeepsEmptySlots`) -/
theorem shared_snapshot_reaches_every_consumer {σ β : Type} (ops : String → Shared.Consumer σ β)
    (names : List String) (hnd : names.Nodup) (lag lead : Shared.State σ) (n : String) (hn : n ∈ names) :
    Shared.restore ops lag (Shared.snapshot ops names Generated.sharedSnapshotKeepsEmptySlots lead) n =
      (ops n).restore (lag n) ((ops n).snapshot (lead n)) := by
  have hk : Generated.sharedSnapshotKeepsEmptySlots = true := by decide
  rw [hk]
  exact Shared.restore_listed ops n _ _ lag (Shared.mem_snapshot_keep ops lead names n hn)
    (Shared.snapshot_nodup ops true lead names hnd)

/-- **C14 through the real path**: a member that has applied any prefix of the catalogue log and is
caught up by the zero group's snapshot (taken after the whole log) lists exactly the leader's
catalogue — whatever the other consumers are, and also when that catalogue is empty -/
theorem lagging_member_gets_the_leaders_catalogue_through_the_shared_group
    (ops : String → Shared.Consumer Cat (List Dataset)) (names : List String) (hnd : names.Nodup)
    (hds : "datasets" ∈ names) (hops : ops "datasets" = catalogueConsumer)
    (lag lead : Shared.State Cat) (pre suf : List Change) (hf : FreshIds (pre ++ suf))
    (hlag : lag "datasets" = run [] pre) (hlead : lead "datasets" = run [] (pre ++ suf)) :
    Shared.restore ops lag (Shared.snapshot ops names Generated.sharedSnapshotKeepsEmptySlots lead) "datasets"
      = run [] (pre ++ suf) := by
  rw [shared_snapshot_reaches_every_consumer ops names hnd lag lead "datasets" hds, hops, hlag, hlead]
  exact lagging_member_gets_the_leaders_catalogue pre suf hf

/-- a shared group that leaves out zero-byte slots (seeded change C14-D) never tells a lagging
member that the catalogue has become empty: the deleted dataset stays listed -/
theorem dropped_empty_slot_keeps_a_deleted_dataset :
    let ops : String → Shared.Consumer Cat (List Dataset) := fun _ => catalogueConsumer
    let lag : Shared.State Cat := fun n => if n = "datasets" then [⟨1, 2, 0, 1, [⟨10, [1]⟩]⟩] else []
    let lead : Shared.State Cat := fun _ => []
    Shared.restore ops lag (Shared.snapshot ops ["nodes", "datasets"] false lead) "datasets" ≠ [] ∧
    Shared.restore ops lag (Shared.snapshot ops ["nodes", "datasets"] true lead) "datasets" = [] := by
  decide

/-- the shared group hands entries and snapshot slots to the consumer they name (regenerated) -/
theorem shared_group_in_code : Generated.sharedSnapshotKeepsEmptySlots = true ∧
    Generated.sharedRestoreVisitsEverySlot = true ∧ Generated.sharedProcessByName = true := by decide

/-- the catalogue consumer is registered with the shared group before the zero group starts
replaying (server.go), so no entry or snapshot is delivered to a missing consumer -/
theorem wiring : Generated.serverStartsZeroGroupAfterConsumers = true := by decide

/-- `newDataset` keeps the partition metadata objects of the dataset's own metadata (replica-set
changes made through a partition are visible in what `List`/`snapshot` report) -/
theorem partition_meta_aliases_dataset_meta : Generated.datasetPartitionMetaShared = true := by decide

/-- the snapshot function runs on the raft apply goroutine (`trySnapshot` is called from the
ready loop, not from a goroutine of its own), so a snapshot labelled `i` contains exactly the
effect of entries ≤ `i` -/
theorem snapshot_on_apply_goroutine : Generated.raftSnapshotInline = true := by decide

/-! ## non-vacuity -/

example : run [] [.create ⟨1, 2, 0, 2, [⟨10, [1, 2]⟩]⟩, .addNode 1 10 3, .removeNode 1 10 1, .delete 7]
    = [⟨1, 2, 0, 2, [⟨10, [2, 3]⟩]⟩] := by decide


/-- what the catalogue says about a partition's replicas does not depend on what the applying node can
load: the replica is listed first and unconditionally (regenerated) -/
theorem replica_add_applied_unconditionally : Generated.replicaAddAppliedUnconditionally = true := by decide

end Anndb.C14
