import Anndb.Model.Catalogue
import Anndb.Generated
/-!
# C14 — The dataset catalogue is replicated consistently and survives restart
-/
namespace Anndb.C14
open Anndb.Catalogue

/-- ids are unique in every reachable catalogue -/
def Wf (c : Cat) : Prop := (c.map (·.id)).Nodup

theorem find_none_iff (c : Cat) (id : Nat) : find c id = none ↔ id ∉ c.map (·.id) := by
  unfold find
  rw [List.find?_eq_none]
  constructor
  · intro h hm
    obtain ⟨d, hd, he⟩ := List.mem_map.mp hm
    exact h d hd (by simp [he])
  · intro h d hd he
    exact h (List.mem_map.mpr ⟨d, hd, by simpa using he⟩)

theorem map_id_updDataset (c : Cat) (id : Nat) (f : Dataset → Dataset) (hf : ∀ d, (f d).id = d.id) :
    (updDataset c id f).map (·.id) = c.map (·.id) := by
  unfold updDataset
  rw [List.map_map]
  apply List.map_congr_left
  intro d _
  simp only [Function.comp]
  split
  · exact hf d
  · rfl

theorem process_create_some (c : Cat) (d x : Dataset) (h : find c d.id = some x) :
    process c (.create d) = (c, .exists) := by simp [process, h]
theorem process_create_none (c : Cat) (d : Dataset) (h : find c d.id = none) :
    process c (.create d) = (c ++ [d], .ok) := by simp [process, h]
theorem process_delete_none (c : Cat) (id : Nat) (h : find c id = none) :
    process c (.delete id) = (c, .notFound) := by simp [process, h]
theorem process_delete_some (c : Cat) (id : Nat) (x : Dataset) (h : find c id = some x) :
    process c (.delete id) = (c.filter (·.id != id), .ok) := by simp [process, h]
theorem process_addNode_none (c : Cat) (ds part node : Nat) (h : find c ds = none) :
    process c (.addNode ds part node) = (c, .notFound) := by simp [process, h]
theorem process_removeNode_none (c : Cat) (ds part node : Nat) (h : find c ds = none) :
    process c (.removeNode ds part node) = (c, .notFound) := by simp [process, h]
theorem process_addNode_ids (c : Cat) (ds part node : Nat) :
    (process c (.addNode ds part node)).1.map (·.id) = c.map (·.id) := by
  cases hf : find c ds with
  | none => rw [process_addNode_none c ds part node hf]
  | some d =>
    simp only [process, hf]
    by_cases hp : (d.parts.any (·.id == part)) = true
    · simp only [hp, if_true]; exact map_id_updDataset _ _ _ (fun _ => rfl)
    · simp only [hp]; rfl
theorem process_removeNode_ids (c : Cat) (ds part node : Nat) :
    (process c (.removeNode ds part node)).1.map (·.id) = c.map (·.id) := by
  cases hf : find c ds with
  | none => rw [process_removeNode_none c ds part node hf]
  | some d =>
    simp only [process, hf]
    by_cases hp : (d.parts.any (·.id == part)) = true
    · simp only [hp, if_true]; exact map_id_updDataset _ _ _ (fun _ => rfl)
    · simp only [hp]; rfl

/-- **well-formedness is an invariant of the replicated state machine** -/
theorem wf_process (c : Cat) (ch : Change) (h : Wf c) : Wf (process c ch).1 := by
  cases ch with
  | create d =>
    cases hf : find c d.id with
    | some x => rw [process_create_some c d x hf]; exact h
    | none =>
      rw [process_create_none c d hf]
      unfold Wf
      simp only [List.map_append, List.map_cons, List.map_nil]
      rw [List.nodup_append]
      refine ⟨h, by simp, ?_⟩
      intro a ha b hb
      simp only [List.mem_cons, List.not_mem_nil, or_false] at hb
      subst hb
      intro he; subst he
      exact (find_none_iff c d.id).mp hf ha
  | delete id =>
    cases hf : find c id with
    | none => rw [process_delete_none c id hf]; exact h
    | some x =>
      rw [process_delete_some c id x hf]
      unfold Wf
      exact List.Nodup.sublist (List.Sublist.map _ (List.filter_sublist)) h
  | addNode ds part node => unfold Wf; rw [process_addNode_ids]; exact h
  | removeNode ds part node => unfold Wf; rw [process_removeNode_ids]; exact h

theorem wf_run (c : Cat) (log : List Change) (h : Wf c) : Wf (run c log) := by
  induction log generalizing c with
  | nil => exact h
  | cons ch rest ih => exact ih _ (wf_process c ch h)

/-- **Every node computes the same catalogue**: the catalogue is a function of the committed log
(two nodes that applied the same log hold equal catalogues, and so does a node that restarts
and replays) — `run` is a function, stated for the record. -/
theorem replicas_agree (log : List Change) (c₁ c₂ : Cat) (h : c₁ = c₂) : run c₁ log = run c₂ log := by
  rw [h]

/-- **Replay is compositional**: applying a log in two sittings (restart in between) is applying it once. -/
theorem run_append (c : Cat) (a b : List Change) : run c (a ++ b) = run (run c a) b := by
  induction a generalizing c with
  | nil => rfl
  | cons ch rest ih => exact ih _

/-- **A created dataset is listed with exactly the proposed metadata** -/
theorem create_listed (c : Cat) (d : Dataset) (h : find c d.id = none) :
    (process c (.create d)).2 = .ok ∧ d ∈ (process c (.create d)).1 := by
  rw [process_create_none c d h]; simp

/-- **A deleted dataset is gone** and stays gone until created again -/
theorem delete_unlisted (c : Cat) (id : Nat) : find (process c (.delete id)).1 id = none := by
  cases hf : find c id with
  | none => rw [process_delete_none c id hf]; exact hf
  | some x =>
    rw [process_delete_some c id x hf]
    rw [find_none_iff]
    intro hm
    obtain ⟨d, hd, he⟩ := List.mem_map.mp hm
    have := (List.mem_filter.mp hd).2
    simp [he] at this

theorem deleted_stays_deleted (c : Cat) (id : Nat) (ch : Change) (h : find c id = none)
    (hne : ∀ d, ch = .create d → d.id ≠ id) : find (process c ch).1 id = none := by
  rw [find_none_iff] at h ⊢
  cases ch with
  | create d =>
    cases hf : find c d.id with
    | some x => rw [process_create_some c d x hf]; exact h
    | none =>
      rw [process_create_none c d hf]
      simp only [List.map_append, List.map_cons, List.map_nil, List.mem_append, List.mem_cons, List.not_mem_nil, or_false]
      rintro (hm | he)
      · exact h hm
      · exact hne d rfl he.symm
  | delete i =>
    cases hf : find c i with
    | none => rw [process_delete_none c i hf]; exact h
    | some x =>
      rw [process_delete_some c i x hf]
      intro hm
      exact h ((List.Sublist.map _ List.filter_sublist).subset hm)
  | addNode ds part node => rw [process_addNode_ids]; exact h
  | removeNode ds part node => rw [process_removeNode_ids]; exact h

/-! ## snapshots -/

theorem restore_append_fresh (acc snap : List Dataset)
    (hd : ∀ d ∈ snap, d.id ∉ acc.map (·.id)) (hn : (snap.map (·.id)).Nodup) :
    restore acc snap = acc ++ snap := by
  induction snap generalizing acc with
  | nil => simp [restore]
  | cons d t ih =>
    have hnone : find acc d.id = none := (find_none_iff acc d.id).mpr (hd d List.mem_cons_self)
    rw [List.map_cons, List.nodup_cons] at hn
    show restore (match find acc d.id with | some _ => acc | none => acc ++ [d]) t = _
    rw [hnone]
    simp only
    rw [ih (acc ++ [d]) ?_ hn.2]
    · simp
    · intro e he
      simp only [List.map_append, List.map_cons, List.map_nil, List.mem_append, List.mem_cons, List.not_mem_nil, or_false]
      rintro (hm | heq)
      · exact hd e (List.mem_cons_of_mem _ he) hm
      · exact hn.1 (heq ▸ List.mem_map.mpr ⟨e, he, rfl⟩)

/-- **Snapshot restore on a fresh node = the snapshotted catalogue** (restart from a compacted log) -/
theorem snapshot_restore_fresh (c : Cat) (h : Wf c) : restore [] (snapshot c) = c := by
  have := restore_append_fresh [] c (by simp) h
  simpa [snapshot] using this

/-- **Snapshot + suffix = full replay, at every cut, on a restarting node** -/
theorem snapshot_cut_fresh (pre suf : List Change) :
    run (restore [] (snapshot (run [] pre))) suf = run [] (pre ++ suf) := by
  rw [snapshot_restore_fresh _ (wf_run [] pre (by simp [Wf])), run_append]

/-- **Restoring onto a non-empty catalogue is wrong** (D17, known finding): a lagging member that
still lists a dataset which the snapshot no longer contains keeps it; and a replica list that
changed is not updated. -/
theorem snapshot_restore_stale_counterexample :
    let stale : Cat := [⟨1, 2, 0, 1, [⟨10, [1]⟩]⟩]
    let leader : Cat := run stale [.delete 1, .create ⟨2, 2, 0, 1, [⟨20, [1]⟩]⟩]
    restore stale (snapshot leader) ≠ leader ∧ (restore stale (snapshot leader)).length = 2 := by
  decide

/-! ## regenerated facts -/

/-- the catalogue consumer is registered with the shared group before the zero group starts
replaying (server.go), so no entry or snapshot is delivered to a missing consumer -/
theorem wiring : Generated.serverStartsZeroGroupAfterConsumers = true := by decide

/-- `newDataset` keeps the partition metadata objects of the dataset's own metadata (replica-set
changes made through a partition are visible in what `List`/`snapshot` report) -/
theorem partition_meta_aliases_dataset_meta : Generated.datasetPartitionMetaShared = true := by decide

/-- the snapshot function runs on the raft apply goroutine (`trySnapshot` is called from the
ready loop, not from a goroutine of its own), so a snapshot labelled `i` contains exactly the
effect of entries ≤ `i` -/
theorem snapshot_on_apply_goroutine : Generated.raftSnapshotInline = true := by decide

/-! ## non-vacuity -/

example : run [] [.create ⟨1, 2, 0, 2, [⟨10, [1, 2]⟩]⟩, .addNode 1 10 3, .removeNode 1 10 1, .delete 7]
    = [⟨1, 2, 0, 2, [⟨10, [2, 3]⟩]⟩] := by decide

end Anndb.C14
