import Anndb.Model.Placement
import Anndb.Generated
/-!
# C16 — Every partition is placed on min(R, N) distinct member nodes, independently

`shuffle` is an oracle: the theorems hold for *every* family of permutations of the member
list, hence for every seed of the shuffle, every N, R and partition count.
-/
namespace Anndb.C16
open Anndb.Placement

variable (members : List Nat) (r : Nat) (perms : List (List Nat))

/-- one entry per partition -/
theorem place_count : (place members.length r perms).length = perms.length := by
  simp [place]

/-- **exactly min(R, N) nodes** per partition -/
theorem place_len (hp : ∀ p ∈ perms, p.Perm members) :
    ∀ got ∈ place members.length r perms, got.length = min r members.length := by
  intro got hg
  simp only [place, List.mem_map] at hg
  obtain ⟨p, hp', rfl⟩ := hg
  rw [List.length_take, (hp p hp').length_eq]
  omega

/-- **distinct** nodes (members are distinct) -/
theorem place_nodup (hm : members.Nodup) (hp : ∀ p ∈ perms, p.Perm members) :
    ∀ got ∈ place members.length r perms, got.Nodup := by
  intro got hg
  simp only [place, List.mem_map] at hg
  obtain ⟨p, hp', rfl⟩ := hg
  exact ((hp p hp').nodup_iff.mpr hm).sublist (List.take_sublist _ _)

/-- **all of them current members** -/
theorem place_members (hp : ∀ p ∈ perms, p.Perm members) :
    ∀ got ∈ place members.length r perms, ∀ x ∈ got, x ∈ members := by
  intro got hg x hx
  simp only [place, List.mem_map] at hg
  obtain ⟨p, hp', rfl⟩ := hg
  exact (hp p hp').subset (List.mem_of_mem_take hx)

/-- the decidable check the driver runs on observed placements accepts exactly such outputs -/
theorem place_valid (hm : members.Nodup) (hp : ∀ p ∈ perms, p.Perm members) :
    valid members r (place members.length r perms) = true := by
  unfold valid
  rw [List.all_eq_true]
  intro got hg
  unfold validOne
  simp only [Bool.and_eq_true, beq_iff_eq, decide_eq_true_eq, List.all_eq_true]
  exact ⟨⟨place_len members r perms hp got hg, place_nodup members r perms hm hp got hg⟩,
    fun x hx => place_members members r perms hp got hg x hx⟩

/-- **independence**: the nodes of partition `i` are a function of partition `i`'s shuffle
alone — changing the other partitions' shuffles does not move it -/
theorem place_independent (perms' : List (List Nat)) (i : Nat)
    (h : perms[i]? = perms'[i]?) :
    (place members.length r perms)[i]? = (place members.length r perms')[i]? := by
  simp only [place, List.getElem?_map, h]

/-- in particular any two partitions can be placed differently: with N > R ≥ 1 there are
shuffles under which partitions 0 and 1 get different node sets (so partitions spread) -/
theorem place_can_spread (a b : Nat) (hab : a ≠ b) :
    (place 2 1 [[a, b], [b, a]])[0]? ≠ (place 2 1 [[a, b], [b, a]])[1]? := by
  simp [place, hab]

/-- **the aliasing variant fails**: with a shared backing array every partition reads the
last shuffle's prefix — all partitions land on the same nodes whatever the shuffles were -/
theorem alias_all_equal (g1 g2 : List Nat)
    (h1 : g1 ∈ placeAlias members.length r perms) (h2 : g2 ∈ placeAlias members.length r perms) : g1 = g2 := by
  simp only [placeAlias, List.mem_map] at h1 h2
  obtain ⟨_, _, rfl⟩ := h1
  obtain ⟨_, _, rfl⟩ := h2
  rfl

/-- concrete witness (D11): 3 partitions on 3 nodes with R = 2 and three different shuffles -/
theorem alias_counterexample :
    placeAlias 3 2 [[1, 2, 3], [2, 3, 1], [3, 1, 2]] = [[3, 1], [3, 1], [3, 1]] ∧
    place 3 2 [[1, 2, 3], [2, 3, 1], [3, 1, 2]] = [[1, 2], [2, 3], [3, 1]] := by decide

/-! ### what the code does (regenerated facts) -/

/-- `getPartitionsNodeIds` copies the prefix for each partition (so `place`, not `placeAlias`, is its model) -/
theorem code_copies_prefix : Generated.placementCopiesPrefix = true := by decide

/-- `Conn.NodeIds` hands out a fresh slice, so the in-place shuffle cannot disturb the membership table -/
theorem code_nodeids_fresh : Generated.connNodeIdsFresh = true := by decide

/-- non-vacuity -/
example : valid [5, 7, 9] 2 (place 3 2 [[7, 5, 9], [9, 7, 5]]) = true := by decide


/-- the placement that is proposed is the one `Create` computes from the members of that moment,
whatever the request message carries in its id and partitions fields (regenerated) -/
theorem create_computes_id_and_placement : Generated.createComputesIdAndPlacement = true := by decide

end Anndb.C16
