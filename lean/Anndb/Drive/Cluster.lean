import Anndb.Model.Merge
import Anndb.Model.Routing
import Anndb.Drive.Routing
/-! Model driver for the `cluster` engine (C09, C10, C11, C17): routing owner, top-k merge of the
partitions' answers, sum of the partitions' sizes. -/
namespace Anndb.Drive.Cluster
open Anndb Anndb.Merge

def parseHit (s : String) : Option Hit :=
  match s.splitOn ":" with
  | [i, sc] => match i.toNat?, sc.toNat? with
    | some i, some sc => some ⟨i, sc⟩
    | _, _ => none
  | _ => none

def parseLists (s : String) : List (List Hit) :=
  (s.splitOn ";").map fun l => (l.splitOn ",").filterMap parseHit

def step (u : Unit) (ws : List String) : Unit × List String :=
  match ws with
  | ["owner", h, n] => (u, [s!"r {(Routing.owner (Drive.Routing.parseHex h) n.toNat!.toUInt64).toNat}"])
  | ["merge", k] => (u, ["scores"])
  | ["merge", k, ls] =>
    let r := mergeTopK k.toNat! (parseLists ls)
    (u, [("scores " ++ " ".intercalate (r.map fun h => toString h.score)).trimAsciiEnd.toString])
  | ["sum", xs] => (u, [s!"total {((xs.splitOn ",").filterMap String.toNat?).sum}"])
  | ["sum"] => (u, ["total 0"])
  | _ => (u, ["bad-op"])

def main (h out : IO.FS.Stream) : IO Unit := runLoop h out () step ()

end Anndb.Drive.Cluster
