import Anndb.Model.Simd
import Anndb.Drive.Util
/-! Model driver for the `simd` engine (C15): the lane model instantiated at `Float32`. -/
namespace Anndb.Drive.Simd
open Anndb Anndb.Simd

def f32 : Ops Float32 :=
  ⟨0, 1, (· + ·), (· - ·), (· * ·), (· / ·), Float32.sqrt, Float32.abs⟩

def parseVec (s : String) : List Float32 :=
  (s.splitOn ",").filterMap fun t => t.toNat?.map fun n => Float32.ofBits n.toUInt32

def step (u : Unit) (ws : List String) : Unit × List String :=
  match ws with
  | ["k", impl, kernel, _n, as, bs] =>
    let a := parseVec as
    let b := parseVec bs
    let r : Float32 :=
      match impl, kernel with
      | "avx", "euclid" => euclid f32 8 a b
      | "avx", "manhattan" => manhattan f32 8 a b
      | "avx", "cosine" => cosine f32 8 a b
      | "sse", "euclid" => euclid f32 4 a b
      | "sse", "manhattan" => manhattan f32 4 a b
      | "sse", "cosine" => cosine f32 4 a b
      | _, "euclid" => nativeEuclid f32 a b
      | _, "manhattan" => nativeManhattan f32 a b
      | _, _ => nativeCosine f32 a b
    (u, [if r.isNaN then "r nan" else s!"r {r.toBits.toNat}"])
  | _ => (u, ["bad-op"])

def main (h out : IO.FS.Stream) : IO Unit := runLoop h out () step ()

end Anndb.Drive.Simd
