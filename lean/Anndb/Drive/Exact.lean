import Anndb.Model.Exact
import Anndb.Drive.Util
/-! Model driver for the `exact` engine (C07): the brute-force top-k of a distance row. -/
namespace Anndb.Drive.Exact
open Anndb Anndb.Exact

def step (u : Unit) (ws : List String) : Unit × List String :=
  match ws with
  | "top" :: k :: row =>
    let r := exactTopK k.toNat! (parseNats row)
    (u, [("scores " ++ " ".intercalate (r.map toString)).trimAsciiEnd.toString])
  | _ => (u, ["bad-op"])

def main (h out : IO.FS.Stream) : IO Unit := runLoop h out () step ()

end Anndb.Drive.Exact
