import Anndb.Model.RaftLoop
import Anndb.Drive.Util
/-! Model driver for the `raft` engine (C05): the attestation rule evaluated on every observed
(message, log store) pair. -/
namespace Anndb.Drive.RaftLoop
open Anndb Anndb.RaftLoop

def parseType : String → MsgType
  | "MsgVote" => .vote
  | "MsgVoteResp" => .voteResp
  | "MsgApp" => .app
  | "MsgAppResp" => .appResp
  | "MsgHeartbeat" => .heartbeat
  | "MsgHeartbeatResp" => .heartbeatResp
  | "MsgSnap" => .snap
  | "MsgProp" => .prop
  | _ => .other

def step (u : Unit) (ws : List String) : Unit × List String :=
  match ws with
  | ["msg", typ, term, index, reject, to, self, hsTerm, hsVote, last] =>
    let m : Msg := ⟨parseType typ, term.toNat!, index.toNat!, reject == "1", to.toNat!⟩
    let d : Dur := ⟨hsTerm.toNat!, hsVote.toNat!, last.toNat!⟩
    (u, [if attested self.toNat! m d then "attested" else "premature"])
  | _ => (u, ["bad-op"])

def main (h out : IO.FS.Stream) : IO Unit := runLoop h out () step ()

end Anndb.Drive.RaftLoop
