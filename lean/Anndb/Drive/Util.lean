/-! Shared helpers of the line-protocol model drivers. -/
namespace Anndb.Drive

def words (line : String) : List String :=
  (line.trimAscii.toString.splitOn " ").filter (· ≠ "")

def parseNats (ws : List String) : List Nat := ws.filterMap String.toNat?

def sortNat (l : List Nat) : List Nat := (l.toArray.qsort (· < ·)).toList

/-- Generic loop: `step` gets the state and the words of one request line and returns the
new state and the response lines. Lines starting with `#` are history markers: they are
echoed and the state is reset to `init`. -/
partial def runLoop {σ : Type} (h : IO.FS.Stream) (out : IO.FS.Stream) (init : σ)
    (step : σ → List String → σ × List String) (s : σ) : IO Unit := do
  let line ← h.getLine
  if line.isEmpty then
    out.flush
    return ()
  if line.startsWith "#" then
    out.putStrLn line.trimAscii.toString
    runLoop h out init step init
  else
    let (s', rs) := step s (words line)
    for r in rs do out.putStrLn r
    runLoop h out init step s'

end Anndb.Drive
