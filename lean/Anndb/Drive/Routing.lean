import Anndb.Model.Routing
import Anndb.Drive.Util
/-! Model driver for the `routing` engine (C10). -/
namespace Anndb.Drive.Routing
open Anndb Anndb.Routing

def hexVal (c : Char) : Nat :=
  if c.isDigit then c.toNat - '0'.toNat else if 'a' ≤ c ∧ c ≤ 'f' then c.toNat - 'a'.toNat + 10 else 0

def parseHex (s : String) : List UInt8 :=
  let rec go : List Char → List UInt8
    | a :: b :: t => (hexVal a * 16 + hexVal b).toUInt8 :: go t
    | _ => []
  go s.toList

def fmtGroups (ids : List String) (n : UInt64) : String :=
  let owners := ids.map fun h => (owner (parseHex h) n).toNat
  let ps := sortNat owners.eraseDups
  let pad (k : Nat) : String := String.ofList (List.replicate (6 - (toString k).length) '0') ++ toString k
  let lines := ps.map fun p =>
    s!"{pad p}:{",".intercalate (ids.filter fun h => (owner (parseHex h) n).toNat == p)}"
  ("groups " ++ " ".intercalate lines).trimAsciiEnd.toString

def step (u : Unit) (ws : List String) : Unit × List String :=
  match ws with
  | ["mod", h, n] => (u, [s!"r {(owner (parseHex h) n.toNat!.toUInt64).toNat}"])
  | ["owner", h, n] => (u, [s!"r {(owner (parseHex h) n.toNat!.toUInt64).toNat}"])
  | ["group", n] => (u, ["groups"])
  | ["group", n, ids] => (u, [fmtGroups (ids.splitOn ",") n.toNat!.toUInt64])
  | _ => (u, ["bad-op"])

def main (h out : IO.FS.Stream) : IO Unit := runLoop h out () step ()

end Anndb.Drive.Routing
