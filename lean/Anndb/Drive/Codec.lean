import Anndb.Model.Codec
import Anndb.Drive.Util
/-! Model driver for the `codec` engine (C08): decodes real `Save` output under the model,
re-encodes it, checks the explicit well-formedness bounds, and prints the decoded view. -/
namespace Anndb.Drive.Codec
open Anndb Anndb.Codec

def hexVal (c : Char) : Nat :=
  if c.isDigit then c.toNat - '0'.toNat else c.toNat - 'a'.toNat + 10

def parseHex (s : String) : Bytes :=
  let rec go : List Char → List Nat
    | a :: b :: rest => (hexVal a * 16 + hexVal b) :: go rest
    | _ => []
  go s.toList

def hexDigit (n : Nat) : Char := if n < 10 then Char.ofNat (48 + n) else Char.ofNat (87 + n)
def toHex (bs : Bytes) : String := String.ofList (bs.flatMap fun b => [hexDigit (b / 16), hexDigit (b % 16)])
def idHex (n : Nat) : String := toHex (beBytes 16 n)

def sortBy {α : Type} (lt : α → α → Bool) (l : List α) : List α := (l.toArray.qsort lt).toList

/-- lexicographic order on byte strings -/
def bytesLt : Bytes → Bytes → Bool
  | [], [] => false
  | [], _ :: _ => true
  | _ :: _, [] => false
  | a :: as, b :: bs => a < b || (a == b && bytesLt as bs)

def view (f : Option File) : List String :=
  match f with
  | none => ["EMPTY"]
  | some f =>
    let vs := sortBy (fun (a b : VRec) => a.id < b.id) f.shards.flatten
    let lines := vs.map fun v =>
      let md := sortBy (fun (a b : KV) => bytesLt a.key b.key) v.md
      let mds := ";".intercalate (md.map fun kv => s!"{toHex kv.key}:{toHex kv.val}")
      let es := match f.edges.flatten.find? (·.id == v.id) with
        | none => "NOEDGES"
        | some e =>
          " | ".intercalate (e.levels.reverse.map fun l =>
            ",".intercalate ((sortBy (fun (a b : Nat × Nat) => a.1 < b.1) l).map fun (p : Nat × Nat) => s!"{idHex p.1}/{p.2}"))
      (s!"V {idHex v.id} L{v.level} vec={",".intercalate (v.vec.map toString)} md={mds} | {es}").trimAsciiEnd.toString
    s!"ep={idHex f.entry} n={vs.length}" :: lines

/-- decidable version of `File.wf` (the bounds of Proofs/CodecLemmas) -/
def kvWfB (kv : KV) : Bool := kv.key.length < 256 && kv.val.length < 65536 && kv.key.all (· < 256) && kv.val.all (· < 256)
def vWfB (dim : Nat) (v : VRec) : Bool :=
  v.id < 256 ^ 16 && v.level < 256 ^ 4 && v.vec.length == dim && v.vec.all (· < 256 ^ 4) && v.md.length < 65536 && v.md.all kvWfB
def eWfB (sh : List VRec) (e : ERec) : Bool :=
  e.id < 256 ^ 16 && ((sh.find? (·.id == e.id)).map (·.level) == some (e.levels.length - 1)) && 0 < e.levels.length &&
  e.levels.all fun l => l.length < 256 ^ 4 && l.all fun p => p.1 < 256 ^ 16 && p.2 < 256 ^ 4
def groupsWfB : List (List VRec) → List (List ERec) → Bool
  | [], [] => true
  | sh :: shs, g :: gs => g.length == sh.length && g.all (eWfB sh) && groupsWfB shs gs
  | _, _ => false
def fileWfB (dim : Nat) : Option File → Bool
  | none => true
  | some f => f.entry < 256 ^ 16 && f.shards.length == 16 &&
      (f.shards.all fun sh => sh.length < 256 ^ 4 && sh.all (vWfB dim)) && groupsWfB f.shards f.edges

def step (u : Unit) (ws : List String) : Unit × List String :=
  let hexOf (l : List String) : Bytes := match l with
    | [h] => parseHex h
    | _ => []
  match ws with
  | "bytes" :: hdr :: dim :: rest =>
    let bs := hexOf rest
    if hdr == "1" then
      match decodeH bs with
      | none => (u, ["DECODE-FAIL"])
      | some (h, f, r) =>
        (u, s!"rest={r.length} reencode={decide (encodeH h f = bs)} wf={fileWfB h.dim f} hdim={h.dim}" :: view f)
    else
      match decode dim.toNat! bs with
      | none => (u, ["DECODE-FAIL"])
      | some (f, r) =>
        (u, s!"rest={r.length} reencode={decide (encode f = bs)} wf={fileWfB dim.toNat! f} hdim={dim}" :: view f)
  | "trunc" :: hdr :: dim :: rest =>
    let bs := hexOf rest
    let ok := if hdr == "1" then (decodeH bs).isSome else (decode dim.toNat! bs).isSome
    (u, [if ok then "load ok" else "load error"])
  | _ => (u, ["bad-op"])

def main (h out : IO.FS.Stream) : IO Unit := runLoop h out () step ()

end Anndb.Drive.Codec
