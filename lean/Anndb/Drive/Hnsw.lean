import Anndb.Model.Hnsw
import Anndb.Model.Heap
import Anndb.Drive.Util
/-! Model driver for the `hnsw` engine (exact-state comparison regime of DESIGN §4.2).
The queues are the executable model of the repo's priority queue (`container/heap`). -/
namespace Anndb.Drive.Hnsw
open Anndb

/-- the repo's queue as an executable `PQImpl` (no invariant carried: the driver only runs it) -/
def heapPQ (lt : Item → Item → Bool) : PQImpl where
  Q := Array Item
  empty := #[]
  push q x := Heap.push lt q x
  pop q := Heap.pop lt q
  toList q := q.toList
  ofList l := Heap.init lt l.toArray

structure St where
  cfg : Cfg
  n : Nat
  table : Array Nat
  s : Index
  exact : Bool

def St.dist (e : St) (a b : Nat) : Nat := e.table.getD (a * e.n + b) 0

def fmtMd (m : Meta) : String :=
  if m.isEmpty then "-" else ",".intercalate (m.map fun (k, v) => s!"{k}={v}")

def parseMd (s : String) : Meta :=
  if s == "-" then [] else
    (s.splitOn ",").filterMap fun kv =>
      match kv.splitOn "=" with
      | [k, v] => some (k, v)
      | _ => none

def fmtEdges (s : Index) (es : List (Nat × Nat)) : String :=
  let items := es.map fun (w, d) => (s.idOf w, if s.isDeleted w then 1 else 0, d)
  let arr := items.toArray.qsort fun a b =>
    a.1 < b.1 || (a.1 == b.1 && (a.2.1 < b.2.1 || (a.2.1 == b.2.1 && a.2.2 < b.2.2)))
  ",".intercalate (arr.toList.map fun (i, x, d) => s!"{i}{if x == 1 then "X" else ""}/{d}")

def dump (s : Index) : List String := Id.run do
  let ep := match s.entry with
    | none => "-"
    | some v => s!"{s.idOf v}{if s.isDeleted v then "X" else ""}"
  let mut out := [s!"D ep={ep} n={s.ids.length}"]
  for i in sortNat s.ids do
    match s.live i with
    | none => out := out ++ [s!"V {i} MISSING"]
    | some v =>
      let lvl := s.levelOf v
      let mut line := s!"V {i} L{lvl} v{s.vecOf v} m{fmtMd (s.mdOf v)}"
      for l in [0:lvl+1] do
        line := line ++ s!" | {fmtEdges s (s.edgesOf v l)}"
      out := out ++ [line.trimAsciiEnd.toString]
  return out

def init : St := ⟨⟨16, 16, 32, 20, 200, false, false, true⟩, 0, #[], Index.empty, false⟩

def step (e : St) (ws : List String) : St × List String :=
  let Pmin := heapPQ ltMin
  let Pmax := heapPQ ltMax
  match ws with
  | "cfg" :: rest =>
    match parseNats rest with
    | [m, mMax, mMax0, ef, efC, heur, ext, keep] =>
      ({ e with cfg := ⟨m, mMax, mMax0, ef, efC, heur == 1, ext == 1, keep == 1⟩, s := Index.empty, exact := false }, ["cfg ok"])
    | _ => (e, ["bad-op"])
  | "dist" :: n :: rest =>
    match n.toNat? with
    | some n => ({ e with n := n, table := (parseNats rest).toArray, exact := true }, ["dist ok"])
    | none => (e, ["bad-op"])
  | ["ins", id, vec, lvl, md] =>
    match id.toNat?, vec.toNat?, lvl.toNat? with
    | some id, some vec, some lvl =>
      if !e.exact then (e, ["ins -"]) else
      if mdFits (parseMd md) = false then (e, "ins mdtoolarge" :: dump e.s) else
      match insert Pmin Pmax e.dist e.cfg e.s id vec (parseMd md) lvl with
      | .ok s' => ({ e with s := s' }, "ins ok" :: dump s')
      | .error _ => (e, "ins exists" :: dump e.s)
    | _, _, _ => (e, ["bad-op"])
  | ["rem", id, after] =>
    match id.toNat? with
    | some id =>
      if !e.exact then (e, ["rem -"]) else
      let pick : List Nat → Option Nat := fun ids =>
        match after.toNat? with
        | some a => if a ∈ ids then some a else ids.head?
        | none => ids.head?
      match remove Pmin Pmax e.dist e.cfg e.s id pick with
      | .ok s' => ({ e with s := s' }, "rem ok" :: dump s')
      | .error _ => (e, "rem notfound" :: dump e.s)
    | none => (e, ["bad-op"])
  | ["srch", vec, k] =>
    match vec.toNat?, k.toNat? with
    | some vec, some k =>
      if !e.exact then (e, ["hits -"]) else
      let hits := search Pmin Pmax e.dist e.cfg e.s vec k
      (e, [("hits " ++ " ".intercalate (hits.map fun x => s!"{x.id}:{x.score}:{fmtMd x.md}")).trimAsciiEnd.toString])
    | _, _ => (e, ["bad-op"])
  | ["loadempty"] =>
    -- the snapshot of an empty index (no bytes) loaded into this index: nothing is left
    if !e.exact then ({ e with s := Index.empty }, ["loadempty ok"]) else
    ({ e with s := Index.empty }, "loadempty ok" :: dump Index.empty)
  | ["reload"] =>
    if !e.exact then (e, ["reload ok"]) else
    let s' := e.s.reload
    ({ e with s := s' }, "reload ok" :: dump s')
  | _ => (e, ["bad-op"])

def main (h out : IO.FS.Stream) : IO Unit := runLoop h out init step init

end Anndb.Drive.Hnsw
