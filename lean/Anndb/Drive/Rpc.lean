import Anndb.Model.Validate
import Anndb.Drive.Util
/-! Model driver for the `rpc` engine (C12): each request class of the engine as a request of the
decision model; the answer class (ok / error) must match what the real server answered. -/
namespace Anndb.Drive.Rpc
open Anndb Anndb.Validate

def outStr : Out → String
  | .ok => "ok" | .err => "error" | .panic => "panic" | .poison => "poison"

/-- the engine's standing dataset: dimension 2, 2 partitions, 1 replica, 6+ stored items -/
def ds : Ds := ⟨2, 2, 1, true, 3⟩

def classOutcome (name : String) : Out :=
  match name with
  | "insert-malformed-id" | "update-malformed-id" => Validate.insert ds 3 2
  | "remove-malformed-id" => remove ds 3
  | "batch-insert-malformed-id" | "batch-update-malformed-id" | "batch-remove-malformed-id" =>
    batchWrite ds [(16, 2), (3, 2), (16, 2)]
  | "partition-batch-insert-malformed-id" | "partition-batch-update-malformed-id" => partitionBatchWrite ds [(3, 2)]
  | "partition-batch-remove-malformed-id" => partitionBatchRemove ds [(3, 2)]
  | "partition-batch-insert-wrong-dimension" | "partition-batch-update-wrong-dimension" => partitionBatchWrite ds [(16, 5)]
  | "create-zero-dimension" => (create 1 ⟨0, 1, 1, 0⟩).1
  | "create-zero-partitions" => (create 1 ⟨2, 0, 1, 0⟩).1
  | "create-zero-replication" => (create 1 ⟨2, 1, 0, 0⟩).1
  | "create-unknown-space" => (create 1 ⟨2, 1, 1, 7⟩).1
  | "create-negative-space" => (createInt 1 2 1 1 (-1)).1
  | "search-k-zero" => search ds 2 0 20 32
  | "search-k-max" | "search-partitions-k-max" => search ds 2 4294967295 20 32
  | "non-finite-vectors" | "cosine-zero-vector" => Validate.insert ds 16 2
  | "empty-vector" => Validate.insert ds 16 0
  | "update-without-metadata" => Validate.insert ds 16 2
  | "oversized-batch" => batchWrite ds (List.replicate 101 (16, 2))
  | "search-wrong-dimension" => search ds 7 3 20 32
  | "update-absent-id" | "remove-absent-id" | "insert-existing-id" | "remove-twice"
  | "insert-oversized-metadata" | "update-oversized-metadata"
  | "insert-oversized-multibyte-key" | "update-oversized-multibyte-value" => applyItem false true
  -- client-supplied levels are overwritten by the handler's own draw (here: 1) before the batch is proposed
  | "batch-insert-client-level" | "partition-batch-insert-client-level" =>
    match batchWrite ds [(16, 2), (16, 2), (16, 2)] with
    | .ok => if [(-7 : Int), 1073741824, -1].all (fun c => setLevelOutcome (proposedLevel true c 1) == .ok) then .ok else .poison
    | o => o
  | "batch-duplicate-and-absent" => batchWrite ds [(16, 2), (16, 2), (16, 2), (16, 2)]
  -- well-formed creations and deletions; what the deletion does to a running raft group is C18's model
  | "delete-dataset-under-write-load" => (create 1 ⟨2, 1, 1, 0⟩).1
  -- lookups of unknown / malformed dataset or partition ids are answered with an error before any primitive is reached
  | "unknown-dataset" | "malformed-dataset-id" | "search-partitions-unknown-partition" | "delete-malformed-id"
  | "partition-info-unknown" => .err
  | _ => .panic

def step (u : Unit) (ws : List String) : Unit × List String :=
  match ws with
  | ["rpc", name] => (u, [outStr (classOutcome name)])
  | _ => (u, ["bad-op"])

def main (h out : IO.FS.Stream) : IO Unit := runLoop h out () step ()

end Anndb.Drive.Rpc
