import Anndb.Model.Recovery
import Anndb.Drive.Partition
/-! Model driver for the `crash` engine (C03). Every acknowledged write is one entry of the
micro-step model of `Model/Recovery.lean` (propose, save, apply); the in-flight write is proposed
and — when the harness found its effect after the restart — saved before the crash. The driver
then crashes and restarts the model, replays, checks the replayed history against `admissible`
and prints the contents the specification map (`Spec`, C02) gives for exactly that history. -/
namespace Anndb.Drive.Recovery
open Anndb Anndb.Drive.Hnsw Anndb.Drive.Partition

structure St where
  model : Anndb.Recovery.St
  changes : List (Nat × Change)      -- entry number ↦ what it does
  acked : List Nat
  inflight : Option Nat
  next : Nat

def init : St := ⟨Anndb.Recovery.init, [], [], none, 1⟩

def contentsNoLevel (s : Spec) : String :=
  let items := (sortNat s.ids).filterMap fun i => (s.get i).map fun it => s!"{i}:v{it.vec}:{fmtMd (sortMd it.md)}"
  ("C " ++ " ".intercalate items).trimAsciiEnd.toString

def specOf (e : St) (hist : List Nat) : Spec :=
  hist.foldl (fun sp n => match e.changes.lookup n with
    | some c => (sp.step c).1
    | none => sp) Spec.empty

/-- the per-item view used for a partially committed in-flight batch -/
def itemText (s : Spec) (i : Nat) : String :=
  match s.get i with
  | some it => s!"{i}:v{it.vec}:{fmtMd (sortMd it.md)}"
  | none => ""

def step (e : St) (ws : List String) : St × List String :=
  match ws with
  | ["new", _] => (init, ["ok"])
  | "ack" :: rest =>
    match toChange rest with
    | none => (e, ["bad-op"])
    | some c =>
      let r := Anndb.Recovery.applyAll true 1 (Anndb.Recovery.save (Anndb.Recovery.propose e.model e.next))
      ({ e with model := r, changes := (e.next, c) :: e.changes, acked := e.acked ++ [e.next], next := e.next + 1 }, ["ok"])
  | "inflight" :: rest =>
    match toChange rest with
    | none => (e, ["bad-op"])
    | some c =>
      ({ e with model := Anndb.Recovery.propose e.model e.next, changes := (e.next, c) :: e.changes,
                inflight := some e.next, next := e.next + 1 }, ["ok"])
  | ["recover", j] =>
    -- j = 1: the in-flight entry had reached the log store when the node died
    let r := if j == "1" then Anndb.Recovery.save e.model else e.model
    let r := Anndb.Recovery.restart (Anndb.Recovery.crash r)
    let r := Anndb.Recovery.applyAll true r.log.length r
    if (j == "1" && e.inflight.isNone) || !Anndb.Recovery.admissible e.acked e.inflight r.applied then
      (e, ["inadmissible"])
    else
      (e, [contentsNoLevel (specOf e r.applied)])
  | "recover-as" :: items =>
    -- a batch is proposed per partition: each of its items is there as before or as after
    let a := specOf e e.acked
    let b := specOf e (e.acked ++ e.inflight.toList)
    let ids := sortNat ((a.ids ++ b.ids).eraseDups)
    let claimed (i : Nat) : String := (items.find? fun t => (t.splitOn ":").head? == some (toString i)).getD ""
    let ok := ids.all (fun i => claimed i == itemText a i || claimed i == itemText b i) &&
              items.all (fun t => match ((t.splitOn ":").head?.bind String.toNat?) with
                | some i => ids.contains i
                | none => false) && e.inflight.isSome
    if ok then (e, [("C " ++ " ".intercalate items).trimAsciiEnd.toString]) else (e, ["inadmissible"])
  | _ => (e, ["bad-op"])

def main (h out : IO.FS.Stream) : IO Unit := runLoop h out init step init

end Anndb.Drive.Recovery
