import Anndb.Model.Members
import Anndb.Generated
import Anndb.Drive.Util
/-! Model driver for the `members` engine (C20): the history of acknowledged joins / removals is
the zero group's log; a compaction on member m records where m's snapshot cuts it; `book m` is
what `Model/Members.lean` says member m lists — `restarted` from its cut (which equals `running`
by `restart_recovers`), under the rules regenerated from the sources. -/
namespace Anndb.Drive.Members
open Anndb Anndb.Members

structure St where
  log : List ZEntry
  addr : List (Nat × Addr)       -- the address each member announced last
  cut : List (Nat × Nat)         -- member ↦ length of the log its stored snapshot covers
  maybe : List Nat               -- joins whose acknowledgement was lost: not compared

def init : St := ⟨[], [], [], []⟩

def rules : Rules :=
  ⟨Generated.connAddNodeUpdatesAddress, Generated.zeroGroupFeedsBook, Generated.bookTravelsWithSnapshot,
   Generated.bootstrapEntryCarriesAddress⟩

def bookText (e : St) (m : Nat) : String :=
  let a := (e.addr.lookup m).getD ""
  let cut := (e.cut.lookup m).getD 0
  let b := restarted rules m a m a e.log cut
  let ids := sortNat ((m :: idsOf e.log).eraseDups)
  let items := ids.filterMap fun i =>
    if e.maybe.contains i then none else (b i).map fun x => s!"{i}={if x == "" then "<empty>" else x}"
  ",".intercalate items

def step (e : St) (ws : List String) : St × List String :=
  match ws with
  | ["boot", id, a] =>
    ({ init with log := [bootEntry rules id.toNat! a], addr := [(id.toNat!, a)] }, ["ok"])
  | ["join", id, a, nvias, lose] =>
    let id := id.toNat!
    -- only the handshake with the first address is subject to the fault
    let fails := (lose != "-") :: List.replicate (nvias.toNat! - 1) false
    if joinSucceeds fails then
      ({ e with log := e.log ++ [.add id a], addr := (id, a) :: e.addr.filter (·.1 ≠ id),
                maybe := e.maybe.filter (· ≠ id) }, ["ok"])
    else
      ({ e with maybe := id :: e.maybe }, ["failed"])
  | ["remove", id] =>
    ({ e with log := e.log ++ [.remove id.toNat!] }, ["ok"])
  | ["compact", m] =>
    ({ e with cut := (m.toNat!, e.log.length) :: e.cut.filter (·.1 ≠ m.toNat!) }, ["ok"])
  | ["restart", _] => (e, ["ok"])
  | ["book", m] => (e, [bookText e m.toNat!])
  | _ => (e, ["bad-op"])

def main (h out : IO.FS.Stream) : IO Unit := runLoop h out init step init

end Anndb.Drive.Members
