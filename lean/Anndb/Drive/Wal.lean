import Anndb.Model.Wal
import Anndb.Drive.Util
/-! Model driver for the `wal` engine (C06): the model of `storage/wal/badger.go` and the model
of etcd's `MemoryStorage`, several groups side by side, observations in the harness's format. -/
namespace Anndb.Drive.Wal
open Anndb Anndb.Wal

def errStr : Err → String
  | .compacted => "compacted" | .unavailable => "unavailable" | .snapOutOfDate => "snapOutOfDate"
  | .notFound => "notFound" | .emptyConf => "emptyConf" | .keyNotFound => "keyNotFound"

def fmtEnts (es : List Entry) : String := "".intercalate (es.map fun e => s!"({e.index},{e.term},{e.data})")

def sumWal (w0 : Wal) : String × Wal := Id.run do
  let mut w := w0
  let mut out := ""
  match w.firstIndex with
  | .ok (f, w') => out := out ++ s!"first={f}/ok"; w := w'
  | .error e => out := out ++ s!"first=0/{errStr e}"
  match w.lastIndex with
  | .ok l => out := out ++ s!" last={l}/ok"
  | .error e => out := out ++ s!" last=0/{errStr e}"
  let sn := w.snapshot
  let hs := w.hardState
  out := out ++ s!" snap={sn.index}/{sn.term}/{sn.data}/{sn.conf} hs={hs.term}/{hs.vote}/{hs.commit} cs={sn.conf}"
  return (out, w)

def obsWal (w0 : Wal) (maxIdx : Nat) : String × Wal := Id.run do
  let (s, w1) := sumWal w0
  let mut w := w1
  let mut out := s ++ " |"
  for i in [0:maxIdx+2] do
    match w.term i with
    | .ok (t, w') => out := out ++ s!" t{i}={t}/ok"; w := w'
    | .error e => out := out ++ s!" t{i}=0/{errStr e}"
  out := out ++ " |"
  match w.lastIndex, w.firstIndex with
  | .ok l, .ok (f, _) =>
    let lo0 := if f > 2 then f - 2 else 0
    for lo in [lo0:l+1] do
      for hi in [lo+1:l+2] do
        for ms in [0, 10, 30, 1099511627776] do
          match w.entries lo hi ms with
          | .ok (es, w') => out := out ++ s!" E{lo},{hi},{ms}={fmtEnts es}/ok"; w := w'
          | .error e => out := out ++ s!" E{lo},{hi},{ms}=/{errStr e}"
  | _, _ => pure ()
  return (out, w)

def sumMem (m : Mem) : String :=
  s!"first={m.firstIndex}/ok last={m.lastIndex}/ok snap={m.snap.index}/{m.snap.term}/{m.snap.data}/{m.snap.conf} hs={m.hs.term}/{m.hs.vote}/{m.hs.commit} cs={m.snap.conf}"

def obsMem (m : Mem) (maxIdx : Nat) : String := Id.run do
  let mut out := sumMem m ++ " |"
  for i in [0:maxIdx+2] do
    match m.term i with
    | .ok t => out := out ++ s!" t{i}={t}/ok"
    | .error e => out := out ++ s!" t{i}=0/{errStr e}"
  out := out ++ " |"
  let l := m.lastIndex
  let f := m.firstIndex
  let lo0 := if f > 2 then f - 2 else 0
  for lo in [lo0:l+1] do
    for hi in [lo+1:l+2] do
      for ms in [0, 10, 30, 1099511627776] do
        match m.entries lo hi ms with
        | .ok es => out := out ++ s!" E{lo},{hi},{ms}={fmtEnts es}/ok"
        | .error e => out := out ++ s!" E{lo},{hi},{ms}=/{errStr e}"
  return out

def parseEnts : List Nat → List Entry
  | i :: t :: d :: s :: rest => ⟨i, t, d, s⟩ :: parseEnts rest
  | _ => []

abbrev St := Array (Wal × Mem)

def step (st : St) (ws : List String) : St × List String :=
  let nums := (ws.drop 1).filterMap String.toNat?
  match ws.head?, nums with
  | some "new", [g] =>
    let st := if g < st.size then st.set! g (Wal.fresh, Mem.init) else st.push (Wal.fresh, Mem.init)
    (st, [])
  | some "reopen", [g] =>
    match st[g]? with
    | some (w, m) => (st.set! g (Wal.open_ w.disk, m), ["reopen ok"])
    | none => (st, ["bad-op"])
  | some "save", g :: ht :: hv :: hc :: si :: sterm :: sd :: sc :: _n :: rest =>
    match st[g]? with
    | none => (st, ["bad-op"])
    | some (w, m) =>
      let hs : HardState := ⟨ht, hv, hc⟩
      let sn : Snap := ⟨si, sterm, sd, sc⟩
      let es := parseEnts rest
      let (res, w') := match w.save hs es sn with
        | .ok w' => ("save ok", w')
        | .error e => (s!"save {errStr e}", w)
      let m1 := if sn.isEmpty then m else (match m.applySnapshot sn with | .ok x => x | .error _ => m)
      let m2 := m1.append es
      let m3 := if hs.isEmpty then m2 else { m2 with hs := hs }
      (st.set! g (w', m3), [res])
  | some "create", [g, idx, conf, data] =>
    match st[g]? with
    | none => (st, ["bad-op"])
    | some (w, m) =>
      let (r1, w') := match w.createSnapshot idx (some conf) data with
        | .ok w' => ("ok", w')
        | .error e => (errStr e, w)
      let (r2, m') := match m.createSnapshot idx conf data with
        | .error e => (errStr e, m)
        | .ok m1 => match m1.compact idx with
          | .ok m2 => ("ok", m2)
          | .error e => (errStr e, m1)
      (st.set! g (w', m'), [s!"create {r1} {r2}"])
  | some "delete", [g] =>
    match st[g]? with
    | none => (st, ["bad-op"])
    | some (w, _) => (st.set! g (Wal.open_ w.deleteGroup.disk, Mem.init), ["delete ok"])
  | some "obs", [g, mx] =>
    match st[g]? with
    | none => (st, ["bad-op"])
    | some (w, m) =>
      let (o, w') := obsWal w mx
      (st.set! g (w', m), ["B " ++ o, "M " ++ obsMem m mx])
  | some "sum", [g] =>
    match st[g]? with
    | none => (st, ["bad-op"])
    | some (w, m) =>
      let (o, w') := sumWal w
      (st.set! g (w', m), ["B " ++ o, "M " ++ sumMem m])
  | _, _ => (st, ["bad-op"])

def main (h out : IO.FS.Stream) : IO Unit := runLoop h out #[] step #[]

end Anndb.Drive.Wal
