import Anndb.Model.Partition
import Anndb.Drive.Hnsw
/-! Model driver for the `partition` engine (C02, C04): runs the specification (finite map)
on every entry and, when a distance table was sent (exact regime), also the graph model of
`partition.go` (`process`), and prints outcome, counters, contents and (exact regime) the graph. -/
namespace Anndb.Drive.Partition
open Anndb Anndb.Drive.Hnsw

structure St where
  dim : Nat
  spec : Spec
  exact : Bool
  n : Nat
  table : Array Nat
  p : PState

def St.dist (e : St) (a b : Nat) : Nat := e.table.getD (a * e.n + b) 0

def init : St := ⟨0, Spec.empty, false, 0, #[], PState.empty⟩

/-- the partition's index is created with the default configuration -/
def defaultCfg : Cfg := ⟨16, 16, 32, 20, 200, false, false, true⟩

def outName : Outcome → String
  | .ok => "ok" | .exists => "exists" | .notFound => "notfound" | .mdTooLarge => "mdtoolarge"

def fmtResult : Result → String
  | .single o => s!"out {outName o}"
  | .batch errs =>
    let arr := errs.toArray.qsort fun a b => a.1 < b.1
    ("errs " ++ " ".intercalate (arr.toList.map fun (i, o) => s!"{i}:{outName o}")).trimAsciiEnd.toString

def sortMd (m : Meta) : Meta := (m.toArray.qsort fun a b => a.1 < b.1).toList

def contents (s : Spec) : String :=
  let items := (sortNat s.ids).filterMap fun i => (s.get i).map fun it => s!"{i}:v{it.vec}:L{it.level}:{fmtMd (sortMd it.md)}"
  ("C " ++ " ".intercalate items).trimAsciiEnd.toString

def parseItems (kind : String) (ws : List String) : List BatchItem :=
  match kind, ws with
  | "i", id :: vec :: lvl :: md :: rest => ⟨id.toNat!, vec.toNat!, parseMd md, lvl.toNat!⟩ :: parseItems kind rest
  | "u", id :: vec :: md :: rest => ⟨id.toNat!, vec.toNat!, parseMd md, 0⟩ :: parseItems kind rest
  | "d", id :: rest => ⟨id.toNat!, 0, [], 0⟩ :: parseItems kind rest
  | _, _ => []

def toChange (ws : List String) : Option Change :=
  match ws with
  | "ins" :: rest => match parseItems "i" rest with
    | [it] => some (.insert it.id it.vec it.md it.level)
    | _ => none
  | "upd" :: rest => match parseItems "u" rest with
    | [it] => some (.update it.id it.vec it.md)
    | _ => none
  | "del" :: rest => match parseItems "d" rest with
    | [it] => some (.delete it.id)
    | _ => none
  | "bins" :: rest => some (.batchInsert (parseItems "i" rest))
  | "bupd" :: rest => some (.batchUpdate (parseItems "u" rest))
  | "bdel" :: rest => some (.batchDelete (parseItems "d" rest))
  | _ => none

def sortIndexMd (s : Index) : Index :=
  { s with verts := fun v => (s.verts v).map fun x => { x with md := sortMd x.md } }

def step (e : St) (ws : List String) : St × List String :=
  match ws with
  | ["new", d] => ({ init with dim := d.toNat! }, ["ok"])
  | "dist" :: n :: rest =>
    ({ e with n := n.toNat!, table := (parseNats rest).toArray, exact := true }, ["dist ok"])
  | _ =>
    match toChange ws with
    | none => (e, ["bad-op"])
    | some c =>
      let (spec', r) := e.spec.step c
      let bytes := (spec'.dataBytes e.dim) % 18446744073709551616
      let lines := [fmtResult r, s!"st {spec'.len} {bytes}", contents spec']
      if e.exact then
        let (p', _) := process (heapPQ ltMin) (heapPQ ltMax) e.dist defaultCfg e.dim (fun ids => ids.head?) e.p c
        ({ e with spec := spec', p := p' }, lines ++ Hnsw.dump (sortIndexMd p'.idx))
      else
        ({ e with spec := spec' }, lines)

def main (h out : IO.FS.Stream) : IO Unit := runLoop h out init step init

end Anndb.Drive.Partition
