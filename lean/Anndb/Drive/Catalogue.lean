import Anndb.Model.Catalogue
import Anndb.Drive.Util
/-! Model driver for the `catalogue` engine (C14). -/
namespace Anndb.Drive.Catalogue
open Anndb Anndb.Catalogue

def pad6 (k : Nat) : String := String.ofList (List.replicate (6 - (toString k).length) '0') ++ toString k

def fmtDs (d : Dataset) : String :=
  let ps := d.parts.map fun p => s!"{p.id}:{",".intercalate (p.nodes.map toString)}"
  s!"{pad6 d.id} dim={d.dim} sp={d.space} r={d.repl} [{";".intercalate ps}]"

def listing (c : Cat) : String :=
  let lines := (c.map fmtDs).toArray.qsort (· < ·)
  ("L " ++ " | ".intercalate lines.toList).trimAsciiEnd.toString

def parseParts (s : String) : List Part :=
  (s.splitOn ";").filterMap fun p =>
    match p.splitOn ":" with
    | [i, ns] => i.toNat?.map fun i => ⟨i, (ns.splitOn ",").filterMap String.toNat?⟩
    | _ => none

/-- one dataset of a listing: `000007 dim=2 sp=0 r=1 [10:1,2;11:3]` -/
def parseDs (s : String) : Option Dataset :=
  match s.splitOn " " with
  | [id, dim, sp, r, parts] =>
    let num (t : String) : Nat := ((t.splitOn "=").getLastD "").toNat!
    let ps := ((parts.drop 1).dropEnd 1).toString
    some ⟨id.toNat!, num dim, num sp, num r, parseParts ps⟩
  | _ => none

def parseListing (s : String) : List Dataset :=
  if s.trimAscii.toString == "" then [] else (s.splitOn " | ").filterMap parseDs

def outStr : Outcome → String
  | .ok => "ok" | .exists => "exists" | .notFound => "notfound" | .partitionNotFound => "notfound"

def step (c : Cat) (ws : List String) : Cat × List String :=
  match ws with
  | ["list"] => (c, [listing c])
  | ["create", id, dim, sp, r, parts] =>
    let (c', o) := process c (.create ⟨id.toNat!, dim.toNat!, sp.toNat!, r.toNat!, parseParts parts⟩)
    (c', [outStr o])
  | ["delete", id] => let (c', o) := process c (.delete id.toNat!); (c', [outStr o])
  | ["addnode", ds, p, n] => let (c', o) := process c (.addNode ds.toNat! p.toNat! n.toNat!); (c', [outStr o])
  | ["remnode", ds, p, n] => let (c', o) := process c (.removeNode ds.toNat! p.toNat! n.toNat!); (c', [outStr o])
  | ["install", snap] =>
    -- the snapshot in the listing's own format, blanks written as `_`
    let c' := restore c (parseListing (snap.replace "_" " "))
    (c', [listing c'])
  | _ => (c, ["bad-op"])

def main (h out : IO.FS.Stream) : IO Unit := runLoop h out [] step []

end Anndb.Drive.Catalogue
