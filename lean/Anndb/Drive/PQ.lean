import Anndb.Model.Heap
import Anndb.Drive.Util
/-! Model driver for the `pq` engine (C19): the model of `container/heap` with the repo's
`Less`, driven by the same requests as the real `utils.PriorityQueue`. -/
namespace Anndb.Drive.PQ
open Anndb

structure QS where
  mk ::
  isMin : Bool
  a : Array Item
deriving Inhabited

def ltOf (isMin : Bool) : Item → Item → Bool := if isMin then ltMin else ltMax

def fmtItems (a : Array Item) : String :=
  " ".intercalate (a.toList.map fun it => s!"{it.score}/{it.vid}")

def step (qs : Array QS) (ws : List String) : Array QS × List String :=
  match ws with
  | ["new", kind] => (qs.push ⟨kind == "min", #[]⟩, [s!"q {qs.size}"])
  | "newi" :: kind :: rest =>
    -- `initializePriorityQueue`: `heap.Init` on the empty slice, then `Push` every item
    let lt := ltOf (kind == "min")
    let rec go (a : Array Item) : List Nat → Array Item
      | p :: v :: t => go (Heap.push lt a ⟨p, v⟩) t
      | _ => a
    (qs.push ⟨kind == "min", go #[] (parseNats rest)⟩, [s!"q {qs.size}"])
  | ["push", q, p, v] =>
    match q.toNat?, p.toNat?, v.toNat? with
    | some i, some p, some v =>
      match qs[i]? with
      | some x => (qs.set! i { x with a := Heap.push (ltOf x.isMin) x.a ⟨p, v⟩ }, ["ok"])
      | none => (qs, ["bad-op"])
    | _, _, _ => (qs, ["bad-op"])
  | ["pop", q] =>
    match q.toNat?.bind (qs[·]?) with
    | none => (qs, ["bad-op"])
    | some x =>
      match Heap.pop (ltOf x.isMin) x.a with
      | none => (qs, ["panic"])
      | some (it, a') => (qs.set! q.toNat! { x with a := a' }, [s!"item {it.score}/{it.vid}"])
  | ["peek", q] =>
    match q.toNat?.bind (qs[·]?) with
    | none => (qs, ["bad-op"])
    | some x =>
      match x.a[0]? with
      | none => (qs, ["panic"])
      | some it => (qs, [s!"item {it.score}/{it.vid}"])
  | ["slice", q] =>
    match q.toNat?.bind (qs[·]?) with
    | none => (qs, ["bad-op"])
    | some x => (qs, [("items " ++ fmtItems x.a).trimAsciiEnd.toString])
  | ["len", q] =>
    match q.toNat?.bind (qs[·]?) with
    | none => (qs, ["bad-op"])
    | some x => (qs, [s!"len {x.a.size}"])
  | ["reverse", q] =>
    match q.toNat?.bind (qs[·]?) with
    | none => (qs, ["bad-op"])
    | some x => (qs.push ⟨!x.isMin, Heap.init (ltOf (!x.isMin)) x.a⟩, [s!"q {qs.size}"])
  | _ => (qs, ["bad-op"])

def main (h out : IO.FS.Stream) : IO Unit := runLoop h out #[] step #[]

end Anndb.Drive.PQ
