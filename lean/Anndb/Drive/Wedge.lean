import Anndb.Model.Allocator
import Anndb.Generated
import Anndb.Drive.Util
/-! Model driver for the `wedge` engine (C18): exhaustive exploration of the allocator LTS for the
burst the real node was fed; answers whether the observed outcome is allowed. -/
namespace Anndb.Drive.Wedge
open Anndb Anndb.Allocator

def parseEvents (s : String) : List Ev :=
  s.toList.filterMap fun ch => if ch == 'c' then some Ev.conf else if ch == 'w' then some Ev.watch else none

def step (u : Unit) (ws : List String) : Unit × List String :=
  match ws with
  | [_, _cap, _lock, prop, addr, evs, observed] =>
    -- capacity and locking discipline are what the code says now (regenerated), not what the harness assumes
    let p : Params := ⟨Generated.connNotifyChanCap, !Generated.allocatorSendsAfterUnlock, prop == "1", addr == "1"⟩
    let todo := parseEvents evs
    -- the state space is finite: (suffix of todo, +≤1 commit) × pcs × chan ≤ cap; fuel is generous
    let fuel := (todo.length + 3) * (p.cap + 2) * 40 + 1000
    let stuck := exploreStuck p fuel [] [init todo]
    if observed == "wedged" && stuck.isNone then
      (u, ["NOT-ALLOWED: the model has no stuck state for this burst in this situation"])
    else (u, ["allowed"])
  | _ => (u, ["bad-op"])

def main (h out : IO.FS.Stream) : IO Unit := runLoop h out () step ()

end Anndb.Drive.Wedge
