import Anndb.Model.Placement
import Anndb.Drive.Util
/-! Model driver for the `placement` engine (C16): evaluates the model's validity predicate
(`Placement.valid`, proved to hold of every output of `place`) on observed placements. -/
namespace Anndb.Drive.Placement
open Anndb

def parseList (s : String) : List Nat := (s.splitOn ",").filterMap String.toNat?

def step (u : Unit) (ws : List String) : Unit × List String :=
  match ws with
  | ["chk", r, m, p] =>
    let members := parseList (m.drop 2).toString
    let parts := (((p.drop 2).toString).splitOn ";").map parseList
    (u, [s!"valid {Anndb.Placement.valid members r.toNat! parts}"])
  | _ => (u, ["bad-op"])

def main (h out : IO.FS.Stream) : IO Unit := runLoop h out () step ()

end Anndb.Drive.Placement
