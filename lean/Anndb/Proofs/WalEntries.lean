import Anndb.Proofs.WalFlush
/-!
# C06: the size-limited `Entries` read and `DeleteGroup`

`entries_refines`: on every well-formed store, for every window `first ≤ lo < hi ≤ last + 1` and
every size limit, `badgerWAL.Entries` returns exactly the list `MemoryStorage.Entries` returns on
the abstract state — the prefix scan over the group's keys from `lo`, cut at `hi` and at the first
entry that would push the accumulated size over the limit (but never before one entry) is
`limitSize (ents[lo-offset : hi-offset])`. Outside the window the two agree on the error class
where `MemoryStorage` has one (`lo` at or below the compacted prefix).

`deleteGroup_erases`: `DeleteGroup` leaves none of the group's keys; reopening afterwards gives a
fresh store.
-/
namespace Anndb.Wal

/-- the prefix scan from `lo` over a consecutive run is a `drop` -/
theorem Contig.filter_ge {l : List Entry} (h : Contig l) (a : Entry) (hd : l.head? = some a) (lo : Nat) :
    l.filter (fun x => decide (x.index ≥ lo)) = l.drop (lo - a.index) := by
  have hsplit : l = l.take (lo - a.index) ++ l.drop (lo - a.index) := (List.take_append_drop _ _).symm
  conv => lhs; rw [hsplit]
  rw [List.filter_append]
  have h1 : (l.take (lo - a.index)).filter (fun x => decide (x.index ≥ lo)) = [] := by
    apply List.filter_eq_nil_iff.mpr
    intro x hx
    have := h.mem_take_index a hd (lo - a.index) x hx
    have hne : lo - a.index ≠ 0 := by
      intro h0; rw [h0] at hx; simp at hx
    simp only [decide_eq_true_eq]; omega
  have h2 : (l.drop (lo - a.index)).filter (fun x => decide (x.index ≥ lo)) = l.drop (lo - a.index) := by
    apply List.filter_eq_self.mpr
    intro x hx
    have := h.mem_drop_index a hd (lo - a.index) x hx
    simp only [decide_eq_true_eq]; omega
  rw [h1, h2, List.nil_append]

/-- head of a dropped consecutive run -/
theorem Contig.head_drop {l : List Entry} (h : Contig l) (a : Entry) (hd : l.head? = some a) (n : Nat)
    (hn : n < l.length) : ∃ b, (l.drop n).head? = some b ∧ b.index = a.index + n := by
  have hne : l.drop n ≠ [] := by
    intro h0
    have := congrArg List.length h0
    simp at this; omega
  cases hl : l.drop n with
  | nil => exact absurd hl hne
  | cons b t =>
    refine ⟨b, rfl, ?_⟩
    have hb : (l.getD n default) = b := by
      have : l[n]? = (l.drop n)[0]? := by simp
      rw [hl] at this
      simp at this
      simp [List.getD, this]
    rw [← hb]
    exact h.index_getD a hd n hn

/-- the scan window `[lo, hi)` over a consecutive run -/
theorem Contig.window {l : List Entry} (h : Contig l) (a : Entry) (hd : l.head? = some a) (lo hi : Nat)
    (hlo : a.index ≤ lo) (hlt : lo - a.index < l.length) :
    (l.filter (fun x => decide (x.index ≥ lo))).takeWhile (fun x => decide (x.index < hi))
      = (l.drop (lo - a.index)).take (hi - lo) := by
  rw [h.filter_ge a hd lo]
  obtain ⟨b, hb, hbi⟩ := h.head_drop a hd (lo - a.index) hlt
  by_cases hh : lo ≤ hi
  · rw [takeWhile_contig (h.drop _) b hb hi (by omega)]
    congr 1; omega
  · have h0 : hi - lo = 0 := by omega
    rw [h0, List.take_zero]
    cases hl : l.drop (lo - a.index) with
    | nil => rfl
    | cons c t =>
      rw [hl] at hb; simp at hb; subst hb
      simp only [List.takeWhile_cons]
      have : ¬ c.index < hi := by omega
      simp [this]

/-! ## the size limit -/

theorem go_eq (maxSize : Nat) (acc : List Entry) (size : Nat) (xs : List Entry) :
    Wal.getEntries.go maxSize acc size false xs = Mem.limitSize.go maxSize acc size xs := by
  induction xs generalizing acc size with
  | nil => rfl
  | cons x xs ih =>
    simp only [Wal.getEntries.go, Mem.limitSize.go, Bool.not_false, Bool.and_true, decide_eq_true_eq]
    by_cases hs : size + x.size > maxSize
    · simp [hs]
    · simp only [hs, if_false]
      exact ih _ _

/-- the store's accumulate-until-over-the-limit loop is `MemoryStorage`'s `limitSize` -/
theorem scan_eq_limitSize (maxSize : Nat) (cands : List Entry) :
    Wal.getEntries.go maxSize [] 0 true cands = Mem.limitSize cands maxSize := by
  cases cands with
  | nil => rfl
  | cons e rest =>
    simp only [Wal.getEntries.go, Mem.limitSize, Bool.not_true, Bool.and_false, Nat.zero_add]
    exact go_eq maxSize [e] e.size rest

theorem limitSize_single (e : Entry) (maxSize : Nat) : Mem.limitSize [e] maxSize = [e] := by
  simp [Mem.limitSize, Mem.limitSize.go]

/-- entries past the dummy are the disk's own -/
theorem absEnts_drop (l : List Entry) (n : Nat) (hn : 1 ≤ n) : (absEnts l).drop n = l.drop n := by
  cases l with
  | nil => rfl
  | cons e t =>
    obtain ⟨k, rfl⟩ : ∃ k, n = k + 1 := ⟨n - 1, by omega⟩
    simp [absEnts]

/-- **`Entries` refines `MemoryStorage.Entries`** for every legal window and every size limit -/
theorem entries_refines (w : Wal) (h : WF w) (lo hi maxSize : Nat)
    (hlo : (abs w).firstIndex ≤ lo) (hlt : lo < hi) (hhi : hi ≤ (abs w).lastIndex + 1) :
    ∃ es w', w.entries lo hi maxSize = .ok (es, w') ∧ (abs w).entries lo hi maxSize = .ok es
      ∧ w'.disk = w.disk ∧ WF w' := by
  obtain ⟨e, he, hoff⟩ := abs_offset w h
  obtain ⟨w1, hf, hd1, hwf1⟩ := firstIndex_refines w h
  have hl1 : w1.lastIndex = .ok (abs w).lastIndex := by
    have := lastIndex_refines w1 hwf1
    have habs : abs w1 = abs w := by simp [abs, Wal.hardState, hd1]
    rw [habs] at this; exact this
  have hlen : (abs w).ents.length = w.disk.ents.length := absEnts_length _
  have hfirst : (abs w).firstIndex = e.index + 1 := by simp [Mem.firstIndex, hoff]
  have hlast : (abs w).lastIndex = e.index + w.disk.ents.length - 1 := by simp [Mem.lastIndex, hoff, hlen]
  have hpos : 0 < w.disk.ents.length := List.length_pos_iff.mpr h.ne
  -- the abstract read
  have hM : (abs w).entries lo hi maxSize
      = .ok (Mem.limitSize ((w.disk.ents.drop (lo - e.index)).take (hi - lo)) maxSize) := by
    unfold Mem.entries
    have h1 : ¬ lo ≤ (abs w).offset := by rw [hoff]; omega
    have h2 : ((abs w).ents.length == 1) = false := by
      rw [hlen]; simp only [beq_eq_false_iff_ne, ne_eq]; omega
    simp only [h1, if_false, h2, Bool.false_eq_true]
    rw [hoff]
    show Except.ok (Mem.limitSize (((absEnts w.disk.ents).drop (lo - e.index)).take (hi - lo)) maxSize) = _
    rw [absEnts_drop _ _ (by omega)]
  refine ⟨_, w1, ?_, hM, hd1, hwf1⟩
  unfold Wal.entries
  rw [hf]
  simp only [bind, Except.bind]
  have h1 : ¬ lo < (abs w).firstIndex := by omega
  simp only [h1, if_false]
  rw [hl1]
  simp only
  have h2 : ¬ hi > (abs w).lastIndex + 1 := by omega
  simp only [h2, if_false]
  -- the concrete read
  have hidx : lo - e.index < w.disk.ents.length := by omega
  unfold Wal.getEntries
  rw [hd1]
  by_cases hone : hi - lo = 1
  · simp only [hone, beq_self_eq_true, if_true]
    have hget : (w.disk.ents.getD (lo - e.index) default).index = lo := by
      rw [h.contig.index_getD e he _ hidx]; omega
    have hfind : w.disk.ents.find? (fun x => x.index == lo) = some (w.disk.ents.getD (lo - e.index) default) := by
      have hwin := h.contig.window e he lo (lo + 1) (by omega) hidx
      have hfg := h.contig.filter_ge e he lo
      cases hdr : w.disk.ents.drop (lo - e.index) with
      | nil =>
        have := congrArg List.length hdr
        simp at this; omega
      | cons c t =>
        have hc : w.disk.ents.getD (lo - e.index) default = c := by
          have : w.disk.ents[lo - e.index]? = (w.disk.ents.drop (lo - e.index))[0]? := by simp
          rw [hdr] at this; simp at this
          simp [List.getD, this]
        rw [hc]
        have hci : c.index = lo := by rw [← hc]; exact hget
        -- everything before position lo - e.index has a smaller index
        have hsplit : w.disk.ents = w.disk.ents.take (lo - e.index) ++ c :: t := by
          rw [← hdr]; exact (List.take_append_drop _ _).symm
        rw [hsplit, List.find?_append]
        have hnone : (w.disk.ents.take (lo - e.index)).find? (fun x => x.index == lo) = none := by
          apply List.find?_eq_none.mpr
          intro x hx
          have := h.contig.mem_take_index e he (lo - e.index) x hx
          simp only [beq_iff_eq]; omega
        rw [hnone]
        simp [hci]
    rw [hfind]
    simp only
    have : (w.disk.ents.drop (lo - e.index)).take 1 = [w.disk.ents.getD (lo - e.index) default] := by
      cases hdr : w.disk.ents.drop (lo - e.index) with
      | nil =>
        have := congrArg List.length hdr
        simp at this; omega
      | cons c t =>
        have hc : w.disk.ents.getD (lo - e.index) default = c := by
          have : w.disk.ents[lo - e.index]? = (w.disk.ents.drop (lo - e.index))[0]? := by simp
          rw [hdr] at this; simp at this
          simp [List.getD, this]
        rw [hc]; simp
    rw [this, limitSize_single]
  · have hne : ((hi - lo == 1) = false) := by simp only [beq_eq_false_iff_ne, ne_eq]; exact hone
    simp only [hne, Bool.false_eq_true, if_false]
    rw [h.contig.window e he lo hi (by omega) hidx, scan_eq_limitSize]

/-- a read at or below the compacted prefix is refused with the same error class -/
theorem entries_compacted (w : Wal) (h : WF w) (lo hi maxSize : Nat) (hlo : lo < (abs w).firstIndex) :
    w.entries lo hi maxSize = .error .compacted ∧ (abs w).entries lo hi maxSize = .error .compacted := by
  obtain ⟨w1, hf, _, _⟩ := firstIndex_refines w h
  constructor
  · unfold Wal.entries
    rw [hf]
    simp only [bind, Except.bind, hlo, if_true]
  · unfold Mem.entries
    have : lo ≤ (abs w).offset := by simp only [Mem.firstIndex] at hlo; omega
    simp [this]

/-! ## DeleteGroup -/

theorem deleteGroup_erases (w : Wal) : (Wal.deleteGroup w).disk = ⟨[], none, none⟩ := by
  unfold Wal.deleteGroup Wal.reset
  simp only [List.map_nil, List.append_nil]
  have hents : (w.disk.flush (w.disk.ents.map fun e => BOp.delEntry e.index)).ents = [] := by
    rw [flush_ents]
    have : (w.disk.ents.map fun e => BOp.delEntry e.index) = (w.disk.ents.map (·.index)).map BOp.delEntry := by
      rw [List.map_map]; rfl
    rw [this, flush_dels_ents]
    apply List.filter_eq_nil_iff.mpr
    intro x hx
    have hm : x.index ∈ w.disk.ents.map (·.index) := List.mem_map.mpr ⟨x, hx, rfl⟩
    have : (w.disk.ents.map (·.index)).contains x.index = true := List.contains_iff_mem.mpr hm
    rw [this]; decide
  simp [hents]

/-- reopening the database after `DeleteGroup` gives a brand-new store -/
theorem open_after_deleteGroup (w : Wal) : Wal.open_ (Wal.deleteGroup w).disk = Wal.fresh := by
  rw [deleteGroup_erases]; rfl

namespace Mem

theorem limitSize_go_prefix (maxSize : Nat) (xs acc : List Entry) (size : Nat) :
    ∃ p, limitSize.go maxSize acc size xs = acc.reverse ++ p ∧ p <+: xs := by
  induction xs generalizing acc size with
  | nil => exact ⟨[], by simp [limitSize.go], List.prefix_refl _⟩
  | cons x xs ih =>
    simp only [limitSize.go]
    split
    · exact ⟨[], by simp, List.nil_prefix⟩
    · obtain ⟨p, hp, hpre⟩ := ih (x :: acc) (size + x.size)
      refine ⟨x :: p, ?_, ?_⟩
      · rw [hp]; simp
      · exact List.cons_prefix_cons.mpr ⟨rfl, hpre⟩

/-- a size-limited read is a run from the start of the requested window: nothing is stepped over -/
theorem limitSize_prefix (xs : List Entry) (maxSize : Nat) : limitSize xs maxSize <+: xs := by
  cases xs with
  | nil => simp [limitSize]
  | cons e rest =>
    obtain ⟨p, hp, hpre⟩ := limitSize_go_prefix maxSize rest [e] e.size
    simp only [limitSize, hp, List.reverse_cons, List.reverse_nil, List.nil_append, List.singleton_append]
    exact List.cons_prefix_cons.mpr ⟨rfl, hpre⟩

/-- and it is never empty for a non-empty window (the first entry is returned whatever its size) -/
theorem limitSize_ne_nil (xs : List Entry) (maxSize : Nat) (h : xs ≠ []) : limitSize xs maxSize ≠ [] := by
  cases xs with
  | nil => exact absurd rfl h
  | cons e rest =>
    obtain ⟨p, hp, _⟩ := limitSize_go_prefix maxSize rest [e] e.size
    simp [limitSize, hp]

end Mem

end Anndb.Wal
