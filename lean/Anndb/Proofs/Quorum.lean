import Anndb.Proofs.HnswExactQ
/-!
# Quorum intersection (C03, the replicated clause)

Replicas are numbered `0 … n-1`. An acknowledgement needs the entry in the log store of a majority
`A` (followers acknowledge an append only after `wal.Save`: C05 `run_attests`; the leader's own
store: C03 `acked_durable`). A crash and restart keeps every log store. A later leader is elected
by a majority `Q` of voters. `A` and `Q` share a replica — whichever minority was down in between —
so the election (Raft's up-to-date check, etcd/raft's part) meets a log that holds the entry. -/
namespace Anndb.Quorum

def Majority (n : Nat) (s : List Nat) : Prop := s.Nodup ∧ (∀ r ∈ s, r < n) ∧ n < 2 * s.length

theorem filter_split_length (l : List Nat) (p : Nat → Bool) :
    (l.filter p).length + (l.filter (fun r => !p r)).length = l.length := by
  induction l with
  | nil => rfl
  | cons a t ih =>
    cases hp : p a <;> simp [List.filter_cons, hp] <;> omega

theorem quorum_intersection (n : Nat) (A Q : List Nat) (hA : Majority n A) (hQ : Majority n Q) :
    ∃ r, r ∈ A ∧ r ∈ Q := by
  obtain ⟨hAn, hAlt, hAmaj⟩ := hA
  obtain ⟨hQn, hQlt, hQmaj⟩ := hQ
  -- the members of A outside Q, together with Q, are distinct replicas: at most n of them
  have hsplit := filter_split_length A (fun r => decide (r ∈ Q))
  have hout : ((A.filter (fun r => !decide (r ∈ Q))) ++ Q).Nodup := by
    rw [List.nodup_append]
    refine ⟨hAn.filter _, hQn, ?_⟩
    intro a ha b hb hab
    have := (List.mem_filter.mp ha).2
    simp at this
    exact this (hab ▸ hb)
  have hbound := nodup_bounded_length n _ hout (by
    intro x hx
    rcases List.mem_append.mp hx with hx | hx
    · exact hAlt x (List.mem_filter.mp hx).1
    · exact hQlt x hx)
  rw [List.length_append] at hbound
  have hpos : 0 < (A.filter (fun r => decide (r ∈ Q))).length := by
    omega
  obtain ⟨r, hr⟩ := List.exists_mem_of_length_pos hpos
  have := List.mem_filter.mp hr
  exact ⟨r, this.1, by simpa using this.2⟩

/-- the replicas whose log store holds entry `e` -/
def holders (stores : List (List Nat)) (e : Nat) : List Nat :=
  (List.range stores.length).filter (fun r => decide (e ∈ stores.getD r []))

/-- **C03 (any minority crashes).** `stores r` is the durable log of replica `r`. If the entry is
in the stores of a majority, then after any set of replicas crashes and restarts (a restart
changes no store) every majority of voters contains a replica whose store holds the entry. -/
theorem acked_entry_meets_every_election (stores : List (List Nat)) (e : Nat)
    (hack : stores.length < 2 * (holders stores e).length)
    (Q : List Nat) (hQ : Majority stores.length Q) :
    ∃ r, r ∈ Q ∧ e ∈ stores.getD r [] := by
  have hA : Majority stores.length (holders stores e) := by
    refine ⟨List.nodup_range.filter _, ?_, hack⟩
    intro r hr
    exact List.mem_range.mp (List.mem_filter.mp hr).1
  obtain ⟨r, hrA, hrQ⟩ := quorum_intersection stores.length _ Q hA hQ
  exact ⟨r, hrQ, by simpa using (List.mem_filter.mp hrA).2⟩

example : Majority 3 [0, 2] := ⟨by decide, by decide, by decide⟩
example : holders [[1, 2, 3], [1], [1, 2, 3]] 3 = [0, 2] := by decide

/-! ## Election safety from durable votes (C05)

One replica in one term. `mem` is the vote etcd/raft holds in memory, `durable` the vote in the
host's log store, `sent` the candidates this replica has granted its vote to (messages that left).
With `save = true` the host stores the hard state before the message leaves (the order `run_attests`
proves for the code); with `save = false` the message leaves first and a crash can fall in between.
A restart resumes from the store (`restart_resumes_from_store`). -/

structure Voter where
  durable : Option Nat
  mem : Option Nat
  sent : List Nat
deriving DecidableEq, Repr

inductive VEv where
  | request (c : Nat)   -- a vote request from candidate `c` arrives
  | restart             -- crash and restart
deriving DecidableEq, Repr

def Voter.init : Voter := ⟨none, none, []⟩

def Voter.step (save : Bool) (v : Voter) : VEv → Voter
  | .request c =>
    match v.mem with
    | some x => if x = c then { v with sent := c :: v.sent } else v
    | none => { durable := if save then some c else v.durable, mem := some c, sent := c :: v.sent }
  | .restart => { v with mem := v.durable }

def Voter.run (save : Bool) (v : Voter) (evs : List VEv) : Voter := evs.foldl (Voter.step save) v

/-- the store and the memory agree, and every grant that left names the stored vote -/
def Voter.Inv (v : Voter) : Prop := v.durable = v.mem ∧ ∀ a ∈ v.sent, v.mem = some a

theorem Voter.inv_step (v : Voter) (e : VEv) (h : v.Inv) : (v.step true e).Inv := by
  obtain ⟨h1, h2⟩ := h
  cases e with
  | restart => exact ⟨by simp [Voter.step, h1], by simpa [Voter.step, h1] using h2⟩
  | request c =>
    unfold Voter.step
    cases hm : v.mem with
    | none =>
      refine ⟨by simp, ?_⟩
      intro a ha
      simp only [List.mem_cons] at ha
      rcases ha with rfl | ha
      · rfl
      · have := h2 a ha; rw [hm] at this; cases this
    | some x =>
      by_cases hx : x = c
      · subst hx
        simp only [if_true]
        refine ⟨by simp [h1, hm], ?_⟩
        intro a ha
        simp only [List.mem_cons] at ha
        rcases ha with rfl | ha
        · rfl
        · have := h2 a ha; rw [hm] at this; exact this
      · simp only [hx, if_false]
        exact ⟨h1, h2⟩

theorem Voter.inv_run (v : Voter) (evs : List VEv) (h : v.Inv) : (v.run true evs).Inv := by
  induction evs generalizing v with
  | nil => exact h
  | cons e rest ih => exact ih _ (v.inv_step e h)

/-- **vote once**: with the vote stored before the grant leaves, a replica grants at most one
candidate in a term, through any number of crashes and restarts -/
theorem Voter.vote_once (evs : List VEv) (a b : Nat)
    (ha : a ∈ (Voter.init.run true evs).sent) (hb : b ∈ (Voter.init.run true evs).sent) : a = b := by
  have h := Voter.inv_run Voter.init evs ⟨rfl, by simp [Voter.init]⟩
  have := (h.2 a ha).symm.trans (h.2 b hb)
  exact Option.some.inj this

/-- **election safety**: replicas `0 … n-1`, replica `r` sees the events `evs r` in this term. If
two candidates each hold the grants of a majority, they are the same candidate. -/
theorem election_safety (n : Nat) (evs : Nat → List VEv) (c₁ c₂ : Nat) (Q₁ Q₂ : List Nat)
    (h₁ : Majority n Q₁) (h₂ : Majority n Q₂)
    (g₁ : ∀ r ∈ Q₁, c₁ ∈ (Voter.init.run true (evs r)).sent)
    (g₂ : ∀ r ∈ Q₂, c₂ ∈ (Voter.init.run true (evs r)).sent) : c₁ = c₂ := by
  obtain ⟨r, hr1, hr2⟩ := quorum_intersection n Q₁ Q₂ h₁ h₂
  exact Voter.vote_once (evs r) c₁ c₂ (g₁ r hr1) (g₂ r hr2)

/-- **why the order matters**: when the grant leaves before the vote is stored, a crash in between
lets the same replica grant a second candidate in the same term — and with it two majorities for
two candidates (3 replicas: replica 0 votes for 1 only, replica 2 for 2 only, replica 1 for both) -/
theorem send_before_save_votes_twice :
    (Voter.init.run false [.request 1, .restart, .request 2]).sent = [2, 1] := by decide

theorem send_before_save_elects_two :
    let evs : Nat → List VEv := fun r => if r = 0 then [.request 1] else if r = 1 then [.request 1, .restart, .request 2] else [.request 2]
    Majority 3 [0, 1] ∧ Majority 3 [1, 2] ∧
    (∀ r ∈ [0, 1], 1 ∈ (Voter.init.run false (evs r)).sent) ∧
    (∀ r ∈ [1, 2], 2 ∈ (Voter.init.run false (evs r)).sent) := by
  refine ⟨⟨by decide, by decide, by decide⟩, ⟨by decide, by decide, by decide⟩, by decide, by decide⟩

example : (Voter.init.run true [.request 1, .restart, .request 2, .request 1]).sent = [1, 1] := by decide

/-! ## the same through every term

A replica with a current term: a request of an older term is ignored, a request of a newer term
makes the replica adopt that term (forgetting its vote), and then the vote is granted if it is
still free or already given to the same candidate. Term and vote are stored together (the hard
state) before anything leaves when `save = true`. -/

structure VoterT where
  dTerm : Nat
  dVote : Option Nat
  mTerm : Nat
  mVote : Option Nat
  sent : List (Nat × Nat)      -- (term, candidate) of every grant that left
deriving DecidableEq, Repr

inductive VEvT where
  | request (t c : Nat)
  | restart
deriving DecidableEq, Repr

def VoterT.init : VoterT := ⟨0, none, 0, none, []⟩

def VoterT.step (save : Bool) (v : VoterT) : VEvT → VoterT
  | .restart => { v with mTerm := v.dTerm, mVote := v.dVote }
  | .request t c =>
    if t < v.mTerm then v else
    let vote := if t > v.mTerm then none else v.mVote
    match vote with
    | some x =>
      if x = c then { dTerm := if save then t else v.dTerm, dVote := if save then some x else v.dVote,
                      mTerm := t, mVote := some x, sent := (t, c) :: v.sent }
      else { dTerm := if save then t else v.dTerm, dVote := if save then some x else v.dVote,
             mTerm := t, mVote := some x, sent := v.sent }
    | none => { dTerm := if save then t else v.dTerm, dVote := if save then some c else v.dVote,
                mTerm := t, mVote := some c, sent := (t, c) :: v.sent }

def VoterT.run (save : Bool) (v : VoterT) (evs : List VEvT) : VoterT := evs.foldl (VoterT.step save) v

structure VoterT.Inv (v : VoterT) : Prop where
  dur : v.dTerm = v.mTerm ∧ v.dVote = v.mVote
  le : ∀ p ∈ v.sent, p.1 ≤ v.mTerm
  cur : ∀ p ∈ v.sent, p.1 = v.mTerm → v.mVote = some p.2
  once : ∀ p ∈ v.sent, ∀ q ∈ v.sent, p.1 = q.1 → p.2 = q.2

theorem VoterT.inv_step (v : VoterT) (e : VEvT) (h : v.Inv) : (v.step true e).Inv := by
  obtain ⟨⟨hd1, hd2⟩, hle, hcur, honce⟩ := h
  cases e with
  | restart =>
    refine ⟨⟨rfl, rfl⟩, ?_, ?_, honce⟩
    · intro p hp; show p.1 ≤ v.dTerm; rw [hd1]; exact hle p hp
    · intro p hp hpt
      show v.dVote = some p.2
      rw [hd2]; exact hcur p hp (by rw [← hd1]; exact hpt)
  | request t c =>
    unfold VoterT.step
    by_cases hold : t < v.mTerm
    · simp only [hold, if_true]; exact ⟨⟨hd1, hd2⟩, hle, hcur, honce⟩
    · simp only [hold, if_false]
      by_cases hnew : t > v.mTerm
      · -- a newer term: the vote is free, the grant is the first of its term
        simp only [hnew, if_true]
        refine ⟨⟨rfl, rfl⟩, ?_, ?_, ?_⟩
        · intro p hp
          rcases List.mem_cons.mp hp with rfl | hp
          · exact Nat.le_refl _
          · have := hle p hp; show p.1 ≤ t; omega
        · intro p hp hpt
          rcases List.mem_cons.mp hp with rfl | hp
          · rfl
          · have := hle p hp; have : p.1 = t := hpt; omega
        · intro p hp q hq hpq
          rcases List.mem_cons.mp hp with rfl | hp <;> rcases List.mem_cons.mp hq with rfl | hq
          · rfl
          · have := hle q hq; simp only at hpq; omega
          · have := hle p hp; simp only at hpq; omega
          · exact honce p hp q hq hpq
      · have hteq : t = v.mTerm := by omega
        simp only [hnew, if_false]
        cases hv : v.mVote with
        | none =>
          simp only
          refine ⟨⟨rfl, rfl⟩, ?_, ?_, ?_⟩
          · intro p hp
            rcases List.mem_cons.mp hp with rfl | hp
            · exact Nat.le_refl _
            · have := hle p hp; show p.1 ≤ t; omega
          · intro p hp hpt
            rcases List.mem_cons.mp hp with rfl | hp
            · rfl
            · have := hcur p hp (by have : p.1 = t := hpt; omega); rw [hv] at this; cases this
          · intro p hp q hq hpq
            rcases List.mem_cons.mp hp with rfl | hp <;> rcases List.mem_cons.mp hq with rfl | hq
            · rfl
            · have := hcur q hq (by simp only at hpq; omega); rw [hv] at this; cases this
            · have := hcur p hp (by simp only at hpq; omega); rw [hv] at this; cases this
            · exact honce p hp q hq hpq
        | some x =>
          simp only
          by_cases hx : x = c
          · subst hx
            simp only [if_true]
            refine ⟨⟨rfl, rfl⟩, ?_, ?_, ?_⟩
            · intro p hp
              rcases List.mem_cons.mp hp with rfl | hp
              · exact Nat.le_refl _
              · have := hle p hp; show p.1 ≤ t; omega
            · intro p hp hpt
              rcases List.mem_cons.mp hp with rfl | hp
              · rfl
              · have := hcur p hp (by have : p.1 = t := hpt; omega); rw [hv] at this; exact this
            · intro p hp q hq hpq
              rcases List.mem_cons.mp hp with rfl | hp <;> rcases List.mem_cons.mp hq with rfl | hq
              · rfl
              · have := hcur q hq (by simp only at hpq; omega); rw [hv] at this
                exact (Option.some.inj this)
              · have := hcur p hp (by simp only at hpq; omega); rw [hv] at this
                exact (Option.some.inj this).symm
              · exact honce p hp q hq hpq
          · simp only [hx, if_false]
            refine ⟨⟨rfl, rfl⟩, ?_, ?_, honce⟩
            · intro p hp; have := hle p hp; show p.1 ≤ t; omega
            · intro p hp hpt
              have := hcur p hp (by have : p.1 = t := hpt; omega); rw [hv] at this; exact this

theorem VoterT.inv_run (v : VoterT) (evs : List VEvT) (h : v.Inv) : (v.run true evs).Inv := by
  induction evs generalizing v with
  | nil => exact h
  | cons e rest ih => exact ih _ (v.inv_step e h)

theorem VoterT.inv_init : VoterT.init.Inv :=
  ⟨⟨rfl, rfl⟩, by simp [VoterT.init], by simp [VoterT.init], by simp [VoterT.init]⟩

/-- **one vote per term, in every term, through any crashes** -/
theorem VoterT.vote_once (evs : List VEvT) (t a b : Nat)
    (ha : (t, a) ∈ (VoterT.init.run true evs).sent) (hb : (t, b) ∈ (VoterT.init.run true evs).sent) : a = b :=
  (VoterT.inv_run VoterT.init evs VoterT.inv_init).once (t, a) ha (t, b) hb rfl

/-- **election safety, every term** -/
theorem election_safety_every_term (n : Nat) (evs : Nat → List VEvT) (t c₁ c₂ : Nat) (Q₁ Q₂ : List Nat)
    (h₁ : Majority n Q₁) (h₂ : Majority n Q₂)
    (g₁ : ∀ r ∈ Q₁, (t, c₁) ∈ (VoterT.init.run true (evs r)).sent)
    (g₂ : ∀ r ∈ Q₂, (t, c₂) ∈ (VoterT.init.run true (evs r)).sent) : c₁ = c₂ := by
  obtain ⟨r, hr1, hr2⟩ := quorum_intersection n Q₁ Q₂ h₁ h₂
  exact VoterT.vote_once (evs r) t c₁ c₂ (g₁ r hr1) (g₂ r hr2)

/-- a vote within an already adopted term that is not stored (seeded change C05-C): the replica
adopts term 7 on a request it has to refuse... here: grants 3 in term 7 without storing, restarts,
grants 2 in term 7 -/
theorem unsaved_vote_in_adopted_term_votes_twice :
    (VoterT.init.run false [.request 7 3, .restart, .request 7 2]).sent = [(7, 2), (7, 3)] := by decide

example : (VoterT.init.run true [.request 7 3, .restart, .request 7 2, .request 8 2, .request 7 3]).sent
    = [(8, 2), (7, 3)] := by decide

end Anndb.Quorum
