import Anndb.Proofs.HnswExactQ
/-!
# Quorum intersection (C03, the replicated clause)

Replicas are numbered `0 … n-1`. An acknowledgement needs the entry in the log store of a majority
`A` (followers acknowledge an append only after `wal.Save`: C05 `run_attests`; the leader's own
store: C03 `acked_durable`). A crash and restart keeps every log store. A later leader is elected
by a majority `Q` of voters. `A` and `Q` share a replica — whichever minority was down in between —
so the election (Raft's up-to-date check, etcd/raft's part) meets a log that holds the entry. -/
namespace Anndb.Quorum

def Majority (n : Nat) (s : List Nat) : Prop := s.Nodup ∧ (∀ r ∈ s, r < n) ∧ n < 2 * s.length

theorem filter_split_length (l : List Nat) (p : Nat → Bool) :
    (l.filter p).length + (l.filter (fun r => !p r)).length = l.length := by
  induction l with
  | nil => rfl
  | cons a t ih =>
    cases hp : p a <;> simp [List.filter_cons, hp] <;> omega

theorem quorum_intersection (n : Nat) (A Q : List Nat) (hA : Majority n A) (hQ : Majority n Q) :
    ∃ r, r ∈ A ∧ r ∈ Q := by
  obtain ⟨hAn, hAlt, hAmaj⟩ := hA
  obtain ⟨hQn, hQlt, hQmaj⟩ := hQ
  -- the members of A outside Q, together with Q, are distinct replicas: at most n of them
  have hsplit := filter_split_length A (fun r => decide (r ∈ Q))
  have hout : ((A.filter (fun r => !decide (r ∈ Q))) ++ Q).Nodup := by
    rw [List.nodup_append]
    refine ⟨hAn.filter _, hQn, ?_⟩
    intro a ha b hb hab
    have := (List.mem_filter.mp ha).2
    simp at this
    exact this (hab ▸ hb)
  have hbound := nodup_bounded_length n _ hout (by
    intro x hx
    rcases List.mem_append.mp hx with hx | hx
    · exact hAlt x (List.mem_filter.mp hx).1
    · exact hQlt x hx)
  rw [List.length_append] at hbound
  have hpos : 0 < (A.filter (fun r => decide (r ∈ Q))).length := by
    omega
  obtain ⟨r, hr⟩ := List.exists_mem_of_length_pos hpos
  have := List.mem_filter.mp hr
  exact ⟨r, this.1, by simpa using this.2⟩

/-- the replicas whose log store holds entry `e` -/
def holders (stores : List (List Nat)) (e : Nat) : List Nat :=
  (List.range stores.length).filter (fun r => decide (e ∈ stores.getD r []))

/-- **C03 (any minority crashes).** `stores r` is the durable log of replica `r`. If the entry is
in the stores of a majority, then after any set of replicas crashes and restarts (a restart
changes no store) every majority of voters contains a replica whose store holds the entry. -/
theorem acked_entry_meets_every_election (stores : List (List Nat)) (e : Nat)
    (hack : stores.length < 2 * (holders stores e).length)
    (Q : List Nat) (hQ : Majority stores.length Q) :
    ∃ r, r ∈ Q ∧ e ∈ stores.getD r [] := by
  have hA : Majority stores.length (holders stores e) := by
    refine ⟨List.nodup_range.filter _, ?_, hack⟩
    intro r hr
    exact List.mem_range.mp (List.mem_filter.mp hr).1
  obtain ⟨r, hrA, hrQ⟩ := quorum_intersection stores.length _ Q hA hQ
  exact ⟨r, hrQ, by simpa using (List.mem_filter.mp hrA).2⟩

example : Majority 3 [0, 2] := ⟨by decide, by decide, by decide⟩
example : holders [[1, 2, 3], [1], [1, 2, 3]] 3 = [0, 2] := by decide

end Anndb.Quorum
