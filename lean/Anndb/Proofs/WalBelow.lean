import Anndb.Proofs.WalEntries
/-!
# C06: batches that start below the first index

`MemoryStorage.Append` accepts a batch whose first entries have been compacted away meanwhile: it
drops the part below the first index (or the whole batch, if all of it is). `badgerWAL.writeEntries`
copies that logic. `save_entries_any_start` extends `save_entries_refines` to such batches, and
`run_refines_any_start` is the refinement along histories whose batches only have to leave no gap
(`runMA`: the lower bound on the first entry of a batch is gone).
-/
namespace Anndb.Wal

theorem Contig.drop_head {l : List Entry} (h : Contig l) (a : Entry) (hd : l.head? = some a) (n : Nat)
    (hn : n < l.length) : ∃ b t, l.drop n = b :: t ∧ b.index = a.index + n := by
  obtain ⟨b, hb, hbi⟩ := h.head_drop a hd n hn
  cases hl : l.drop n with
  | nil => rw [hl] at hb; simp at hb
  | cons c t =>
    rw [hl] at hb; simp at hb; subst hb
    exact ⟨c, t, rfl, hbi⟩

/-- `MemoryStorage.Append`: a batch reaching into the log from below the first index is the batch
without its compacted part -/
theorem Mem.append_drop (m : Mem) (es : List Entry) (hes : Contig es) (e0 : Entry) (he0 : es.head? = some e0)
    (hlow : e0.index < m.firstIndex) (hreach : m.firstIndex ≤ e0.index + es.length - 1) :
    m.append es = m.append (es.drop (m.firstIndex - e0.index)) := by
  have hk : m.firstIndex - e0.index < es.length := by omega
  obtain ⟨b, t, hdrop, hbi⟩ := hes.drop_head e0 he0 _ hk
  have hlen : (b :: t).length = es.length - (m.firstIndex - e0.index) := by
    rw [← hdrop, List.length_drop]
  cases es with
  | nil => simp at he0
  | cons x rest =>
    have hx : x = e0 := by simpa using he0
    subst hx
    rw [hdrop]
    unfold Mem.append
    simp only
    have h1 : ¬ (x.index + (x :: rest).length - 1 < m.firstIndex) := by omega
    have h2 : m.firstIndex > x.index := hlow
    have h3 : ¬ (b.index + (b :: t).length - 1 < m.firstIndex) := by rw [hlen]; omega
    have h4 : ¬ (m.firstIndex > b.index) := by omega
    simp only [h1, if_false, h2, if_true, h3, h4, hdrop]

/-- the same for the store's `writeEntries` -/
theorem writeEntries_drop (w : Wal) (h : WF w) (es : List Entry) (hes : Contig es) (e0 : Entry)
    (he0 : es.head? = some e0) (hlow : e0.index < (abs w).firstIndex)
    (hreach : (abs w).firstIndex ≤ e0.index + es.length - 1) :
    w.writeEntries es = w.writeEntries (es.drop ((abs w).firstIndex - e0.index)) := by
  obtain ⟨w1, hf, _, _⟩ := firstIndex_refines w h
  have hk : (abs w).firstIndex - e0.index < es.length := by omega
  obtain ⟨b, t, hdrop, hbi⟩ := hes.drop_head e0 he0 _ hk
  have hlen : (b :: t).length = es.length - ((abs w).firstIndex - e0.index) := by
    rw [← hdrop, List.length_drop]
  cases es with
  | nil => simp at he0
  | cons x rest =>
    have hx : x = e0 := by simpa using he0
    subst hx
    rw [hdrop]
    unfold Wal.writeEntries
    simp only [hf, bind, Except.bind]
    have h1 : ¬ (x.index + (x :: rest).length - 1 < (abs w).firstIndex) := by omega
    have h2 : (abs w).firstIndex > x.index := hlow
    have h3 : ¬ (b.index + (b :: t).length - 1 < (abs w).firstIndex) := by rw [hlen]; omega
    have h4 : ¬ ((abs w).firstIndex > b.index) := by omega
    simp only [h1, if_false, h2, if_true, h3, h4, hdrop]

theorem save_drop (w : Wal) (h : WF w) (hs : HardState) (es : List Entry) (hes : Contig es) (e0 : Entry)
    (he0 : es.head? = some e0) (hlow : e0.index < (abs w).firstIndex)
    (hreach : (abs w).firstIndex ≤ e0.index + es.length - 1) :
    w.save hs es emptySnap = w.save hs (es.drop ((abs w).firstIndex - e0.index)) emptySnap := by
  unfold Wal.save
  simp only [Snap.isEmpty, emptySnap, beq_self_eq_true, if_true]
  rw [writeEntries_drop w h es hes e0 he0 hlow hreach]

/-- a `Save` that only carries a hard state (its batch lies entirely below the first index, or is
empty) changes nothing but the hard state -/
theorem save_nothing_refines (w : Wal) (h : WF w) (hs : HardState) (es : List Entry)
    (hbelow : ∀ e0, es.head? = some e0 → e0.index + es.length - 1 < (abs w).firstIndex) :
    ∃ w', w.save hs es emptySnap = .ok w' ∧ WF w' ∧
      abs w' = { abs w with hs := if hs.isEmpty then (abs w).hs else hs } := by
  obtain ⟨w1, hf, hdisk, hwf1⟩ := firstIndex_refines w h
  -- the batch is skipped
  have hwe : ∃ wk, w.writeEntries es = .ok ([], wk) ∧ wk.disk = w.disk ∧ WF wk := by
    cases es with
    | nil => exact ⟨w, rfl, rfl, h⟩
    | cons x rest =>
      unfold Wal.writeEntries
      simp only [hf, bind, Except.bind]
      have := hbelow x rfl
      simp only [this, if_true]
      exact ⟨w1, rfl, hdisk, hwf1⟩
  obtain ⟨wk, hwk, hdk, hwfk⟩ := hwe
  unfold Wal.save
  simp only [Snap.isEmpty, emptySnap, beq_self_eq_true, if_true, hwk, bind, Except.bind,
    List.nil_append]
  refine ⟨_, rfl, ?_, ?_⟩
  · by_cases hhs : hs.isEmpty = true
    · simp only [hhs, if_true]
      have : w.disk.flush [] = w.disk := rfl
      rw [this]
      refine ⟨?_, ?_, ?_, ?_, ?_, ?_⟩
      · exact h.ne
      · exact h.contig
      · intro l hl; have := hwfk.cLast l hl; rwa [hdk] at this
      · intro hcs f hf'; have := hwfk.cFirst hcs f hf'; rwa [hdk] at this
      · intro s hs'; have := hwfk.cSnap s hs'; rwa [hdk] at this
      · exact h.ssHead
    · have hhs' : hs.isEmpty = false := by simpa using hhs
      simp only [hhs', Bool.false_eq_true, if_false]
      have hD : w.disk.flush [BOp.setHS hs] = { w.disk with hs := some hs } := rfl
      rw [hD]
      refine ⟨?_, ?_, ?_, ?_, ?_, ?_⟩
      · exact h.ne
      · exact h.contig
      · intro l hl; have := hwfk.cLast l hl; rwa [hdk] at this
      · intro hcs f hf'; have := hwfk.cFirst hcs f hf'; rwa [hdk] at this
      · intro s hs'; have := hwfk.cSnap s hs'; rwa [hdk] at this
      · exact h.ssHead
  · by_cases hhs : hs.isEmpty = true
    · simp only [hhs, if_true]
      have : w.disk.flush [] = w.disk := rfl
      rw [this]
      simp [abs, Wal.hardState]
    · have hhs' : hs.isEmpty = false := by simpa using hhs
      simp only [hhs', Bool.false_eq_true, if_false]
      have hD : w.disk.flush [BOp.setHS hs] = { w.disk with hs := some hs } := rfl
      rw [hD]
      simp [abs, Wal.hardState]

/-- **`Save` of a batch of entries, wherever it starts** (no gap above the log) -/
theorem save_entries_any_start (w : Wal) (h : WF w) (hs : HardState) (es : List Entry)
    (hes : Contig es) (e0 : Entry) (he0 : es.head? = some e0)
    (hnogap : e0.index ≤ (abs w).lastIndex + 1) :
    ∃ w', w.save hs es emptySnap = .ok w' ∧ WF w' ∧
      abs w' = { (abs w).append es with hs := if hs.isEmpty then (abs w).hs else hs } := by
  by_cases hfirst : (abs w).firstIndex ≤ e0.index
  · exact save_entries_refines w h hs es hes e0 he0 hfirst hnogap
  · have hlow : e0.index < (abs w).firstIndex := by omega
    by_cases hreach : (abs w).firstIndex ≤ e0.index + es.length - 1
    · -- part of the batch survives
      have hk : (abs w).firstIndex - e0.index < es.length := by omega
      obtain ⟨b, t, hdrop, hbi⟩ := hes.drop_head e0 he0 _ hk
      rw [save_drop w h hs es hes e0 he0 hlow hreach, Mem.append_drop (abs w) es hes e0 he0 hlow hreach]
      have hc : Contig (es.drop ((abs w).firstIndex - e0.index)) := hes.drop _
      have hl1 : (abs w).firstIndex ≤ (abs w).lastIndex + 1 := by
        obtain ⟨a, ha, hoff⟩ := abs_offset w h
        have hlen : (abs w).ents.length = w.disk.ents.length := absEnts_length _
        have hpos : 0 < w.disk.ents.length := List.length_pos_iff.mpr h.ne
        simp only [Mem.firstIndex, Mem.lastIndex, hoff, hlen]; omega
      exact save_entries_refines w h hs _ hc b (by rw [hdrop]; rfl) (by omega) (by omega)
    · -- the whole batch is below the first index
      have hall : e0.index + es.length - 1 < (abs w).firstIndex := by omega
      have hm : (abs w).append es = abs w := by
        cases es with
        | nil => rfl
        | cons x rest =>
          have hx : x = e0 := by simpa using he0
          subst hx
          unfold Mem.append
          simp only [hall, if_true]
      rw [hm]
      exact save_nothing_refines w h hs es (by
        intro e hhead
        have : e = e0 := by rw [he0] at hhead; exact (Option.some.inj hhead).symm
        subst this; exact hall)

/-! ## refinement along histories without the lower bound -/

/-- as `runM`, but a batch only has to leave no gap above the log -/
def runMA : Mem → List WOp → Option Mem
  | m, [] => some m
  | m, .append hs es :: rest =>
    match es with
    | [] => none
    | e0 :: _ =>
      if e0.index ≤ m.lastIndex + 1 then
        runMA { m.append es with hs := if hs.isEmpty then m.hs else hs } rest
      else none
  | m, .compact idx conf data :: rest =>
    if m.firstIndex ≤ idx ∧ idx ≤ m.lastIndex then
      match m.createSnapshot idx conf data with
      | .ok m1 => match m1.compact idx with
        | .ok m2 => runMA m2 rest
        | .error _ => none
      | .error _ => none
    else none
  | m, .install hs s :: rest =>
    if m.snap.index < s.index then
      match m.applySnapshot s with
      | .ok m1 => runMA { m1 with hs := if hs.isEmpty then m.hs else hs } rest
      | .error _ => none
    else none
  | m, .reopen :: rest => runMA m rest

theorem run_refines_any_start (ops : List WOp) (w : Wal) (m m' : Mem) (h : WF w) (ha : abs w = m)
    (hes : ∀ hs es, WOp.append hs es ∈ ops → Contig es) (hm : runMA m ops = some m') :
    ∃ w', runW w ops = some w' ∧ WF w' ∧ abs w' = m' := by
  induction ops generalizing w m with
  | nil =>
    simp only [runMA, Option.some.injEq] at hm
    exact ⟨w, rfl, h, ha.trans hm⟩
  | cons op rest ih =>
    have hes' : ∀ hs es, WOp.append hs es ∈ rest → Contig es :=
      fun hs es hmem => hes hs es (List.mem_cons_of_mem _ hmem)
    cases op with
    | append hs es =>
      cases es with
      | nil => simp [runMA] at hm
      | cons e0 t =>
        simp only [runMA] at hm
        split at hm
        · rename_i hleg
          subst ha
          obtain ⟨w1, hs1, hwf1, habs1⟩ := save_entries_any_start w h hs (e0 :: t)
            (hes hs (e0 :: t) List.mem_cons_self) e0 rfl hleg
          obtain ⟨w2, hr, hwf2, habs2⟩ := ih w1 _ hwf1 habs1 hes' hm
          exact ⟨w2, by simp only [runW, hs1]; exact hr, hwf2, habs2⟩
        · cases hm
    | compact idx conf data =>
      simp only [runMA] at hm
      split at hm
      · rename_i hleg
        subst ha
        obtain ⟨w1, m1, m2, hc, hwf1, hm1, hm2, habs1⟩ := createSnapshot_refines w h idx conf data hleg.1 hleg.2
        rw [hm1] at hm
        simp only [hm2] at hm
        obtain ⟨w2, hr, hwf2, habs2⟩ := ih w1 _ hwf1 habs1 hes' hm
        exact ⟨w2, by simp only [runW, hc]; exact hr, hwf2, habs2⟩
      · cases hm
    | install hs s =>
      simp only [runMA] at hm
      split at hm
      · rename_i hleg
        subst ha
        obtain ⟨w1, m1, hs1, hwf1, hm1, habs1⟩ := save_snapshot_refines w h hs s hleg
        rw [hm1] at hm
        simp only at hm
        obtain ⟨w2, hr, hwf2, habs2⟩ := ih w1 _ hwf1 habs1 hes' hm
        exact ⟨w2, by simp only [runW, hs1]; exact hr, hwf2, habs2⟩
      · cases hm
    | reopen =>
      simp only [runMA] at hm
      obtain ⟨hwf1, habs1⟩ := reopen_refines w h
      obtain ⟨w2, hr, hwf2, habs2⟩ := ih _ _ hwf1 (habs1.trans ha) hes' hm
      exact ⟨w2, by simp only [runW]; exact hr, hwf2, habs2⟩

end Anndb.Wal
