import Anndb.Proofs.HnswSelect
/-!
# C01 on the model: `search` returns only live items with true scores, sorted, unique, ≤ k,
and is non-empty on a non-empty index — for every lawful queue, every `dist`, every
configuration, every state satisfying `Inv`.
-/
namespace Anndb
open Index

/-- The part of the index invariant that `search` needs. -/
structure Inv (s : Index) : Prop where
  /-- (I1) no entry point only if nothing is stored -/
  entryNone : s.entry = none → ∀ i, s.live i = none
  /-- (I2) the entry point is allocated and not tombstoned -/
  entryLive : ∀ v, s.entry = some v → s.isDeleted v = false
  /-- (I3) a vertex is not tombstoned iff it is the current incarnation of its id -/
  liveIff : ∀ v x, s.verts v = some x → (x.deleted = false ↔ s.live x.id = some v)

section
variable {Pmin Pmax : PQImpl} {dist : VecRef → VecRef → Score} (cfg : Cfg)
variable (hmin : Lawful Pmin minBetter) (hmax : Lawful Pmax maxBetter)
variable (s : Index) (q : VecRef)

include hmin hmax in
theorem selectHeuristic_ok {ep : Vid} {P : Vid → Prop} (n : Pmax.Q) (k level : Nat)
    (hcl : ∀ u w, P u → w ∈ s.nbrs u level → s.isDeleted w = false → P w)
    (h : ResOK dist s q ep P (Pmax.toList n)) :
    ResOK dist s q ep P (Pmax.toList (selectHeuristic Pmin Pmax dist cfg s q n k level)) := by
  unfold selectHeuristic
  simp only
  have p0 := hmin.ofList_perm (Pmax.toList n)
  have inv0 : CandInv (Pmin := Pmin) dist s q ep P (Pmin.ofList (Pmax.toList n), (Pmax.toList n).map (·.vid)) := by
    refine ⟨?_, ?_, ?_⟩
    · intro it hit
      exact List.mem_map.mpr ⟨it, p0.mem_iff.mp hit, rfl⟩
    · intro it hit; exact h.items it (p0.mem_iff.mp hit)
    · exact ((p0.map (·.vid)).nodup_iff).mpr h.nodup
  -- the candidate queue after the optional extension
  have candOK : ∀ (cs : List Vid) (a : Pmin.Q × List Vid), (∀ c ∈ cs, P c) →
      CandInv (Pmin := Pmin) dist s q ep P a →
      CandInv (Pmin := Pmin) dist s q ep P (cs.foldl (extendStep Pmin dist s q level) a) := by
    intro cs
    induction cs with
    | nil => intro a _ ha; exact ha
    | cons c t ih =>
      intro a hP ha
      simp only [List.foldl_cons]
      exact ih _ (fun m hm => hP m (List.mem_cons_of_mem _ hm))
        (extendStep_inv hmin s q level hcl a c (hP c List.mem_cons_self) ha)
  have drainP : ∀ c ∈ (Pmax.drain n).map (·.vid), P c := by
    intro c hc
    rcases List.mem_map.mp hc with ⟨it, hit, rfl⟩
    exact (h.items it ((PQImpl.drain_perm hmax n).mem_iff.mp hit)).2.2
  have fin : ∀ (cand : Pmin.Q), ResOK dist s q ep P (Pmin.toList cand) →
      ResOK dist s q ep P (Pmax.toList (fillResult Pmin Pmax k (Pmin.len cand) cand Pmax.empty)) := by
    intro cand hc
    have hs := fillResult_sub hmin hmax k (Pmin.len cand) cand Pmax.empty
    rw [hmax.empty_list, List.nil_append] at hs
    exact hc.of_sub s q hs
  by_cases hx : cfg.extend = true
  · simp only [hx, if_true]
    exact fin _ (candOK _ _ drainP inv0).ok
  · simp only [hx, Bool.false_eq_true, if_false]
    exact fin _ inv0.ok

include hmin hmax in
theorem selectHeuristic_len (n : Pmax.Q) (k level : Nat) :
    Pmax.len (selectHeuristic Pmin Pmax dist cfg s q n k level) ≤ k := by
  unfold selectHeuristic
  simp only
  apply fillResult_len hmin hmax
  simp [PQImpl.len, hmax.empty_list]

include hmin hmax in
theorem selectNbrs_ok {ep : Vid} {P : Vid → Prop} (n : Pmax.Q) (k level : Nat)
    (hcl : ∀ u w, P u → w ∈ s.nbrs u level → s.isDeleted w = false → P w)
    (h : ResOK dist s q ep P (Pmax.toList n)) :
    ResOK dist s q ep P (Pmax.toList (selectNbrs Pmin Pmax dist cfg s q n k level)) := by
  unfold selectNbrs
  split
  · exact selectHeuristic_ok cfg hmin hmax s q n k level hcl h
  · exact selectSimple_ok hmax s q n k h

include hmin hmax in
theorem selectNbrs_len (n : Pmax.Q) (k level : Nat) :
    Pmax.len (selectNbrs Pmin Pmax dist cfg s q n k level) ≤ k := by
  unfold selectNbrs
  split
  · exact selectHeuristic_len cfg hmin hmax s q n k level
  · exact selectSimple_len hmax n k

/-! ### non-emptiness -/

include hmax in
theorem visitNbr_nonempty (ef : Nat) (hef : 1 ≤ ef) (lb : Score) (st : SearchSt Pmin Pmax) (n : Vid)
    (h : Pmax.toList st.r ≠ []) :
    Pmax.toList (visitNbr Pmin Pmax dist s q ef lb st n).r ≠ [] := by
  unfold visitNbr
  by_cases hd : s.isDeleted n = true
  · simp [hd]; exact h
  · simp only [hd]
    by_cases hv : n ∈ st.vis
    · simp [hv]; exact h
    · simp only [hv]
      by_cases hc : dist q (s.vecOf n) < lb ∨ Pmax.len st.r < ef
      · simp only [hc, if_true, Bool.false_eq_true, if_false]
        have pp := (hmax.push_perm st.r ⟨dist q (s.vecOf n), n⟩).length_eq
        simp only [List.length_cons] at pp
        split
        · rename_i hgt
          split
          · rename_i x r' hp
            have := ((hmax.pop_some _ _ _ hp).1).length_eq
            simp only [List.length_cons, PQImpl.len] at this hgt
            intro he
            simp [he] at this
            omega
          · intro he; simp [he] at pp
        · intro he; simp [he] at pp
      · simp only [hc, if_false, Bool.false_eq_true]
        exact h

include hmax in
theorem searchLoop_nonempty (ef level : Nat) (hef : 1 ≤ ef) (fuel : Nat) (st : SearchSt Pmin Pmax)
    (h : Pmax.toList st.r ≠ []) :
    Pmax.toList (searchLoop Pmin Pmax dist s q ef level fuel st) ≠ [] := by
  induction fuel generalizing st with
  | zero => exact h
  | succ f ih =>
    unfold searchLoop
    split
    · exact h
    · split
      · exact h
      · split
        · exact h
        · apply ih
          rename_i ci c' _ lb _ _
          have key : ∀ (ns : List Vid) (st : SearchSt Pmin Pmax), Pmax.toList st.r ≠ [] →
              Pmax.toList (ns.foldl (visitNbr Pmin Pmax dist s q ef lb) st).r ≠ [] := by
            intro ns
            induction ns with
            | nil => intro st hst; exact hst
            | cons n t ih2 =>
              intro st hst
              exact ih2 _ (visitNbr_nonempty hmax s q ef hef lb st n hst)
          exact key _ _ h

include hmax in
theorem searchLevel_nonempty (ep : Vid) (ef level : Nat) (hef : 1 ≤ ef) :
    Pmax.toList (searchLevel Pmin Pmax dist s q ep ef level) ≠ [] := by
  unfold searchLevel
  apply searchLoop_nonempty hmax s q ef level hef
  intro he
  have := (hmax.push_perm Pmax.empty ⟨dist q (s.vecOf ep), ep⟩).length_eq
  simp [he] at this

include hmin hmax in
theorem selectNbrs_nonempty (n : Pmax.Q) (k level : Nat) (hk : 1 ≤ k) (hn : Pmax.toList n ≠ []) :
    Pmax.toList (selectNbrs Pmin Pmax dist cfg s q n k level) ≠ [] := by
  unfold selectNbrs
  split
  · unfold selectHeuristic
    simp only
    -- the candidate queue contains at least the items of `n`
    have grow : ∀ (cs : List Vid) (a : Pmin.Q × List Vid), Pmin.toList a.1 ≠ [] →
        Pmin.toList (cs.foldl (extendStep Pmin dist s q level) a).1 ≠ [] := by
      intro cs
      induction cs with
      | nil => intro a ha; exact ha
      | cons c t ih =>
        intro a ha
        simp only [List.foldl_cons]
        apply ih
        unfold extendStep
        have inner : ∀ (ns : List Vid) (a : Pmin.Q × List Vid), Pmin.toList a.1 ≠ [] →
            Pmin.toList (ns.foldl (fun (a : Pmin.Q × List Vid) w =>
              if s.isDeleted w then a
              else if w ∈ a.2 then a
              else (Pmin.push a.1 ⟨dist q (s.vecOf w), w⟩, w :: a.2)) a).1 ≠ [] := by
          intro ns
          induction ns with
          | nil => intro a ha; exact ha
          | cons m t2 ih2 =>
            intro a ha
            simp only [List.foldl_cons]
            apply ih2
            split
            · exact ha
            · split
              · exact ha
              · intro he
                have := (hmin.push_perm a.1 ⟨dist q (s.vecOf m), m⟩).length_eq
                simp [he] at this
        exact inner _ a ha
    have c0 : Pmin.toList (Pmin.ofList (Pmax.toList n)) ≠ [] := by
      intro he
      have := (hmin.ofList_perm (Pmax.toList n)).length_eq
      rw [he] at this
      exact hn (List.eq_nil_of_length_eq_zero this.symm)
    have fin : ∀ cand : Pmin.Q, Pmin.toList cand ≠ [] →
        Pmax.toList (fillResult Pmin Pmax k (Pmin.len cand) cand Pmax.empty) ≠ [] := by
      intro cand hc
      apply fillResult_nonempty hmin hmax k _ cand Pmax.empty hk _ hc
      cases hl : Pmin.toList cand with
      | nil => exact absurd hl hc
      | cons a t => simp [PQImpl.len, hl]
    split
    · exact fin _ (grow _ _ c0)
    · exact fin _ c0
  · exact selectSimple_nonempty hmax n k hk hn

/-! ### the theorem -/

include hmin hmax in
theorem searchCore_sound (hinv : Inv s) (k : Nat) :
    let r := searchCore Pmin Pmax dist cfg s q k
    (∀ h ∈ r, ∃ v x, s.live h.id = some v ∧ s.verts v = some x ∧ x.deleted = false ∧
        h.md = x.md ∧ h.score = dist q x.vec) ∧
    (r.map (·.score)).Pairwise (· ≤ ·) ∧
    (r.map (·.id)).Nodup ∧
    r.length ≤ k ∧
    ((∃ i v, s.live i = some v) → 1 ≤ k → r ≠ []) := by
  intro r
  cases hent : s.entry with
  | none =>
    have hr : r = [] := by simp [r, searchCore, hent]
    rw [hr]
    refine ⟨by simp, by simp, by simp, by simp, ?_⟩
    rintro ⟨i, v, hv⟩ _
    have := hinv.entryNone hent i
    rw [this] at hv; cases hv
  | some ep =>
    -- the vertex reached by the descent is the entry point or not tombstoned: hence not tombstoned
    have hepLive := hinv.entryLive ep hent
    let R : Vid → Prop := fun v => s.isDeleted v = false
    have hR : ∀ l u w, R u → w ∈ s.nbrs u l → s.isDeleted w = false → R w := fun _ _ _ _ _ h => h
    have hcur := descend_closed (dist := dist) s q R hR 0 (s.levelOf ep) ep (dist q (s.vecOf ep)) hepLive
    generalize hdesc : descend dist s q 0 (s.levelOf ep) ep (dist q (s.vecOf ep)) = dd at hcur
    obtain ⟨cur, dcur⟩ := dd
    simp only at hcur
    -- searchLevel + selection
    have hres := searchLevel_sound (dist := dist) hmin hmax s q (max cfg.ef k) 0 cur (fun _ => True) trivial
      (fun _ _ _ _ _ => trivial)
    have hsel := selectNbrs_ok cfg hmin hmax s q _ k 0 (fun _ _ _ _ _ => trivial) hres
    have hlen := selectNbrs_len (dist := dist) cfg hmin hmax s q
      (searchLevel Pmin Pmax dist s q cur (max cfg.ef k) 0) k 0
    generalize hselq : selectNbrs Pmin Pmax dist cfg s q
      (searchLevel Pmin Pmax dist s q cur (max cfg.ef k) 0) k 0 = sel at hsel hlen
    have hperm := PQImpl.drain_perm hmax sel
    have hpw := PQImpl.drain_pairwise hmax sel
    -- every drained item is a non-tombstoned allocated vertex with the right score
    have hitem : ∀ it ∈ Pmax.drain sel, s.isDeleted it.vid = false ∧ it.score = dist q (s.vecOf it.vid) := by
      intro it hit
      have := hsel.items it (hperm.mem_iff.mp hit)
      refine ⟨?_, this.1⟩
      rcases this.2.1 with h | h
      · rw [h]; exact hcur
      · exact h
    have hnd : ((Pmax.drain sel).map (·.vid)).Nodup := ((hperm.map (·.vid)).nodup_iff).mpr hsel.nodup
    -- unfold the result
    have hr : r = ((Pmax.drain sel).take k).reverse.filterMap fun it =>
        (s.verts it.vid).bind fun x => if x.deleted then none else some (⟨x.id, x.md, it.score⟩ : Hit) := by
      simp only [r, searchCore, hent, hdesc, hselq]
    -- a non-tombstoned vertex is allocated
    have alloc : ∀ v, s.isDeleted v = false → ∃ x, s.verts v = some x ∧ x.deleted = false := by
      intro v hv
      unfold Index.isDeleted at hv
      cases hx : s.verts v with
      | none => simp [hx] at hv
      | some x => simp [hx] at hv; exact ⟨x, rfl, hv⟩
    -- describe the list `L` of items actually used
    generalize hL : ((Pmax.drain sel).take k).reverse = L at hr
    have hLmem : ∀ it ∈ L, it ∈ Pmax.drain sel := by
      intro it hit
      rw [← hL] at hit
      exact List.mem_of_mem_take (List.mem_reverse.mp hit)
    have hLnd : (L.map (·.vid)).Nodup := by
      rw [← hL, List.map_reverse]
      refine ((List.reverse_perm _).nodup_iff).mpr ?_
      rw [List.map_take]
      exact (List.take_sublist _ _).nodup hnd
    have hLpw : L.Pairwise (fun a b => a.score ≤ b.score) := by
      rw [← hL, List.pairwise_reverse]
      exact (List.Pairwise.sublist (List.take_sublist _ _) hpw)
    have hLlen : L.length ≤ k := by
      rw [← hL, List.length_reverse, List.length_take]; omega
    -- the filterMap never drops anything and maps item `it` to its hit
    have hmap : ∀ (L : List Item), (∀ it ∈ L, it ∈ Pmax.drain sel) →
        L.filterMap (fun it => (s.verts it.vid).bind fun x => if x.deleted then none else some (⟨x.id, x.md, it.score⟩ : Hit)) =
        L.map (fun it => (⟨s.idOf it.vid, s.mdOf it.vid, it.score⟩ : Hit)) := by
      intro L
      induction L with
      | nil => intro _; rfl
      | cons a t ih =>
        intro hm
        obtain ⟨x, hx, hxd⟩ := alloc a.vid (hitem a (hm a List.mem_cons_self)).1
        have h1 : s.idOf a.vid = x.id := by simp [Index.idOf, hx]
        have h2 : s.mdOf a.vid = x.md := by simp [Index.mdOf, hx]
        simp only [List.filterMap_cons, hx, Option.bind_some, hxd, Bool.false_eq_true, if_false, List.map_cons, h1, h2]
        rw [ih (fun it hit => hm it (List.mem_cons_of_mem _ hit))]
    rw [hmap L hLmem] at hr
    refine ⟨?_, ?_, ?_, ?_, ?_⟩
    · intro h hh
      rw [hr] at hh
      rcases List.mem_map.mp hh with ⟨it, hit, rfl⟩
      have hi := hitem it (hLmem it hit)
      obtain ⟨x, hx, hxd⟩ := alloc it.vid hi.1
      refine ⟨it.vid, x, ?_, hx, hxd, ?_, ?_⟩
      · simp only [Index.idOf, hx]
        exact (hinv.liveIff it.vid x hx).mp hxd
      · simp [Index.mdOf, hx]
      · simp only [hi.2, Index.vecOf, hx]
    · rw [hr, List.map_map]
      exact List.pairwise_map.mpr hLpw
    · rw [hr, List.map_map]
      -- distinct non-tombstoned vertices have distinct ids
      have inj : ∀ a ∈ L, ∀ b ∈ L, s.idOf a.vid = s.idOf b.vid → a.vid = b.vid := by
        intro a ha b hb hab
        obtain ⟨xa, hxa, hda⟩ := alloc a.vid (hitem a (hLmem a ha)).1
        obtain ⟨xb, hxb, hdb⟩ := alloc b.vid (hitem b (hLmem b hb)).1
        have la := (hinv.liveIff a.vid xa hxa).mp hda
        have lb := (hinv.liveIff b.vid xb hxb).mp hdb
        simp only [Index.idOf, hxa, hxb] at hab
        rw [hab] at la
        rw [la] at lb
        exact Option.some.inj lb
      clear hr hLpw hLlen hL hmap
      induction L with
      | nil => simp
      | cons a t ih =>
        simp only [List.map_cons, List.nodup_cons] at hLnd ⊢
        refine ⟨?_, ih (fun it hit => hLmem it (List.mem_cons_of_mem _ hit)) hLnd.2
          (fun a ha b hb => inj a (List.mem_cons_of_mem _ ha) b (List.mem_cons_of_mem _ hb))⟩
        intro hmem
        rcases List.mem_map.mp hmem with ⟨b, hb, hbe⟩
        have := inj a List.mem_cons_self b (List.mem_cons_of_mem _ hb) (by simpa using hbe.symm)
        exact hLnd.1 (List.mem_map.mpr ⟨b, hb, this.symm⟩)
    · rw [hr, List.length_map]; exact hLlen
    · intro _ hk
      have hne := searchLevel_nonempty (Pmin := Pmin) (dist := dist) hmax s q cur (max cfg.ef k) 0 (by omega)
      have hsne := selectNbrs_nonempty (dist := dist) cfg hmin hmax s q _ k 0 hk hne
      rw [hselq] at hsne
      have hdne : Pmax.drain sel ≠ [] := by
        intro he
        rw [he] at hperm
        exact hsne hperm.symm.eq_nil
      rw [hr]
      intro he
      have hLnil : L = [] := List.map_eq_nil_iff.mp he
      rw [hLnil] at hL
      have : (Pmax.drain sel).take k = [] := List.reverse_eq_nil_iff.mp hL
      cases hd : Pmax.drain sel with
      | nil => exact hdne hd
      | cons a t =>
        rw [hd] at this
        obtain ⟨k', rfl⟩ : ∃ k', k = k' + 1 := ⟨k - 1, by omega⟩
        simp at this

include hmin hmax in
/-- C01 for `search` (with `k` clamped to the number of stored items, as the code does) -/
theorem search_sound (hinv : Inv s) (k : Nat) :
    let r := search Pmin Pmax dist cfg s q k
    (∀ h ∈ r, ∃ v x, s.live h.id = some v ∧ s.verts v = some x ∧ x.deleted = false ∧
        h.md = x.md ∧ h.score = dist q x.vec) ∧
    (r.map (·.score)).Pairwise (· ≤ ·) ∧
    (r.map (·.id)).Nodup ∧
    r.length ≤ k ∧
    ((∃ i v, s.live i = some v) → 1 ≤ k → r ≠ []) := by
  intro r
  obtain ⟨h1, h2, h3, h4, h5⟩ := searchCore_sound (dist := dist) cfg hmin hmax s q hinv (clampK s k)
  have hle : clampK s k ≤ k := by unfold clampK; split <;> omega
  have hpos : 1 ≤ k → 1 ≤ clampK s k := by intro hk; unfold clampK; split <;> omega
  exact ⟨h1, h2, h3, Nat.le_trans h4 hle, fun hl hk => h5 hl (hpos hk)⟩

end
end Anndb
