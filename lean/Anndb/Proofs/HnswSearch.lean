import Anndb.Model.Hnsw
/-!
# Soundness of `searchLevel` over any lawful priority queue

`P` is an arbitrary predicate on vertices that holds for the start vertex and is closed
under following a link of the searched level to a non-tombstoned vertex. Instances used
later: “allocated and of level ≥ l” (totality / I4), `True` (plain soundness).
-/
namespace Anndb
open Index

section
variable {Pmin Pmax : PQImpl} {dist : VecRef → VecRef → Score}
variable (hmin : Lawful Pmin minBetter) (hmax : Lawful Pmax maxBetter)
variable (s : Index) (q : VecRef) (ef level : Nat) (ep : Vid) (P : Vid → Prop)

/-- what is known about every queued item -/
def ItemOK (dist : VecRef → VecRef → Score) (s : Index) (q : VecRef) (ep : Vid) (P : Vid → Prop)
    (vis : List Vid) (it : Item) : Prop :=
  it.vid ∈ vis ∧ it.score = dist q (s.vecOf it.vid) ∧ (it.vid = ep ∨ s.isDeleted it.vid = false) ∧ P it.vid

theorem ItemOK.mono {vis : List Vid} {n : Vid} {it : Item}
    (h : ItemOK dist s q ep P vis it) : ItemOK dist s q ep P (n :: vis) it :=
  ⟨List.mem_cons_of_mem _ h.1, h.2.1, h.2.2.1, h.2.2.2⟩

structure Good (dist : VecRef → VecRef → Score) (s : Index) (q : VecRef) (ep : Vid) (P : Vid → Prop)
    (st : SearchSt Pmin Pmax) : Prop where
  cOK : ∀ it ∈ Pmin.toList st.c, ItemOK dist s q ep P st.vis it
  rOK : ∀ it ∈ Pmax.toList st.r, ItemOK dist s q ep P st.vis it
  rNodup : ((Pmax.toList st.r).map (·.vid)).Nodup

include hmin hmax in
theorem good_visit (lb : Score) (st : SearchSt Pmin Pmax) (n : Vid)
    (hP : s.isDeleted n = false → P n)
    (h : Good dist s q ep P st) : Good dist s q ep P (visitNbr Pmin Pmax dist s q ef lb st n) := by
  unfold visitNbr
  by_cases hd : s.isDeleted n = true
  · simp [hd]; exact h
  · simp only [hd]
    by_cases hv : n ∈ st.vis
    · simp [hv]; exact h
    · simp only [hv]
      have hd' : s.isDeleted n = false := by cases hx : s.isDeleted n <;> simp_all
      have newOK : ItemOK dist s q ep P (n :: st.vis) ⟨dist q (s.vecOf n), n⟩ :=
        ⟨List.mem_cons_self, rfl, Or.inr hd', hP hd'⟩
      by_cases hc : dist q (s.vecOf n) < lb ∨ Pmax.len st.r < ef
      · simp only [hc, if_true, Bool.false_eq_true, if_false]
        have permR := hmax.push_perm st.r ⟨dist q (s.vecOf n), n⟩
        have permC := hmin.push_perm st.c ⟨dist q (s.vecOf n), n⟩
        have rOKpush : ∀ it ∈ Pmax.toList (Pmax.push st.r ⟨dist q (s.vecOf n), n⟩),
            ItemOK dist s q ep P (n :: st.vis) it := by
          intro it hit
          have := permR.mem_iff.mp hit
          rcases List.mem_cons.mp this with rfl | hm
          · exact newOK
          · exact (h.rOK it hm).mono
        have nodupPush : ((Pmax.toList (Pmax.push st.r ⟨dist q (s.vecOf n), n⟩)).map (·.vid)).Nodup := by
          have p2 := permR.map (·.vid)
          refine (p2.nodup_iff).mpr ?_
          simp only [List.map_cons, List.nodup_cons]
          refine ⟨?_, h.rNodup⟩
          intro hmem
          rcases List.mem_map.mp hmem with ⟨it, hit, hvid⟩
          exact hv (hvid ▸ (h.rOK it hit).1)
        refine ⟨?_, ?_, ?_⟩
        · intro it hit
          have := permC.mem_iff.mp hit
          rcases List.mem_cons.mp this with rfl | hm
          · exact newOK
          · exact (h.cOK it hm).mono
        · intro it hit
          split at hit
          · split at hit
            · rename_i x r' hp
              have := (hmax.pop_some _ _ _ hp).1
              exact rOKpush it (this.mem_iff.mpr (List.mem_cons_of_mem _ hit))
            · exact rOKpush it hit
          · exact rOKpush it hit
        · split
          · split
            · rename_i x r' hp
              have p := ((hmax.pop_some _ _ _ hp).1).map (·.vid)
              have := (p.nodup_iff).mp nodupPush
              simp only [List.map_cons, List.nodup_cons] at this
              exact this.2
            · exact nodupPush
          · exact nodupPush
      · simp only [hc, if_false, Bool.false_eq_true]
        exact ⟨fun it hit => (h.cOK it hit).mono, fun it hit => (h.rOK it hit).mono, h.rNodup⟩

include hmin hmax in
theorem good_fold (lb : Score) (ns : List Vid) (st : SearchSt Pmin Pmax)
    (hP : ∀ n ∈ ns, s.isDeleted n = false → P n)
    (h : Good dist s q ep P st) :
    Good dist s q ep P (ns.foldl (visitNbr Pmin Pmax dist s q ef lb) st) := by
  induction ns generalizing st with
  | nil => exact h
  | cons n t ih =>
    exact ih _ (fun m hm => hP m (List.mem_cons_of_mem _ hm))
      (good_visit hmin hmax s q ef ep P lb st n (hP n List.mem_cons_self) h)

/-- what `searchLevel` guarantees about its result queue -/
structure ResOK (dist : VecRef → VecRef → Score) (s : Index) (q : VecRef) (ep : Vid) (P : Vid → Prop)
    (l : List Item) : Prop where
  items : ∀ it ∈ l, it.score = dist q (s.vecOf it.vid) ∧ (it.vid = ep ∨ s.isDeleted it.vid = false) ∧ P it.vid
  nodup : (l.map (·.vid)).Nodup

theorem resOK_of_good (st : SearchSt Pmin Pmax) (h : Good dist s q ep P st) :
    ResOK dist s q ep P (Pmax.toList st.r) :=
  ⟨fun it hit => ⟨(h.rOK it hit).2.1, (h.rOK it hit).2.2.1, (h.rOK it hit).2.2.2⟩, h.rNodup⟩

include hmin hmax in
theorem searchLoop_sound
    (hcl : ∀ u w, P u → w ∈ s.nbrs u level → s.isDeleted w = false → P w)
    (fuel : Nat) (st : SearchSt Pmin Pmax) (h : Good dist s q ep P st) :
    ResOK dist s q ep P (Pmax.toList (searchLoop Pmin Pmax dist s q ef level fuel st)) := by
  induction fuel generalizing st with
  | zero => exact resOK_of_good s q ep P st h
  | succ f ih =>
    unfold searchLoop
    split
    · exact resOK_of_good s q ep P st h
    · rename_i ci c' hp
      split
      · exact resOK_of_good s q ep P st h
      · split
        · exact resOK_of_good s q ep P st h
        · apply ih
          have hperm := (hmin.pop_some _ _ _ hp).1
          have hci : ItemOK dist s q ep P st.vis ci := h.cOK ci (hperm.mem_iff.mpr List.mem_cons_self)
          apply good_fold hmin hmax
          · intro n hn hdn; exact hcl ci.vid n hci.2.2.2 hn hdn
          · refine ⟨?_, h.rOK, h.rNodup⟩
            intro it hit
            exact h.cOK it (hperm.mem_iff.mpr (List.mem_cons_of_mem _ hit))

include hmin hmax in
theorem searchLevel_sound (hep : P ep)
    (hcl : ∀ u w, P u → w ∈ s.nbrs u level → s.isDeleted w = false → P w) :
    ResOK dist s q ep P (Pmax.toList (searchLevel Pmin Pmax dist s q ep ef level)) := by
  unfold searchLevel
  apply searchLoop_sound hmin hmax s q ef level ep P hcl
  have pc := hmin.push_perm Pmin.empty ⟨dist q (s.vecOf ep), ep⟩
  have pr := hmax.push_perm Pmax.empty ⟨dist q (s.vecOf ep), ep⟩
  rw [hmin.empty_list] at pc
  rw [hmax.empty_list] at pr
  have ok : ItemOK dist s q ep P [ep] ⟨dist q (s.vecOf ep), ep⟩ :=
    ⟨List.mem_singleton.mpr rfl, rfl, Or.inl rfl, hep⟩
  refine ⟨?_, ?_, ?_⟩
  · intro it hit
    have := pc.mem_iff.mp hit
    simp at this; subst this; exact ok
  · intro it hit
    have := pr.mem_iff.mp hit
    simp at this; subst this; exact ok
  · have := (pr.map (·.vid)).nodup_iff
    simp at this ⊢
    exact this

end
end Anndb
