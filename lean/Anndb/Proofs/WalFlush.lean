import Anndb.Proofs.WalRefine
/-!
# What a flushed batch does to a consecutive run of entry keys (C06, write side)
-/
namespace Anndb.Wal

theorem Contig.cons_iff {a : Entry} {t : List Entry} :
    Contig (a :: t) ↔ (∀ b, t.head? = some b → b.index = a.index + 1) ∧ Contig t := by
  cases t with
  | nil => simp [Contig]
  | cons b t => simp [Contig]

/-- in a consecutive run every index is at least the head's -/
theorem Contig.head_le {l : List Entry} (h : Contig l) (a : Entry) (hd : l.head? = some a) :
    ∀ x ∈ l, a.index ≤ x.index := by
  induction l generalizing a with
  | nil => simp at hd
  | cons y t ih =>
    simp at hd; subst hd
    intro x hx
    rcases List.mem_cons.mp hx with rfl | hx
    · omega
    · cases t with
      | nil => cases hx
      | cons b t =>
        have := ih h.2 b rfl x hx
        have := h.1
        omega

theorem insertSorted_cons (e x : Entry) (xs : List Entry) :
    insertSorted e (x :: xs) =
      if e.index < x.index then e :: x :: xs
      else if e.index == x.index then e :: xs
      else x :: insertSorted e xs := by
  rw [insertSorted]

/-- inserting the key right after the run appends it -/
theorem insertSorted_after {l : List Entry} (h : Contig l) (a : Entry) (hd : l.head? = some a) (e : Entry)
    (he : e.index = a.index + l.length) : insertSorted e l = l ++ [e] := by
  induction l generalizing a with
  | nil => simp at hd
  | cons y t ih =>
    simp at hd; subst hd
    have h1 : ¬ (e.index < y.index) := by simp only [List.length_cons] at he; omega
    cases t with
    | nil =>
      simp only [List.length_cons, List.length_nil] at he
      have h2 : ¬ (e.index = y.index) := by omega
      simp [insertSorted, h1, h2]
    | cons b t =>
      have hb := h.1
      have h2 : ¬ (e.index = y.index) := by simp only [List.length_cons] at he; omega
      have := ih h.2 b rfl (by simp only [List.length_cons] at he ⊢; omega)
      rw [insertSorted_cons]
      simp only [h1, if_false, beq_iff_eq, h2]
      rw [this]; rfl

/-- inserting a key whose index is in the run replaces that element -/
theorem insertSorted_inside {l : List Entry} (h : Contig l) (a : Entry) (hd : l.head? = some a) (e : Entry)
    (hlo : a.index ≤ e.index) (hhi : e.index < a.index + l.length) :
    insertSorted e l = l.take (e.index - a.index) ++ e :: l.drop (e.index - a.index + 1) := by
  induction l generalizing a with
  | nil => simp at hd
  | cons y t ih =>
    simp at hd; subst hd
    by_cases hy : e.index = y.index
    · have h1 : ¬ (e.index < y.index) := by omega
      simp [insertSorted, h1, hy]
    · have h1 : ¬ (e.index < y.index) := by omega
      cases t with
      | nil => simp only [List.length_cons, List.length_nil] at hhi; omega
      | cons b t =>
        have hb := h.1
        have := ih h.2 b rfl (by omega) (by simp only [List.length_cons] at hhi ⊢; omega)
        rw [insertSorted_cons]
        simp only [h1, if_false, beq_iff_eq, hy]
        rw [this]
        have hk : e.index - y.index = (e.index - b.index) + 1 := by omega
        rw [hk]
        simp

def setAll (l : List Entry) (es : List Entry) : List Entry := es.foldl (fun acc e => insertSorted e acc) l

theorem Contig.take {l : List Entry} (h : Contig l) (n : Nat) : Contig (l.take n) := by
  induction l generalizing n with
  | nil => simp [Contig]
  | cons a t ih =>
    cases n with
    | zero => simp [Contig]
    | succ n =>
      simp only [List.take_succ_cons]
      rw [Contig.cons_iff]
      refine ⟨?_, ih h.tail n⟩
      intro b hb
      cases t with
      | nil => simp at hb
      | cons c t =>
        cases n with
        | zero => simp at hb
        | succ n => simp at hb; subst hb; exact h.1

theorem Contig.append {l₁ l₂ : List Entry} (h1 : Contig l₁) (h2 : Contig l₂)
    (hj : ∀ a b, l₁.getLast? = some a → l₂.head? = some b → b.index = a.index + 1) : Contig (l₁ ++ l₂) := by
  induction l₁ with
  | nil => simpa using h2
  | cons x t ih =>
    cases t with
    | nil =>
      simp only [List.cons_append, List.nil_append]
      rw [Contig.cons_iff]
      exact ⟨fun b hb => hj x b (by simp) hb, h2⟩
    | cons y t =>
      simp only [List.cons_append]
      refine ⟨h1.1, ?_⟩
      apply ih h1.2
      intro a b ha hb
      exact hj a b (by simpa [List.getLast?_cons_cons] using ha) hb

/-- writing a consecutive batch that starts inside the run or right after it: everything before
the batch is kept, the batch follows, and what the run held beyond the batch's length stays -/
theorem setAll_contig (l es : List Entry) (hl : Contig l) (a : Entry) (hd : l.head? = some a)
    (hes : Contig es) (e0 : Entry) (he0 : es.head? = some e0)
    (hlo : a.index ≤ e0.index) (hhi : e0.index ≤ a.index + l.length) :
    setAll l es = l.take (e0.index - a.index) ++ es ++ l.drop (e0.index - a.index + es.length) := by
  induction es generalizing l a e0 with
  | nil => simp at he0
  | cons e rest ih =>
    simp at he0; subst he0
    simp only [setAll, List.foldl_cons]
    -- the state after the first insert
    have hfirst : insertSorted e l = l.take (e.index - a.index) ++ e :: l.drop (e.index - a.index + 1) := by
      by_cases hin : e.index < a.index + l.length
      · exact insertSorted_inside hl a hd e hlo hin
      · have : e.index = a.index + l.length := by omega
        rw [insertSorted_after hl a hd e this]
        have hk : e.index - a.index = l.length := by omega
        rw [hk]; simp
    cases rest with
    | nil =>
      simp only [List.foldl_nil, List.length_cons, List.length_nil]
      rw [hfirst]; simp
    | cons e1 rest' =>
      have he1 := hes.1
      have hlpos : 0 < l.length := by
        cases l with
        | nil => simp at hd
        | cons _ _ => simp
      have hk : e.index - a.index ≤ l.length := by omega
      have hlen_take : (l.take (e.index - a.index)).length = e.index - a.index := by
        rw [List.length_take]; omega
      -- the run after the first insert: same head index, consecutive
      have hhead : ∃ a1, (insertSorted e l).head? = some a1 ∧ a1.index = a.index := by
        rw [hfirst]
        by_cases hz : e.index - a.index = 0
        · rw [hz]; exact ⟨e, by simp, by omega⟩
        · refine ⟨a, ?_, rfl⟩
          cases l with
          | nil => simp at hd
          | cons x t =>
            simp at hd; subst hd
            obtain ⟨n, hn⟩ : ∃ n, e.index - x.index = n + 1 := ⟨e.index - x.index - 1, by omega⟩
            rw [hn]; simp
      have hcont : Contig (insertSorted e l) := by
        rw [hfirst]
        apply Contig.append (hl.take _)
        · rw [Contig.cons_iff]
          refine ⟨?_, ?_⟩
          · intro b hb
            have hlt : e.index - a.index + 1 < l.length := by
              by_cases hge : e.index - a.index + 1 < l.length
              · exact hge
              · have : l.drop (e.index - a.index + 1) = [] := List.drop_eq_nil_of_le (by omega)
                rw [this] at hb; simp at hb
            have hbd : b = l.getD (e.index - a.index + 1) default := by
              rw [List.head?_drop] at hb
              rw [List.getD_eq_getElem?_getD, hb]; rfl
            rw [hbd, hl.index_getD a hd _ hlt]; omega
          · -- a suffix of a consecutive run is consecutive
            have : ∀ (m : List Entry) (n : Nat), Contig m → Contig (m.drop n) := by
              intro m
              induction m with
              | nil => intro n _; simp [Contig]
              | cons x t ih2 =>
                intro n hm
                cases n with
                | zero => simpa using hm
                | succ n => simpa using ih2 n hm.tail
            exact this l _ hl
        · intro x y hx hy
          simp at hy; subst hy
          have hpos : 0 < e.index - a.index := by
            by_cases hz : 0 < e.index - a.index
            · exact hz
            · have : e.index - a.index = 0 := by omega
              rw [this] at hx; simp at hx
          have hxl : x = l.getD (e.index - a.index - 1) default := by
            rw [List.getLast?_eq_getElem?] at hx
            rw [hlen_take] at hx
            rw [List.getElem?_take] at hx
            have : e.index - a.index - 1 < e.index - a.index := by omega
            simp only [this, if_true] at hx
            rw [List.getD_eq_getElem?_getD, hx]; rfl
          rw [hxl, hl.index_getD a hd _ (by omega)]; omega
      obtain ⟨a1, ha1, ha1i⟩ := hhead
      have hlen1 : (insertSorted e l).length = max l.length (e.index - a.index + 1) := by
        rw [hfirst]
        simp only [List.length_append, List.length_cons, List.length_drop, hlen_take]
        omega
      have := ih (insertSorted e l) hcont a1 ha1 hes.tail e1 rfl (by omega) (by rw [hlen1, ha1i]; omega)
      simp only [setAll] at this
      rw [this, ha1i, hfirst]
      have hk1 : e1.index - a.index = (e.index - a.index) + 1 := by omega
      rw [hk1]
      -- take (k+1) of (take k l ++ e :: …) = take k l ++ [e];   drop (k+1+n) of it = drop (k+1+n) l
      have ht : (l.take (e.index - a.index) ++ e :: l.drop (e.index - a.index + 1)).take (e.index - a.index + 1) =
          l.take (e.index - a.index) ++ [e] := by
        rw [List.take_append, hlen_take]
        have : e.index - a.index + 1 - (e.index - a.index) = 1 := by omega
        rw [this, List.take_of_length_le (by rw [hlen_take]; omega)]
        simp
      have hdr : ∀ n, (l.take (e.index - a.index) ++ e :: l.drop (e.index - a.index + 1)).drop (e.index - a.index + 1 + n) =
          l.drop (e.index - a.index + 1 + n) := by
        intro n
        rw [List.drop_append, hlen_take]
        have h1 : (l.take (e.index - a.index)).drop (e.index - a.index + 1 + n) = [] :=
          List.drop_eq_nil_of_le (by rw [hlen_take]; omega)
        have h2 : e.index - a.index + 1 + n - (e.index - a.index) = n + 1 := by omega
        rw [h1, h2]
        simp only [List.nil_append, List.drop_succ_cons, List.drop_drop]
        try (first | rfl | (congr 1; omega))
      rw [ht]
      have hdr' := hdr (e1 :: rest').length
      simp only [List.length_cons] at hdr' ⊢
      rw [hdr']
      simp only [List.append_assoc, List.cons_append, List.nil_append]
      have : e.index - a.index + 1 + (rest'.length + 1) = e.index - a.index + (rest'.length + 1 + 1) := by omega
      rw [this]

end Anndb.Wal

namespace Anndb.Wal

/-! ## flushing a batch -/

def entsStep (l : List Entry) : BOp → List Entry
  | .setEntry e => insertSorted e l
  | .delEntry i => l.filter (·.index != i)
  | _ => l

theorem flush_ents (d : Disk) (ops : List BOp) : (d.flush ops).ents = ops.foldl entsStep d.ents := by
  induction ops generalizing d with
  | nil => rfl
  | cons op rest ih =>
    simp only [Disk.flush, List.foldl_cons] at ih ⊢
    rw [ih]
    cases op <;> rfl

theorem flush_append (d : Disk) (a b : List BOp) : d.flush (a ++ b) = (d.flush a).flush b := by
  simp [Disk.flush, List.foldl_append]

theorem flush_sets_ents (l : List Entry) (es : List Entry) :
    (es.map BOp.setEntry).foldl entsStep l = setAll l es := by
  induction es generalizing l with
  | nil => rfl
  | cons e rest ih => simp only [List.map_cons, List.foldl_cons, setAll, entsStep] at ih ⊢; exact ih _

theorem flush_dels_ents (l : List Entry) (D : List Nat) :
    (D.map BOp.delEntry).foldl entsStep l = l.filter (fun x => !D.contains x.index) := by
  induction D generalizing l with
  | nil =>
    simp only [List.map_nil, List.foldl_nil, List.contains_nil, Bool.not_false]
    exact (List.filter_eq_self.mpr (fun _ _ => rfl)).symm
  | cons i rest ih =>
    simp only [List.map_cons, List.foldl_cons, entsStep]
    rw [ih, List.filter_filter]
    congr 1
    funext x
    simp only [List.contains_cons]
    cases h1 : (x.index == i) <;> cases h2 : rest.contains x.index <;> simp [h1, h2, bne]

theorem flush_sets_hs (d : Disk) (es : List Entry) : (d.flush (es.map BOp.setEntry)).hs = d.hs := by
  induction es generalizing d with
  | nil => rfl
  | cons e rest ih => simp only [List.map_cons, Disk.flush, List.foldl_cons] at ih ⊢; rw [ih]; rfl

theorem flush_sets_ss (d : Disk) (es : List Entry) : (d.flush (es.map BOp.setEntry)).ss = d.ss := by
  induction es generalizing d with
  | nil => rfl
  | cons e rest ih => simp only [List.map_cons, Disk.flush, List.foldl_cons] at ih ⊢; rw [ih]; rfl

theorem flush_dels_hs (d : Disk) (D : List Nat) : (d.flush (D.map BOp.delEntry)).hs = d.hs := by
  induction D generalizing d with
  | nil => rfl
  | cons e rest ih => simp only [List.map_cons, Disk.flush, List.foldl_cons] at ih ⊢; rw [ih]; rfl

theorem flush_dels_ss (d : Disk) (D : List Nat) : (d.flush (D.map BOp.delEntry)).ss = d.ss := by
  induction D generalizing d with
  | nil => rfl
  | cons e rest ih => simp only [List.map_cons, Disk.flush, List.foldl_cons] at ih ⊢; rw [ih]; rfl

/-- all indices of a consecutive run lie in `[head, head + length)` and position determines index -/
theorem Contig.mem_index {l : List Entry} (h : Contig l) (a : Entry) (hd : l.head? = some a) :
    ∀ x ∈ l, a.index ≤ x.index ∧ x.index < a.index + l.length := by
  induction l generalizing a with
  | nil => simp at hd
  | cons y t ih =>
    simp at hd; subst hd
    intro x hx
    rcases List.mem_cons.mp hx with rfl | hx
    · simp only [List.length_cons]; omega
    · cases t with
      | nil => cases hx
      | cons b t =>
        have := ih h.2 b rfl x hx
        have hb := h.1
        simp only [List.length_cons] at this ⊢
        omega

theorem Contig.mem_drop_index {l : List Entry} (h : Contig l) (a : Entry) (hd : l.head? = some a) (n : Nat) :
    ∀ x ∈ l.drop n, a.index + n ≤ x.index := by
  induction l generalizing a n with
  | nil => intro x hx; simp at hx
  | cons y t ih =>
    simp at hd; subst hd
    intro x hx
    cases n with
    | zero =>
      have := h.mem_index y rfl x (by simpa using hx)
      omega
    | succ n =>
      simp only [List.drop_succ_cons] at hx
      cases t with
      | nil => simp at hx
      | cons b t =>
        have := ih h.2 b rfl n x hx
        have hb := h.1
        omega

theorem Contig.mem_take_index {l : List Entry} (h : Contig l) (a : Entry) (hd : l.head? = some a) (n : Nat) :
    ∀ x ∈ l.take n, x.index < a.index + n := by
  induction l generalizing a n with
  | nil => intro x hx; simp at hx
  | cons y t ih =>
    simp at hd; subst hd
    intro x hx
    cases n with
    | zero => simp at hx
    | succ n =>
      simp only [List.take_succ_cons] at hx
      rcases List.mem_cons.mp hx with rfl | hx
      · omega
      · cases t with
        | nil => simp at hx
        | cons b t =>
          have := ih h.2 b rfl n x hx
          have hb := h.1
          omega

end Anndb.Wal

namespace Anndb.Wal

theorem filter_keep_drop {α : Type} (P Q : List α) (keep : α → Bool)
    (hP : ∀ x ∈ P, keep x = true) (hQ : ∀ x ∈ Q, keep x = false) : (P ++ Q).filter keep = P := by
  rw [List.filter_append, List.filter_eq_self.mpr hP, List.filter_eq_nil_iff.mpr (by
    intro x hx; simp [hQ x hx]), List.append_nil]

theorem absEnts_take_append (l es : List Entry) (k : Nat) (hk : 1 ≤ k) (hl : l ≠ []) :
    absEnts (l.take k ++ es) = (absEnts l).take k ++ es := by
  cases l with
  | nil => exact absurd rfl hl
  | cons x t =>
    obtain ⟨j, rfl⟩ : ∃ j, k = j + 1 := ⟨k - 1, by omega⟩
    simp [absEnts]

/-- **`Save` of a batch of entries (no snapshot in the batch) refines `MemoryStorage.Append` +
`SetHardState`**, for a batch that starts at or after the first index and leaves no gap -/
theorem save_entries_refines (w : Wal) (h : WF w) (hs : HardState) (es : List Entry)
    (hes : Contig es) (e0 : Entry) (he0 : es.head? = some e0)
    (hfirst : (abs w).firstIndex ≤ e0.index) (hnogap : e0.index ≤ (abs w).lastIndex + 1) :
    ∃ w', w.save hs es emptySnap = .ok w' ∧ WF w' ∧
      abs w' = { (abs w).append es with hs := if hs.isEmpty then (abs w).hs else hs } := by
  obtain ⟨w1, hf, hdisk, hwf1⟩ := firstIndex_refines w h
  obtain ⟨a, ha, hoff⟩ := abs_offset w h
  have hlast := lastIndex_refines w1 hwf1
  have habs1 : abs w1 = abs w := by simp [abs, Wal.hardState, hdisk]
  rw [habs1] at hlast
  have hlen : (abs w).ents.length = w.disk.ents.length := absEnts_length _
  have hlpos : 0 < w.disk.ents.length := List.length_pos_iff.mpr h.ne
  -- numbers
  have hfi : (abs w).firstIndex = a.index + 1 := by simp [Mem.firstIndex, hoff]
  have hli : (abs w).lastIndex = a.index + w.disk.ents.length - 1 := by simp [Mem.lastIndex, hoff, hlen]
  rw [hfi] at hfirst
  rw [hli] at hnogap
  obtain ⟨el, hel⟩ : ∃ el, es.getLast? = some el := by
    cases hx : es.getLast? with
    | none => rw [List.getLast?_eq_none_iff.mp hx] at he0; simp at he0
    | some el => exact ⟨el, rfl⟩
  have helidx := hes.getLast_index e0 el he0 hel
  have hespos : 0 < es.length := by cases es with
    | nil => simp at he0
    | cons _ _ => simp
  -- the entry list after the flush
  have hset := setAll_contig w.disk.ents es h.contig a ha hes e0 he0 (by omega) (by omega)
  have hk1 : 1 ≤ e0.index - a.index := by omega
  have hfinal : ∀ ops2 : List BOp,
      (ops2 = es.map BOp.setEntry ∧ ¬ (a.index + w.disk.ents.length - 1 > el.index)) ∨
      (ops2 = es.map BOp.setEntry ++ w1.delFrom (el.index + 1) ∧ a.index + w.disk.ents.length - 1 > el.index) →
      (w.disk.flush ops2).ents = w.disk.ents.take (e0.index - a.index) ++ es ∧
      (w.disk.flush ops2).hs = w.disk.hs ∧ (w.disk.flush ops2).ss = w.disk.ss := by
    intro ops2 hcase
    rcases hcase with ⟨rfl, hle⟩ | ⟨rfl, hgt⟩
    · refine ⟨?_, flush_sets_hs _ _, flush_sets_ss _ _⟩
      rw [flush_ents, flush_sets_ents, hset]
      have : w.disk.ents.drop (e0.index - a.index + es.length) = [] := List.drop_eq_nil_of_le (by omega)
      rw [this, List.append_nil]
    · have hdel : w1.delFrom (el.index + 1) =
          ((w.disk.ents.filter (·.index ≥ el.index + 1)).map (·.index)).map BOp.delEntry := by
        simp [Wal.delFrom, hdisk, List.map_map, Function.comp]
      rw [hdel, flush_append]
      refine ⟨?_, ?_, ?_⟩
      · rw [flush_ents, flush_dels_ents, flush_ents, flush_sets_ents, hset]
        apply filter_keep_drop
        · intro x hx
          have hxle : x.index ≤ el.index := by
            rcases List.mem_append.mp hx with hx | hx
            · have := h.contig.mem_take_index a ha _ x hx
              omega
            · have := hes.mem_index e0 he0 x hx
              omega
          simp only [Bool.not_eq_true', List.contains_eq_mem, decide_eq_false_iff_not, List.mem_map,
            List.mem_filter, not_exists, not_and]
          intro y hy hyx
          have := hy.2
          simp at this
          omega
        · intro x hx
          have hxge := h.contig.mem_drop_index a ha _ x hx
          have hxl : x ∈ w.disk.ents := List.mem_of_mem_drop hx
          simp only [Bool.not_eq_false', List.contains_eq_mem, decide_eq_true_eq, List.mem_map, List.mem_filter]
          exact ⟨x, ⟨hxl, by simp; omega⟩, rfl⟩
      · rw [flush_dels_hs, flush_sets_hs]
      · rw [flush_dels_ss, flush_sets_ss]
  -- run the code
  cases es with
  | nil => simp at he0
  | cons e0' rest =>
  have he0' : e0' = e0 := by simpa using he0
  subst he0'
  have hlastE : ((e0' :: rest).getLast?.getD default).index = el.index := by rw [hel]; rfl
  have hnotlt : ¬ (e0'.index + (e0' :: rest).length - 1 < (abs w).firstIndex) := by
    rw [hfi]; omega
  have hnotgt : ¬ ((abs w).firstIndex > e0'.index) := by rw [hfi]; omega
  unfold Wal.save
  simp only [Snap.isEmpty, emptySnap, beq_self_eq_true, if_true]
  unfold Wal.writeEntries
  simp only [hf, bind, Except.bind, hnotlt, if_false, hnotgt, hlast, hlastE]
  have hmem : (abs w).append (e0' :: rest) =
      { abs w with ents := (abs w).ents.take (e0'.index - a.index) ++ (e0' :: rest) } := by
    unfold Mem.append
    have h1 : ¬ (e0'.index + (e0' :: rest).length - 1 < (abs w).firstIndex) := hnotlt
    simp only [h1, if_false, hnotgt, List.headD_cons, hoff]
  -- the state after the flush, for either batch
  have fin : ∀ ops2 : List BOp,
      ((ops2 = (e0' :: rest).map BOp.setEntry ∧ ¬ (a.index + w.disk.ents.length - 1 > el.index)) ∨
       (ops2 = (e0' :: rest).map BOp.setEntry ++ w1.delFrom (el.index + 1) ∧ a.index + w.disk.ents.length - 1 > el.index)) →
      WF ⟨w.disk.flush ([] ++ ops2 ++ (if hs.isEmpty = true then [] else [BOp.setHS hs])),
          { snap := w1.cache.snap, first := w1.cache.first, last := some el.index }⟩ ∧
      abs ⟨w.disk.flush ([] ++ ops2 ++ (if hs.isEmpty = true then [] else [BOp.setHS hs])),
          { snap := w1.cache.snap, first := w1.cache.first, last := some el.index }⟩ =
        { (abs w).append (e0' :: rest) with hs := if hs.isEmpty then (abs w).hs else hs } := by
    intro ops2 hcase
    obtain ⟨hE, hH, hS⟩ := hfinal ops2 hcase
    -- the hard-state write touches nothing else
    have hD : (w.disk.flush ([] ++ ops2 ++ (if hs.isEmpty = true then [] else [BOp.setHS hs]))).ents =
          w.disk.ents.take (e0'.index - a.index) ++ (e0' :: rest) ∧
        (w.disk.flush ([] ++ ops2 ++ (if hs.isEmpty = true then [] else [BOp.setHS hs]))).ss = w.disk.ss ∧
        (w.disk.flush ([] ++ ops2 ++ (if hs.isEmpty = true then [] else [BOp.setHS hs]))).hs =
          (if hs.isEmpty = true then w.disk.hs else some hs) := by
      rw [List.nil_append, flush_append]
      by_cases hhs : hs.isEmpty = true
      · simp only [hhs, if_true]
        exact ⟨hE, hS, hH⟩
      · simp only [hhs, if_false]
        exact ⟨hE, hS, rfl⟩
    obtain ⟨hDe, hDs, hDh⟩ := hD
    generalize w.disk.flush ([] ++ ops2 ++ (if hs.isEmpty = true then [] else [BOp.setHS hs])) = D at hDe hDs hDh
    have hhead : D.ents.head? = some a := by
      rw [hDe]
      cases hl : w.disk.ents with
      | nil => exact absurd hl h.ne
      | cons x t =>
        rw [hl] at ha; simp at ha; subst ha
        obtain ⟨j, hj⟩ : ∃ j, e0'.index - x.index = j + 1 := ⟨e0'.index - x.index - 1, by omega⟩
        rw [hj]; simp
    refine ⟨⟨?_, ?_, ?_, ?_, ?_, ?_⟩, ?_⟩
    · show D.ents ≠ []
      rw [hDe]; simp
    · show Contig D.ents
      rw [hDe]
      apply Contig.append (h.contig.take _) hes
      intro x y hx hy
      simp at hy; subst hy
      have hlt : (w.disk.ents.take (e0'.index - a.index)).length = e0'.index - a.index := by
        rw [List.length_take]; omega
      have hxl : x = w.disk.ents.getD (e0'.index - a.index - 1) default := by
        rw [List.getLast?_eq_getElem?, hlt, List.getElem?_take] at hx
        have : e0'.index - a.index - 1 < e0'.index - a.index := by omega
        simp only [this, if_true] at hx
        rw [List.getD_eq_getElem?_getD, hx]; rfl
      rw [hxl, h.contig.index_getD a ha _ (by omega)]; omega
    · intro l hl
      have : el.index = l := by simpa using hl
      refine ⟨el, ?_, this⟩
      show D.ents.getLast? = some el
      rw [hDe, List.getLast?_append, hel]
      rfl
    · intro hcs f hf'
      obtain ⟨e, he, hfe⟩ := hwf1.cFirst hcs f hf'
      rw [hdisk, ha] at he
      have : e = a := (Option.some.inj he).symm
      subst this
      exact ⟨e, hhead, hfe⟩
    · intro s hs'
      show D.ss = some s
      rw [hDs, ← hdisk]
      exact hwf1.cSnap s hs'
    · show ∃ e, D.ents.head? = some e ∧ e.index = (D.ss.getD emptySnap).index
      obtain ⟨e, he, hei⟩ := h.ssHead
      rw [ha] at he
      have : e = a := (Option.some.inj he).symm
      subst this
      exact ⟨e, hhead, by rw [hDs]; exact hei⟩
    · rw [hmem]
      simp only [abs, Wal.hardState, hDe, hDs, hDh]
      rw [absEnts_take_append _ _ _ hk1 h.ne]
      by_cases hhs : hs.isEmpty = true <;> simp [hhs]
  by_cases hgt : (abs w).lastIndex > el.index
  · simp only [hgt, if_true]
    obtain ⟨f1, f2⟩ := fin _ (Or.inr ⟨rfl, by rw [← hli]; exact hgt⟩)
    exact ⟨_, rfl, f1, f2⟩
  · simp only [hgt, if_false]
    obtain ⟨f1, f2⟩ := fin _ (Or.inl ⟨rfl, by rw [← hli]; exact hgt⟩)
    exact ⟨_, rfl, f1, f2⟩

end Anndb.Wal

namespace Anndb.Wal

theorem Contig.drop {l : List Entry} (h : Contig l) (n : Nat) : Contig (l.drop n) := by
  induction l generalizing n with
  | nil => simp [Contig]
  | cons x t ih =>
    cases n with
    | zero => simpa using h
    | succ n => simpa using ih h.tail n

theorem takeWhile_contig {l : List Entry} (h : Contig l) (a : Entry) (hd : l.head? = some a) (idx : Nat)
    (hlo : a.index ≤ idx) : l.takeWhile (·.index < idx) = l.take (idx - a.index) := by
  induction l generalizing a with
  | nil => simp
  | cons x t ih =>
    simp at hd; subst hd
    by_cases hx : x.index < idx
    · obtain ⟨j, hj⟩ : ∃ j, idx - x.index = j + 1 := ⟨idx - x.index - 1, by omega⟩
      rw [hj]
      simp only [List.takeWhile_cons, hx, decide_true, if_true, List.take_succ_cons]
      congr 1
      cases t with
      | nil => simp
      | cons b t =>
        have hb := h.1
        rw [ih h.2 b rfl (by omega)]
        congr 1; omega
    · have : idx - x.index = 0 := by omega
      rw [this]
      simp [List.takeWhile_cons, hx]

theorem absEnts_idem_head (e : Entry) (t : List Entry) :
    absEnts (⟨e.index, e.term, 0, 0⟩ :: t) = ⟨e.index, e.term, 0, 0⟩ :: t := rfl

/-- **`CreateSnapshot` refines `MemoryStorage.CreateSnapshot` followed by `Compact`** at an index
inside the log and beyond the current snapshot -/
theorem createSnapshot_refines (w : Wal) (h : WF w) (idx conf data : Nat)
    (hlo : (abs w).firstIndex ≤ idx) (hhi : idx ≤ (abs w).lastIndex) :
    ∃ w' m1 m2, w.createSnapshot idx (some conf) data = .ok w' ∧ WF w' ∧
      (abs w).createSnapshot idx conf data = .ok m1 ∧ m1.compact idx = .ok m2 ∧ abs w' = m2 := by
  obtain ⟨w1, hf, hdisk, hwf1⟩ := firstIndex_refines w h
  obtain ⟨a, ha, hoff⟩ := abs_offset w h
  obtain ⟨a', ha', hssidx⟩ := h.ssHead
  have haa : a' = a := by rw [ha] at ha'; exact (Option.some.inj ha').symm
  subst haa
  have hlen : (abs w).ents.length = w.disk.ents.length := absEnts_length _
  have hfi : (abs w).firstIndex = a'.index + 1 := by simp [Mem.firstIndex, hoff]
  have hli : (abs w).lastIndex = a'.index + w.disk.ents.length - 1 := by simp [Mem.lastIndex, hoff, hlen]
  rw [hfi] at hlo
  rw [hli] at hhi
  have hlpos : 0 < w.disk.ents.length := List.length_pos_iff.mpr h.ne
  -- the entry at idx
  obtain ⟨hfind, hfidx⟩ := h.contig.find_ge a' ha' idx (by omega) (by omega)
  generalize hE : w.disk.ents.getD (idx - a'.index) default = e at hfind hfidx
  have hk : idx - a'.index < w.disk.ents.length := by omega
  have hk1 : 1 ≤ idx - a'.index := by omega
  -- the two MemoryStorage steps
  have hterm : ((abs w).ents.getD (idx - (abs w).offset) default).term = e.term := by
    rw [hoff]
    cases hl : w.disk.ents with
    | nil => exact absurd hl h.ne
    | cons x t =>
      obtain ⟨j, hj⟩ : ∃ j, idx - a'.index = j + 1 := ⟨idx - a'.index - 1, by omega⟩
      rw [← hE, hl, hj]
      simp [abs, absEnts, hl]
  have hsnapidx : (abs w).snap.index = a'.index := by simp [abs, hssidx]
  have hm1 : (abs w).createSnapshot idx conf data =
      .ok { abs w with snap := ⟨idx, e.term, data, conf⟩ } := by
    unfold Mem.createSnapshot
    have : ¬ (idx ≤ (abs w).snap.index) := by rw [hsnapidx]; omega
    simp only [this, if_false, hterm]
  have hdk : ((abs w).ents.getD (idx - a'.index) default) = e := by
    cases hl : w.disk.ents with
    | nil => exact absurd hl h.ne
    | cons x t =>
      obtain ⟨j, hj⟩ : ∃ j, idx - a'.index = j + 1 := ⟨idx - a'.index - 1, by omega⟩
      rw [← hE, hl, hj]
      simp [abs, absEnts, hl]
  have hdrop : (abs w).ents.drop (idx - a'.index + 1) = w.disk.ents.drop (idx - a'.index + 1) := by
    cases hl : w.disk.ents with
    | nil => exact absurd hl h.ne
    | cons x t => simp [abs, absEnts, hl]
  have hm2 : ({ abs w with snap := ⟨idx, e.term, data, conf⟩ } : Mem).compact idx =
      .ok { abs w with snap := ⟨idx, e.term, data, conf⟩,
                        ents := ⟨idx, e.term, 0, 0⟩ :: w.disk.ents.drop (idx - a'.index + 1) } := by
    unfold Mem.compact
    have hoff' : ({ abs w with snap := ⟨idx, e.term, data, conf⟩ } : Mem).offset = a'.index := hoff
    have : ¬ (idx ≤ a'.index) := by omega
    simp only [hoff', this, if_false, hdk, hfidx, hdrop]
  -- run the code
  have hnotlt : ¬ (idx < (abs w).firstIndex) := by rw [hfi]; omega
  have hseek : w1.seekFwd idx = some e := by simp [Wal.seekFwd, hdisk, hfind]
  have hne : ¬ ((idx != e.index) = true) := by simp [hfidx]
  have hsne : (⟨e.index, e.term, data, conf⟩ : Snap).isEmpty = false := by
    simp [Snap.isEmpty, hfidx]; omega
  obtain ⟨x0, t0, hl0⟩ : ∃ x0 t0, w.disk.ents = x0 :: t0 := by
    cases hl : w.disk.ents with
    | nil => exact absurd hl h.ne
    | cons x t => exact ⟨x, t, rfl⟩
  have hx0 : x0 = a' := by rw [hl0] at ha'; simpa using ha'
  subst hx0
  have hnotle : ¬ (idx ≤ x0.index) := by omega
  unfold Wal.createSnapshot
  simp only [hf, bind, Except.bind, hnotlt, if_false, hseek, hne, Wal.writeSnapshot, hsne,
    Bool.false_eq_true, hdisk, hl0, hnotle]
  -- the disk after the flush
  have hents : (w.disk.flush ([BOp.setSS ⟨e.index, e.term, data, conf⟩, BOp.setEntry ⟨e.index, e.term, 0, 0⟩] ++
      ((x0 :: t0).takeWhile (·.index < idx)).map fun e => BOp.delEntry e.index)).ents =
      ⟨idx, e.term, 0, 0⟩ :: w.disk.ents.drop (idx - x0.index + 1) := by
    rw [flush_ents]
    simp only [List.cons_append, List.nil_append, List.foldl_cons, entsStep]
    have hins := insertSorted_inside h.contig x0 ha' ⟨e.index, e.term, 0, 0⟩ (by simp; omega) (by simp; omega)
    simp only [hfidx] at hins ⊢
    rw [hins]
    have htw := takeWhile_contig h.contig x0 ha' idx (by omega)
    rw [hl0] at htw
    rw [htw]
    have := flush_dels_ents (List.take (idx - x0.index) w.disk.ents ++
        ⟨idx, e.term, 0, 0⟩ :: List.drop (idx - x0.index + 1) w.disk.ents)
      ((List.take (idx - x0.index) (x0 :: t0)).map (·.index))
    rw [List.map_map] at this
    rw [show ((fun (e : Entry) => BOp.delEntry e.index) = BOp.delEntry ∘ fun (e : Entry) => e.index) from rfl]
    rw [this, ← hl0]
    -- what is kept
    have hsplit : List.take (idx - x0.index) w.disk.ents ++
        ⟨idx, e.term, 0, 0⟩ :: List.drop (idx - x0.index + 1) w.disk.ents =
        [] ++ (List.take (idx - x0.index) w.disk.ents ++
        ⟨idx, e.term, 0, 0⟩ :: List.drop (idx - x0.index + 1) w.disk.ents) := rfl
    rw [List.filter_append]
    have hdropk : (List.take (idx - x0.index) w.disk.ents).filter
        (fun x => !((List.take (idx - x0.index) w.disk.ents).map (·.index)).contains x.index) = [] := by
      apply List.filter_eq_nil_iff.mpr
      intro x hx
      simp only [Bool.not_eq_true', Bool.not_eq_false', List.contains_eq_mem, decide_eq_true_eq, List.mem_map]
      simpa using ⟨x, hx, rfl⟩
    have hkeep : (⟨idx, e.term, 0, 0⟩ :: List.drop (idx - x0.index + 1) w.disk.ents).filter
        (fun x => !((List.take (idx - x0.index) w.disk.ents).map (·.index)).contains x.index) =
        ⟨idx, e.term, 0, 0⟩ :: List.drop (idx - x0.index + 1) w.disk.ents := by
      apply List.filter_eq_self.mpr
      intro x hx
      simp only [Bool.not_eq_true', List.contains_eq_mem, decide_eq_false_iff_not, List.mem_map, not_exists, not_and]
      intro y hy hyx
      have hylt := h.contig.mem_take_index x0 ha' _ y hy
      rcases List.mem_cons.mp hx with rfl | hx
      · simp at hyx; omega
      · have := h.contig.mem_drop_index x0 ha' _ x hx
        omega
    rw [hdropk, hkeep, List.nil_append]
  have hDss : (w.disk.flush ([BOp.setSS ⟨e.index, e.term, data, conf⟩, BOp.setEntry ⟨e.index, e.term, 0, 0⟩] ++
      ((x0 :: t0).takeWhile (·.index < idx)).map fun e => BOp.delEntry e.index)).ss =
      some ⟨e.index, e.term, data, conf⟩ ∧
      (w.disk.flush ([BOp.setSS ⟨e.index, e.term, data, conf⟩, BOp.setEntry ⟨e.index, e.term, 0, 0⟩] ++
      ((x0 :: t0).takeWhile (·.index < idx)).map fun e => BOp.delEntry e.index)).hs = w.disk.hs := by
    rw [flush_append]
    have hd := flush_dels_ss (w.disk.flush [BOp.setSS ⟨e.index, e.term, data, conf⟩, BOp.setEntry ⟨e.index, e.term, 0, 0⟩])
      (((x0 :: t0).takeWhile (·.index < idx)).map (·.index))
    have hd2 := flush_dels_hs (w.disk.flush [BOp.setSS ⟨e.index, e.term, data, conf⟩, BOp.setEntry ⟨e.index, e.term, 0, 0⟩])
      (((x0 :: t0).takeWhile (·.index < idx)).map (·.index))
    rw [List.map_map] at hd hd2
    exact ⟨hd.trans rfl, hd2.trans rfl⟩
  obtain ⟨hDs, hDh⟩ := hDss
  generalize w.disk.flush ([BOp.setSS ⟨e.index, e.term, data, conf⟩, BOp.setEntry ⟨e.index, e.term, 0, 0⟩] ++
      ((x0 :: t0).takeWhile (·.index < idx)).map fun e => BOp.delEntry e.index) = D at hents hDs hDh
  have hcontD : Contig D.ents := by
    rw [hents, Contig.cons_iff]
    refine ⟨?_, h.contig.drop _⟩
    intro b hb
    have hlt : idx - x0.index + 1 < w.disk.ents.length := by
      by_cases hge : idx - x0.index + 1 < w.disk.ents.length
      · exact hge
      · rw [List.drop_eq_nil_of_le (by omega)] at hb; simp at hb
    have hbd : b = w.disk.ents.getD (idx - x0.index + 1) default := by
      rw [List.head?_drop] at hb
      rw [List.getD_eq_getElem?_getD, hb]; rfl
    rw [hbd, h.contig.index_getD x0 ha' _ hlt]
    show x0.index + (idx - x0.index + 1) = idx + 1
    omega
  have hheadD : D.ents.head? = some ⟨idx, e.term, 0, 0⟩ := by rw [hents]; rfl
  have hlenD : D.ents.length = w.disk.ents.length - (idx - x0.index) := by
    rw [hents]; simp only [List.length_cons, List.length_drop]; omega
  refine ⟨_, _, _, rfl, ⟨?_, hcontD, ?_, ?_, ?_, ?_⟩, hm1, hm2, ?_⟩
  · show D.ents ≠ []
    rw [hents]; simp
  · intro l hl
    cases hcl : w1.cache.last with
    | none => simp [hcl] at hl
    | some l' =>
      obtain ⟨el, hel, heli⟩ := hwf1.cLast l' hcl
      rw [hdisk] at hel
      have hidx := h.contig.getLast_index x0 el ha' hel
      have hll : l = l' := by
        simp only [hcl] at hl
        have : ¬ (l' < e.index) := by omega
        simp only [this, if_false] at hl
        exact (Option.some.inj hl).symm
      obtain ⟨eD, heD⟩ : ∃ eD, D.ents.getLast? = some eD := by
        cases hx : D.ents.getLast? with
        | none => rw [List.getLast?_eq_none_iff.mp hx] at hheadD; simp at hheadD
        | some eD => exact ⟨eD, rfl⟩
      refine ⟨eD, heD, ?_⟩
      have := hcontD.getLast_index _ eD hheadD heD
      rw [this, hlenD, hll, ← heli, hidx]
      show idx + (w.disk.ents.length - (idx - x0.index)) - 1 = x0.index + w.disk.ents.length - 1
      omega
  · intro hcs
    simp [Wal.cachedSnap, hsne] at hcs
  · intro s hs'
    show D.ss = some s
    rw [hDs]
    simp only [Wal.cachedSnap, hsne, Bool.false_eq_true, if_false] at hs'
    exact hs'
  · exact ⟨_, hheadD, by rw [hDs]; simp [hfidx]⟩
  · simp only [abs, Wal.hardState, hDh, hDs, hents, Option.getD_some, hfidx]
    rfl

end Anndb.Wal

namespace Anndb.Wal

/-- **`Save` with a received snapshot (and no entries, as etcd/raft hands it over) refines
`MemoryStorage.ApplySnapshot` + `SetHardState`**: the whole log is wiped, the snapshot and its
dummy entry are written, in that order (repair D13) -/
theorem save_snapshot_refines (w : Wal) (h : WF w) (hs : HardState) (s : Snap)
    (hnew : (abs w).snap.index < s.index) :
    ∃ w' m1, w.save hs [] s = .ok w' ∧ WF w' ∧ (abs w).applySnapshot s = .ok m1 ∧
      abs w' = { m1 with hs := if hs.isEmpty then (abs w).hs else hs } := by
  have hsne : s.isEmpty = false := by simp [Snap.isEmpty]; omega
  have hm1 : (abs w).applySnapshot s = .ok { abs w with snap := s, ents := [⟨s.index, s.term, 0, 0⟩] } := by
    unfold Mem.applySnapshot
    have : ¬ ((abs w).snap.index ≥ s.index) := by omega
    simp only [this, if_false]
  -- the disk after the flush
  have hD : ∀ ops3 : List BOp, (ops3 = [] ∧ hs.isEmpty = true) ∨ (ops3 = [BOp.setHS hs] ∧ hs.isEmpty = false) →
      (w.disk.flush (w.delFrom 0 ++ [BOp.setSS s, BOp.setEntry ⟨s.index, s.term, 0, 0⟩] ++ [] ++ ops3)).ents =
        [⟨s.index, s.term, 0, 0⟩] ∧
      (w.disk.flush (w.delFrom 0 ++ [BOp.setSS s, BOp.setEntry ⟨s.index, s.term, 0, 0⟩] ++ [] ++ ops3)).ss = some s ∧
      (w.disk.flush (w.delFrom 0 ++ [BOp.setSS s, BOp.setEntry ⟨s.index, s.term, 0, 0⟩] ++ [] ++ ops3)).hs =
        (if hs.isEmpty = true then w.disk.hs else some hs) := by
    intro ops3 hcase
    have hdel : w.delFrom 0 = ((w.disk.ents.filter (·.index ≥ 0)).map (·.index)).map BOp.delEntry := by
      simp [Wal.delFrom, List.map_map, Function.comp]
    have hwiped : (w.disk.flush (w.delFrom 0)).ents = [] := by
      rw [hdel, flush_ents, flush_dels_ents]
      apply List.filter_eq_nil_iff.mpr
      intro x hx
      simp only [Bool.not_eq_true', Bool.not_eq_false', List.contains_eq_mem, decide_eq_true_eq, List.mem_map,
        List.mem_filter]
      simpa using ⟨x, hx, rfl⟩
    have hwss : (w.disk.flush (w.delFrom 0)).ss = w.disk.ss := by rw [hdel]; exact flush_dels_ss _ _
    have hwhs : (w.disk.flush (w.delFrom 0)).hs = w.disk.hs := by rw [hdel]; exact flush_dels_hs _ _
    rw [List.append_nil, List.append_assoc, flush_append]
    generalize w.disk.flush (w.delFrom 0) = d0 at hwiped hwss hwhs
    rcases hcase with ⟨rfl, hemp⟩ | ⟨rfl, hne⟩
    · simp only [List.append_nil, Disk.flush, List.foldl_cons, List.foldl_nil, Disk.apply, hwiped, insertSorted, hemp,
        if_true]
      exact ⟨trivial, trivial, hwhs⟩
    · simp only [List.cons_append, List.nil_append, Disk.flush, List.foldl_cons, List.foldl_nil, Disk.apply, hwiped,
        insertSorted, hne, Bool.false_eq_true, if_false]
      exact ⟨trivial, trivial, trivial⟩
  unfold Wal.save
  simp only [hsne, Bool.false_eq_true, if_false, Wal.writeSnapshot, Wal.writeEntries, bind, Except.bind]
  by_cases hemp : hs.isEmpty = true
  · obtain ⟨hE, hS, hH⟩ := hD [] (Or.inl ⟨rfl, hemp⟩)
    simp only [hemp, if_true]
    refine ⟨_, _, rfl, ⟨?_, ?_, ?_, ?_, ?_, ?_⟩, hm1, ?_⟩
    · simp only [hE]; simp
    · simp only [hE]; trivial
    · intro l hl
      simp only [hE]
      exact ⟨_, rfl, by simpa using hl⟩
    · intro hcs; simp [Wal.cachedSnap, hsne] at hcs
    · intro s' hs'
      simp only [hS]
      simpa [Wal.cachedSnap, hsne] using hs'
    · simp only [hE, hS]; exact ⟨_, rfl, rfl⟩
    · simp only [abs, Wal.hardState, hE, hS, hH, hemp, if_true, absEnts]
      rfl
  · have hne : hs.isEmpty = false := by cases hx : hs.isEmpty <;> simp_all
    obtain ⟨hE, hS, hH⟩ := hD [BOp.setHS hs] (Or.inr ⟨rfl, hne⟩)
    simp only [hne, Bool.false_eq_true, if_false]
    refine ⟨_, _, rfl, ⟨?_, ?_, ?_, ?_, ?_, ?_⟩, hm1, ?_⟩
    · simp only [hE]; simp
    · simp only [hE]; trivial
    · intro l hl
      simp only [hE]
      exact ⟨_, rfl, by simpa using hl⟩
    · intro hcs; simp [Wal.cachedSnap, hsne] at hcs
    · intro s' hs'
      simp only [hS]
      simpa [Wal.cachedSnap, hsne] using hs'
    · simp only [hE, hS]; exact ⟨_, rfl, rfl⟩
    · simp only [abs, Wal.hardState, hE, hS, hH, hne, Bool.false_eq_true, if_false, absEnts]
      rfl

/-! ## histories -/

theorem wf_fresh : WF Wal.fresh ∧ abs Wal.fresh = Mem.init := by
  have hd : Wal.fresh = ⟨⟨[⟨0, 0, 0, 0⟩], none, none⟩, emptyCache⟩ := by
    simp [Wal.fresh, Wal.open_, Wal.firstIndex, Wal.cachedSnap, emptyCache, Wal.seekFwd, Wal.reset, Disk.flush,
      Disk.apply, insertSorted]
  rw [hd]
  refine ⟨⟨by simp, trivial, ?_, ?_, ?_, ⟨⟨0, 0, 0, 0⟩, rfl, rfl⟩⟩, rfl⟩
  · intro l hl; simp [emptyCache] at hl
  · intro _ f hf; simp [emptyCache] at hf
  · intro s hs; simp [Wal.cachedSnap, emptyCache] at hs

/-- the write operations of a history: a batch of entries with a hard state (`Save` without a
received snapshot), a local snapshot + compaction (`CreateSnapshot`), a reopen of the database -/
inductive WOp where
  | append (hs : HardState) (es : List Entry)
  | compact (idx conf data : Nat)
  | install (hs : HardState) (s : Snap)
  | reopen

/-- the specification's run, with the legality of each call decided on the specification state:
a batch is a non-empty consecutive run that starts at or after the first index and leaves no gap;
a compaction index lies inside the log beyond the snapshot -/
def runM : Mem → List WOp → Option Mem
  | m, [] => some m
  | m, .append hs es :: rest =>
    match es with
    | [] => none
    | e0 :: _ =>
      if m.firstIndex ≤ e0.index ∧ e0.index ≤ m.lastIndex + 1 then
        runM { m.append es with hs := if hs.isEmpty then m.hs else hs } rest
      else none
  | m, .compact idx conf data :: rest =>
    if m.firstIndex ≤ idx ∧ idx ≤ m.lastIndex then
      match m.createSnapshot idx conf data with
      | .ok m1 => match m1.compact idx with
        | .ok m2 => runM m2 rest
        | .error _ => none
      | .error _ => none
    else none
  | m, .install hs s :: rest =>
    if m.snap.index < s.index then
      match m.applySnapshot s with
      | .ok m1 => runM { m1 with hs := if hs.isEmpty then m.hs else hs } rest
      | .error _ => none
    else none
  | m, .reopen :: rest => runM m rest

def runW : Wal → List WOp → Option Wal
  | w, [] => some w
  | w, .append hs es :: rest =>
    match w.save hs es emptySnap with
    | .ok w' => runW w' rest
    | .error _ => none
  | w, .compact idx conf data :: rest =>
    match w.createSnapshot idx (some conf) data with
    | .ok w' => runW w' rest
    | .error _ => none
  | w, .install hs s :: rest =>
    match w.save hs [] s with
    | .ok w' => runW w' rest
    | .error _ => none
  | w, .reopen :: rest => runW (Wal.open_ w.disk) rest

/-- **C06, refinement along histories**: whenever the specification accepts a history of legal
calls (with consecutive batches), the Badger-backed store accepts it too, stays well formed, and
stands for exactly the specification's state — so every read afterwards (`reads` above) returns
what `MemoryStorage` would return. -/
theorem run_refines (ops : List WOp) (w : Wal) (m m' : Mem) (h : WF w) (ha : abs w = m)
    (hes : ∀ hs es, WOp.append hs es ∈ ops → Contig es) (hm : runM m ops = some m') :
    ∃ w', runW w ops = some w' ∧ WF w' ∧ abs w' = m' := by
  induction ops generalizing w m with
  | nil =>
    simp only [runM, Option.some.injEq] at hm
    exact ⟨w, rfl, h, ha.trans hm⟩
  | cons op rest ih =>
    have hes' : ∀ hs es, WOp.append hs es ∈ rest → Contig es :=
      fun hs es hmem => hes hs es (List.mem_cons_of_mem _ hmem)
    cases op with
    | append hs es =>
      cases es with
      | nil => simp [runM] at hm
      | cons e0 t =>
        simp only [runM] at hm
        split at hm
        · rename_i hleg
          subst ha
          obtain ⟨w1, hs1, hwf1, habs1⟩ := save_entries_refines w h hs (e0 :: t)
            (hes hs (e0 :: t) List.mem_cons_self) e0 rfl hleg.1 hleg.2
          obtain ⟨w2, hr, hwf2, habs2⟩ := ih w1 _ hwf1 habs1 hes' hm
          exact ⟨w2, by simp only [runW, hs1]; exact hr, hwf2, habs2⟩
        · cases hm
    | compact idx conf data =>
      simp only [runM] at hm
      split at hm
      · rename_i hleg
        subst ha
        obtain ⟨w1, m1, m2, hc, hwf1, hm1, hm2, habs1⟩ := createSnapshot_refines w h idx conf data hleg.1 hleg.2
        rw [hm1] at hm
        simp only [hm2] at hm
        obtain ⟨w2, hr, hwf2, habs2⟩ := ih w1 _ hwf1 habs1 hes' hm
        exact ⟨w2, by simp only [runW, hc]; exact hr, hwf2, habs2⟩
      · cases hm
    | install hs s =>
      simp only [runM] at hm
      split at hm
      · rename_i hleg
        subst ha
        obtain ⟨w1, m1, hs1, hwf1, hm1, habs1⟩ := save_snapshot_refines w h hs s hleg
        rw [hm1] at hm
        simp only at hm
        obtain ⟨w2, hr, hwf2, habs2⟩ := ih w1 _ hwf1 habs1 hes' hm
        exact ⟨w2, by simp only [runW, hs1]; exact hr, hwf2, habs2⟩
      · cases hm
    | reopen =>
      simp only [runM] at hm
      obtain ⟨hwf1, habs1⟩ := reopen_refines w h
      obtain ⟨w2, hr, hwf2, habs2⟩ := ih _ _ hwf1 (habs1.trans ha) hes' hm
      exact ⟨w2, by simp only [runW]; exact hr, hwf2, habs2⟩

end Anndb.Wal
