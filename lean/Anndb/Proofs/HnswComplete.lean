import Anndb.Proofs.HnswSearch
import Anndb.Proofs.HnswExactQ
/-!
# Completeness of `searchLevel` when the beam covers the collection (C07)

If every allocated vertex fits the beam (`s.next ≤ ef`) the beam search never discards anything and
never stops early: it returns exactly the set of vertices reachable from the start vertex through
non-tombstoned links of the level — one item per vertex, with its distance.
-/
namespace Anndb
open Index

section
variable {Pmin Pmax : PQImpl} {dist : VecRef → VecRef → Score}
variable (hmin : Lawful Pmin minBetter) (hmax : Lawful Pmax maxBetter)
variable (s : Index) (q : VecRef) (ef level : Nat) (ep : Vid)

/-- the loop invariant under the covering assumption -/
structure Full (dist : VecRef → VecRef → Score) (s : Index) (q : VecRef) (level : Nat) (ep : Vid)
    (ex : Option Vid) (st : SearchSt Pmin Pmax) : Prop where
  good : Good dist s q ep (fun v => v < s.next) st
  visNodup : st.vis.Nodup
  visLt : ∀ v ∈ st.vis, v < s.next
  rAll : ∀ v ∈ st.vis, ∃ it ∈ Pmax.toList st.r, it.vid = v
  rLen : Pmax.len st.r = st.vis.length
  /-- every visited vertex is still queued, or fully expanded — except `ex`, the one being expanded -/
  closed : ∀ v ∈ st.vis, ex = some v ∨ (∃ it ∈ Pmin.toList st.c, it.vid = v) ∨
      (∀ w ∈ s.nbrs v level, s.isDeleted w = false → w ∈ st.vis)

/-- how one visit (or a fold of visits) moves the state -/
structure Moves (s : Index) (st st' : SearchSt Pmin Pmax) : Prop where
  visMono : ∀ v ∈ st.vis, v ∈ st'.vis
  cMono : ∀ it ∈ Pmin.toList st.c, it ∈ Pmin.toList st'.c
  mu : Pmin.len st'.c + (s.next - st'.vis.length) = Pmin.len st.c + (s.next - st.vis.length)

theorem Moves.refl (st : SearchSt Pmin Pmax) : Moves s st st := ⟨fun _ h => h, fun _ h => h, rfl⟩

theorem Moves.trans {a b c : SearchSt Pmin Pmax} (h1 : Moves s a b) (h2 : Moves s b c) : Moves s a c :=
  ⟨fun v h => h2.visMono v (h1.visMono v h), fun it h => h2.cMono it (h1.cMono it h), h2.mu.trans h1.mu⟩

include hmin hmax in
theorem full_visit (ex : Option Vid) (hcap : s.next ≤ ef) (lb : Score) (st : SearchSt Pmin Pmax) (n : Vid)
    (hn : s.isDeleted n = false → n < s.next) (h : Full (Pmin := Pmin) (Pmax := Pmax) dist s q level ep ex st) :
    Full (Pmin := Pmin) (Pmax := Pmax) dist s q level ep ex (visitNbr Pmin Pmax dist s q ef lb st n) ∧
    Moves s st (visitNbr Pmin Pmax dist s q ef lb st n) ∧
    (s.isDeleted n = false → n ∈ (visitNbr Pmin Pmax dist s q ef lb st n).vis) := by
  have hgood := good_visit (dist := dist) hmin hmax s q ef ep (fun v => v < s.next) lb st n hn h.good
  unfold visitNbr at hgood ⊢
  by_cases hd : s.isDeleted n = true
  · simp only [hd, if_true] at hgood ⊢
    exact ⟨h, Moves.refl s st, by intro hh; simp [hd] at hh⟩
  · simp only [hd] at hgood ⊢
    have hd' : s.isDeleted n = false := by cases hx : s.isDeleted n <;> simp_all
    by_cases hv : n ∈ st.vis
    · simp only [hv, if_true, Bool.false_eq_true, if_false] at hgood ⊢
      exact ⟨h, Moves.refl s st, by first | trivial | exact fun _ => hv⟩
    · simp only [hv, if_false, Bool.false_eq_true] at hgood ⊢
      have hnlt := hn hd'
      -- the beam has room
      have hlen : (n :: st.vis).length ≤ s.next :=
        nodup_bounded_length s.next (n :: st.vis) (List.nodup_cons.mpr ⟨hv, h.visNodup⟩)
          (by intro x hx; rcases List.mem_cons.mp hx with rfl | hx
              · exact hnlt
              · exact h.visLt x hx)
      simp only [List.length_cons] at hlen
      have hroom : Pmax.len st.r < ef := by have := h.rLen; omega
      have hc : dist q (s.vecOf n) < lb ∨ Pmax.len st.r < ef := Or.inr hroom
      have permR := hmax.push_perm st.r ⟨dist q (s.vecOf n), n⟩
      have permC := hmin.push_perm st.c ⟨dist q (s.vecOf n), n⟩
      have hlenR : Pmax.len (Pmax.push st.r ⟨dist q (s.vecOf n), n⟩) = st.vis.length + 1 := by
        have := permR.length_eq
        have hr := h.rLen
        simp only [List.length_cons] at this
        simp only [PQImpl.len] at hr ⊢
        omega
      have hnopop : ¬ (Pmax.len (Pmax.push st.r ⟨dist q (s.vecOf n), n⟩) > ef) := by
        rw [hlenR]; omega
      simp only [hc, if_true, hnopop, if_false] at hgood ⊢
      refine ⟨⟨hgood, ?_, ?_, ?_, ?_, ?_⟩, ⟨?_, ?_, ?_⟩, fun _ => List.mem_cons_self⟩
      · exact List.nodup_cons.mpr ⟨hv, h.visNodup⟩
      · intro x hx
        rcases List.mem_cons.mp hx with rfl | hx
        · exact hnlt
        · exact h.visLt x hx
      · intro v hvm
        rcases List.mem_cons.mp hvm with rfl | hvm
        · exact ⟨⟨dist q (s.vecOf v), v⟩, permR.mem_iff.mpr List.mem_cons_self, rfl⟩
        · obtain ⟨it, hit, hvid⟩ := h.rAll v hvm
          exact ⟨it, permR.mem_iff.mpr (List.mem_cons_of_mem _ hit), hvid⟩
      · simp only [List.length_cons]; exact hlenR
      · intro v hvm
        rcases List.mem_cons.mp hvm with rfl | hvm
        · exact Or.inr (Or.inl ⟨⟨dist q (s.vecOf v), v⟩, permC.mem_iff.mpr List.mem_cons_self, rfl⟩)
        · rcases h.closed v hvm with hex | ⟨it, hit, hvid⟩ | hexp
          · exact Or.inl hex
          · exact Or.inr (Or.inl ⟨it, permC.mem_iff.mpr (List.mem_cons_of_mem _ hit), hvid⟩)
          · exact Or.inr (Or.inr (fun w hw hdw => List.mem_cons_of_mem _ (hexp w hw hdw)))
      · intro v hvm; exact List.mem_cons_of_mem _ hvm
      · intro it hit; exact permC.mem_iff.mpr (List.mem_cons_of_mem _ hit)
      · have := permC.length_eq
        simp only [List.length_cons] at this
        simp only [PQImpl.len, List.length_cons]
        rw [this]
        omega

include hmin hmax in
theorem full_fold (ex : Option Vid) (hcap : s.next ≤ ef) (lb : Score) (ns : List Vid) (st : SearchSt Pmin Pmax)
    (hn : ∀ n ∈ ns, s.isDeleted n = false → n < s.next)
    (h : Full (Pmin := Pmin) (Pmax := Pmax) dist s q level ep ex st) :
    Full (Pmin := Pmin) (Pmax := Pmax) dist s q level ep ex (ns.foldl (visitNbr Pmin Pmax dist s q ef lb) st) ∧
    Moves s st (ns.foldl (visitNbr Pmin Pmax dist s q ef lb) st) ∧
    (∀ n ∈ ns, s.isDeleted n = false → n ∈ (ns.foldl (visitNbr Pmin Pmax dist s q ef lb) st).vis) := by
  induction ns generalizing st with
  | nil => exact ⟨h, Moves.refl s st, by intro n hn; cases hn⟩
  | cons a t ih =>
    simp only [List.foldl_cons]
    obtain ⟨f1, m1, v1⟩ := full_visit hmin hmax s q ef level ep ex hcap lb st a (hn a List.mem_cons_self) h
    obtain ⟨f2, m2, v2⟩ := ih _ (fun m hm => hn m (List.mem_cons_of_mem _ hm)) f1
    refine ⟨f2, m1.trans s m2, ?_⟩
    intro m hm hdm
    rcases List.mem_cons.mp hm with rfl | hm
    · exact m2.visMono _ (v1 hdm)
    · exact v2 m hm hdm

/-- what the completed search looks like -/
structure Complete (dist : VecRef → VecRef → Score) (s : Index) (q : VecRef) (level : Nat) (ep : Vid)
    (l : List Item) : Prop where
  res : ResOK dist s q ep (fun v => v < s.next) l
  start : ∃ it ∈ l, it.vid = ep
  closed : ∀ it ∈ l, ∀ w ∈ s.nbrs it.vid level, s.isDeleted w = false → ∃ it' ∈ l, it'.vid = w

include hmin hmax in
theorem searchLoop_complete (hcap : s.next ≤ ef)
    (hcl : ∀ u w, u < s.next → w ∈ s.nbrs u level → s.isDeleted w = false → w < s.next)
    (fuel : Nat) (st : SearchSt Pmin Pmax)
    (h : Full (Pmin := Pmin) (Pmax := Pmax) dist s q level ep none st) (hep : ep ∈ st.vis)
    (hfuel : Pmin.len st.c + (s.next - st.vis.length) < fuel) :
    Complete dist s q level ep (Pmax.toList (searchLoop Pmin Pmax dist s q ef level fuel st)) := by
  induction fuel generalizing st with
  | zero => omega
  | succ f ih =>
    unfold searchLoop
    cases hp : Pmin.pop st.c with
    | none =>
      simp only
      have hc : Pmin.toList st.c = [] := hmin.pop_none _ hp
      have hvid : ∀ it ∈ Pmax.toList st.r, it.vid ∈ st.vis := fun it hit => (h.good.rOK it hit).1
      refine ⟨resOK_of_good s q ep _ st h.good, ?_, ?_⟩
      · exact h.rAll ep hep
      · intro it hit w hw hdw
        rcases h.closed it.vid (hvid it hit) with hex | ⟨x, hx, _⟩ | hexp
        · cases hex
        · rw [hc] at hx; cases hx
        · exact h.rAll w (hexp w hw hdw)
    | some pr =>
      obtain ⟨ci, c'⟩ := pr
      simp only
      have hpop := hmin.pop_some _ _ _ hp
      have hci : ItemOK dist s q ep (fun v => v < s.next) st.vis ci :=
        h.good.cOK ci (hpop.1.mem_iff.mpr List.mem_cons_self)
      obtain ⟨itr, hitr, hitrv⟩ := h.rAll ci.vid hci.1
      have hne : Pmax.toList st.r ≠ [] := by intro he; rw [he] at hitr; cases hitr
      obtain ⟨x, r', hpr⟩ := hmax.pop_progress st.r hne
      have hpeek : peekScore Pmax st.r = some x.score := by simp [peekScore, hpr]
      rw [hpeek]
      simp only
      have hx := (hmax.pop_some _ _ _ hpr).2 itr hitr
      have hscore : itr.score = ci.score := by
        rw [(h.good.rOK itr hitr).2.1, hci.2.1, hitrv]
      have hnot : ¬ (ci.score > x.score) := by
        have : itr.score ≤ x.score := hx
        omega
      simp only [hnot, if_false]
      -- the state handed to the fold: `ci.vid` is exempt while it is being expanded
      have hst1 : Full (Pmin := Pmin) (Pmax := Pmax) dist s q level ep (some ci.vid) ⟨c', st.r, st.vis⟩ := by
        refine ⟨⟨?_, h.good.rOK, h.good.rNodup⟩, h.visNodup, h.visLt, h.rAll, h.rLen, ?_⟩
        · intro it hit
          exact h.good.cOK it (hpop.1.mem_iff.mpr (List.mem_cons_of_mem _ hit))
        · intro v hv
          rcases h.closed v hv with hex | ⟨it, hit, hvid⟩ | hexp
          · cases hex
          · rcases List.mem_cons.mp (hpop.1.mem_iff.mp hit) with rfl | hit'
            · exact Or.inl (by rw [hvid])
            · exact Or.inr (Or.inl ⟨it, hit', hvid⟩)
          · exact Or.inr (Or.inr hexp)
      obtain ⟨f2, m2, v2⟩ := full_fold hmin hmax s q ef level ep (some ci.vid) hcap x.score (s.nbrs ci.vid level)
        ⟨c', st.r, st.vis⟩ (fun n hn hdn => hcl ci.vid n hci.2.2.2 hn hdn) hst1
      apply ih
      · -- `ci.vid` is expanded now
        refine ⟨f2.good, f2.visNodup, f2.visLt, f2.rAll, f2.rLen, ?_⟩
        intro v hv
        rcases f2.closed v hv with hex | hq | hexp
        · have : ci.vid = v := Option.some.inj hex
          subst this
          exact Or.inr (Or.inr (fun w hw hdw => v2 w hw hdw))
        · exact Or.inr (Or.inl hq)
        · exact Or.inr (Or.inr hexp)
      · exact m2.visMono ep hep
      · have hmu := m2.mu
        have hl := hpop.1.length_eq
        simp only [List.length_cons] at hl
        simp only [PQImpl.len] at hmu hfuel ⊢
        omega

include hmin hmax in
/-- **searchLevel is complete under the covering assumption.** -/
theorem searchLevel_complete (hcap : s.next ≤ ef) (hep : ep < s.next)
    (hcl : ∀ u w, u < s.next → w ∈ s.nbrs u level → s.isDeleted w = false → w < s.next) :
    Complete dist s q level ep (Pmax.toList (searchLevel Pmin Pmax dist s q ep ef level)) := by
  unfold searchLevel
  have pc := hmin.push_perm Pmin.empty ⟨dist q (s.vecOf ep), ep⟩
  have pr := hmax.push_perm Pmax.empty ⟨dist q (s.vecOf ep), ep⟩
  rw [hmin.empty_list] at pc
  rw [hmax.empty_list] at pr
  have ok : ItemOK dist s q ep (fun v => v < s.next) [ep] ⟨dist q (s.vecOf ep), ep⟩ :=
    ⟨List.mem_singleton.mpr rfl, rfl, Or.inl rfl, hep⟩
  apply searchLoop_complete hmin hmax s q ef level ep hcap hcl
  · refine ⟨⟨?_, ?_, ?_⟩, by simp, ?_, ?_, ?_, ?_⟩
    · intro it hit
      have := pc.mem_iff.mp hit
      simp at this; subst this; exact ok
    · intro it hit
      have := pr.mem_iff.mp hit
      simp at this; subst this; exact ok
    · have := (pr.map (·.vid)).nodup_iff
      simp at this ⊢
      exact this
    · intro v hv; simp at hv; subst hv; exact hep
    · intro v hv
      simp at hv; subst hv
      exact ⟨_, pr.mem_iff.mpr List.mem_cons_self, rfl⟩
    · have := pr.length_eq
      simp only [PQImpl.len, List.length_cons, List.length_nil] at this ⊢
      omega
    · intro v hv
      simp at hv; subst hv
      exact Or.inr (Or.inl ⟨_, pc.mem_iff.mpr List.mem_cons_self, rfl⟩)
  · simp
  · have := pc.length_eq
    simp only [PQImpl.len, List.length_cons, List.length_nil] at this ⊢
    omega

end
end Anndb
