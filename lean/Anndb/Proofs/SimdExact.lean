import Mathlib.Tactic.Ring
import Mathlib.Tactic.Abel
import Mathlib.Algebra.BigOperators.Group.List.Basic
import Mathlib.Algebra.Order.BigOperators.Group.List
import Mathlib.Algebra.Order.Field.Basic
import Anndb.Model.Simd
/-!
# The kernels in exact arithmetic (C15)

The same definitions the driver runs at `Float32`, instantiated at an arbitrary (ordered) field:
the blocked AVX / SSE reductions compute the plain sum, hence all three implementations compute
the same function when arithmetic is exact.
-/
namespace Anndb.Simd

/-- the operations of a field, with `sqrt` and `abs` supplied -/
def exactOps (α : Type) [Field α] (sqrt abs : α → α) : Ops α :=
  ⟨0, 1, (· + ·), (· - ·), (· * ·), (· / ·), sqrt, abs⟩

section
variable {α : Type} [Field α] (sq ab : α → α)

local notation "E" => exactOps α sq ab

theorem addLanes_sum : ∀ (acc blk : List α), acc.length = blk.length →
    (addLanes E acc blk).sum = acc.sum + blk.sum
  | [], [], _ => by simp [addLanes]
  | [], _ :: _, h => by simp at h
  | _ :: _, [], h => by simp at h
  | x :: xs, y :: ys, h => by
    have ih := addLanes_sum xs ys (by simpa using h)
    simp only [addLanes, List.zipWith_cons_cons, List.sum_cons] at ih ⊢
    show (x + y) + _ = _
    rw [ih]; abel

theorem addLanes_length (acc blk : List α) (h : acc.length = blk.length) :
    (addLanes E acc blk).length = acc.length := by
  simp [addLanes, h]

theorem chunks_length (w : Nat) : ∀ (k : Nat) (l : List α), k * w ≤ l.length →
    ∀ c ∈ chunks w k l, c.length = w
  | 0, _, _, c, hc => by simp [chunks] at hc
  | k+1, l, h, c, hc => by
    simp only [chunks, List.mem_cons] at hc
    rcases hc with rfl | hc
    · rw [List.length_take]; rw [Nat.succ_mul] at h; omega
    · exact chunks_length w k (l.drop w) (by rw [List.length_drop]; rw [Nat.succ_mul] at h; omega) c hc

theorem chunks_sum (w : Nat) : ∀ (k : Nat) (l : List α), k * w ≤ l.length →
    ((chunks w k l).map List.sum).sum = (l.take (k * w)).sum
  | 0, l, _ => by simp [chunks]
  | k+1, l, h => by
    have hd : k * w ≤ (l.drop w).length := by rw [List.length_drop]; rw [Nat.succ_mul] at h; omega
    simp only [chunks, List.map_cons, List.sum_cons]
    rw [chunks_sum w k (l.drop w) hd]
    have : (k + 1) * w = w + k * w := by ring
    rw [this, ← List.sum_append]
    congr 1
    rw [← List.take_add]  -- take (w + k*w) l = take w l ++ take (k*w) (drop w l)

theorem foldl_addLanes_sum (w : Nat) : ∀ (cs : List (List α)) (acc : List α), acc.length = w →
    (∀ c ∈ cs, c.length = w) → (cs.foldl (addLanes E) acc).sum = acc.sum + (cs.map List.sum).sum
  | [], acc, _, _ => by simp
  | c :: cs, acc, ha, hc => by
    simp only [List.foldl_cons, List.map_cons, List.sum_cons]
    have hcl := hc c List.mem_cons_self
    rw [foldl_addLanes_sum w cs _ (by rw [addLanes_length sq ab acc c (by rw [ha, hcl]), ha])
      (fun d hd => hc d (List.mem_cons_of_mem _ hd))]
    rw [addLanes_sum sq ab acc c (by rw [ha, hcl])]
    abel

theorem foldl_addLanes_length (w : Nat) : ∀ (cs : List (List α)) (acc : List α), acc.length = w →
    (∀ c ∈ cs, c.length = w) → (cs.foldl (addLanes E) acc).length = w
  | [], acc, ha, _ => ha
  | c :: cs, acc, ha, hc => by
    simp only [List.foldl_cons]
    exact foldl_addLanes_length w cs _
      (by rw [addLanes_length sq ab acc c (by rw [ha, hc c List.mem_cons_self]), ha])
      (fun d hd => hc d (List.mem_cons_of_mem _ hd))

/-- the accumulator register holds, lane-wise, a rearrangement of the terms of the full blocks -/
theorem lanes_sum (w : Nat) (hw : 0 < w) (terms : List α) :
    (lanes E w terms).sum = (terms.take ((terms.length / w) * w)).sum ∧ (lanes E w terms).length = w := by
  have hk : (terms.length / w) * w ≤ terms.length := Nat.div_mul_le_self _ _
  have hc := chunks_length (α := α) w (terms.length / w) terms hk
  unfold lanes
  constructor
  · rw [foldl_addLanes_sum sq ab w _ _ (by simp) hc, chunks_sum w _ _ hk]
    simp [exactOps]
  · exact foldl_addLanes_length sq ab w _ _ (by simp) hc

theorem hsum8_eq (v : List α) (h : v.length = 8) : hsum8 E v = v.sum := by
  match v, h with
  | [a, b, c, d, e, f, g, i], _ =>
    simp only [hsum8, List.getD_cons_zero, List.getD_cons_succ, List.sum_cons, List.sum_nil]
    show ((a + b) + (c + d)) + ((e + f) + (g + i)) = _
    abel

theorem hsum4_eq (v : List α) (h : v.length = 4) : hsum4 E v = v.sum := by
  match v, h with
  | [a, b, c, d], _ =>
    simp only [hsum4, List.getD_cons_zero, List.getD_cons_succ, List.sum_cons, List.sum_nil]
    show ((a + b) + c) + d = _
    abel

theorem foldl_add_sum (l : List α) (init : α) : l.foldl (E).add init = init + l.sum := by
  induction l generalizing init with
  | nil => simp
  | cons x t ih =>
    simp only [List.foldl_cons, List.sum_cons]
    rw [ih]
    show init + x + t.sum = _
    abel

/-- **Blocked reduction = plain sum** (8 lanes with the `vhaddps` tree, or 4 lanes left to right),
for every length, when the vector part and the tail apply the same per-element function. -/
theorem blocked_eq_sum (w : Nat) (hw : w = 8 ∨ w = 4) (f : α → α → α) (a b : List α)
    (hab : a.length = b.length) :
    blocked E w f f a b = (List.zipWith f a b).sum := by
  have hwpos : 0 < w := by rcases hw with h | h <;> omega
  unfold blocked
  simp only
  set m := (a.length / w) * w with hm
  have hma : m ≤ a.length := Nat.div_mul_le_self _ _
  have hvl : (List.zipWith f (a.take m) (b.take m)).length = m := by
    simp [List.length_zipWith, List.length_take]; omega
  obtain ⟨hs, hl⟩ := lanes_sum sq ab w hwpos (List.zipWith f (a.take m) (b.take m))
  rw [foldl_add_sum]
  have hh : hsum E w (lanes E w (List.zipWith f (a.take m) (b.take m))) =
      (lanes E w (List.zipWith f (a.take m) (b.take m))).sum := by
    unfold hsum
    rcases hw with h | h
    · subst h; simp only [beq_self_eq_true, if_true]; exact hsum8_eq sq ab _ hl
    · subst h; simp only [show (4 == 8) = false from rfl]; exact hsum4_eq sq ab _ hl
  rw [hh, hs, hvl]
  have hdiv : m / w * w = m := by
    rw [hm, Nat.mul_div_cancel _ hwpos]
  rw [hdiv, List.take_of_length_le (by rw [hvl])]
  rw [← List.sum_append, ← List.zipWith_append (by simp [List.length_take]; omega)]
  rw [List.take_append_drop, List.take_append_drop]

end

/-! ### consequences in an ordered field -/

section
variable {α : Type} [Field α] [LinearOrder α] [IsStrictOrderedRing α] (sq : α → α)

local notation "E" => exactOps α sq (fun x => |x|)

theorem zipWith_comm_of (f : α → α → α) (hf : ∀ x y, f x y = f y x) :
    ∀ (a b : List α), List.zipWith f a b = List.zipWith f b a
  | [], [] => rfl
  | [], _ :: _ => rfl
  | _ :: _, [] => rfl
  | x :: xs, y :: ys => by simp [hf x y, zipWith_comm_of f hf xs ys]

theorem sqDiff_comm (x y : α) : sqDiff E x y = sqDiff E y x := by
  show (x - y) * (x - y) = (y - x) * (y - x); ring

/-- squared Euclidean distance: symmetric, non-negative, zero on self (exact arithmetic), for the
AVX, the SSE and the portable evaluation order alike -/
theorem euclidSq_props (w : Nat) (hw : w = 8 ∨ w = 4) (a b : List α) (hab : a.length = b.length) :
    euclidSq E w a b = euclidSq E w b a ∧ 0 ≤ euclidSq E w a b ∧ euclidSq E w a a = 0 := by
  unfold euclidSq
  rw [blocked_eq_sum sq _ w hw _ a b hab, blocked_eq_sum sq _ w hw _ b a hab.symm,
    blocked_eq_sum sq _ w hw _ a a rfl]
  refine ⟨by rw [zipWith_comm_of _ (sqDiff_comm sq) a b], ?_, ?_⟩
  · apply List.sum_nonneg
    intro t ht
    obtain ⟨i, hi, rfl⟩ := List.mem_iff_getElem.mp ht
    simp only [List.getElem_zipWith]
    exact mul_self_nonneg _
  · have : List.zipWith (sqDiff E) a a = a.map fun _ => 0 := by
      induction a with
      | nil => rfl
      | cons x t ih =>
        simp only [List.zipWith_cons_cons, List.map_cons]
        rw [List.zipWith_self] at ih ⊢
        simp [sqDiff, exactOps]
    rw [this]
    simp

/-- AVX, SSE and the portable kernel agree exactly on the squared Euclidean distance -/
theorem euclid_impls_agree (a b : List α) (hab : a.length = b.length) :
    euclidSq E 8 a b = euclidSq E 4 a b ∧ euclidSq E 8 a b = seqSum E (sqDiff E) a b := by
  unfold euclidSq seqSum
  rw [blocked_eq_sum sq _ 8 (Or.inl rfl) _ a b hab, blocked_eq_sum sq _ 4 (Or.inr rfl) _ a b hab,
    foldl_add_sum]
  simp [exactOps]

/-- Manhattan: when `sqrt (x*x) = |x|` (true in the reals; *not* in floating point once `x*x`
under- or overflows — the known findings) the vector part and the tail compute the same terms,
so the blocked kernels equal the portable sum of `|aᵢ - bᵢ|`; symmetric, non-negative, zero on self -/
theorem manhattan_props (hsq : ∀ x : α, sq (x * x) = |x|) (w : Nat) (hw : w = 8 ∨ w = 4)
    (a b : List α) (hab : a.length = b.length) :
    manhattan E w a b = nativeManhattan E a b ∧ manhattan E w a b = manhattan E w b a ∧
    0 ≤ manhattan E w a b ∧ manhattan E w a a = 0 := by
  have hf : (fun x y => (E).sqrt (sqDiff E x y)) = fun x y => (E).abs ((E).sub x y) := by
    funext x y
    show sq ((x - y) * (x - y)) = |x - y|
    exact hsq _
  have hman : ∀ (u v : List α), u.length = v.length →
      manhattan E w u v = (List.zipWith (fun x y => |x - y|) u v).sum := by
    intro u v huv
    unfold manhattan
    rw [hf, blocked_eq_sum sq _ w hw _ u v huv]
    rfl
  refine ⟨?_, ?_, ?_, ?_⟩
  · rw [hman a b hab]
    unfold nativeManhattan seqSum
    rw [foldl_add_sum]
    simp [exactOps]
  · rw [hman a b hab, hman b a hab.symm, zipWith_comm_of _ (fun x y => abs_sub_comm x y) a b]
  · rw [hman a b hab]
    apply List.sum_nonneg
    intro t ht
    obtain ⟨i, hi, rfl⟩ := List.mem_iff_getElem.mp ht
    simp only [List.getElem_zipWith]
    exact abs_nonneg _
  · rw [hman a a rfl]
    have : List.zipWith (fun x y : α => |x - y|) a a = a.map fun _ => 0 := by
      rw [List.zipWith_self]; simp
    rw [this]; simp

/-- cosine: the three sums (dot, ‖a‖², ‖b‖²) of the blocked kernels are the plain sums -/
theorem cosine_sums (w : Nat) (hw : w = 8 ∨ w = 4) (a b : List α) (hab : a.length = b.length) :
    blocked E w (E).mul (E).mul a b = (List.zipWith (· * ·) a b).sum ∧
    blocked E w (fun x _ => (E).mul x x) (fun x _ => (E).mul x x) a b = (List.zipWith (fun x _ => x * x) a b).sum ∧
    blocked E w (fun _ y => (E).mul y y) (fun _ y => (E).mul y y) a b = (List.zipWith (fun _ y => y * y) a b).sum :=
  ⟨blocked_eq_sum sq _ w hw _ a b hab, blocked_eq_sum sq _ w hw _ a b hab, blocked_eq_sum sq _ w hw _ a b hab⟩

/-- cosine is symmetric in exact arithmetic (dot product and the product of the squared norms are) -/
theorem cosine_symm (w : Nat) (hw : w = 8 ∨ w = 4) (a b : List α) (hab : a.length = b.length) :
    cosine E w a b = cosine E w b a := by
  unfold cosine
  obtain ⟨h1, h2, h3⟩ := cosine_sums sq w hw a b hab
  obtain ⟨g1, g2, g3⟩ := cosine_sums sq w hw b a hab.symm
  simp only [h1, h2, h3, g1, g2, g3]
  have e1 : List.zipWith (fun x y : α => x * y) a b = List.zipWith (fun x y => x * y) b a :=
    zipWith_comm_of _ (fun x y => mul_comm x y) a b
  have e2 : ∀ (u v : List α), u.length = v.length →
      (List.zipWith (fun x _ : α => x * x) u v) = (List.zipWith (fun _ y : α => y * y) v u) := by
    intro u
    induction u with
    | nil => intro v h; cases v <;> simp_all
    | cons x t ih =>
      intro v h
      cases v with
      | nil => simp at h
      | cons y s => simp only [List.zipWith_cons_cons]; rw [ih s (by simpa using h)]
  rw [e1, e2 a b hab, e2 b a hab.symm]
  show 1 - _ / sq (_ * _) = 1 - _ / sq (_ * _)
  rw [mul_comm]

/-- **cosine: AVX = SSE = portable in exact arithmetic**, provided the square root is
multiplicative on the two squared norms (`√(x·y) = √x·√y`): the kernels divide by `√(‖a‖²·‖b‖²)`,
the portable code by `√‖a‖²·√‖b‖²`. In float32 the product `‖a‖²·‖b‖²` can leave the range where
neither factor's root does: the known findings. -/
theorem cosine_impls_agree (w : Nat) (hw : w = 8 ∨ w = 4) (a b : List α) (hab : a.length = b.length)
    (hmul : sq ((List.zipWith (fun x _ => x * x) a b).sum * (List.zipWith (fun _ y => y * y) a b).sum) =
      sq (List.zipWith (fun x _ => x * x) a b).sum * sq (List.zipWith (fun _ y => y * y) a b).sum) :
    cosine E w a b = nativeCosine E a b := by
  unfold cosine nativeCosine
  obtain ⟨h1, h2, h3⟩ := cosine_sums sq w hw a b hab
  simp only [h1, h2, h3]
  have hs : ∀ (f : α → α → α), seqSum E f a b = (List.zipWith f a b).sum := by
    intro f; unfold seqSum; rw [foldl_add_sum]; simp [exactOps]
  rw [hs, hs, hs]
  show 1 - _ / sq (_ * _) = 1 - _ / (sq _ * sq _)
  rw [hmul]
  rfl

end

/-! ### which elements are read: every index below the length, each exactly once -/

theorem vecLoads_eq (w : Nat) : ∀ (k : Nat),
    ((List.range k).flatMap fun blk => (List.range w).map fun l => blk * w + l) = List.range (k * w)
  | 0 => by simp
  | k+1 => by
    rw [List.range_succ, List.flatMap_append, vecLoads_eq w k]
    simp only [List.flatMap_cons, List.flatMap_nil, List.append_nil]
    have : (k + 1) * w = k * w + w := by ring
    rw [this, List.range_add]

/-- **loads cover exactly the vector**: vector loop then scalar tail read the indices
`0, 1, …, n-1`, in order, each once, and nothing else -/
theorem loads_exact (w n : Nat) : vecLoads w n ++ tailLoads w n = List.range n := by
  unfold vecLoads tailLoads
  rw [vecLoads_eq w (n / w)]
  have h : n = (n / w) * w + (n - (n / w) * w) := by
    have := Nat.div_mul_le_self n w; omega
  conv_rhs => rw [h, List.range_add]

theorem loads_in_bounds (w n i : Nat) (h : i ∈ vecLoads w n ++ tailLoads w n) : i < n := by
  rw [loads_exact] at h; exact List.mem_range.mp h

end Anndb.Simd
