import Anndb.Model.SharedGroup
/-! Lemmas about the shared group's snapshot / restore (C14, C20). -/
namespace Anndb.Shared

variable {σ β : Type}

theorem update_same (st : State σ) (n : String) (v : σ) : update st n v n = v := by simp [update]
theorem update_other (st : State σ) (n m : String) (v : σ) (h : m ≠ n) : update st n v m = st m := by simp [update, h]

/-- restoring parts of consumers other than `n` leaves `n` alone -/
theorem restore_untouched (ops : String → Consumer σ β) (n : String) :
    ∀ (snap : List (String × β)) (st : State σ), (∀ e ∈ snap, e.1 ≠ n) → restore ops st snap n = st n
  | [], _, _ => rfl
  | e :: rest, st, h => by
    unfold restore
    simp only [List.foldl_cons]
    have := restore_untouched ops n rest (update st e.1 ((ops e.1).restore (st e.1) e.2))
      (fun x hx => h x (List.mem_cons_of_mem _ hx))
    unfold restore at this
    rw [this, update_other _ _ _ _ (fun hn => h e List.mem_cons_self hn.symm)]

/-- a consumer that appears once in the snapshot ends up with `restore (its old state) (its part)` -/
theorem restore_listed (ops : String → Consumer σ β) (n : String) (b : β) :
    ∀ (snap : List (String × β)) (st : State σ), (n, b) ∈ snap → (snap.map (·.1)).Nodup →
      restore ops st snap n = (ops n).restore (st n) b
  | [], _, h, _ => by simp at h
  | e :: rest, st, h, hnd => by
    simp only [List.map_cons, List.nodup_cons] at hnd
    rcases List.mem_cons.mp h with rfl | hin
    · unfold restore
      simp only [List.foldl_cons]
      have := restore_untouched ops n rest (update st n ((ops n).restore (st n) b))
        (fun x hx hxn => hnd.1 (by rw [← hxn]; exact List.mem_map_of_mem (f := (·.1)) hx))
      unfold restore at this
      rw [this, update_same]
    · have hne : e.1 ≠ n := fun he => hnd.1 (by rw [he]; exact List.mem_map_of_mem (f := (·.1)) hin)
      unfold restore
      simp only [List.foldl_cons]
      have := restore_listed ops n b rest (update st e.1 ((ops e.1).restore (st e.1) e.2)) hin hnd.2
      unfold restore at this
      rw [this, update_other _ _ _ _ (fun h => hne h.symm)]

theorem snapshot_names (ops : String → Consumer σ β) (keep : Bool) (st : State σ) :
    ∀ (names : List String), ((snapshot ops names keep st).map (·.1)).Sublist names
  | [] => by simp [snapshot]
  | n :: rest => by
    have ih := snapshot_names ops keep st rest
    unfold snapshot at ih ⊢
    simp only [List.filterMap_cons]
    split
    · exact ih.cons _
    · next h =>
      split at h
      · cases h; simp only [List.map_cons]; exact ih.cons_cons _
      · cases h

theorem snapshot_nodup (ops : String → Consumer σ β) (keep : Bool) (st : State σ) (names : List String)
    (h : names.Nodup) : ((snapshot ops names keep st).map (·.1)).Nodup :=
  (snapshot_names ops keep st names).nodup h

theorem mem_snapshot_keep (ops : String → Consumer σ β) (st : State σ) (names : List String) (n : String)
    (h : n ∈ names) : (n, (ops n).snapshot (st n)) ∈ snapshot ops names true st := by
  unfold snapshot
  rw [List.mem_filterMap]
  exact ⟨n, h, by simp⟩

end Anndb.Shared
