import Anndb.Model.TornTail

namespace Anndb.TornTail

theorem parse_nil : parse [] = ([], true) := by
  rw [parse]

theorem parse_cons (n : Nat) (rest : List Nat) :
    parse (n :: rest) = if n ≤ rest.length then (rest.take n :: (parse (rest.drop n)).1, (parse (rest.drop n)).2) else ([], false) := by
  rw [parse]

theorem parse_encodeAll_append (rs : List Rec) (tail : List Nat) :
    parse (encodeAll rs ++ tail) = (rs ++ (parse tail).1, (parse tail).2) := by
  induction rs with
  | nil => simp [encodeAll]
  | cons r rs ih =>
    have : encodeAll (r :: rs) ++ tail = r.length :: (r ++ (encodeAll rs ++ tail)) := by
      simp [encodeAll, encode]
    rw [this, parse_cons]
    have hle : r.length ≤ (r ++ (encodeAll rs ++ tail)).length := by simp
    rw [if_pos hle]
    simp [ih]

theorem parse_torn (r : Rec) (k : Nat) (h0 : 0 < k) (hk : k < (encode r).length) :
    parse ((encode r).take k) = ([], false) := by
  obtain ⟨j, rfl⟩ : ∃ j, k = j + 1 := ⟨k - 1, by omega⟩
  simp only [encode, List.take_succ_cons, List.length_cons] at *
  rw [parse_cons]
  have : ¬ r.length ≤ (List.take j r).length := by
    simp [List.length_take]; omega
  rw [if_neg this]

end Anndb.TornTail
