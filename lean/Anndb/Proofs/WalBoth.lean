import Anndb.Proofs.WalBelow
/-!
# C06: a `Save` that carries a received snapshot *and* entries

etcd/raft can hand over both in one `Ready` (a follower that restored a snapshot and received an
append before the `Ready` was taken; the entries then start right after the snapshot's index).
`badgerWAL.Save` wipes the log, writes the snapshot and its dummy entry, the entries and the hard
state in one batch (order: repair D13). `save_seq` shows that this is exactly `Save(snapshot)`
followed by `Save(entries, hard state)`; `save_both_refines` composes the two refinement theorems:
the result is `MemoryStorage.ApplySnapshot`, then `Append`, then `SetHardState`.
-/
namespace Anndb.Wal

theorem emptyHS_isEmpty : emptyHS.isEmpty = true := by decide

/-- `writeEntries` on a store whose caches hold a snapshot `s` and a last index `l`, for a batch
that starts right after the snapshot and ends above `l`: the batch is written as it is, nothing
is deleted, whatever the disk holds -/
theorem writeEntries_after_snapshot (d : Disk) (c : Cache) (s : Snap) (hsne : s.isEmpty = false)
    (hc : c.snap = some s) (l : Nat) (hl : c.last = some l) (es : List Entry) (hes : Contig es)
    (e0 : Entry) (he0 : es.head? = some e0) (hstart : e0.index = s.index + 1) (hl' : l ≤ s.index) :
    (⟨d, c⟩ : Wal).writeEntries es =
      .ok (es.map BOp.setEntry, ⟨d, { c with last := some ((es.getLast?.getD default).index) }⟩) := by
  obtain ⟨el, hel⟩ : ∃ el, es.getLast? = some el := by
    cases hx : es.getLast? with
    | none => rw [List.getLast?_eq_none_iff.mp hx] at he0; simp at he0
    | some el => exact ⟨el, rfl⟩
  have hge := hes.getLast_index e0 el he0 hel
  cases es with
  | nil => simp at he0
  | cons x rest =>
    have hx : x = e0 := by simpa using he0
    subst hx
    have hskip : ¬ (x.index + (x :: rest).length - 1 < s.index + 1) := by
      simp only [List.length_cons]; omega
    have hlow : ¬ (s.index + 1 > x.index) := by omega
    have hgt : ¬ (l > el.index) := by omega
    simp only [Wal.writeEntries, Wal.firstIndex, Wal.cachedSnap, hc, hsne, Bool.false_eq_true, if_false,
      Wal.lastIndex, hl, bind, Except.bind, hskip, hlow, hel, Option.getD_some, hgt]

/-- **one batch = two saves** -/
theorem save_seq (w : Wal) (hs : HardState) (es : List Entry) (s : Snap) (hsne : s.isEmpty = false)
    (hes : Contig es) (e0 : Entry) (he0 : es.head? = some e0) (hstart : e0.index = s.index + 1) :
    (w.save emptyHS [] s).bind (fun w' => w'.save hs es emptySnap) = w.save hs es s := by
  have h1 : w.save emptyHS [] s = .ok
      { disk := w.disk.flush (w.delFrom 0 ++ [BOp.setSS s, BOp.setEntry ⟨s.index, s.term, 0, 0⟩]),
        cache := { snap := some s, first := w.cache.first, last := some s.index } } := by
    unfold Wal.save
    simp only [hsne, Bool.false_eq_true, if_false, Wal.writeSnapshot, Wal.writeEntries, bind, Except.bind,
      emptyHS_isEmpty, if_true, List.append_nil]
  have hE : emptySnap.isEmpty = true := by decide
  let c1 : Cache := { snap := some s, first := w.cache.first, last := some s.index }
  have hwe : ∀ d : Disk, (⟨d, c1⟩ : Wal).writeEntries es =
      .ok (es.map BOp.setEntry, ⟨d, { c1 with last := some ((es.getLast?.getD default).index) }⟩) :=
    fun d => writeEntries_after_snapshot d c1 s hsne rfl s.index rfl es hes e0 he0 hstart (Nat.le_refl _)
  have h2 : w.save hs es s = .ok
      { disk := w.disk.flush (w.delFrom 0 ++ [BOp.setSS s, BOp.setEntry ⟨s.index, s.term, 0, 0⟩]
          ++ es.map BOp.setEntry ++ (if hs.isEmpty then [] else [BOp.setHS hs])),
        cache := { c1 with last := some ((es.getLast?.getD default).index) } } := by
    unfold Wal.save
    simp only [hsne, Bool.false_eq_true, if_false, Wal.writeSnapshot]
    have := hwe w.disk
    simp only [c1] at this
    simp only [this, bind, Except.bind]
    rfl
  have h3 : Wal.save ⟨w.disk.flush (w.delFrom 0 ++ [BOp.setSS s, BOp.setEntry ⟨s.index, s.term, 0, 0⟩]), c1⟩ hs es emptySnap = .ok
      { disk := (w.disk.flush (w.delFrom 0 ++ [BOp.setSS s, BOp.setEntry ⟨s.index, s.term, 0, 0⟩])).flush
          ([] ++ es.map BOp.setEntry ++ (if hs.isEmpty then [] else [BOp.setHS hs])),
        cache := { c1 with last := some ((es.getLast?.getD default).index) } } := by
    unfold Wal.save
    simp only [hE, if_true]
    have := hwe (w.disk.flush (w.delFrom 0 ++ [BOp.setSS s, BOp.setEntry ⟨s.index, s.term, 0, 0⟩]))
    simp only [this, bind, Except.bind]
  rw [h1]
  show Wal.save _ hs es emptySnap = _
  rw [h3, h2]
  congr 2
  simp only [List.nil_append, List.append_assoc, flush_append]

/-- **`Save` with a received snapshot and the entries that follow it refines `ApplySnapshot`,
`Append`, `SetHardState`** -/
theorem save_both_refines (w : Wal) (h : WF w) (hs : HardState) (s : Snap) (es : List Entry)
    (hnew : (abs w).snap.index < s.index) (hes : Contig es) (e0 : Entry) (he0 : es.head? = some e0)
    (hstart : e0.index = s.index + 1) :
    ∃ w' m1, w.save hs es s = .ok w' ∧ WF w' ∧ (abs w).applySnapshot s = .ok m1 ∧
      abs w' = { m1.append es with hs := if hs.isEmpty then (abs w).hs else hs } := by
  have hsne : s.isEmpty = false := by simp [Snap.isEmpty]; omega
  have hboth := save_seq w hs es s hsne hes e0 he0 hstart
  obtain ⟨w1', m1, hw1', hwf1, hm1, habs1⟩ := save_snapshot_refines w h emptyHS s hnew
  rw [hw1'] at hboth
  have hboth : w1'.save hs es emptySnap = w.save hs es s := hboth
  simp only [emptyHS_isEmpty, if_true] at habs1
  have hm1' : m1 = { abs w with snap := s, ents := [⟨s.index, s.term, 0, 0⟩] } := by
    unfold Mem.applySnapshot at hm1
    have : ¬ ((abs w).snap.index ≥ s.index) := by omega
    simp only [this, if_false] at hm1
    exact (Except.ok.inj hm1).symm
  have hlast : (abs w1').lastIndex = s.index := by
    rw [habs1, hm1']; simp [Mem.lastIndex, Mem.offset]
  obtain ⟨w2, hw2, hwf2, habs2⟩ := save_entries_any_start w1' hwf1 hs es hes e0 he0 (by rw [hlast]; omega)
  refine ⟨w2, m1, by rw [← hboth]; exact hw2, hwf2, hm1, ?_⟩
  rw [habs2, habs1, hm1']

/-! ## histories with combined saves -/

inductive WOpX where
  | base (op : WOp)
  /-- a `Ready` carrying a received snapshot and the entries that follow it -/
  | installWith (hs : HardState) (s : Snap) (es : List Entry)

def runMX : Mem → List WOpX → Option Mem
  | m, [] => some m
  | m, .base op :: rest => (runMA m [op]).bind fun m1 => runMX m1 rest
  | m, .installWith hs s es :: rest =>
    match es with
    | [] => none
    | e0 :: _ =>
      if m.snap.index < s.index ∧ e0.index = s.index + 1 then
        match m.applySnapshot s with
        | .ok m1 => runMX { m1.append es with hs := if hs.isEmpty then m.hs else hs } rest
        | .error _ => none
      else none

def runWX : Wal → List WOpX → Option Wal
  | w, [] => some w
  | w, .base op :: rest => (runW w [op]).bind fun w1 => runWX w1 rest
  | w, .installWith hs s es :: rest =>
    match w.save hs es s with
    | .ok w' => runWX w' rest
    | .error _ => none

def WOpX.batch : WOpX → List Entry
  | .base (.append _ es) => es
  | .installWith _ _ es => es
  | _ => []

/-- **C06, refinement along histories, every kind of `Save`** -/
theorem run_refines_x (ops : List WOpX) (w : Wal) (m m' : Mem) (h : WF w) (ha : abs w = m)
    (hes : ∀ op ∈ ops, Contig op.batch) (hm : runMX m ops = some m') :
    ∃ w', runWX w ops = some w' ∧ WF w' ∧ abs w' = m' := by
  induction ops generalizing w m with
  | nil =>
    simp only [runMX, Option.some.injEq] at hm
    exact ⟨w, rfl, h, ha.trans hm⟩
  | cons op rest ih =>
    have hes' : ∀ o ∈ rest, Contig o.batch := fun o ho => hes o (List.mem_cons_of_mem _ ho)
    cases op with
    | base op =>
      simp only [runMX] at hm
      cases h1 : runMA m [op] with
      | none => rw [h1] at hm; cases hm
      | some m1 =>
        rw [h1] at hm
        obtain ⟨w1, hr1, hwf1, habs1⟩ := run_refines_any_start [op] w m m1 h ha (by
          intro hs es hmem
          simp only [List.mem_cons, List.not_mem_nil, or_false] at hmem
          have := hes (.base op) List.mem_cons_self
          rw [← hmem] at this
          exact this) h1
        obtain ⟨w2, hr2, hwf2, habs2⟩ := ih w1 m1 hwf1 habs1 hes' hm
        exact ⟨w2, by simp only [runWX, hr1]; exact hr2, hwf2, habs2⟩
    | installWith hs s es =>
      cases es with
      | nil => simp [runMX] at hm
      | cons e0 t =>
        simp only [runMX] at hm
        split at hm
        · rename_i hleg
          subst ha
          obtain ⟨w1, m1, hs1, hwf1, hm1, habs1⟩ := save_both_refines w h hs s (e0 :: t) hleg.1
            (hes (.installWith hs s (e0 :: t)) List.mem_cons_self) e0 rfl hleg.2
          rw [hm1] at hm
          simp only at hm
          obtain ⟨w2, hr, hwf2, habs2⟩ := ih w1 _ hwf1 habs1 hes' hm
          exact ⟨w2, by simp only [runWX, hs1]; exact hr, hwf2, habs2⟩
        · cases hm

end Anndb.Wal
