import Anndb.Proofs.HnswInv
import Anndb.Model.Partition
/-!
# The effect of `insert` / `remove` / `reload` on the abstraction id ↦ (vector, metadata, level)

`absI s` is what a partition *means*: the finite map read off the live table. These lemmas say
that the whole linking machinery of HNSW is invisible through `absI`.
-/
namespace Anndb
open Index

/-- the abstraction function: id ↦ (vector, metadata, level) of the current incarnation -/
def absI (s : Index) (i : ItemId) : Option SItem :=
  (s.live i).bind fun v => (s.verts v).map fun x => ⟨x.vec, x.md, x.level⟩

theorem absI_congr {s s' : Index} (hl : s'.live = s.live)
    (hc : ∀ v, (s'.verts v).map Vertex.core = (s.verts v).map Vertex.core) : absI s' = absI s := by
  funext i
  unfold absI
  rw [hl]
  cases s.live i with
  | none => rfl
  | some v =>
    simp only [Option.bind_some]
    have := hc v
    cases h1 : s.verts v <;> cases h2 : s'.verts v <;> simp [h1, h2, Vertex.core] at this ⊢
    obtain ⟨_, h3, h4, h5, _⟩ := this
    simp [h3, h4, h5]

theorem absI_of_frame {s s' : Index} (h : EdgeFrame s s') : absI s' = absI s :=
  absI_congr h.live h.core

theorem absI_entry (s : Index) (e : Option Vid) : absI { s with entry := e } = absI s := rfl

theorem absI_none_of_live_none {s : Index} {i : ItemId} (h : s.live i = none) : absI s i = none := by
  simp [absI, h]

theorem absI_some_of_live {s : Index} (ha : Alloc s) {i : ItemId} {v : Vid} (h : s.live i = some v) :
    ∃ it, absI s i = some it := by
  obtain ⟨x, hx, _⟩ := ha.liveAlloc i v h
  exact ⟨⟨x.vec, x.md, x.level⟩, by simp [absI, h, hx]⟩

theorem absI_isSome_iff {s : Index} (ha : Alloc s) (i : ItemId) : (absI s i).isSome ↔ s.live i ≠ none := by
  cases h : s.live i with
  | none => simp [absI, h]
  | some v =>
    obtain ⟨it, hit⟩ := absI_some_of_live ha h
    simp [hit]

/-- live is injective on well-formed states -/
theorem live_inj {s : Index} (hi : Inv s) (ha : Alloc s) {i j : ItemId} {v : Vid}
    (h1 : s.live i = some v) (h2 : s.live j = some v) : i = j := by
  obtain ⟨x, hx, hxi⟩ := ha.liveAlloc i v h1
  obtain ⟨y, hy, hyj⟩ := ha.liveAlloc j v h2
  rw [hx] at hy; cases hy
  exact hxi.symm.trans hyj

section
variable {Pmin Pmax : PQImpl} {dist : VecRef → VecRef → Score} (cfg : Cfg)

/-- `insert` fails exactly on a live id -/
theorem insert_isOk_iff (s : Index) (id : ItemId) (vec : VecRef) (md : Meta) (level : Nat) :
    (∃ s', insert Pmin Pmax dist cfg s id vec md level = .ok s') ↔ s.live id = none := by
  unfold insert
  cases hl : s.live id with
  | some v => simp
  | none =>
    refine ⟨fun _ => rfl, fun _ => ?_⟩
    cases s.entry with
    | none => exact ⟨_, rfl⟩
    | some ep => exact ⟨_, rfl⟩

theorem insert_error (s : Index) (id : ItemId) (vec : VecRef) (md : Meta) (level : Nat) (e : Err)
    (h : insert Pmin Pmax dist cfg s id vec md level = .error e) : s.live id ≠ none := by
  intro hl
  obtain ⟨s', hs⟩ := (insert_isOk_iff (Pmin := Pmin) (Pmax := Pmax) (dist := dist) cfg s id vec md level).mpr hl
  rw [hs] at h; cases h

/-- effect of the `store` step on the abstraction -/
theorem absI_store (s : Index) (id : ItemId) (x : Vertex) (ha : Alloc s) (i : ItemId) :
    absI (store s id x).1 i = if i = id then some ⟨x.vec, x.md, x.level⟩ else absI s i := by
  have hverts : ∀ u, (store s id x).1.verts u = if u = s.next then some x else s.verts u := fun _ => rfl
  have hlive : ∀ j, (store s id x).1.live j = if j = id then some s.next else s.live j := fun _ => rfl
  unfold absI
  rw [hlive]
  by_cases hi : i = id
  · simp [hi, hverts]
  · simp only [hi, if_false]
    cases hl : s.live i with
    | none => rfl
    | some u =>
      simp only [Option.bind_some]
      obtain ⟨y, hy, _⟩ := ha.liveAlloc i u hl
      have hne : u ≠ s.next := by
        intro he; rw [he, ha.fresh s.next (Nat.le_refl _)] at hy; cases hy
      rw [hverts]; simp [hne]

/-- **effect of `insert`**: exactly the new id is added, with the given vector and metadata,
at the drawn level (level 0 for the very first item); `ids` gets the id prepended -/
theorem insert_effect (s : Index) (id : ItemId) (vec : VecRef) (md : Meta) (level : Nat)
    (ha : Alloc s) (s' : Index) (h : insert Pmin Pmax dist cfg s id vec md level = .ok s') :
    s.live id = none ∧
    (∀ i, absI s' i = if i = id then some ⟨vec, md, if s.entry = none then 0 else level⟩ else absI s i) ∧
    s'.ids = id :: s.ids := by
  unfold insert at h
  cases hl : s.live id with
  | some v => simp [hl] at h
  | none =>
    refine ⟨rfl, ?_⟩
    simp only [hl] at h
    cases he : s.entry with
    | none =>
      simp only [he] at h
      injection h with h
      rw [← h]
      refine ⟨?_, rfl⟩
      intro i
      rw [absI_entry]
      exact absI_store s id (newVertex id vec md 0) ha i
    | some ep =>
      simp only [he] at h
      injection h with h
      generalize hst : store s id (newVertex id vec md level) = st at h
      have hab := absI_store s id (newVertex id vec md level) ha
      have hids : (store s id (newVertex id vec md level)).1.ids = id :: s.ids := rfl
      rw [hst] at hab hids
      obtain ⟨s1, v⟩ := st
      simp only at h hab hids
      generalize hdd : descend dist s1 vec level (s1.levelOf ep - level) ep (dist vec (s1.vecOf ep)) = dd at h
      obtain ⟨cur, dcur⟩ := dd
      simp only at h
      have fr := insertLevels_frame (Pmin := Pmin) (Pmax := Pmax) (dist := dist) cfg v vec
        (min (s1.levelOf cur) level) s1 cur
      have hA := absI_of_frame fr
      have hI := fr.ids
      split at h
      · rw [← h]
        refine ⟨?_, by show (insertLevels Pmin Pmax dist cfg v vec (min (s1.levelOf cur) level) s1 cur).ids = _; rw [hI, hids]⟩
        intro i
        rw [absI_entry, hA]
        simpa [newVertex] using hab i
      · rw [← h]
        refine ⟨?_, by rw [hI, hids]⟩
        intro i
        rw [hA]
        simpa [newVertex] using hab i

/-- `remove` fails exactly on an absent id -/
theorem remove_isOk_iff (s : Index) (id : ItemId) (pick : List ItemId → Option ItemId) :
    (∃ s', remove Pmin Pmax dist cfg s id pick = .ok s') ↔ s.live id ≠ none := by
  unfold remove
  cases hl : s.live id with
  | none => simp
  | some v => simp

/-- **effect of `remove`**: exactly the id is erased; nothing else changes -/
theorem remove_effect (s : Index) (id : ItemId) (pick : List ItemId → Option ItemId)
    (hi : Inv s) (ha : Alloc s) (s' : Index) (h : remove Pmin Pmax dist cfg s id pick = .ok s') :
    s.live id ≠ none ∧
    (∀ i, absI s' i = if i = id then none else absI s i) ∧
    s'.ids = s.ids.filter (· ≠ id) := by
  unfold remove at h
  cases hl : s.live id with
  | none => simp [hl] at h
  | some v =>
    refine ⟨by simp, ?_⟩
    simp only [hl] at h
    injection h with h
    have fr := unlinkAll_frame (Pmin := Pmin) (Pmax := Pmax) (dist := dist) cfg v
      ((handEntry (tombstone s id v) v pick).levelOf v + 1) (handEntry (tombstone s id v) v pick)
    have hhe : ∀ (t : Index), absI (handEntry t v pick) = absI t ∧ (handEntry t v pick).ids = t.ids := by
      intro t
      unfold handEntry
      split
      · split
        · exact ⟨rfl, rfl⟩
        · split <;> exact ⟨rfl, rfl⟩
      · exact ⟨rfl, rfl⟩
    rw [← h]
    refine ⟨?_, by rw [fr.ids, (hhe _).2]; rfl⟩
    intro i
    rw [absI_of_frame fr, (hhe _).1]
    -- the tombstone step
    obtain ⟨x, hx, hxid⟩ := ha.liveAlloc id v hl
    have hverts1 : ∀ u, (tombstone s id v).verts u = if u = v then some { x with deleted := true } else s.verts u := by
      intro u
      simp only [tombstone, Index.updVertex]
      by_cases hu : u = v
      · simp [hu, hx]
      · simp [hu]
    have hlive1 : ∀ j, (tombstone s id v).live j = if j = id then none else s.live j := fun _ => rfl
    unfold absI
    rw [hlive1]
    by_cases hii : i = id
    · simp [hii]
    · simp only [hii, if_false]
      cases hli : s.live i with
      | none => rfl
      | some u =>
        simp only [Option.bind_some]
        have hne : u ≠ v := by
          intro he
          rw [he] at hli
          exact hii (live_inj hi ha hli hl)
        rw [hverts1]; simp [hne]

end

/-- `Save` + `Load` is invisible through the abstraction -/
theorem absI_reload (s : Index) : absI s.reload = absI s := by
  apply absI_congr (s := s) (s' := s.reload) rfl
  intro v
  unfold Index.reload
  simp only
  cases s.verts v with
  | none => rfl
  | some x => rfl

end Anndb
