import Anndb.Proofs.PQLemmas
import Anndb.Proofs.HnswSelect
/-!
# Queue facts for the exactness proof (C07)

`Best l₁ l₂`: `l₁` is a sub-multiset of `l₂` and every element of `l₁` scores no more than every
element left out — `l₁` is a choice of the `|l₁|` best of `l₂`. `trimTo` on a max-queue and
`fillResult` from a min-queue both produce a `Best` selection of full length. -/
namespace Anndb

/-- a duplicate-free list of numbers below `n` has at most `n` elements -/
theorem nodup_bounded_length : ∀ (n : Nat) (l : List Nat), l.Nodup → (∀ x ∈ l, x < n) → l.length ≤ n := by
  intro n
  induction n with
  | zero =>
    intro l _ h
    cases l with
    | nil => simp
    | cons a t => exact absurd (h a List.mem_cons_self) (Nat.not_lt_zero _)
  | succ n ih =>
    intro l hnd h
    have h1 : (l.erase n).length ≤ n := by
      apply ih
      · exact hnd.erase n
      · intro x hx
        have hm := (hnd.mem_erase_iff).mp hx
        have := h x hm.2
        have hne : x ≠ n := hm.1
        omega
    have h2 := List.length_erase (a := n) (l := l)
    by_cases hm : n ∈ l
    · simp only [hm, if_true] at h2
      omega
    · simp only [hm, if_false] at h2
      omega

def Best (l₁ l₂ : List Item) : Prop :=
  ∃ rest, l₂.Perm (l₁ ++ rest) ∧ ∀ y ∈ l₁, ∀ x ∈ rest, y.score ≤ x.score

theorem Best.sub {l₁ l₂ : List Item} (h : Best l₁ l₂) : Sub l₁ l₂ := by
  obtain ⟨r, p, _⟩ := h; exact ⟨r, p⟩

theorem Best.refl (l : List Item) : Best l l := ⟨[], by simp, by simp⟩

theorem Best.of_perm {l₁ l₂ l₃ : List Item} (h : Best l₁ l₂) (p : l₂.Perm l₃) : Best l₁ l₃ := by
  obtain ⟨r, hp, hd⟩ := h
  exact ⟨r, p.symm.trans hp, hd⟩

namespace PQImpl
variable {P : PQImpl}

theorem trimTo_best (h : Lawful P maxBetter) (k fuel : Nat) (q : P.Q) :
    Best (P.toList (P.trimTo k fuel q)) (P.toList q) := by
  induction fuel generalizing q with
  | zero => exact Best.refl _
  | succ f ih =>
    unfold trimTo
    split
    · split
      · exact Best.refl _
      · rename_i x q' hp
        obtain ⟨r', p', d'⟩ := ih q'
        have hpop := h.pop_some _ _ _ hp
        refine ⟨x :: r', ?_, ?_⟩
        · refine hpop.1.trans ?_
          refine (List.Perm.cons x p').trans ?_
          exact List.perm_middle.symm
        · intro y hy z hz
          rcases List.mem_cons.mp hz with rfl | hz
          · have hyq' : y ∈ P.toList q' := p'.mem_iff.mpr (List.mem_append_left _ hy)
            exact hpop.2 y (hpop.1.mem_iff.mpr (List.mem_cons_of_mem _ hyq'))
          · exact d' y hy z hz
    · exact Best.refl _

theorem trimTo_len_ge (h : Lawful P maxBetter) (k fuel : Nat) (q : P.Q) :
    min k (P.len q) ≤ P.len (P.trimTo k fuel q) := by
  induction fuel generalizing q with
  | zero => simp only [trimTo]; omega
  | succ f ih =>
    unfold trimTo
    split
    · rename_i hgt
      have hne : P.toList q ≠ [] := by intro he; simp [len, he] at hgt
      obtain ⟨x, q', hp⟩ := h.pop_progress q hne
      simp only [hp]
      have hl := ((h.pop_some _ _ _ hp).1).length_eq
      simp only [List.length_cons] at hl
      have := ih q'
      simp only [len] at hgt this ⊢
      omega
    · omega

end PQImpl

section
variable {Pmin Pmax : PQImpl} (hmin : Lawful Pmin minBetter) (hmax : Lawful Pmax maxBetter)

include hmin hmax in
theorem fillResult_best (k fuel : Nat) (c : Pmin.Q) (r : Pmax.Q)
    (hdom : ∀ y ∈ Pmax.toList r, ∀ x ∈ Pmin.toList c, y.score ≤ x.score) :
    Best (Pmax.toList (fillResult Pmin Pmax k fuel c r)) (Pmax.toList r ++ Pmin.toList c) := by
  induction fuel generalizing c r with
  | zero => exact ⟨Pmin.toList c, List.Perm.refl _, hdom⟩
  | succ f ih =>
    unfold fillResult
    split
    · split
      · exact ⟨Pmin.toList c, List.Perm.refl _, hdom⟩
      · rename_i x c' hp
        have hpop := hmin.pop_some _ _ _ hp
        have p1 := hmax.push_perm r x
        have hdom' : ∀ y ∈ Pmax.toList (Pmax.push r x), ∀ z ∈ Pmin.toList c', y.score ≤ z.score := by
          intro y hy z hz
          have hzc : z ∈ Pmin.toList c := hpop.1.mem_iff.mpr (List.mem_cons_of_mem _ hz)
          rcases List.mem_cons.mp (p1.mem_iff.mp hy) with rfl | hyr
          · exact hpop.2 z hzc
          · exact hdom y hyr z hzc
        refine (ih c' (Pmax.push r x) hdom').of_perm ?_
        refine (List.Perm.append_right _ p1).trans ?_
        refine List.Perm.trans ?_ (List.Perm.append_left _ hpop.1.symm)
        simp only [List.cons_append]
        exact (List.perm_middle).symm
    · exact ⟨Pmin.toList c, List.Perm.refl _, hdom⟩

include hmin hmax in
theorem fillResult_len_ge (k fuel : Nat) (c : Pmin.Q) (r : Pmax.Q) (hf : Pmin.len c ≤ fuel) :
    min k (Pmax.len r + Pmin.len c) ≤ Pmax.len (fillResult Pmin Pmax k fuel c r) := by
  induction fuel generalizing c r with
  | zero =>
    simp only [fillResult]
    omega
  | succ f ih =>
    unfold fillResult
    split
    · rename_i hlt
      split
      · rename_i hnone
        have := hmin.pop_none _ hnone
        simp only [PQImpl.len, this, List.length_nil]
        omega
      · rename_i x c' hp
        have hl := ((hmin.pop_some _ _ _ hp).1).length_eq
        have p1 := (hmax.push_perm r x).length_eq
        simp only [List.length_cons] at hl p1
        have := ih c' (Pmax.push r x) (by simp only [PQImpl.len] at hf ⊢; omega)
        simp only [PQImpl.len] at this ⊢
        omega
    · omega

end
end Anndb
