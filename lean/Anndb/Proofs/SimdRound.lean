import Mathlib.Tactic.Ring
import Mathlib.Tactic.Linarith
import Mathlib.Tactic.Positivity
import Mathlib.Algebra.Order.Field.Basic
import Mathlib.Algebra.Order.AbsoluteValue.Basic
import Anndb.Proofs.SimdExact
/-!
# The kernels under rounding (C15): the standard model of floating-point arithmetic

`SimdExact` shows that in exact arithmetic the AVX, SSE and portable kernels are one function.
Here every operation is followed by a rounding `fl` about which only the *standard model* is
assumed: `|fl x - x| ≤ u * |x|` (for float32 with round-to-nearest `u = 2⁻²⁴`, valid as long as no
operation overflows or underflows). The same lane-faithful definitions (`Model/Simd.lean`),
instantiated at `roundedOps fl`, are then shown to stay within a relative error
`(1+u)^(n+c) - 1` of the exact sum, for every length, both lane widths and the sequential kernel:
"agree up to floating-point rounding" as a theorem.

`Err k x' x m` says: `x'` is an approximation of `x` that went through at most `k` roundings, on
the scale `m ≥ |x|`:  `|x' - x| ≤ ((1+u)^k - 1) * m`.
-/
namespace Anndb.Simd
set_option linter.unusedSectionVars false
set_option linter.unusedVariables false

section
variable {α : Type} [Field α] [LinearOrder α] [IsStrictOrderedRing α]

/-- each arithmetic operation is the exact one followed by `fl`; `abs` is exact (sign bit) -/
def roundedOps (fl : α → α) (sqrt : α → α) : Ops α :=
  ⟨0, 1, fun x y => fl (x + y), fun x y => fl (x - y), fun x y => fl (x * y), fun x y => fl (x / y),
   fun x => fl (sqrt x), fun x => |x|⟩

/-- the standard model of rounding with unit roundoff `u` -/
structure StdModel (fl : α → α) (u : α) : Prop where
  u_nonneg : 0 ≤ u
  err : ∀ x, |fl x - x| ≤ u * |x|

/-- `(1+u)^k - 1` -/
def gam (u : α) (k : Nat) : α := (1 + u) ^ k - 1

theorem gam_nonneg {u : α} (hu : 0 ≤ u) (k : Nat) : 0 ≤ gam u k := by
  unfold gam
  have : (1 : α) ≤ (1 + u) ^ k := one_le_pow₀ (by linarith)
  linarith

theorem gam_mono {u : α} (hu : 0 ≤ u) {j k : Nat} (h : j ≤ k) : gam u j ≤ gam u k := by
  unfold gam
  have : (1 + u) ^ j ≤ (1 + u) ^ k := pow_le_pow_right₀ (by linarith) h
  linarith

theorem gam_succ (u : α) (k : Nat) : gam u (k + 1) = gam u k + u + u * gam u k := by
  unfold gam; ring

theorem gam_add (u : α) (j k : Nat) : gam u (j + k) = gam u j + gam u k + gam u j * gam u k := by
  unfold gam; rw [pow_add]; ring

/-- Higham's bound: `(1+u)^k (1 - k u) ≤ 1` -/
theorem pow_mul_le_one {u : α} (hu : 0 ≤ u) : ∀ k : Nat, (1 + u) ^ k * (1 - k * u) ≤ 1
  | 0 => by simp
  | k+1 => by
    have ih := pow_mul_le_one hu k
    have hp : 0 ≤ (1 + u) ^ k := pow_nonneg (by linarith) k
    have e : (1 + u) ^ (k + 1) * (1 - ((k + 1 : Nat) : α) * u)
        = (1 + u) ^ k * (1 - k * u) - (1 + u) ^ k * ((k + 1) * (u * u)) := by
      push_cast; ring
    rw [e]
    have : 0 ≤ (1 + u) ^ k * ((k + 1) * (u * u)) := by positivity
    linarith

/-- the familiar linear form: `(1+u)^k - 1 ≤ 2 k u` as long as `2 k u ≤ 1` -/
theorem gam_le_linear {u : α} (hu : 0 ≤ u) (k : Nat) (hk : 2 * (k * u) ≤ 1) : gam u k ≤ 2 * (k * u) := by
  have h1 := pow_mul_le_one hu k
  have hp : 0 ≤ (1 + u) ^ k := pow_nonneg (by linarith) k
  have hku : 0 ≤ (k : α) * u := by positivity
  -- P ≤ 2
  have hP2 : (1 + u) ^ k ≤ 2 := by
    have : (1 + u) ^ k * (1 / 2) ≤ (1 + u) ^ k * (1 - k * u) :=
      mul_le_mul_of_nonneg_left (by linarith) hp
    linarith
  unfold gam
  have : (1 + u) ^ k * (k * u) ≤ 2 * (k * u) := mul_le_mul_of_nonneg_right hP2 hku
  have e : (1 + u) ^ k * (1 - k * u) = (1 + u) ^ k - (1 + u) ^ k * (k * u) := by ring
  linarith

/-- `x'` approximates `x` after at most `k` roundings, on the scale `m` -/
def Err (u : α) (k : Nat) (x' x m : α) : Prop := |x' - x| ≤ gam u k * m ∧ |x| ≤ m

theorem Err.exact (u : α) (x : α) : Err u 0 x x |x| := by
  constructor
  · simp [gam]
  · exact le_refl _

theorem Err.zero (u : α) (k : Nat) : Err u k (0 : α) 0 0 := by
  constructor <;> simp

theorem Err.scale_nonneg {u : α} {k : Nat} {x' x m : α} (h : Err u k x' x m) : 0 ≤ m :=
  le_trans (abs_nonneg x) h.2

theorem Err.mono {u : α} (hu : 0 ≤ u) {j k : Nat} (hjk : j ≤ k) {x' x m : α} (h : Err u j x' x m) :
    Err u k x' x m := by
  refine ⟨le_trans h.1 ?_, h.2⟩
  exact mul_le_mul_of_nonneg_right (gam_mono hu hjk) h.scale_nonneg

theorem Err.widen {u : α} (hu : 0 ≤ u) {k : Nat} {x' x m m' : α} (h : Err u k x' x m) (hm : m ≤ m') :
    Err u k x' x m' := by
  refine ⟨le_trans h.1 ?_, le_trans h.2 hm⟩
  exact mul_le_mul_of_nonneg_left hm (gam_nonneg hu k)

/-- the size of an approximation -/
theorem Err.abs_le {u : α} {k : Nat} {x' x m : α} (h : Err u k x' x m) : |x'| ≤ m + gam u k * m := by
  have h1 : |x'| ≤ |x| + |x' - x| := by
    have := abs_add_le x (x' - x)
    simpa using this
  linarith [h.1, h.2]

/-- one more rounding -/
theorem Err.fl {fl : α → α} {u : α} (M : StdModel fl u) {k : Nat} {x' x m : α} (h : Err u k x' x m) :
    Err u (k + 1) (fl x') x m := by
  refine ⟨?_, h.2⟩
  have hm := h.scale_nonneg
  have hg := gam_nonneg M.u_nonneg k
  have h1 : |fl x' - x| ≤ |fl x' - x'| + |x' - x| := by
    have := abs_add_le (fl x' - x') (x' - x)
    simpa using this
  have h2 : |fl x' - x'| ≤ u * (m + gam u k * m) :=
    le_trans (M.err x') (mul_le_mul_of_nonneg_left h.abs_le M.u_nonneg)
  rw [gam_succ]
  have : (gam u k + u + u * gam u k) * m = u * (m + gam u k * m) + gam u k * m := by ring
  rw [this]
  linarith [h.1]

theorem Err.add {u : α} {k : Nat} {x' x mx y' y my : α} (hx : Err u k x' x mx) (hy : Err u k y' y my) :
    Err u k (x' + y') (x + y) (mx + my) := by
  constructor
  · have : x' + y' - (x + y) = (x' - x) + (y' - y) := by ring
    rw [this]
    have := abs_add_le (x' - x) (y' - y)
    have e : gam u k * (mx + my) = gam u k * mx + gam u k * my := by ring
    rw [e]; linarith [hx.1, hy.1]
  · exact le_trans (abs_add_le x y) (add_le_add hx.2 hy.2)

theorem Err.abs {u : α} {k : Nat} {x' x m : α} (h : Err u k x' x m) : Err u k |x'| |x| m := by
  refine ⟨le_trans (abs_abs_sub_abs_le_abs_sub x' x) h.1, by simpa using h.2⟩

theorem Err.mul {u : α} (hu : 0 ≤ u) {j k : Nat} {x' x mx y' y my : α}
    (hx : Err u j x' x mx) (hy : Err u k y' y my) :
    Err u (j + k) (x' * y') (x * y) (mx * my) := by
  have hmx := hx.scale_nonneg
  have hmy := hy.scale_nonneg
  have hgj := gam_nonneg hu j
  have hgk := gam_nonneg hu k
  constructor
  · have e : x' * y' - x * y = (x' - x) * y' + x * (y' - y) := by ring
    rw [e]
    have h1 : |(x' - x) * y' + x * (y' - y)| ≤ |x' - x| * |y'| + |x| * |y' - y| := by
      have := abs_add_le ((x' - x) * y') (x * (y' - y))
      rwa [abs_mul, abs_mul] at this
    have h2 : |x' - x| * |y'| ≤ (gam u j * mx) * (my + gam u k * my) :=
      mul_le_mul hx.1 hy.abs_le (abs_nonneg _) (by positivity)
    have h3 : |x| * |y' - y| ≤ mx * (gam u k * my) :=
      mul_le_mul hx.2 hy.1 (abs_nonneg _) hmx
    rw [gam_add]
    have : (gam u j + gam u k + gam u j * gam u k) * (mx * my)
        = (gam u j * mx) * (my + gam u k * my) + mx * (gam u k * my) := by ring
    rw [this]
    linarith
  · rw [abs_mul]
    exact mul_le_mul hx.2 hy.2 (abs_nonneg _) hmx

/-! ### per-element terms -/

variable (fl : α → α) (u : α) (sq : α → α)

local notation "R" => roundedOps fl sq
local notation "E" => exactOps α sq (fun x => |x|)

/-- `(a-b)²` with three roundings -/
theorem sqDiff_err (M : StdModel fl u) (x y : α) :
    Err u 3 (sqDiff R x y) (sqDiff E x y) (sqDiff E x y) := by
  have hd : Err u 1 (fl (x - y)) (x - y) |x - y| := (Err.exact u (x - y)).fl M
  have hm := (Err.mul M.u_nonneg hd hd).fl M
  have e : sqDiff E x y = (x - y) * (x - y) := rfl
  have e' : sqDiff R x y = fl (fl (x - y) * fl (x - y)) := rfl
  rw [e, e']
  have : |x - y| * |x - y| = (x - y) * (x - y) := abs_mul_abs_self _
  rw [this] at hm
  exact hm

theorem sqDiff_exact_nonneg (x y : α) : 0 ≤ sqDiff E x y := mul_self_nonneg _

/-- a product with one rounding -/
theorem mul_err (M : StdModel fl u) (x y : α) : Err u 1 ((R).mul x y) ((E).mul x y) |x * y| :=
  (Err.exact u (x * y)).fl M

/-- `|a-b|` with one rounding (the scalar tail of the Manhattan kernels and the portable kernel) -/
theorem absDiff_err (M : StdModel fl u) (x y : α) :
    Err u 1 ((R).abs ((R).sub x y)) ((E).abs ((E).sub x y)) |x - y| := by
  exact ((Err.exact u (x - y)).fl M).abs

/-! ### sums: every summation order used by the kernels -/

/-- term-wise approximation of two lists, with the scales -/
inductive ErrL (u : α) (k : Nat) : List α → List α → List α → Prop
  | nil : ErrL u k [] [] []
  | cons {x' x m : α} {xs' xs ms : List α} : Err u k x' x m → ErrL u k xs' xs ms → ErrL u k (x' :: xs') (x :: xs) (m :: ms)

theorem ErrL.length {k : Nat} : ∀ {xs' xs ms : List α}, ErrL u k xs' xs ms → xs'.length = xs.length ∧ ms.length = xs.length
  | _, _, _, .nil => ⟨rfl, rfl⟩
  | _, _, _, .cons _ t => by simp [t.length.1, t.length.2]

theorem ErrL.mono (hu : 0 ≤ u) {j k : Nat} (hjk : j ≤ k) : ∀ {xs' xs ms : List α}, ErrL u j xs' xs ms → ErrL u k xs' xs ms
  | _, _, _, .nil => .nil
  | _, _, _, .cons h t => .cons (h.mono hu hjk) (t.mono hu hjk)

theorem ErrL.take {k : Nat} (n : Nat) : ∀ {xs' xs ms : List α}, ErrL u k xs' xs ms → ErrL u k (xs'.take n) (xs.take n) (ms.take n) := by
  induction n with
  | zero => intro _ _ _ _; simpa using ErrL.nil
  | succ n ih =>
    intro xs' xs ms h
    cases h with
    | nil => simpa using ErrL.nil
    | cons h t => simpa using ErrL.cons h (ih t)

theorem ErrL.drop {k : Nat} (n : Nat) : ∀ {xs' xs ms : List α}, ErrL u k xs' xs ms → ErrL u k (xs'.drop n) (xs.drop n) (ms.drop n) := by
  induction n with
  | zero => intro _ _ _ h; simpa using h
  | succ n ih =>
    intro xs' xs ms h
    cases h with
    | nil => simpa using ErrL.nil
    | cons h t => simpa using ih t

theorem ErrL.replicate_zero (k w : Nat) : ErrL u k (List.replicate w (0 : α)) (List.replicate w 0) (List.replicate w 0) := by
  induction w with
  | zero => exact .nil
  | succ w ih => exact .cons (Err.zero u k) ih

/-- term-wise approximation from a pointwise statement about `zipWith` -/
theorem ErrL.zipWith {k : Nat} (f' f g : α → α → α) (h : ∀ x y, Err u k (f' x y) (f x y) (g x y)) :
    ∀ (a b : List α), ErrL u k (List.zipWith f' a b) (List.zipWith f a b) (List.zipWith g a b)
  | [], _ => by simpa using ErrL.nil
  | _ :: _, [] => by simpa using ErrL.nil
  | x :: a, y :: b => by simpa using ErrL.cons (h x y) (ErrL.zipWith f' f g h a b)

/-- a sequential rounded accumulation (`foldl`): one more rounding per term -/
theorem foldl_err (M : StdModel fl u) {k : Nat} : ∀ {ts' ts ms : List α} {i' i mi : α},
    ErrL u k ts' ts ms → Err u k i' i mi →
    Err u (k + ts.length) (ts'.foldl (R).add i') (ts.foldl (E).add i) (mi + ms.sum)
  | _, _, _, _, _, _, .nil, hi => by simpa using hi
  | _, _, _, i', i, mi, .cons (x' := x') (x := x) (m := m) (xs' := xs') (xs := xs) (ms := ms) h t, hi => by
    have hs : Err u (k + 1) (fl (i' + x')) (i + x) (mi + m) := (hi.add h).fl M
    have ht : ErrL u (k + 1) xs' xs ms := t.mono u M.u_nonneg (Nat.le_succ k)
    have := foldl_err M ht hs
    simp only [List.foldl_cons, List.length_cons, List.sum_cons]
    have e : k + (xs.length + 1) = k + 1 + xs.length := by omega
    rw [e]
    have e2 : mi + (m + ms.sum) = mi + m + ms.sum := by ring
    rw [e2]
    exact this

/-- lane-wise addition of a block into the accumulator register -/
theorem addLanes_err (M : StdModel fl u) {k : Nat} : ∀ {acc' acc macc blk' blk mblk : List α},
    ErrL u k acc' acc macc → ErrL u k blk' blk mblk →
    ErrL u (k + 1) (addLanes R acc' blk') (addLanes E acc blk) (List.zipWith (· + ·) macc mblk)
  | _, _, _, _, _, _, .nil, _ => by simpa [addLanes] using ErrL.nil
  | _, _, _, _, _, _, .cons _ _, .nil => by simpa [addLanes] using ErrL.nil
  | _, _, _, _, _, _, .cons ha ta, .cons hb tb => by
    have := addLanes_err M ta tb
    simp only [addLanes, List.zipWith_cons_cons] at this ⊢
    exact .cons ((ha.add hb).fl M) this

/-- scales of the blocks accumulated lane-wise (exact arithmetic on the scales) -/
def laneScales (w : Nat) (cs : List (List α)) (acc : List α) : List α :=
  cs.foldl (fun a c => List.zipWith (· + ·) a c) acc

/-- all the blocks, one more rounding per block -/
theorem foldl_addLanes_err (M : StdModel fl u) (w : Nat) : ∀ (n : Nat) {k : Nat} {ts' ts ms acc' acc macc : List α},
    ErrL u k ts' ts ms → ErrL u k acc' acc macc →
    ErrL u (k + n) ((chunks w n ts').foldl (addLanes R) acc') ((chunks w n ts).foldl (addLanes E) acc)
      (laneScales w (chunks w n ms) macc)
  | 0, _, _, _, _, _, _, _, _, ha => by simpa [chunks, laneScales] using ha
  | n+1, k, ts', ts, ms, acc', acc, macc, ht, ha => by
    simp only [chunks, List.foldl_cons, laneScales]
    have hb := addLanes_err fl u sq M ha (ht.take u w)
    have hrest := (ht.drop u w).mono u M.u_nonneg (Nat.le_succ k)
    have := foldl_addLanes_err M w n hrest hb
    have e : k + (n + 1) = k + 1 + n := by omega
    rw [e]
    exact this

/-- the sum of the lane scales is the sum of the accumulated scales -/
theorem laneScales_sum (w : Nat) : ∀ (cs : List (List α)) (acc : List α), acc.length = w →
    (∀ c ∈ cs, c.length = w) →
    (laneScales w cs acc).sum = acc.sum + (cs.map List.sum).sum ∧ (laneScales w cs acc).length = w := by
  intro cs acc ha hc
  have h1 := foldl_addLanes_sum (α := α) (fun x => x) (fun x => |x|) w cs acc ha hc
  have h2 := foldl_addLanes_length (α := α) (fun x => x) (fun x => |x|) w cs acc ha hc
  exact ⟨h1, h2⟩

/-- horizontal sums: three more roundings -/
theorem hsum_err (M : StdModel fl u) (w : Nat) (hw : w = 8 ∨ w = 4) {k : Nat} {v' v mv : List α}
    (h : ErrL u k v' v mv) (hl : v.length = w) :
    Err u (k + 3) (hsum R w v') (hsum E w v) mv.sum := by
  rcases hw with rfl | rfl
  · match v', v, mv, h, hl with
    | _, [a, b, c, d, e, f, g, i], _,
      .cons ha (.cons hb (.cons hc (.cons hd (.cons he (.cons hf (.cons hg (.cons hi .nil))))))), _ =>
      have h1 := (ha.add hb).fl M
      have h2 := (hc.add hd).fl M
      have h3 := (he.add hf).fl M
      have h4 := (hg.add hi).fl M
      have h5 := (h1.add h2).fl M
      have h6 := (h3.add h4).fl M
      have h7 := (h5.add h6).fl M
      simp only [hsum, beq_self_eq_true, if_true, hsum8, List.getD_cons_zero, List.getD_cons_succ,
        List.sum_cons, List.sum_nil]
      refine (show Err u (k + 3) _ _ _ from ?_)
      have e : ∀ (m1 m2 m3 m4 m5 m6 m7 m8 : α),
          m1 + (m2 + (m3 + (m4 + (m5 + (m6 + (m7 + (m8 + 0))))))) = m1 + m2 + (m3 + m4) + (m5 + m6 + (m7 + m8)) := by
        intros; ring
      rw [e]
      exact h7
  · match v', v, mv, h, hl with
    | _, [a, b, c, d], _, .cons ha (.cons hb (.cons hc (.cons hd .nil))), _ =>
      have h1 := (ha.add hb).fl M
      have h2 := ((h1.add (hc.mono M.u_nonneg (Nat.le_succ k))).fl M)
      have h3 := ((h2.add (hd.mono M.u_nonneg (Nat.le_add_right k 2))).fl M)
      simp only [hsum, show (4 == 8) = false from rfl, hsum4, List.getD_cons_zero, List.getD_cons_succ,
        List.sum_cons, List.sum_nil]
      refine (show Err u (k + 3) _ _ _ from ?_)
      have e : ∀ (m1 m2 m3 m4 : α), m1 + (m2 + (m3 + (m4 + 0))) = m1 + m2 + m3 + m4 := by intros; ring
      rw [e]
      exact h3


/-- the accumulator register after all full blocks: `n / w` more roundings per lane -/
theorem lanes_err (M : StdModel fl u) (w : Nat) (hw : 0 < w) {k : Nat} {ts' ts ms : List α}
    (h : ErrL u k ts' ts ms) :
    ErrL u (k + ts.length / w) (lanes R w ts') (lanes E w ts) (laneScales w (chunks w (ts.length / w) ms) (List.replicate w 0))
    ∧ (laneScales w (chunks w (ts.length / w) ms) (List.replicate w 0)).sum = (ms.take (ts.length / w * w)).sum := by
  obtain ⟨hl1, hl2⟩ := h.length u
  constructor
  · unfold lanes
    rw [hl1]
    exact foldl_addLanes_err fl u sq M w (ts.length / w) h (ErrL.replicate_zero u k w)
  · have hk : (ts.length / w) * w ≤ ms.length := by rw [hl2]; exact Nat.div_mul_le_self _ _
    have hc := chunks_length (α := α) w (ts.length / w) ms hk
    rw [(laneScales_sum w _ _ (by simp) hc).1, chunks_sum w _ _ hk]
    simp

/-- **The blocked reduction under rounding.** If each vector-part term and each tail term carries
at most `k` roundings, the AVX / SSE reduction of `n` terms carries at most
`k + n/w + 3 + (n - (n/w)·w)` — for every length. -/
theorem blocked_err (M : StdModel fl u) (w : Nat) (hw : w = 8 ∨ w = 4) {k : Nat}
    (fv' fv gv ft' ft gt : α → α → α)
    (hv : ∀ x y, Err u k (fv' x y) (fv x y) (gv x y)) (ht : ∀ x y, Err u k (ft' x y) (ft x y) (gt x y))
    (a b : List α) (hab : a.length = b.length) :
    Err u (k + a.length / w + 3 + (a.length - a.length / w * w))
      (blocked R w fv' ft' a b) (blocked E w fv ft a b)
      ((List.zipWith gv (a.take (a.length / w * w)) (b.take (a.length / w * w))).sum
        + (List.zipWith gt (a.drop (a.length / w * w)) (b.drop (a.length / w * w))).sum) := by
  have hwpos : 0 < w := by rcases hw with h | h <;> omega
  unfold blocked
  simp only
  set m := (a.length / w) * w with hm
  have hma : m ≤ a.length := Nat.div_mul_le_self _ _
  have hV := ErrL.zipWith u fv' fv gv hv (a.take m) (b.take m)
  have hT := ErrL.zipWith u ft' ft gt ht (a.drop m) (b.drop m)
  have hvl : (List.zipWith fv (a.take m) (b.take m)).length = m := by
    simp [List.length_zipWith, List.length_take]; omega
  have htl : (List.zipWith ft (a.drop m) (b.drop m)).length = a.length - m := by
    simp [List.length_zipWith, List.length_drop]; omega
  have hdiv : m / w = a.length / w := by rw [hm, Nat.mul_div_cancel _ hwpos]
  obtain ⟨hL, hLs⟩ := lanes_err fl u sq M w hwpos hV
  rw [hvl, hdiv] at hL hLs
  have hlen := (lanes_sum (α := α) sq (fun x => |x|) w hwpos (List.zipWith fv (a.take m) (b.take m))).2
  have hH := hsum_err fl u sq M w hw hL hlen
  rw [hLs] at hH
  have hgl : (List.zipWith gv (a.take m) (b.take m)).length = m := by
    simp [List.length_zipWith, List.length_take]; omega
  have htk : List.take (a.length / w * w) (List.zipWith gv (a.take m) (b.take m)) = List.zipWith gv (a.take m) (b.take m) :=
    List.take_of_length_le (le_of_eq (hgl.trans hm))
  rw [htk] at hH
  have hT' := hT.mono u M.u_nonneg (show k ≤ k + a.length / w + 3 by rw [Nat.add_assoc]; exact Nat.le_add_right _ _)
  have := foldl_err fl u sq M hT' hH
  rw [htl] at this
  exact this

/-- the same function in the vector part and in the tail: the scale is the plain sum of scales -/
theorem blocked_err_same (M : StdModel fl u) (w : Nat) (hw : w = 8 ∨ w = 4) {k : Nat}
    (f' f g : α → α → α) (h : ∀ x y, Err u k (f' x y) (f x y) (g x y))
    (a b : List α) (hab : a.length = b.length) :
    Err u (k + a.length + 3) (blocked R w f' f' a b) ((List.zipWith f a b).sum) ((List.zipWith g a b).sum) := by
  have hwpos : 0 < w := by rcases hw with h | h <;> omega
  have hb := blocked_err fl u sq M w hw f' f g f' f g h h a b hab
  rw [blocked_eq_sum sq (fun x => |x|) w hw f a b hab] at hb
  have hs : (List.zipWith g (a.take (a.length / w * w)) (b.take (a.length / w * w))).sum
        + (List.zipWith g (a.drop (a.length / w * w)) (b.drop (a.length / w * w))).sum = (List.zipWith g a b).sum := by
    rw [← List.sum_append, ← List.zipWith_append (by simp [List.length_take]; omega),
      List.take_append_drop, List.take_append_drop]
  rw [hs] at hb
  refine hb.mono M.u_nonneg ?_
  have h1 : a.length / w * w ≤ a.length := Nat.div_mul_le_self _ _
  have h2 : a.length / w ≤ a.length / w * w := Nat.le_mul_of_pos_right _ hwpos
  omega

/-- the portable kernels' sequential accumulation -/
theorem seqSum_err (M : StdModel fl u) {k : Nat} (f' f g : α → α → α)
    (h : ∀ x y, Err u k (f' x y) (f x y) (g x y)) (a b : List α) :
    Err u (k + a.length) (seqSum R f' a b) ((List.zipWith f a b).sum) ((List.zipWith g a b).sum) := by
  have hT := ErrL.zipWith u f' f g h a b
  have := foldl_err fl u sq M hT (Err.zero u k)
  unfold seqSum
  have e : (List.zipWith f a b).foldl (E).add 0 = (List.zipWith f a b).sum := by
    rw [foldl_add_sum]; simp
  rw [e, zero_add] at this
  refine this.mono M.u_nonneg ?_
  simp [List.length_zipWith]

/-! ### the distances -/

/-- **Euclidean (squared), all three implementations, every length:** each is within
`((1+u)^(n+6) - 1) · S` of the exact `S = Σ (aᵢ-bᵢ)²`. -/
theorem euclidSq_round (M : StdModel fl u) (a b : List α) (hab : a.length = b.length) :
    let S := (List.zipWith (sqDiff E) a b).sum
    |euclidSq R 8 a b - S| ≤ gam u (a.length + 6) * S ∧
    |euclidSq R 4 a b - S| ≤ gam u (a.length + 6) * S ∧
    |seqSum R (sqDiff R) a b - S| ≤ gam u (a.length + 6) * S := by
  intro S
  have h8 := (blocked_err_same fl u sq M 8 (Or.inl rfl) (sqDiff R) (sqDiff E) (sqDiff E) (sqDiff_err fl u sq M) a b hab).1
  have h4 := (blocked_err_same fl u sq M 4 (Or.inr rfl) (sqDiff R) (sqDiff E) (sqDiff E) (sqDiff_err fl u sq M) a b hab).1
  have hs := ((seqSum_err fl u sq M (sqDiff R) (sqDiff E) (sqDiff E) (sqDiff_err fl u sq M) a b).mono M.u_nonneg
    (show 3 + a.length ≤ 3 + a.length + 3 by omega)).1
  have e : 3 + a.length + 3 = a.length + 6 := by omega
  rw [e] at h8 h4 hs
  exact ⟨h8, h4, hs⟩

/-- hence any two of them differ by at most `2 ((1+u)^(n+6) - 1) · S` -/
theorem euclidSq_agree_round (M : StdModel fl u) (a b : List α) (hab : a.length = b.length) :
    let S := (List.zipWith (sqDiff E) a b).sum
    |euclidSq R 8 a b - seqSum R (sqDiff R) a b| ≤ 2 * (gam u (a.length + 6) * S) ∧
    |euclidSq R 4 a b - seqSum R (sqDiff R) a b| ≤ 2 * (gam u (a.length + 6) * S) ∧
    |euclidSq R 8 a b - euclidSq R 4 a b| ≤ 2 * (gam u (a.length + 6) * S) := by
  intro S
  obtain ⟨h8, h4, hs⟩ := euclidSq_round fl u sq M a b hab
  have tri : ∀ x y : α, |x - y| ≤ |x - S| + |y - S| := by
    intro x y
    have := abs_sub_le x S y
    rwa [abs_sub_comm S y] at this
  exact ⟨by linarith [tri (euclidSq R 8 a b) (seqSum R (sqDiff R) a b)],
         by linarith [tri (euclidSq R 4 a b) (seqSum R (sqDiff R) a b)],
         by linarith [tri (euclidSq R 8 a b) (euclidSq R 4 a b)]⟩

/-- **The three sums of the cosine kernels** (dot product and the two squared norms), blocked and
sequential: within `((1+u)^(n+4) - 1)` of the exact sums on the scale `Σ |aᵢ bᵢ|` resp. the norms
themselves. -/
theorem cosine_sums_round (M : StdModel fl u) (w : Nat) (hw : w = 8 ∨ w = 4) (a b : List α) (hab : a.length = b.length) :
    |blocked R w (R).mul (R).mul a b - (List.zipWith (· * ·) a b).sum| ≤ gam u (a.length + 4) * (List.zipWith (fun x y => |x * y|) a b).sum ∧
    |seqSum R (R).mul a b - (List.zipWith (· * ·) a b).sum| ≤ gam u (a.length + 4) * (List.zipWith (fun x y => |x * y|) a b).sum ∧
    |blocked R w (fun x _ => (R).mul x x) (fun x _ => (R).mul x x) a b - (List.zipWith (fun x _ => x * x) a b).sum|
        ≤ gam u (a.length + 4) * (List.zipWith (fun x _ => x * x) a b).sum := by
  have hm : ∀ x y, Err u 1 ((R).mul x y) (x * y) |x * y| := mul_err fl u sq M
  have hn : ∀ x (_y : α), Err u 1 ((R).mul x x) (x * x) (x * x) := by
    intro x _
    have := mul_err fl u sq M x x
    rwa [abs_mul_self] at this
  have e : 1 + a.length + 3 = a.length + 4 := by omega
  refine ⟨?_, ?_, ?_⟩
  · have := (blocked_err_same fl u sq M w hw (R).mul (· * ·) (fun x y => |x * y|) hm a b hab).1
    rwa [e] at this
  · have := ((seqSum_err fl u sq M (R).mul (· * ·) (fun x y => |x * y|) hm a b).mono M.u_nonneg
      (show 1 + a.length ≤ a.length + 4 by omega)).1
    exact this
  · have := (blocked_err_same fl u sq M w hw (fun x _ => (R).mul x x) (fun x _ => x * x) (fun x _ => x * x) hn a b hab).1
    rwa [e] at this

/-- **Manhattan.** The portable kernel and the scalar tail compute `|fl(a-b)|`. The vector part
computes `sqrt(d·d)`; *if* that step is as accurate as three roundings (`hsqrt` — it is wherever
`d·d` neither overflows nor underflows, which is exactly where the known findings live), the
blocked kernels are within `((1+u)^(n+6) - 1) · S` of `S = Σ |aᵢ-bᵢ|`, and so is the portable one. -/
theorem manhattan_round (M : StdModel fl u) (w : Nat) (hw : w = 8 ∨ w = 4)
    (hsqrt : ∀ x y, Err u 3 ((R).sqrt (sqDiff R x y)) |x - y| |x - y|)
    (a b : List α) (hab : a.length = b.length) :
    let S := (List.zipWith (fun x y => |x - y|) a b).sum
    |manhattan R w a b - S| ≤ gam u (a.length + 6) * S ∧
    |nativeManhattan R a b - S| ≤ gam u (a.length + 6) * S := by
  intro S
  have ht : ∀ x y, Err u 3 ((R).abs ((R).sub x y)) |x - y| |x - y| := fun x y =>
    (absDiff_err fl u sq M x y).mono M.u_nonneg (by omega)
  constructor
  · have hb := blocked_err fl u sq M w hw
      (fun x y => (R).sqrt (sqDiff R x y)) (fun x y => |x - y|) (fun x y => |x - y|)
      (fun x y => (R).abs ((R).sub x y)) (fun x y => |x - y|) (fun x y => |x - y|) hsqrt ht a b hab
    have hwpos : 0 < w := by rcases hw with h | h <;> omega
    have hex := blocked_eq_sum sq (fun x => |x|) w hw (fun x y => |x - y|) a b hab
    have hs : (List.zipWith (fun x y => |x - y|) (a.take (a.length / w * w)) (b.take (a.length / w * w))).sum
        + (List.zipWith (fun x y => |x - y|) (a.drop (a.length / w * w)) (b.drop (a.length / w * w))).sum = S := by
      show _ = (List.zipWith (fun x y => |x - y|) a b).sum
      rw [← List.sum_append, ← List.zipWith_append (by simp [List.length_take]; omega),
        List.take_append_drop, List.take_append_drop]
    rw [hs, hex] at hb
    have h1 : a.length / w * w ≤ a.length := Nat.div_mul_le_self _ _
    have h2 : a.length / w ≤ a.length / w * w := Nat.le_mul_of_pos_right _ hwpos
    exact (hb.mono M.u_nonneg (show _ ≤ a.length + 6 by omega)).1
  · have := (seqSum_err fl u sq M (fun x y => (R).abs ((R).sub x y)) (fun x y => |x - y|) (fun x y => |x - y|) ht a b).mono
      M.u_nonneg (show 3 + a.length ≤ a.length + 6 by omega)
    exact this.1

end
end Anndb.Simd
