import Anndb.Proofs.HnswEffect
/-!
# `partition.go`'s state machine refines the finite-map specification (C02, C04)
-/
namespace Anndb
open Index

theorem u64_add_not_pred (x y : UInt64) : x + ~~~(y - 1) = x - y := by
  apply UInt64.eq_of_toBitVec_eq
  simp only [UInt64.toBitVec_add, UInt64.toBitVec_not, UInt64.toBitVec_sub, UInt64.toBitVec_one]
  bv_omega

theorem u64_add_not_zero (x : UInt64) : x + ~~~(0 : UInt64) = x - 1 := by
  apply UInt64.eq_of_toBitVec_eq
  simp only [UInt64.toBitVec_add, UInt64.toBitVec_not, UInt64.toBitVec_sub, UInt64.toBitVec_one, UInt64.toBitVec_zero]
  bv_omega

theorem filter_ne_self {α : Type} [DecidableEq α] (l : List α) (a : α) (h : a ∉ l) :
    l.filter (· ≠ a) = l := by
  apply List.filter_eq_self.mpr
  intro x hx
  simp only [ne_eq, decide_eq_true_eq]
  intro he; subst he; exact h hx

theorem sum_map_filter_ne {α : Type} [DecidableEq α] (f : α → Nat) (l : List α) (a : α)
    (hn : l.Nodup) (ha : a ∈ l) : (l.map f).sum = f a + ((l.filter (· ≠ a)).map f).sum := by
  induction l with
  | nil => cases ha
  | cons b t ih =>
    rw [List.nodup_cons] at hn
    by_cases hb : b = a
    · subst hb
      have e : (b :: t).filter (· ≠ b) = t.filter (· ≠ b) :=
        List.filter_cons_of_neg (p := fun x => decide (x ≠ b)) (by simp)
      rw [e, filter_ne_self t b hn.1]
      simp
    · have hat : a ∈ t := by
        rcases List.mem_cons.mp ha with h | h
        · exact absurd h.symm hb
        · exact h
      have e : (b :: t).filter (· ≠ a) = b :: t.filter (· ≠ a) :=
        List.filter_cons_of_pos (p := fun x => decide (x ≠ a)) (by simp [hb])
      rw [e]
      have := ih hn.2 hat
      simp only [List.map_cons, List.sum_cons]
      omega

theorem length_filter_ne {α : Type} [DecidableEq α] (l : List α) (a : α)
    (hn : l.Nodup) (ha : a ∈ l) : l.length = (l.filter (· ≠ a)).length + 1 := by
  have := sum_map_filter_ne (fun _ => 1) l a hn ha
  have e : ∀ (m : List α), (m.map fun _ => 1).sum = m.length := by
    intro m; induction m with
    | nil => rfl
    | cons x t ih => simp only [List.map_cons, List.sum_cons, List.length_cons, ih]; omega
  rw [e, e] at this
  omega

/-- the refinement relation between the implementation model and the specification -/
structure Refines (dim : Nat) (p : PState) (sp : Spec) : Prop where
  inv : Inv p.idx
  alloc : Alloc p.idx
  abs : ∀ i, absI p.idx i = sp.get i
  ids : p.idx.ids = sp.ids
  nodup : sp.ids.Nodup
  len : p.len = UInt64.ofNat sp.len
  bytes : p.bytes = UInt64.ofNat (sp.dataBytes dim)

theorem refines_empty (dim : Nat) : Refines dim PState.empty Spec.empty := by
  refine ⟨⟨?_, ?_, ?_⟩, ⟨?_, ?_, ?_⟩, ?_, rfl, List.nodup_nil, rfl, rfl⟩
  · intro _ i; rfl
  · intro v h; simp [PState.empty, Index.empty] at h
  · intro v x h; simp [PState.empty, Index.empty] at h
  · intro v _; rfl
  · intro i v h; simp [PState.empty, Index.empty] at h
  · intro i; simp [PState.empty, Index.empty]
  · intro i; rfl

namespace Refines
variable {dim : Nat} {p : PState} {sp : Spec}

theorem mem_ids_iff (h : Refines dim p sp) (i : ItemId) : i ∈ sp.ids ↔ sp.get i ≠ none := by
  rw [← h.ids, h.alloc.idsLive i, ← h.abs i]
  rw [← absI_isSome_iff h.alloc i]
  cases absI p.idx i <;> simp

theorem get_none_iff (h : Refines dim p sp) (i : ItemId) : sp.get i = none ↔ p.idx.live i = none := by
  rw [← h.abs i]
  have := absI_isSome_iff h.alloc i
  cases hl : p.idx.live i with
  | none => simp [absI, hl]
  | some v =>
    have h2 := this.mpr (by simp [hl])
    cases ha : absI p.idx i with
    | none => simp [ha] at h2
    | some x => simp

theorem ids_empty_iff (h : Refines dim p sp) : sp.ids.isEmpty = true ↔ p.idx.entry = none := by
  rw [← h.ids]
  constructor
  · intro he
    cases hent : p.idx.entry with
    | none => rfl
    | some v =>
      exfalso
      have hd := h.inv.entryLive v hent
      unfold Index.isDeleted at hd
      cases hx : p.idx.verts v with
      | none => simp [hx] at hd
      | some x =>
        simp only [hx] at hd
        have hl := (h.inv.liveIff v x hx).mp hd
        have : x.id ∈ p.idx.ids := (h.alloc.idsLive x.id).mpr (by simp [hl])
        have he' : p.idx.ids = [] := List.isEmpty_iff.mp he
        rw [he'] at this; cases this
  · intro hent
    have : ∀ i, i ∉ p.idx.ids := by
      intro i hi
      have := (h.alloc.idsLive i).mp hi
      exact this (h.inv.entryNone hent i)
    cases hl : p.idx.ids with
    | nil => rfl
    | cons a t => exact absurd (by rw [hl]; exact List.mem_cons_self) (this a)

end Refines

section
variable {Pmin Pmax : PQImpl} {dist : VecRef → VecRef → Score} (cfg : Cfg) (dim : Nat)
variable (pick : List ItemId → Option ItemId)

/-- data bytes after adding an absent id -/
theorem dataBytes_set (sp : Spec) (id : ItemId) (it : SItem) (hid : id ∉ sp.ids) :
    (sp.set id it).dataBytes dim = vertexBytes dim it.md + sp.dataBytes dim := by
  unfold Spec.dataBytes Spec.set
  simp only [List.map_cons, List.sum_cons, if_true]
  congr 1
  apply congrArg
  apply List.map_congr_left
  intro i hi
  have : i ≠ id := fun he => hid (he ▸ hi)
  simp [this]

/-- data bytes after erasing a stored id -/
theorem dataBytes_erase (sp : Spec) (id : ItemId) (it : SItem) (hn : sp.ids.Nodup) (hid : id ∈ sp.ids)
    (hg : sp.get id = some it) :
    sp.dataBytes dim = vertexBytes dim it.md + (sp.erase id).dataBytes dim := by
  unfold Spec.dataBytes Spec.erase
  simp only
  rw [sum_map_filter_ne _ sp.ids id hn hid, hg]
  congr 1
  apply congrArg
  apply List.map_congr_left
  intro i hi
  have : i ≠ id := by
    have := (List.mem_filter.mp hi).2
    simpa using this
  simp [this]

/-- **insert refines** -/
theorem refines_insert (p : PState) (sp : Spec) (h : Refines dim p sp)
    (id : ItemId) (vec : VecRef) (md : Meta) (level : Nat) :
    Refines dim (pInsert Pmin Pmax dist cfg dim p id vec md level).1 (sp.insert id vec md level).1 ∧
    (pInsert Pmin Pmax dist cfg dim p id vec md level).2 = (sp.insert id vec md level).2 := by
  unfold pInsert Spec.insert
  by_cases hfit : mdFits md = false
  · simp only [hfit, if_true]; exact ⟨h, trivial⟩
  have hfit' : (mdFits md = false) = False := eq_false hfit
  simp only [hfit', if_false]
  cases hr : insert Pmin Pmax dist cfg p.idx id vec md level with
  | error e =>
    have hl := insert_error (dist := dist) cfg p.idx id vec md level e hr
    have : sp.get id ≠ none := fun hg => hl ((h.get_none_iff id).mp hg)
    cases hg : sp.get id with
    | none => exact absurd hg this
    | some it => exact ⟨h, rfl⟩
  | ok s' =>
    obtain ⟨hl, habs, hids⟩ := insert_effect (dist := dist) cfg p.idx id vec md level h.alloc s' hr
    have hg : sp.get id = none := (h.get_none_iff id).mpr hl
    have hnotin : id ∉ sp.ids := fun hm => (h.mem_ids_iff id).mp hm hg
    obtain ⟨hi', ha'⟩ := inv_insert (dist := dist) cfg p.idx id vec md level h.inv h.alloc s' hr
    simp only [hg]
    refine ⟨⟨hi', ha', ?_, ?_, ?_, ?_, ?_⟩, by first | rfl | trivial⟩
    · intro i
      rw [habs i]
      show _ = (sp.set id _).get i
      unfold Spec.set
      simp only
      by_cases hii : i = id
      · simp only [hii, if_true]
        congr 2
        by_cases he : p.idx.entry = none
        · simp [he, h.ids_empty_iff.mpr he]
        · have : sp.ids.isEmpty = false := by
            cases hb : sp.ids.isEmpty with
            | false => rfl
            | true => exact absurd (h.ids_empty_iff.mp hb) he
          simp [he, this]
      · simp only [hii, if_false]
        exact h.abs i
    · show s'.ids = id :: sp.ids
      rw [hids, h.ids]
    · show (id :: sp.ids).Nodup
      exact List.nodup_cons.mpr ⟨hnotin, h.nodup⟩
    · show p.len + 1 = UInt64.ofNat (sp.ids.length + 1)
      rw [UInt64.ofNat_add, h.len]; rfl
    · show p.bytes + (vertexBytes dim md).toUInt64 = UInt64.ofNat ((sp.set id _).dataBytes dim)
      rw [dataBytes_set dim sp id _ hnotin, UInt64.ofNat_add, h.bytes, UInt64.add_comm]

/-- **remove refines** -/
theorem refines_remove (hp : PickOK pick) (p : PState) (sp : Spec) (h : Refines dim p sp) (id : ItemId) :
    Refines dim (pRemove Pmin Pmax dist cfg dim pick p id).1 (sp.delete id).1 ∧
    (pRemove Pmin Pmax dist cfg dim pick p id).2 = (sp.delete id).2 := by
  unfold pRemove Spec.delete
  cases hl : p.idx.live id with
  | none =>
    have hg : sp.get id = none := (h.get_none_iff id).mpr hl
    simp only [hg]
    exact ⟨h, by first | rfl | trivial⟩
  | some v =>
    simp only
    obtain ⟨s', hr⟩ := (remove_isOk_iff (Pmin := Pmin) (Pmax := Pmax) (dist := dist) cfg p.idx id pick).mpr (by simp [hl])
    rw [hr]
    simp only
    obtain ⟨_, habs, hids⟩ := remove_effect (dist := dist) cfg p.idx id pick h.inv h.alloc s' hr
    obtain ⟨hi', ha'⟩ := inv_remove (dist := dist) cfg p.idx id pick hp h.inv h.alloc s' hr
    obtain ⟨x, hx, hxid⟩ := h.alloc.liveAlloc id v hl
    have hg : sp.get id = some ⟨x.vec, x.md, x.level⟩ := by
      rw [← h.abs id]; simp [absI, hl, hx]
    have hmd : p.idx.mdOf v = x.md := by simp [Index.mdOf, hx]
    have hin : id ∈ sp.ids := (h.mem_ids_iff id).mpr (by simp [hg])
    simp only [hg]
    refine ⟨⟨hi', ha', ?_, ?_, ?_, ?_, ?_⟩, by first | rfl | trivial⟩
    · intro i
      rw [habs i]
      show _ = (sp.erase id).get i
      unfold Spec.erase
      simp only
      by_cases hii : i = id
      · simp [hii]
      · simp only [hii, if_false]; exact h.abs i
    · show s'.ids = sp.ids.filter (· ≠ id)
      rw [hids, h.ids]
    · exact h.nodup.filter _
    · show p.len + ~~~(0 : UInt64) = UInt64.ofNat (sp.ids.filter (· ≠ id)).length
      rw [u64_add_not_zero, h.len]
      have hlen : sp.len = (sp.ids.filter (· ≠ id)).length + 1 := length_filter_ne sp.ids id h.nodup hin
      rw [hlen, UInt64.ofNat_add]
      show UInt64.ofNat _ + 1 - 1 = _
      rw [UInt64.add_sub_cancel]
    · show p.bytes + ~~~((vertexBytes dim (p.idx.mdOf v)).toUInt64 - 1) = UInt64.ofNat ((sp.erase id).dataBytes dim)
      rw [u64_add_not_pred, h.bytes, hmd, dataBytes_erase dim sp id _ h.nodup hin hg, UInt64.ofNat_add]
      show UInt64.ofNat _ + UInt64.ofNat _ - UInt64.ofNat _ = _
      rw [UInt64.add_comm, UInt64.add_sub_cancel]

/-- **update refines** (look up, remove, merge metadata, re-insert at the old level) -/
theorem refines_update (hp : PickOK pick) (p : PState) (sp : Spec) (h : Refines dim p sp)
    (id : ItemId) (vec : VecRef) (md : Meta) :
    Refines dim (pUpdate Pmin Pmax dist cfg dim pick p id vec md).1 (sp.update id vec md).1 ∧
    (pUpdate Pmin Pmax dist cfg dim pick p id vec md).2 = (sp.update id vec md).2 := by
  unfold pUpdate Spec.update
  cases hl : p.idx.live id with
  | none =>
    have hg : sp.get id = none := (h.get_none_iff id).mpr hl
    simp only [hg]
    exact ⟨h, by first | rfl | trivial⟩
  | some v =>
    obtain ⟨x, hx, hxid⟩ := h.alloc.liveAlloc id v hl
    have hg : sp.get id = some ⟨x.vec, x.md, x.level⟩ := by
      rw [← h.abs id]; simp [absI, hl, hx]
    have hmd : p.idx.mdOf v = x.md := by simp [Index.mdOf, hx]
    have hlv : p.idx.levelOf v = x.level := by simp [Index.levelOf, hx]
    obtain ⟨hr1, hr2⟩ := refines_remove (Pmin := Pmin) (Pmax := Pmax) (dist := dist) cfg dim pick hp p sp h id
    have hdel : sp.delete id = (sp.erase id, .ok) := by unfold Spec.delete; simp [hg]
    rw [hdel] at hr1 hr2
    simp only at hr1 hr2
    simp only [hg, hmd, hlv]
    by_cases hfit : mdFits (mergeMd md x.md) = false
    · simp only [hfit, if_true]; exact ⟨h, trivial⟩
    have hfit' : (mdFits (mergeMd md x.md) = false) = False := eq_false hfit
    simp only [hfit', if_false]
    generalize hrem : pRemove Pmin Pmax dist cfg dim pick p id = rem at hr1 hr2
    obtain ⟨p1, o⟩ := rem
    simp only at hr1 hr2
    subst hr2
    simp only
    exact refines_insert (Pmin := Pmin) (Pmax := Pmax) (dist := dist) cfg dim p1 (sp.erase id) hr1 id vec _ _

/-- a batch is a fold of single steps collecting the error map -/
theorem refines_batchFold (f : PState → BatchItem → PState × Outcome) (g : Spec → BatchItem → Spec × Outcome)
    (hfg : ∀ p sp it, Refines dim p sp → Refines dim (f p it).1 (g sp it).1 ∧ (f p it).2 = (g sp it).2)
    (p : PState) (sp : Spec) (h : Refines dim p sp) (items : List BatchItem) :
    Refines dim (batchFold f p items).1 (Spec.batchFold g sp items).1 ∧
    (batchFold f p items).2 = (Spec.batchFold g sp items).2 := by
  unfold batchFold Spec.batchFold
  generalize ([] : List (ItemId × Outcome)) = errs
  induction items generalizing p sp errs with
  | nil => exact ⟨h, rfl⟩
  | cons it rest ih =>
    simp only [List.foldl_cons]
    obtain ⟨h1, h2⟩ := hfg p sp it h
    generalize hfe : f p it = fr at h1 h2
    generalize hge : g sp it = gr at h1 h2
    obtain ⟨p', o⟩ := fr
    obtain ⟨sp', o'⟩ := gr
    simp only at h1 h2
    subst h2
    cases o with
    | ok => exact ih p' sp' h1 errs
    | «exists» => exact ih p' sp' h1 _
    | notFound => exact ih p' sp' h1 _
    | mdTooLarge => exact ih p' sp' h1 _

/-- **Refinement, one log entry**: `process` (the model of `partition.process` and its callees,
on top of the HNSW model) and the finite-map specification move in lock step — same
notified outcome, and the refinement relation (hence contents, item count, byte counter) is
re-established. For all six change kinds, all states, all queues, all distances. -/
theorem refines_process (hp : PickOK pick) (p : PState) (sp : Spec) (h : Refines dim p sp) (c : Change) :
    Refines dim (process Pmin Pmax dist cfg dim pick p c).1 (sp.step c).1 ∧
    (process Pmin Pmax dist cfg dim pick p c).2 = (sp.step c).2 := by
  cases c with
  | insert id vec md level =>
    have := refines_insert (Pmin := Pmin) (Pmax := Pmax) (dist := dist) cfg dim p sp h id vec md level
    exact ⟨this.1, congrArg Result.single this.2⟩
  | update id vec md =>
    have := refines_update (Pmin := Pmin) (Pmax := Pmax) (dist := dist) cfg dim pick hp p sp h id vec md
    exact ⟨this.1, congrArg Result.single this.2⟩
  | delete id =>
    have := refines_remove (Pmin := Pmin) (Pmax := Pmax) (dist := dist) cfg dim pick hp p sp h id
    exact ⟨this.1, congrArg Result.single this.2⟩
  | batchInsert items =>
    have := refines_batchFold dim _ _ (fun q sq it hq =>
      refines_insert (Pmin := Pmin) (Pmax := Pmax) (dist := dist) cfg dim q sq hq it.id it.vec it.md it.level) p sp h items
    exact ⟨this.1, congrArg Result.batch this.2⟩
  | batchUpdate items =>
    have := refines_batchFold dim _ _ (fun q sq it hq =>
      refines_update (Pmin := Pmin) (Pmax := Pmax) (dist := dist) cfg dim pick hp q sq hq it.id it.vec it.md) p sp h items
    exact ⟨this.1, congrArg Result.batch this.2⟩
  | batchDelete items =>
    have := refines_batchFold dim _ _ (fun q sq it hq =>
      refines_remove (Pmin := Pmin) (Pmax := Pmax) (dist := dist) cfg dim pick hp q sq hq it.id) p sp h items
    exact ⟨this.1, congrArg Result.batch this.2⟩

/-- apply a whole log -/
def runLog (p : PState) : List Change → PState × List Result
  | [] => (p, [])
  | c :: cs =>
    let r := process Pmin Pmax dist cfg dim pick p c
    let rest := runLog r.1 cs
    (rest.1, r.2 :: rest.2)

def Spec.runLog (s : Spec) : List Change → Spec × List Result
  | [] => (s, [])
  | c :: cs =>
    let r := s.step c
    let rest := Spec.runLog r.1 cs
    (rest.1, r.2 :: rest.2)

/-- **Refinement, every log.** -/
theorem refines_runLog (hp : PickOK pick) (p : PState) (sp : Spec) (h : Refines dim p sp) (log : List Change) :
    Refines dim (runLog (Pmin := Pmin) (Pmax := Pmax) (dist := dist) cfg dim pick p log).1 (sp.runLog log).1 ∧
    (runLog (Pmin := Pmin) (Pmax := Pmax) (dist := dist) cfg dim pick p log).2 = (sp.runLog log).2 := by
  induction log generalizing p sp with
  | nil => exact ⟨h, rfl⟩
  | cons c cs ih =>
    obtain ⟨h1, h2⟩ := refines_process (Pmin := Pmin) (Pmax := Pmax) (dist := dist) cfg dim pick hp p sp h c
    obtain ⟨h3, h4⟩ := ih _ _ h1
    exact ⟨h3, by show _ :: _ = _ :: _; rw [h2, h4]⟩

/-- installing a snapshot (`Save` + `Load`) keeps the refinement: the counters are recomputed
from the loaded items, which is what `Load` does after the D4 repair -/
theorem refines_reload (p : PState) (sp : Spec) (h : Refines dim p sp) :
    Refines dim ⟨p.idx.reload, p.len, p.bytes⟩ sp := by
  have fr : EdgeFrame p.idx p.idx.reload := by
    refine ⟨rfl, rfl, rfl, rfl, ?_⟩
    intro v
    unfold Index.reload
    simp only
    cases p.idx.verts v with
    | none => rfl
    | some x => rfl
  exact ⟨h.inv.of_frame fr, h.alloc.of_frame fr, fun i => by rw [absI_reload]; exact h.abs i,
    h.ids, h.nodup, h.len, h.bytes⟩

end
end Anndb
