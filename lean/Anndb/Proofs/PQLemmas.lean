import Anndb.Model.PQ
/-! Consequences of `Lawful` for the derived queue operations (`popN`, `drain`, `trimTo`). -/
namespace Anndb

/-- `l₁` is contained in `l₂` as a multiset. -/
def Sub {α : Type} (l₁ l₂ : List α) : Prop := ∃ r, l₂.Perm (l₁ ++ r)

namespace Sub
variable {α β : Type} {l₁ l₂ l₃ : List α}

theorem refl (l : List α) : Sub l l := ⟨[], by simp⟩

theorem of_perm (h : l₁.Perm l₂) : Sub l₁ l₂ := ⟨[], by simpa using h.symm⟩

theorem of_perm_cons {x : α} (h : l₂.Perm (x :: l₁)) : Sub l₁ l₂ :=
  ⟨[x], h.trans (by simpa using (List.perm_append_comm (l₁ := [x]) (l₂ := l₁)))⟩

theorem trans (h₁ : Sub l₁ l₂) (h₂ : Sub l₂ l₃) : Sub l₁ l₃ := by
  obtain ⟨r₁, p₁⟩ := h₁
  obtain ⟨r₂, p₂⟩ := h₂
  refine ⟨r₁ ++ r₂, p₂.trans ?_⟩
  rw [← List.append_assoc]
  exact List.Perm.append_right _ p₁

theorem mem (h : Sub l₁ l₂) {x : α} (hx : x ∈ l₁) : x ∈ l₂ := by
  obtain ⟨r, p⟩ := h
  exact p.mem_iff.mpr (List.mem_append_left _ hx)

theorem length_le (h : Sub l₁ l₂) : l₁.length ≤ l₂.length := by
  obtain ⟨r, p⟩ := h
  rw [p.length_eq, List.length_append]; omega

theorem nodup_map (f : α → β) (h : Sub l₁ l₂) (hn : (l₂.map f).Nodup) : (l₁.map f).Nodup := by
  obtain ⟨r, p⟩ := h
  have := ((p.map f).nodup_iff).mp hn
  rw [List.map_append] at this
  exact (List.nodup_append.mp this).1

theorem nil (l : List α) : Sub [] l := ⟨l, by simp⟩

end Sub

namespace PQImpl
variable {P : PQImpl} {better : Item → Item → Prop} (h : Lawful P better)

include h in
theorem popN_perm (n : Nat) (q : P.Q) :
    (P.toList q).Perm ((P.popN n q).1 ++ P.toList (P.popN n q).2) := by
  induction n generalizing q with
  | zero => simp [popN]
  | succ n ih =>
    unfold popN
    split
    · simp
    · rename_i x q' hp
      have hp' := (h.pop_some _ _ _ hp).1
      simp only [List.cons_append]
      exact hp'.trans (List.Perm.cons _ (ih q'))

include h in
theorem popN_length (n : Nat) (q : P.Q) (hn : n ≤ P.len q) : (P.popN n q).1.length = n := by
  induction n generalizing q with
  | zero => simp [popN]
  | succ n ih =>
    unfold popN
    have hne : P.toList q ≠ [] := by
      intro he; simp [len, he] at hn
    obtain ⟨x, q', hp⟩ := h.pop_progress q hne
    simp only [hp, List.length_cons]
    have hl := ((h.pop_some _ _ _ hp).1).length_eq
    simp only [List.length_cons] at hl
    rw [ih q' (by simp only [len] at hn ⊢; omega)]

include h in
theorem drain_perm (q : P.Q) : (P.drain q).Perm (P.toList q) := by
  unfold drain
  have hp := popN_perm h (P.len q) q
  have hl := popN_length h (P.len q) q (Nat.le_refl _)
  have : (P.toList (P.popN (P.len q) q).2) = [] := by
    have h1 := hp.length_eq
    rw [List.length_append, hl] at h1
    have h2 : P.len q = (P.toList q).length := rfl
    exact List.eq_nil_of_length_eq_zero (by omega)
  rw [this, List.append_nil] at hp
  exact hp.symm

include h in
/-- popped items come out best-first: each is `better` than everything popped later -/
theorem popN_pairwise (n : Nat) (q : P.Q) : (P.popN n q).1.Pairwise better := by
  induction n generalizing q with
  | zero => simp [popN]
  | succ n ih =>
    unfold popN
    split
    · simp
    · rename_i x q' hp
      simp only [List.pairwise_cons]
      refine ⟨?_, ih q'⟩
      intro y hy
      have hall := (h.pop_some _ _ _ hp).2
      have hperm := (h.pop_some _ _ _ hp).1
      have hy' : y ∈ P.toList q' := by
        have := popN_perm h n q'
        exact this.mem_iff.mpr (List.mem_append_left _ hy)
      exact hall y (hperm.mem_iff.mpr (List.mem_cons_of_mem _ hy'))

include h in
theorem drain_pairwise (q : P.Q) : (P.drain q).Pairwise better := popN_pairwise h _ q

include h in
theorem trimTo_sub (k fuel : Nat) (q : P.Q) : Sub (P.toList (P.trimTo k fuel q)) (P.toList q) := by
  induction fuel generalizing q with
  | zero => exact Sub.refl _
  | succ f ih =>
    unfold trimTo
    split
    · split
      · exact Sub.refl _
      · rename_i x q' hp
        exact (ih q').trans (Sub.of_perm_cons (h.pop_some _ _ _ hp).1)
    · exact Sub.refl _

include h in
theorem trimTo_len (k fuel : Nat) (q : P.Q) (hf : P.len q ≤ k + fuel) :
    P.len (P.trimTo k fuel q) ≤ k := by
  induction fuel generalizing q with
  | zero => simpa [trimTo] using hf
  | succ f ih =>
    unfold trimTo
    split
    · rename_i hgt
      have hne : P.toList q ≠ [] := by intro he; simp [len, he] at hgt
      obtain ⟨x, q', hp⟩ := h.pop_progress q hne
      simp only [hp]
      apply ih
      have hl := ((h.pop_some _ _ _ hp).1).length_eq
      simp only [List.length_cons] at hl
      simp only [len] at hf ⊢; omega
    · rename_i hle; omega

include h in
theorem trimTo_nonempty (k fuel : Nat) (q : P.Q) (hk : 1 ≤ k) (hq : P.toList q ≠ []) :
    P.toList (P.trimTo k fuel q) ≠ [] := by
  induction fuel generalizing q with
  | zero => simpa [trimTo] using hq
  | succ f ih =>
    unfold trimTo
    split
    · rename_i hgt
      obtain ⟨x, q', hp⟩ := h.pop_progress q hq
      simp only [hp]
      apply ih
      have hl := ((h.pop_some _ _ _ hp).1).length_eq
      simp only [List.length_cons] at hl
      intro he
      simp [len, he] at hgt hl
      omega
    · exact hq

end PQImpl
end Anndb
