import Anndb.Model.Exact
/-!
# The brute-force ranking is determined by "sorted, a sub-multiset, and dominated by the rest"

`topk_of_best`: a sorted list `L` that is a sub-multiset of `row`, has `min k |row|` elements, and
whose every element is ≤ every element left out, *is* `exactTopK k row` — the specification the
`exact` engine's driver computes. -/
namespace Anndb.Exact

theorem sorted_perm_eq : ∀ (l₁ l₂ : List Nat), l₁.Pairwise (· ≤ ·) → l₂.Pairwise (· ≤ ·) → l₁.Perm l₂ → l₁ = l₂ := by
  intro l₁
  induction l₁ with
  | nil => intro l₂ _ _ p; exact p.nil_eq
  | cons a t ih =>
    intro l₂ h1 h2 p
    cases l₂ with
    | nil => exact absurd p.symm.nil_eq (by simp)
    | cons b u =>
      have hab : a = b := by
        have ha : a ∈ b :: u := p.mem_iff.mp List.mem_cons_self
        have hb : b ∈ a :: t := p.mem_iff.mpr List.mem_cons_self
        have h1' := List.pairwise_cons.mp h1
        have h2' := List.pairwise_cons.mp h2
        have le1 : a ≤ b := by
          rcases List.mem_cons.mp hb with h | h
          · omega
          · exact h1'.1 b h
        have le2 : b ≤ a := by
          rcases List.mem_cons.mp ha with h | h
          · omega
          · exact h2'.1 a h
        omega
      subst hab
      rw [ih u (List.pairwise_cons.mp h1).2 (List.pairwise_cons.mp h2).2 p.cons_inv]

theorem pairwise_sort (l : List Nat) : (l.mergeSort (fun a b => decide (a ≤ b))).Pairwise (· ≤ ·) := by
  have := List.pairwise_mergeSort (le := fun (a b : Nat) => decide (a ≤ b))
    (by intro a b c h1 h2; simp at h1 h2 ⊢; omega)
    (by intro a b; simp; omega) l
  exact this.imp (by intro a b h; simpa using h)

theorem topk_of_best (k : Nat) (row L rest : List Nat) (hs : L.Pairwise (· ≤ ·))
    (hp : row.Perm (L ++ rest)) (hd : ∀ y ∈ L, ∀ x ∈ rest, y ≤ x)
    (hl : L.length = min k row.length) : L = exactTopK k row := by
  unfold exactTopK
  have hT : (L ++ rest.mergeSort (fun a b => decide (a ≤ b))).Pairwise (· ≤ ·) := by
    rw [List.pairwise_append]
    refine ⟨hs, pairwise_sort rest, ?_⟩
    intro y hy x hx
    exact hd y hy x ((List.mergeSort_perm rest _).mem_iff.mp hx)
  have hperm : (row.mergeSort (fun a b => decide (a ≤ b))).Perm (L ++ rest.mergeSort (fun a b => decide (a ≤ b))) :=
    ((List.mergeSort_perm row _).trans hp).trans (List.Perm.append_left L (List.mergeSort_perm rest _).symm)
  rw [sorted_perm_eq _ _ (pairwise_sort row) hT hperm]
  have hlen := hp.length_eq
  rw [List.length_append] at hlen
  by_cases hk : k ≤ row.length
  · have : L.length = k := by omega
    exact (List.take_left' this).symm
  · have hr : rest.length = 0 := by omega
    have : rest = [] := List.eq_nil_of_length_eq_zero hr
    subst this
    simp only [List.mergeSort_nil, List.append_nil]
    exact (List.take_of_length_le (by omega)).symm

end Anndb.Exact
