import Anndb.Model.Codec
/-!
# Round-trip lemmas for the snapshot codec (C08)
-/
namespace Anndb.Codec

theorem beBytes_length (w n : Nat) : (beBytes w n).length = w := by simp [beBytes]

theorem beNat_append_single (bs : Bytes) (b : Nat) : beNat (bs ++ [b]) = beNat bs * 256 + b := by
  simp [beNat, List.foldl_append]

theorem beBytes_succ (w n : Nat) : beBytes (w + 1) n = beBytes w (n / 256) ++ [n % 256] := by
  unfold beBytes
  rw [List.range_succ, List.map_append]
  congr 1
  · apply List.map_congr_left
    intro i hi
    have hi' : i < w := List.mem_range.mp hi
    have e1 : w + 1 - 1 - i = (w - 1 - i) + 1 := by omega
    rw [e1, Nat.pow_succ, Nat.mul_comm, ← Nat.div_div_eq_div_mul]
  · simp

/-- big-endian write then read is the identity on numbers that fit -/
theorem beNat_beBytes (w n : Nat) (h : n < 256 ^ w) : beNat (beBytes w n) = n := by
  induction w generalizing n with
  | zero =>
    have : n = 0 := by simpa using h
    subst this; rfl
  | succ w ih =>
    rw [beBytes_succ, beNat_append_single, ih (n / 256)]
    · omega
    · rw [Nat.pow_succ] at h
      exact Nat.div_lt_of_lt_mul (by rw [Nat.mul_comm]; exact h)

theorem takeN_append (a rest : Bytes) : takeN a.length (a ++ rest) = some (a, rest) := by
  unfold takeN
  simp

theorem readBE_append (w n : Nat) (h : n < 256 ^ w) (rest : Bytes) :
    readBE w (beBytes w n ++ rest) = some (n, rest) := by
  unfold readBE
  have := takeN_append (beBytes w n) rest
  rw [beBytes_length] at this
  rw [this]
  simp [beNat_beBytes w n h]

/-- generic list round trip -/
theorem decMany_append {α : Type} (enc : α → Bytes) (dec : Bytes → Option (α × Bytes)) (xs : List α)
    (h : ∀ x ∈ xs, ∀ rest, dec (enc x ++ rest) = some (x, rest)) (rest : Bytes) :
    decMany dec xs.length ((xs.map enc).flatten ++ rest) = some (xs, rest) := by
  induction xs with
  | nil => simp [decMany]
  | cons x t ih =>
    simp only [List.length_cons, List.map_cons, List.flatten_cons, List.append_assoc, decMany]
    rw [h x List.mem_cons_self]
    simp only [Option.bind_eq_bind, Option.bind_some]
    rw [ih (fun y hy => h y (List.mem_cons_of_mem _ hy))]
    rfl

/-- a successful list decode of `n` records, each consuming at least one byte, means the count
was at most the number of bytes available: allocations sized by a count are bounded by the input -/
theorem decMany_count_le {α : Type} (dec : Bytes → Option (α × Bytes))
    (hpos : ∀ bs x rest, dec bs = some (x, rest) → rest.length < bs.length)
    (n : Nat) (bs : Bytes) (xs : List α) (rest : Bytes)
    (h : decMany dec n bs = some (xs, rest)) : n + rest.length ≤ bs.length ∧ xs.length = n := by
  induction n generalizing bs xs with
  | zero =>
    simp only [decMany, Option.some.injEq, Prod.mk.injEq] at h
    obtain ⟨h1, h2⟩ := h
    subst h1; subst h2; simp
  | succ n ih =>
    simp only [decMany, Option.bind_eq_bind] at h
    cases hd : dec bs with
    | none => simp [hd] at h
    | some p =>
      obtain ⟨x, bs1⟩ := p
      simp only [hd, Option.bind_some] at h
      cases hm : decMany dec n bs1 with
      | none => simp [hm] at h
      | some q =>
        obtain ⟨ys, bs2⟩ := q
        simp only [hm, Option.bind_some, Option.pure_def, Option.some.injEq, Prod.mk.injEq] at h
        obtain ⟨h1, h2⟩ := h
        subst h1; subst h2
        have := ih bs1 ys hm
        have := hpos bs x bs1 hd
        simp only [List.length_cons]
        omega

/-! ### well-formedness: the explicit bounds under which the format is faithful -/

def KV.wf (kv : KV) : Prop :=
  kv.key.length < 256 ∧ kv.val.length < 65536

def VRec.wf (dim : Nat) (v : VRec) : Prop :=
  v.id < 256 ^ 16 ∧ v.level < 256 ^ 4 ∧ v.vec.length = dim ∧ (∀ x ∈ v.vec, x < 256 ^ 4) ∧
  v.md.length < 65536 ∧ ∀ kv ∈ v.md, kv.wf

def levelWf (l : List (Nat × Nat)) : Prop :=
  l.length < 256 ^ 4 ∧ ∀ e ∈ l, e.1 < 256 ^ 16 ∧ e.2 < 256 ^ 4

def ERec.wf (sh : List VRec) (e : ERec) : Prop :=
  e.id < 256 ^ 16 ∧ (sh.find? (·.id == e.id)).map (·.level) = some (e.levels.length - 1) ∧
  0 < e.levels.length ∧ ∀ l ∈ e.levels, levelWf l

def File.wf (dim : Nat) (f : File) : Prop :=
  f.entry < 256 ^ 16 ∧ f.shards.length = 16 ∧
  (∀ sh ∈ f.shards, sh.length < 256 ^ 4 ∧ ∀ v ∈ sh, v.wf dim) ∧
  List.Forall₂' f.shards f.edges
where
  /-- shard-wise: one edge record per vertex of the shard, each well formed w.r.t. its shard -/
  List.Forall₂' : List (List VRec) → List (List ERec) → Prop
    | [], [] => True
    | sh :: shs, g :: gs => g.length = sh.length ∧ (∀ e ∈ g, e.wf sh) ∧ List.Forall₂' shs gs
    | _, _ => False

/-! ### record round trips -/

theorem decKV_append (kv : KV) (h : kv.wf) (rest : Bytes) : decKV (encKV kv ++ rest) = some (kv, rest) := by
  unfold decKV encKV
  simp only [List.append_assoc, Option.bind_eq_bind]
  rw [readBE_append 1 kv.key.length (by simpa using h.1)]
  simp only [Option.bind_some]
  rw [takeN_append]
  simp only [Option.bind_some]
  rw [readBE_append 2 kv.val.length (by simpa using h.2)]
  simp only [Option.bind_some]
  rw [takeN_append]
  rfl

theorem decV_append (dim : Nat) (v : VRec) (h : v.wf dim) (rest : Bytes) :
    decV dim (encV v ++ rest) = some (v, rest) := by
  obtain ⟨h1, h2, h3, h4, h5, h6⟩ := h
  unfold decV encV
  simp only [List.append_assoc, Option.bind_eq_bind]
  rw [readBE_append 16 v.id h1]
  simp only [Option.bind_some]
  rw [readBE_append 4 v.level h2]
  simp only [Option.bind_some]
  have hv := decMany_append (beBytes 4) (readBE 4) v.vec (fun x hx r => readBE_append 4 x (h4 x hx) r)
  rw [h3] at hv
  rw [hv]
  simp only [Option.bind_some]
  rw [readBE_append 2 v.md.length (by simpa using h5)]
  simp only [Option.bind_some]
  rw [decMany_append encKV decKV v.md (fun kv hkv r => decKV_append kv (h6 kv hkv) r)]
  rfl

theorem decShard_append (dim : Nat) (sh : List VRec) (hl : sh.length < 256 ^ 4) (h : ∀ v ∈ sh, v.wf dim)
    (rest : Bytes) :
    decShard dim ((beBytes 4 sh.length ++ (sh.map encV).flatten) ++ rest) = some (sh, rest) := by
  unfold decShard
  simp only [List.append_assoc, Option.bind_eq_bind]
  rw [readBE_append 4 sh.length hl]
  simp only [Option.bind_some]
  exact decMany_append encV (decV dim) sh (fun v hv r => decV_append dim v (h v hv) r) rest

theorem decEdge_append (e : Nat × Nat) (h1 : e.1 < 256 ^ 16) (h2 : e.2 < 256 ^ 4) (rest : Bytes) :
    decEdge ((beBytes 16 e.1 ++ beBytes 4 e.2) ++ rest) = some (e, rest) := by
  unfold decEdge
  simp only [List.append_assoc, Option.bind_eq_bind]
  rw [readBE_append 16 e.1 h1]
  simp only [Option.bind_some]
  rw [readBE_append 4 e.2 h2]
  rfl

theorem decLevel_append (l : List (Nat × Nat)) (h : levelWf l) (rest : Bytes) :
    decLevel ((beBytes 4 l.length ++ (l.map fun (n, d) => beBytes 16 n ++ beBytes 4 d).flatten) ++ rest)
      = some (l, rest) := by
  unfold decLevel
  simp only [List.append_assoc, Option.bind_eq_bind]
  rw [readBE_append 4 l.length h.1]
  simp only [Option.bind_some]
  exact decMany_append (fun (e : Nat × Nat) => beBytes 16 e.1 ++ beBytes 4 e.2) decEdge l
    (fun e he r => decEdge_append e (h.2 e he).1 (h.2 e he).2 r) rest

theorem decE_append (sh : List VRec) (e : ERec) (h : e.wf sh) (rest : Bytes) :
    decE (fun id => (sh.find? (·.id == id)).map (·.level)) (encE e ++ rest) = some (e, rest) := by
  obtain ⟨h1, h2, h3, h4⟩ := h
  unfold decE encE
  simp only [List.append_assoc, Option.bind_eq_bind]
  rw [readBE_append 16 e.id h1]
  simp only [Option.bind_some, h2]
  have hlen : e.levels.length - 1 + 1 = e.levels.length := by omega
  rw [hlen]
  have := decMany_append
    (fun (l : List (Nat × Nat)) => beBytes 4 l.length ++ (l.map fun (n, d) => beBytes 16 n ++ beBytes 4 d).flatten)
    decLevel e.levels (fun l hl r => decLevel_append l (h4 l hl) r) rest
  rw [this]
  rfl

theorem decEdgeGroups_append (shards : List (List VRec)) (edges : List (List ERec))
    (h : File.wf.List.Forall₂' shards edges) (rest : Bytes) :
    decEdgeGroups shards ((edges.map fun g => (g.map encE).flatten).flatten ++ rest) = some (edges, rest) := by
  induction shards generalizing edges with
  | nil =>
    cases edges with
    | nil => simp [decEdgeGroups]
    | cons g gs => exact absurd h (by simp [File.wf.List.Forall₂'])
  | cons sh shs ih =>
    cases edges with
    | nil => exact absurd h (by simp [File.wf.List.Forall₂'])
    | cons g gs =>
      obtain ⟨hl, hg, hrest⟩ := h
      simp only [decEdgeGroups, List.map_cons, List.flatten_cons, List.append_assoc, Option.bind_eq_bind]
      have := decMany_append encE (decE (fun id => (sh.find? (·.id == id)).map (·.level))) g
        (fun e he r => decE_append sh e (hg e he) r)
      rw [hl] at this
      rw [this]
      simp only [Option.bind_some]
      rw [ih gs hrest]
      rfl

end Anndb.Codec
