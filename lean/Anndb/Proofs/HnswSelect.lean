import Anndb.Proofs.HnswSearch
import Anndb.Proofs.PQLemmas
/-!
# Greedy descent and neighbour selection preserve what `searchLevel` established
-/
namespace Anndb
open Index

section
variable {Pmin Pmax : PQImpl} {dist : VecRef → VecRef → Score} (cfg : Cfg)
variable (hmin : Lawful Pmin minBetter) (hmax : Lawful Pmax maxBetter)
variable (s : Index) (q : VecRef)

/-! ### greedy descent -/

theorem greedyScan_some (l : Nat) (cur : Vid) (dmin : Score) (w : Vid) (d : Score)
    (h : greedyScan dist s q l cur dmin = (some w, d)) :
    w ∈ s.nbrs cur l ∧ s.isDeleted w = false := by
  unfold greedyScan at h
  -- generalise the fold
  have key : ∀ (ns : List Vid) (acc : Option Vid × Score),
      (∀ u, acc.1 = some u → u ∈ s.nbrs cur l ∧ s.isDeleted u = false) →
      (∀ n ∈ ns, n ∈ s.nbrs cur l) →
      ∀ u, (ns.foldl (fun (acc : Option Vid × Score) w =>
              if s.isDeleted w then acc
              else
                let d := dist q (s.vecOf w)
                if d < acc.2 then (some w, d) else acc) acc).1 = some u →
        u ∈ s.nbrs cur l ∧ s.isDeleted u = false := by
    intro ns
    induction ns with
    | nil => intro acc hacc _ u hu; exact hacc u hu
    | cons n t ih =>
      intro acc hacc hmem u hu
      simp only [List.foldl_cons] at hu
      apply ih _ _ (fun m hm => hmem m (List.mem_cons_of_mem _ hm)) u hu
      intro u' hu'
      by_cases hd : s.isDeleted n = true
      · simp [hd] at hu'; exact hacc u' hu'
      · have hd' : s.isDeleted n = false := by cases hx : s.isDeleted n <;> simp_all
        simp only [hd', Bool.false_eq_true, if_false] at hu'
        by_cases hlt : dist q (s.vecOf n) < acc.2
        · simp [hlt] at hu'; subst hu'; exact ⟨hmem n List.mem_cons_self, hd'⟩
        · simp [hlt] at hu'; exact hacc u' hu'
  have := key (s.nbrs cur l) (none, dmin) (by intro u hu; cases hu) (fun n hn => hn) w
  apply this
  rw [h]

/-- `R` is any relation closed under following a live link (of any level). -/
theorem greedy_closed (R : Vid → Prop)
    (hR : ∀ l u w, R u → w ∈ s.nbrs u l → s.isDeleted w = false → R w)
    (l fuel : Nat) (cur : Vid) (dmin : Score) (hcur : R cur) :
    R (greedy dist s q l fuel cur dmin).1 := by
  induction fuel generalizing cur dmin with
  | zero => exact hcur
  | succ f ih =>
    unfold greedy
    split
    · exact hcur
    · rename_i w d hsc
      have := greedyScan_some s q l cur dmin w d hsc
      exact ih w d (hR l cur w hcur this.1 this.2)

theorem descend_closed (R : Vid → Prop)
    (hR : ∀ l u w, R u → w ∈ s.nbrs u l → s.isDeleted w = false → R w)
    (lo n : Nat) (cur : Vid) (dmin : Score) (hcur : R cur) :
    R (descend dist s q lo n cur dmin).1 := by
  induction n generalizing cur dmin with
  | zero => exact hcur
  | succ n ih =>
    unfold descend
    simp only
    have := greedy_closed (dist := dist) s q R hR (lo + n + 1) s.next cur dmin hcur
    generalize greedy dist s q (lo + n + 1) s.next cur dmin = g at this
    obtain ⟨c', d'⟩ := g
    exact ih c' d' this

/-! ### selection -/

/-- the per-item facts that selection must preserve (start vertex `ep`, predicate `P`) -/
def ItemFact (dist : VecRef → VecRef → Score) (s : Index) (q : VecRef) (ep : Vid) (P : Vid → Prop) (it : Item) : Prop :=
  it.score = dist q (s.vecOf it.vid) ∧ (it.vid = ep ∨ s.isDeleted it.vid = false) ∧ P it.vid

theorem ResOK.of_sub {ep : Vid} {P : Vid → Prop} {l₁ l₂ : List Item}
    (h : ResOK dist s q ep P l₂) (hs : Sub l₁ l₂) : ResOK dist s q ep P l₁ :=
  ⟨fun it hit => h.items it (hs.mem hit), hs.nodup_map (·.vid) h.nodup⟩

include hmax in
theorem selectSimple_ok {ep : Vid} {P : Vid → Prop} (n : Pmax.Q) (k : Nat)
    (h : ResOK dist s q ep P (Pmax.toList n)) :
    ResOK dist s q ep P (Pmax.toList (selectSimple Pmax n k)) :=
  h.of_sub s q (PQImpl.trimTo_sub hmax k _ n)

include hmax in
theorem selectSimple_len (n : Pmax.Q) (k : Nat) : Pmax.len (selectSimple Pmax n k) ≤ k :=
  PQImpl.trimTo_len hmax k _ n (by omega)

include hmax in
theorem selectSimple_nonempty (n : Pmax.Q) (k : Nat) (hk : 1 ≤ k) (hn : Pmax.toList n ≠ []) :
    Pmax.toList (selectSimple Pmax n k) ≠ [] :=
  PQImpl.trimTo_nonempty hmax k _ n hk hn

/-- invariant of the candidate-extension loop -/
structure CandInv (dist : VecRef → VecRef → Score) (s : Index) (q : VecRef) (ep : Vid) (P : Vid → Prop)
    (a : Pmin.Q × List Vid) : Prop where
  seen : ∀ it ∈ Pmin.toList a.1, it.vid ∈ a.2
  ok : ResOK dist s q ep P (Pmin.toList a.1)

include hmin in
theorem extendStep_inv {ep : Vid} {P : Vid → Prop} (level : Nat)
    (hcl : ∀ u w, P u → w ∈ s.nbrs u level → s.isDeleted w = false → P w)
    (a : Pmin.Q × List Vid) (c : Vid) (hc : P c)
    (h : CandInv (Pmin := Pmin) dist s q ep P a) :
    CandInv (Pmin := Pmin) dist s q ep P (extendStep Pmin dist s q level a c) := by
  unfold extendStep
  have key : ∀ (ns : List Vid) (a : Pmin.Q × List Vid),
      (∀ n ∈ ns, s.isDeleted n = false → P n) →
      CandInv (Pmin := Pmin) dist s q ep P a →
      CandInv (Pmin := Pmin) dist s q ep P (ns.foldl (fun (a : Pmin.Q × List Vid) w =>
        if s.isDeleted w then a
        else if w ∈ a.2 then a
        else (Pmin.push a.1 ⟨dist q (s.vecOf w), w⟩, w :: a.2)) a) := by
    intro ns
    induction ns with
    | nil => intro a _ ha; exact ha
    | cons n t ih =>
      intro a hP ha
      simp only [List.foldl_cons]
      apply ih _ (fun m hm => hP m (List.mem_cons_of_mem _ hm))
      by_cases hd : s.isDeleted n = true
      · simp [hd]; exact ha
      · have hd' : s.isDeleted n = false := by cases hx : s.isDeleted n <;> simp_all
        simp only [hd', Bool.false_eq_true, if_false]
        by_cases hv : n ∈ a.2
        · simp [hv]; exact ha
        · simp only [hv, if_false]
          have perm := hmin.push_perm a.1 ⟨dist q (s.vecOf n), n⟩
          refine ⟨?_, ?_, ?_⟩
          · intro it hit
            rcases List.mem_cons.mp (perm.mem_iff.mp hit) with rfl | hm
            · exact List.mem_cons_self
            · exact List.mem_cons_of_mem _ (ha.seen it hm)
          · intro it hit
            rcases List.mem_cons.mp (perm.mem_iff.mp hit) with rfl | hm
            · exact ⟨rfl, Or.inr hd', hP n List.mem_cons_self hd'⟩
            · exact ha.ok.items it hm
          · refine ((perm.map (·.vid)).nodup_iff).mpr ?_
            simp only [List.map_cons, List.nodup_cons]
            refine ⟨?_, ha.ok.nodup⟩
            intro hmem
            rcases List.mem_map.mp hmem with ⟨it, hit, hvid⟩
            exact hv (hvid ▸ ha.seen it hit)
  exact key _ a (fun n hn hdn => hcl c n hc hn hdn) h

include hmin hmax in
theorem fillResult_sub (k fuel : Nat) (c : Pmin.Q) (r : Pmax.Q) :
    Sub (Pmax.toList (fillResult Pmin Pmax k fuel c r)) (Pmax.toList r ++ Pmin.toList c) := by
  induction fuel generalizing c r with
  | zero => exact ⟨Pmin.toList c, List.Perm.refl _⟩
  | succ f ih =>
    unfold fillResult
    split
    · split
      · exact ⟨Pmin.toList c, List.Perm.refl _⟩
      · rename_i x c' hp
        refine (ih c' (Pmax.push r x)).trans (Sub.of_perm ?_)
        have p1 := hmax.push_perm r x
        have p2 := (hmin.pop_some _ _ _ hp).1
        -- (x :: r) ++ c'  ~  r ++ (x :: c')
        refine (List.Perm.append_right _ p1).trans ?_
        refine List.Perm.trans ?_ (List.Perm.append_left _ p2.symm)
        simp only [List.cons_append]
        exact (List.perm_middle).symm
    · exact ⟨Pmin.toList c, List.Perm.refl _⟩

include hmin hmax in
theorem fillResult_len (k fuel : Nat) (c : Pmin.Q) (r : Pmax.Q) (hr : Pmax.len r ≤ k) :
    Pmax.len (fillResult Pmin Pmax k fuel c r) ≤ k := by
  induction fuel generalizing c r with
  | zero => exact hr
  | succ f ih =>
    unfold fillResult
    split
    · rename_i hlt
      split
      · exact hr
      · rename_i x c' hp
        apply ih
        have p1 := (hmax.push_perm r x).length_eq
        simp only [PQImpl.len, List.length_cons] at p1 hlt ⊢
        omega
    · exact hr

include hmin hmax in
theorem fillResult_nonempty (k fuel : Nat) (c : Pmin.Q) (r : Pmax.Q) (hk : 1 ≤ k) (hf : 1 ≤ fuel)
    (hc : Pmin.toList c ≠ []) : Pmax.toList (fillResult Pmin Pmax k fuel c r) ≠ [] := by
  -- once something is in `r` it stays: show by cases on the first step
  have mono : ∀ (fuel : Nat) (c : Pmin.Q) (r : Pmax.Q), Pmax.toList r ≠ [] →
      Pmax.toList (fillResult Pmin Pmax k fuel c r) ≠ [] := by
    intro fuel
    induction fuel with
    | zero => intro c r hr; exact hr
    | succ f ih =>
      intro c r hr
      unfold fillResult
      split
      · split
        · exact hr
        · rename_i x c' hp
          apply ih
          intro he
          have := (hmax.push_perm r x).length_eq
          simp [he] at this
      · exact hr
  obtain ⟨f, rfl⟩ : ∃ f, fuel = f + 1 := ⟨fuel - 1, by omega⟩
  unfold fillResult
  by_cases hlt : Pmax.len r < k
  · simp only [hlt, if_true]
    obtain ⟨x, c', hp⟩ := hmin.pop_progress c hc
    simp only [hp]
    apply mono
    intro he
    have := (hmax.push_perm r x).length_eq
    simp [he] at this
  · simp only [hlt, if_false]
    intro he
    simp [PQImpl.len, he] at hlt
    omega

end
end Anndb
