import Anndb.Proofs.HeapLemmas
/-!
# The repo's priority queue (over `container/heap`) is `Lawful` (C19, second half)
-/
namespace Anndb
namespace Heap

variable {lt : Item → Item → Bool}

theorem get_push_lt (a : Array Item) (x : Item) (k : Nat) (hk : k < a.size) : get (a.push x) k = get a k := by
  simp [get, Array.getElem?_push, hk, Nat.ne_of_lt hk]

theorem get_pop_lt (a : Array Item) (k : Nat) (hk : k < a.size - 1) : get a.pop k = get a k := by
  have hk2 : k < a.size := by omega
  have hk3 : k < a.pop.size := by simpa using hk
  rw [← getElem_eq_get a k hk2, ← getElem_eq_get a.pop k hk3]
  simp

theorem push_heap (hlt : LtOK lt) (a : Array Item) (x : Item) (h : IsHeap lt a a.size) :
    IsHeap lt (push lt a x) (push lt a x).size := by
  unfold push
  rw [size_up]
  apply up_heap hlt _ _ _ _ rfl
  refine ⟨?_, ?_⟩
  · intro k hk0 hkn hkj
    have hks : k < a.size := by simp at hkn; omega
    have hps : parent k < a.size := by unfold parent; omega
    rw [get_push_lt a x k hks, get_push_lt a x (parent k) hps]
    exact h k hk0 hks (Nat.zero_le _)
  · intro k hk0 hkn hpk _
    simp at hkn
    unfold parent at hpk; omega

theorem pop_result (a : Array Item) (h : 0 < a.size) :
    pop lt a = some (get a 0,
      (down lt (a.swap 0 (a.size - 1) (by omega) (by omega)) 0 (a.size - 1) (by simp)).pop) := by
  unfold pop
  simp only [h, dite_true]
  congr 2
  rw [getElem_eq_get, down_frame _ _ _ _ _ (Or.inl (Nat.le_refl _)), get_swap_right]

theorem pop_heap (hlt : LtOK lt) (a : Array Item) (h : 0 < a.size) (hh : IsHeap lt a a.size) :
    let r := (down lt (a.swap 0 (a.size - 1) (by omega) (by omega)) 0 (a.size - 1) (by simp)).pop
    IsHeap lt r r.size := by
  intro r
  have hsz : r.size = a.size - 1 := by simp [r, size_down]
  rw [hsz]
  have hd := down_heap hlt (a.swap 0 (a.size - 1) (by omega) (by omega)) 0 (a.size - 1) 0 (by simp) (Nat.le_refl _) ?_
  · intro k hk0 hkn _
    have hps : parent k < a.size - 1 := by unfold parent; omega
    have e1 : get r k = get (down lt (a.swap 0 (a.size - 1) (by omega) (by omega)) 0 (a.size - 1) (by simp)) k :=
      get_pop_lt _ k (by rw [size_down, Array.size_swap]; exact hkn)
    have e2 : get r (parent k) = get (down lt (a.swap 0 (a.size - 1) (by omega) (by omega)) 0 (a.size - 1) (by simp)) (parent k) :=
      get_pop_lt _ (parent k) (by rw [size_down, Array.size_swap]; exact hps)
    rw [e1, e2]
    exact hd k hk0 hkn (Nat.zero_le _)
  · refine ⟨?_, ?_⟩
    · intro k hk0 hkn _ hpk
      have hpk0 : 0 < parent k := by omega
      have hps : parent k < a.size - 1 := by unfold parent; omega
      rw [get_swap_ne a 0 _ (by omega) (by omega) k (by omega) (by omega),
          get_swap_ne a 0 _ (by omega) (by omega) (parent k) (by omega) (by omega)]
      exact hh k hk0 (by omega) (Nat.zero_le _)
    · intro k _ _ _ h0 _; omega

theorem toList_split_last (D : Array Item) (h : 0 < D.size) :
    D.toList = D.pop.toList ++ [get D (D.size - 1)] := by
  have hne : D.toList ≠ [] := by
    intro he
    have := congrArg List.length he
    simp only [Array.length_toList, List.length_nil] at this; omega
  rw [Array.toList_pop]
  have hg : get D (D.size - 1) = D.toList.getLast hne := by
    rw [List.getLast_eq_getElem]
    rw [← getElem_eq_get D (D.size - 1) (by omega)]
    simp
  rw [hg]
  exact (List.dropLast_concat_getLast hne).symm

theorem pop_perm (a : Array Item) (h : 0 < a.size) :
    a.toList.Perm (get a 0 ::
      (down lt (a.swap 0 (a.size - 1) (by omega) (by omega)) 0 (a.size - 1) (by simp)).pop.toList) := by
  have hd := (down_perm (lt := lt) (a.swap 0 (a.size - 1) (by omega) (by omega)) 0 (a.size - 1) (by simp)).toList
  have hs' := (Array.swap_perm (xs := a) (i := 0) (j := a.size - 1) (by omega) (by omega)).toList
  have hsz : (down lt (a.swap 0 (a.size - 1) (by omega) (by omega)) 0 (a.size - 1) (by simp)).size = a.size := by
    rw [size_down, Array.size_swap]
  have hDn : get (down lt (a.swap 0 (a.size - 1) (by omega) (by omega)) 0 (a.size - 1) (by simp)) (a.size - 1) = get a 0 := by
    rw [down_frame _ _ _ _ _ (Or.inl (Nat.le_refl _)), get_swap_right]
  have hsplit := toList_split_last (down lt (a.swap 0 (a.size - 1) (by omega) (by omega)) 0 (a.size - 1) (by simp)) (by omega)
  rw [hsz, hDn] at hsplit
  refine (hs'.symm.trans (hd.symm.trans ?_))
  rw [hsplit]
  exact List.perm_append_comm.trans (by simp)

/-! ### heapify -/

theorem initLoop_size (a : Array Item) (i : Nat) : (initLoop lt a i).size = a.size := by
  induction i generalizing a with
  | zero => rfl
  | succ k ih => unfold initLoop; rw [ih, size_down]

theorem initLoop_perm (a : Array Item) (i : Nat) : (initLoop lt a i).Perm a := by
  induction i generalizing a with
  | zero => exact Array.Perm.refl _
  | succ k ih => unfold initLoop; exact (ih _).trans (down_perm _ _ _ _)

theorem initLoop_heap (hlt : LtOK lt) (a : Array Item) (i : Nat) (h : HeapAbove lt a a.size i) :
    IsHeap lt (initLoop lt a i) a.size := by
  induction i generalizing a with
  | zero => exact h
  | succ k ih =>
    unfold initLoop
    have hd := down_heap hlt a k a.size k (Nat.le_refl _) (Nat.le_refl _) ?_
    · have := ih (down lt a k a.size (Nat.le_refl _)) (by rw [size_down]; exact hd)
      rw [size_down] at this
      exact this
    · refine ⟨?_, ?_⟩
      · intro j hj0 hjn hlo hne
        exact h j hj0 hjn (by omega)
      · intro j _ _ _ hk0 hlo
        have : parent k < k := by unfold parent; omega
        omega

theorem init_heap (hlt : LtOK lt) (a : Array Item) : IsHeap lt (init lt a) (init lt a).size := by
  unfold init
  rw [initLoop_size]
  apply initLoop_heap hlt
  intro k hk0 hkn hlo
  unfold parent at hlo; omega

/-! ### membership via `get` -/

theorem mem_toList_iff (a : Array Item) (y : Item) : y ∈ a.toList ↔ ∃ k, k < a.size ∧ get a k = y := by
  constructor
  · intro h
    have h' : y ∈ a := Array.mem_def.mpr h
    obtain ⟨k, hk, rfl⟩ := Array.mem_iff_getElem.mp h'
    exact ⟨k, hk, (getElem_eq_get a k hk).symm⟩
  · rintro ⟨k, hk, rfl⟩
    rw [← getElem_eq_get a k hk]
    exact Array.mem_def.mp (Array.getElem_mem hk)

end Heap

open Heap

/-- queue states: arrays in heap order -/
def HeapQ (lt : Item → Item → Bool) : Type := { a : Array Item // IsHeap lt a a.size }

/-- the repo's `priorityQueue` (with `Reverse` copying) as a `PQImpl` -/
def goHeap (lt : Item → Item → Bool) (hlt : LtOK lt) : PQImpl where
  Q := HeapQ lt
  empty := ⟨#[], by intro k _ hk; simp at hk⟩
  push q x := ⟨Heap.push lt q.1 x, push_heap hlt q.1 x q.2⟩
  pop q :=
    if h : 0 < q.1.size then
      some (get q.1 0, ⟨_, pop_heap hlt q.1 h q.2⟩)
    else none
  toList q := q.1.toList
  ofList l := ⟨Heap.init lt l.toArray, init_heap hlt _⟩

theorem goHeap_pop_eq (lt : Item → Item → Bool) (hlt : LtOK lt) (q : HeapQ lt) :
    ((goHeap lt hlt).pop q).map (fun p => (p.1, p.2.1)) = Heap.pop lt q.1 := by
  unfold goHeap
  simp only
  by_cases h : 0 < q.1.size
  · simp only [h, dite_true, Option.map_some]
    rw [pop_result q.1 h]
  · simp only [h, dite_false, Option.map_none]
    unfold Heap.pop
    simp [h]

theorem goHeap_lawful (lt : Item → Item → Bool) (hlt : LtOK lt) :
    Lawful (goHeap lt hlt) (fun x y => lt y x = false) where
  empty_list := rfl
  push_perm q x := by
    show (Heap.push lt q.1 x).toList.Perm (x :: q.1.toList)
    unfold Heap.push
    have h1 := (up_perm (lt := lt) (q.1.push x) q.1.size (by simp)).toList
    refine h1.trans ?_
    simp only [Array.toList_push]
    exact List.perm_append_comm.trans (by simp)
  ofList_perm l := by
    show (Heap.init lt l.toArray).toList.Perm l
    have := (initLoop_perm (lt := lt) l.toArray (l.toArray.size / 2)).toList
    simpa [Heap.init] using this
  pop_none q h := by
    show q.1.toList = []
    unfold goHeap at h
    simp only at h
    by_cases hs : 0 < q.1.size
    · simp [hs] at h
    · have : q.1.size = 0 := by omega
      exact Array.toList_eq_nil_iff.mpr (Array.eq_empty_of_size_eq_zero this)
  pop_some q x q' h := by
    unfold goHeap at h
    simp only at h
    by_cases hs : 0 < q.1.size
    · simp only [hs, dite_true, Option.some.injEq] at h
      have hx : get q.1 0 = x := congrArg Prod.fst h
      have hq' := congrArg Prod.snd h
      simp only at hq'
      subst hx
      constructor
      · -- permutation
        show q.1.toList.Perm (get q.1 0 :: q'.1.toList)
        rw [← hq']
        exact pop_perm q.1 hs
      · intro y hy
        show lt y (get q.1 0) = false
        obtain ⟨k, hk, rfl⟩ := (mem_toList_iff q.1 y).mp hy
        exact root_best hlt q.1 q.1.size q.2 k hk
    · simp [hs] at h
  pop_progress q hq := by
    have hs : 0 < q.1.size := by
      rcases Nat.eq_zero_or_pos q.1.size with h | h
      · exact absurd (Array.toList_eq_nil_iff.mpr (Array.eq_empty_of_size_eq_zero h)) hq
      · exact h
    unfold goHeap
    simp only [hs, dite_true]
    exact ⟨_, _, rfl⟩

theorem ltMin_ok : LtOK ltMin :=
  ⟨by intro a b; simp only [ltMin, decide_eq_true_eq, decide_eq_false_iff_not]; omega,
   by intro a b c; simp only [ltMin, decide_eq_false_iff_not]; omega⟩

theorem ltMax_ok : LtOK ltMax :=
  ⟨by intro a b; simp only [ltMax, decide_eq_true_eq, decide_eq_false_iff_not]; omega,
   by intro a b c; simp only [ltMax, decide_eq_false_iff_not]; omega⟩

/-- C19 ⇒ the index theorems apply to the real queue: -/
theorem goMinHeap_lawful : Lawful (goHeap ltMin ltMin_ok) minBetter := by
  have := goHeap_lawful ltMin ltMin_ok
  have e : (fun x y => ltMin y x = false) = minBetter := by
    funext x y; simp only [ltMin, minBetter, decide_eq_false_iff_not, eq_iff_iff]; omega
  rw [e] at this; exact this

theorem goMaxHeap_lawful : Lawful (goHeap ltMax ltMax_ok) maxBetter := by
  have := goHeap_lawful ltMax ltMax_ok
  have e : (fun x y => ltMax y x = false) = maxBetter := by
    funext x y; simp only [ltMax, maxBetter, decide_eq_false_iff_not, eq_iff_iff]; omega
  rw [e] at this; exact this

end Anndb
