import Anndb.Proofs.HnswInv
import Anndb.Proofs.HnswComplete
/-!
# Insert-only collections small enough that no level-0 link is dropped (C07)

`IO cfg s`: the invariant of an index built by inserts alone while it holds at most `mMax0 + 1`
items: every allocated vertex is live, links lead to live vertices, and the level-0 graph is
symmetric, loop-free, duplicate-free and has a link from every vertex but the first to an older
one — hence connected. `io_insert` shows one more insert keeps it (as long as there is room).
-/
namespace Anndb
open Index

/-! ## edges after the three edge updates -/

theorem edgesOf_updVertex_other (s : Index) (v u : Vid) (f : Vertex → Vertex) (l : Nat) (h : u ≠ v) :
    (s.updVertex v f).edgesOf u l = s.edgesOf u l := by
  simp [Index.edgesOf, Index.updVertex, h]

theorem edgesOf_addEdge_other_vertex (s : Index) (v u : Vid) (l l' : Nat) (w : Vid) (d : Score) (h : u ≠ v) :
    (s.addEdge v l w d).edgesOf u l' = s.edgesOf u l' :=
  edgesOf_updVertex_other s v u _ l' h

theorem edgesOf_addEdge_other_level (s : Index) (v u : Vid) (l l' : Nat) (w : Vid) (d : Score) (h : l' ≠ l) :
    (s.addEdge v l w d).edgesOf u l' = s.edgesOf u l' := by
  by_cases hu : u = v
  · subst hu
    simp only [Index.edgesOf, Index.addEdge, Index.updVertex, if_true]
    cases s.verts u with
    | none => rfl
    | some x => simp [h]
  · exact edgesOf_addEdge_other_vertex s v u l l' w d hu

theorem edgesOf_addEdge_self (s : Index) (v : Vid) (l : Nat) (w : Vid) (d : Score) (x : Vertex)
    (hx : s.verts v = some x) :
    (s.addEdge v l w d).edgesOf v l = (w, d) :: (s.edgesOf v l).filter (·.1 ≠ w) := by
  simp [Index.edgesOf, Index.addEdge, Index.updVertex, hx]

theorem mem_nbrs_addEdge (s : Index) (v u : Vid) (l l' : Nat) (w : Vid) (d : Score) (x : Vid) :
    x ∈ (s.addEdge v l w d).nbrs u l' ↔
      (u = v ∧ l' = l ∧ x = w ∧ s.verts v ≠ none) ∨ x ∈ s.nbrs u l' := by
  by_cases hu : u = v
  · subst hu
    by_cases hl : l' = l
    · subst hl
      cases hx : s.verts u with
      | none =>
        have : (s.addEdge u l' w d).edgesOf u l' = s.edgesOf u l' := by
          simp [Index.edgesOf, Index.addEdge, Index.updVertex, hx]
        simp [Index.nbrs, this]
      | some vx =>
        simp only [Index.nbrs, edgesOf_addEdge_self s u l' w d vx hx, List.map_cons, List.mem_cons,
          List.mem_map, List.mem_filter]
        constructor
        · rintro (rfl | ⟨e, ⟨he, _⟩, rfl⟩)
          · exact Or.inl (by simp)
          · exact Or.inr ⟨e, he, rfl⟩
        · rintro (⟨_, _, rfl, _⟩ | ⟨e, he, rfl⟩)
          · exact Or.inl rfl
          · by_cases hew : e.1 = w
            · exact Or.inl hew
            · exact Or.inr ⟨e, ⟨he, by simpa using hew⟩, rfl⟩
    · simp only [Index.nbrs, edgesOf_addEdge_other_level s u u l l' w d hl]
      constructor
      · intro h; exact Or.inr h
      · rintro (⟨_, h, _⟩ | h)
        · exact absurd h hl
        · exact h
  · simp only [Index.nbrs, edgesOf_addEdge_other_vertex s v u l l' w d hu]
    constructor
    · intro h; exact Or.inr h
    · rintro (⟨h, _⟩ | h)
      · exact absurd h hu
      · exact h

theorem nodup_nbrs_addEdge (s : Index) (v u : Vid) (l l' : Nat) (w : Vid) (d : Score)
    (h : (s.nbrs u l').Nodup) : ((s.addEdge v l w d).nbrs u l').Nodup := by
  by_cases hu : u = v
  · subst hu
    by_cases hl : l' = l
    · subst hl
      cases hx : s.verts u with
      | none =>
        have : (s.addEdge u l' w d).edgesOf u l' = s.edgesOf u l' := by
          simp [Index.edgesOf, Index.addEdge, Index.updVertex, hx]
        simpa [Index.nbrs, this] using h
      | some vx =>
        simp only [Index.nbrs, edgesOf_addEdge_self s u l' w d vx hx, List.map_cons, List.nodup_cons]
        constructor
        · intro hm
          obtain ⟨e, he, hew⟩ := List.mem_map.mp hm
          have := (List.mem_filter.mp he).2
          simp at this
          exact this hew
        · simp only [Index.nbrs] at h
          exact (List.Sublist.map _ (List.filter_sublist)).nodup h
    · simpa [Index.nbrs, edgesOf_addEdge_other_level s u u l l' w d hl] using h
  · simpa [Index.nbrs, edgesOf_addEdge_other_vertex s v u l l' w d hu] using h

theorem edgesOf_setEdges_other_level (s : Index) (v u : Vid) (l l' : Nat) (es : List (Vid × Score)) (h : l' ≠ l) :
    (s.setEdges v l es).edgesOf u l' = s.edgesOf u l' := by
  by_cases hu : u = v
  · subst hu
    simp only [Index.edgesOf, Index.setEdges, Index.updVertex, if_true]
    cases s.verts u with
    | none => rfl
    | some x => simp [h]
  · exact edgesOf_updVertex_other s v u _ l' hu

theorem mem_nbrs_setEdges (s : Index) (v u : Vid) (l l' : Nat) (es : List (Vid × Score)) (x : Vid)
    (h : x ∈ (s.setEdges v l es).nbrs u l') : x ∈ es.map (·.1) ∨ x ∈ s.nbrs u l' := by
  by_cases hu : u = v
  · subst hu
    by_cases hl : l' = l
    · subst hl
      cases hx : s.verts u with
      | none =>
        have : (s.setEdges u l' es).edgesOf u l' = s.edgesOf u l' := by
          simp [Index.edgesOf, Index.setEdges, Index.updVertex, hx]
        simp only [Index.nbrs, this] at h
        exact Or.inr h
      | some vx =>
        have : (s.setEdges u l' es).edgesOf u l' = es := by
          simp [Index.edgesOf, Index.setEdges, Index.updVertex, hx]
        simp only [Index.nbrs, this] at h
        exact Or.inl h
    · simp only [Index.nbrs, edgesOf_setEdges_other_level s u u l l' es hl] at h
      exact Or.inr h
  · simp only [Index.nbrs, Index.setEdges, edgesOf_updVertex_other s v u _ l' hu] at h
    exact Or.inr h

/-! ## neighbour selection keeps any predicate that live links keep -/

section
variable {Pmin Pmax : PQImpl} {dist : VecRef → VecRef → Score} (cfg : Cfg)
variable (hmin : Lawful Pmin minBetter) (hmax : Lawful Pmax maxBetter)

include hmin hmax in
theorem selectNbrs_pred (s : Index) (q : VecRef) (P : Vid → Prop) (n : Pmax.Q) (k level : Nat)
    (hcl : ∀ u w, P u → w ∈ s.nbrs u level → s.isDeleted w = false → P w)
    (h : ∀ it ∈ Pmax.toList n, P it.vid) :
    ∀ it ∈ Pmax.toList (selectNbrs Pmin Pmax dist cfg s q n k level), P it.vid := by
  unfold selectNbrs
  split
  · unfold selectHeuristic
    simp only
    -- every candidate satisfies P
    have p0 := hmin.ofList_perm (Pmax.toList n)
    have c0 : ∀ it ∈ Pmin.toList (Pmin.ofList (Pmax.toList n)), P it.vid :=
      fun it hit => h it (p0.mem_iff.mp hit)
    have inner : ∀ (c : Vid), P c → ∀ (ns : List Vid), (∀ w ∈ ns, w ∈ s.nbrs c level) →
        ∀ (a : Pmin.Q × List Vid), (∀ it ∈ Pmin.toList a.1, P it.vid) →
        ∀ it ∈ Pmin.toList (ns.foldl (fun (a : Pmin.Q × List Vid) w =>
          if s.isDeleted w then a
          else if w ∈ a.2 then a
          else (Pmin.push a.1 ⟨dist q (s.vecOf w), w⟩, w :: a.2)) a).1, P it.vid := by
      intro c hc ns
      induction ns with
      | nil => intro _ a ha; exact ha
      | cons m t ih =>
        intro hns a ha
        simp only [List.foldl_cons]
        apply ih (fun w hw => hns w (List.mem_cons_of_mem _ hw))
        by_cases hd : s.isDeleted m = true
        · simp only [hd, if_true]; exact ha
        · have hd' : s.isDeleted m = false := by cases hx : s.isDeleted m <;> simp_all
          simp only [hd', Bool.false_eq_true, if_false]
          by_cases hv : m ∈ a.2
          · simp only [hv, if_true]; exact ha
          · simp only [hv, if_false]
            intro it hit
            rcases List.mem_cons.mp ((hmin.push_perm a.1 _).mem_iff.mp hit) with rfl | hm
            · exact hcl c _ hc (hns _ List.mem_cons_self) hd'
            · exact ha it hm
    have grow : ∀ (cs : List Vid), (∀ c ∈ cs, P c) → ∀ (a : Pmin.Q × List Vid),
        (∀ it ∈ Pmin.toList a.1, P it.vid) →
        ∀ it ∈ Pmin.toList (cs.foldl (extendStep Pmin dist s q level) a).1, P it.vid := by
      intro cs
      induction cs with
      | nil => intro _ a ha; exact ha
      | cons c t ih =>
        intro hcs a ha
        simp only [List.foldl_cons]
        apply ih (fun c' hc' => hcs c' (List.mem_cons_of_mem _ hc'))
        unfold extendStep
        exact inner c (hcs c List.mem_cons_self) _ (fun w hw => hw) a ha
    have fin : ∀ cand : Pmin.Q, (∀ it ∈ Pmin.toList cand, P it.vid) →
        ∀ it ∈ Pmax.toList (fillResult Pmin Pmax k (Pmin.len cand) cand Pmax.empty), P it.vid := by
      intro cand hc it hit
      have := (fillResult_sub hmin hmax k (Pmin.len cand) cand Pmax.empty).mem hit
      rw [hmax.empty_list, List.nil_append] at this
      exact hc it this
    split
    · apply fin
      apply grow
      · intro c hc
        obtain ⟨it, hit, rfl⟩ := List.mem_map.mp hc
        exact h it ((PQImpl.drain_perm hmax n).mem_iff.mp hit)
      · exact c0
    · exact fin _ c0
  · intro it hit
    exact h it ((PQImpl.trimTo_sub hmax k _ n).mem hit)

/-! ## live-ness and validity of links -/

/-- every allocated vertex is live; nothing is allocated from `next` on -/
structure AllLive (s : Index) : Prop where
  live : ∀ v, v < s.next → s.isDeleted v = false
  fresh : ∀ v, s.next ≤ v → s.verts v = none

theorem AllLive.lt_of_live {s : Index} (h : AllLive s) {v : Vid} (hv : s.isDeleted v = false) : v < s.next := by
  by_cases hlt : v < s.next
  · exact hlt
  · have := h.fresh v (by omega)
    simp [Index.isDeleted, this] at hv

theorem AllLive.of_frame {s t : Index} (h : AllLive s) (f : EdgeFrame s t) : AllLive t := by
  constructor
  · intro v hv
    rw [f.isDeleted_eq]
    exact h.live v (by rw [← f.next]; exact hv)
  · intro v hv
    have := h.fresh v (by rw [← f.next]; exact hv)
    have hc := f.core v
    rw [this] at hc
    cases ht : t.verts v with
    | none => rfl
    | some x => rw [ht] at hc; simp at hc

/-- links lead to live vertices -/
def Valid (s : Index) : Prop := ∀ u l w, w ∈ s.nbrs u l → s.isDeleted w = false

include hmax in
theorem foldl_push_mem (es : List (Vid × Score)) (q0 : Pmax.Q) :
    ∀ it ∈ Pmax.toList (es.foldl (fun q e => Pmax.push q ⟨e.2, e.1⟩) q0),
      it ∈ Pmax.toList q0 ∨ ∃ e ∈ es, it = ⟨e.2, e.1⟩ := by
  induction es generalizing q0 with
  | nil => intro it hit; exact Or.inl hit
  | cons e t ih =>
    intro it hit
    simp only [List.foldl_cons] at hit
    rcases ih _ it hit with h | ⟨e', he', rfl⟩
    · rcases List.mem_cons.mp ((hmax.push_perm q0 _).mem_iff.mp h) with rfl | h
      · exact Or.inr ⟨e, List.mem_cons_self, rfl⟩
      · exact Or.inl h
    · exact Or.inr ⟨e', List.mem_cons_of_mem _ he', rfl⟩

include hmin hmax in
theorem prune_valid (t : Index) (w : Vid) (k l : Nat) (hv : Valid t) :
    Valid (prune Pmin Pmax dist cfg t w k l) := by
  have hf := prune_frame (Pmin := Pmin) (Pmax := Pmax) (dist := dist) cfg t w k l
  intro u l' x hx
  rw [hf.isDeleted_eq]
  unfold prune at hx
  simp only at hx
  rcases mem_nbrs_setEdges t w u l l' _ x hx with hsel | hold
  · simp only [List.map_map] at hsel
    obtain ⟨it, hit, rfl⟩ := List.mem_map.mp hsel
    simp only [Function.comp]
    refine selectNbrs_pred (dist := dist) cfg hmin hmax t (t.vecOf w) (fun y => t.isDeleted y = false) _ k l
      (fun _ _ _ _ h => h) ?_ it hit
    intro it' hit'
    rcases foldl_push_mem hmax _ Pmax.empty it' hit' with h | ⟨e, he, rfl⟩
    · rw [hmax.empty_list] at h; cases h
    · have := (List.mem_filter.mp he).2
      simpa using this
  · exact hv u l' x hold

theorem prune_other_level (t : Index) (w : Vid) (k l l' : Nat) (u : Vid) (h : l' ≠ l) :
    (prune Pmin Pmax dist cfg t w k l).edgesOf u l' = t.edgesOf u l' := by
  unfold prune
  exact edgesOf_setEdges_other_level _ _ _ _ _ _ h

theorem isDeleted_some {t : Index} {v : Vid} (h : t.isDeleted v = false) : t.verts v ≠ none := by
  intro hn; simp [Index.isDeleted, hn] at h

include hmin hmax in
/-- linking at one level: links stay valid, the other levels are untouched, and the vertex handed
on as next entry is the old one or one of the linked items -/
theorem linkAll_valid (v : Vid) (l : Nat) (its : List Item) (t : Index) (cur : Vid)
    (hval : Valid t) (hv : t.isDeleted v = false) (hits : ∀ it ∈ its, t.isDeleted it.vid = false) :
    Valid (linkAll Pmin Pmax dist cfg v l its t cur).1 ∧
    (∀ l', l' ≠ l → ∀ u, (linkAll Pmin Pmax dist cfg v l its t cur).1.edgesOf u l' = t.edgesOf u l') ∧
    ((linkAll Pmin Pmax dist cfg v l its t cur).2 = cur ∨
      ∃ it ∈ its, (linkAll Pmin Pmax dist cfg v l its t cur).2 = it.vid) := by
  induction its generalizing t cur with
  | nil => exact ⟨hval, fun _ _ _ => rfl, Or.inl rfl⟩
  | cons it rest ih =>
    unfold linkAll
    simp only
    have f1 := EdgeFrame.addEdge t v l it.vid it.score
    have f2 := EdgeFrame.addEdge (t.addEdge v l it.vid it.score) it.vid l v it.score
    have f12 := f1.trans f2
    have hw := hits it List.mem_cons_self
    have hval2 : Valid ((t.addEdge v l it.vid it.score).addEdge it.vid l v it.score) := by
      intro u l' x hx
      rw [f12.isDeleted_eq]
      rcases (mem_nbrs_addEdge _ _ _ _ _ _ _ _).mp hx with ⟨_, _, rfl, _⟩ | hx
      · exact hv
      · rcases (mem_nbrs_addEdge _ _ _ _ _ _ _ _).mp hx with ⟨_, _, rfl, _⟩ | hx
        · exact hw
        · exact hval u l' x hx
    have hother2 : ∀ l', l' ≠ l → ∀ u,
        ((t.addEdge v l it.vid it.score).addEdge it.vid l v it.score).edgesOf u l' = t.edgesOf u l' := by
      intro l' hl u
      rw [edgesOf_addEdge_other_level _ _ _ _ _ _ _ hl, edgesOf_addEdge_other_level _ _ _ _ _ _ _ hl]
    split
    · -- pruned
      have fp := prune_frame (Pmin := Pmin) (Pmax := Pmax) (dist := dist) cfg
        ((t.addEdge v l it.vid it.score).addEdge it.vid l v it.score) it.vid (mMaxAt cfg l) l
      have f3 := f12.trans fp
      obtain ⟨a, b, c⟩ := ih _ it.vid (prune_valid cfg hmin hmax _ _ _ _ hval2)
        (by rw [f3.isDeleted_eq]; exact hv)
        (fun x hx => by rw [f3.isDeleted_eq]; exact hits x (List.mem_cons_of_mem _ hx))
      refine ⟨a, ?_, ?_⟩
      · intro l' hl u
        rw [b l' hl u, prune_other_level cfg _ _ _ _ _ _ hl, hother2 l' hl u]
      · rcases c with c | ⟨x, hx, c⟩
        · exact Or.inr ⟨it, List.mem_cons_self, c⟩
        · exact Or.inr ⟨x, List.mem_cons_of_mem _ hx, c⟩
    · obtain ⟨a, b, c⟩ := ih _ it.vid hval2
        (by rw [f12.isDeleted_eq]; exact hv)
        (fun x hx => by rw [f12.isDeleted_eq]; exact hits x (List.mem_cons_of_mem _ hx))
      refine ⟨a, ?_, ?_⟩
      · intro l' hl u
        rw [b l' hl u, hother2 l' hl u]
      · rcases c with c | ⟨x, hx, c⟩
        · exact Or.inr ⟨it, List.mem_cons_self, c⟩
        · exact Or.inr ⟨x, List.mem_cons_of_mem _ hx, c⟩

/-! ## level 0 while no link is dropped -/

/-- the level-0 graph is symmetric, loop-free and duplicate-free -/
structure L0 (t : Index) : Prop where
  sym : ∀ u w, w ∈ t.nbrs u 0 → u ∈ t.nbrs w 0
  irrefl : ∀ u, u ∉ t.nbrs u 0
  nodup : ∀ u, (t.nbrs u 0).Nodup

theorem mem_nbrs_link0 (t : Index) (v w : Vid) (d : Score) (hv : t.isDeleted v = false)
    (hw : t.isDeleted w = false) (u x : Vid) :
    x ∈ ((t.addEdge v 0 w d).addEdge w 0 v d).nbrs u 0 ↔
      (u = w ∧ x = v) ∨ (u = v ∧ x = w) ∨ x ∈ t.nbrs u 0 := by
  have f1 := EdgeFrame.addEdge t v 0 w d
  have hw1 : (t.addEdge v 0 w d).verts w ≠ none := isDeleted_some (by rw [f1.isDeleted_eq]; exact hw)
  have hv0 : t.verts v ≠ none := isDeleted_some hv
  rw [mem_nbrs_addEdge, mem_nbrs_addEdge]
  constructor
  · rintro (⟨rfl, _, rfl, _⟩ | ⟨rfl, _, rfl, _⟩ | h)
    · exact Or.inl ⟨rfl, rfl⟩
    · exact Or.inr (Or.inl ⟨rfl, rfl⟩)
    · exact Or.inr (Or.inr h)
  · rintro (⟨rfl, rfl⟩ | ⟨rfl, rfl⟩ | h)
    · exact Or.inl ⟨rfl, rfl, rfl, hw1⟩
    · exact Or.inr (Or.inl ⟨rfl, rfl, rfl, hv0⟩)
    · exact Or.inr (Or.inr h)

include hmin hmax in
theorem linkAll0 (v : Vid) (its : List Item) (t : Index) (cur : Vid)
    (hal : AllLive t) (hval : Valid t) (h0 : L0 t) (hsmall : t.next ≤ cfg.mMax0 + 1)
    (hv : t.isDeleted v = false)
    (hits : ∀ it ∈ its, t.isDeleted it.vid = false ∧ it.vid ≠ v) :
    L0 (linkAll Pmin Pmax dist cfg v 0 its t cur).1 ∧
    (∀ u x, x ∈ t.nbrs u 0 → x ∈ (linkAll Pmin Pmax dist cfg v 0 its t cur).1.nbrs u 0) ∧
    (∀ it ∈ its, it.vid ∈ (linkAll Pmin Pmax dist cfg v 0 its t cur).1.nbrs v 0) := by
  induction its generalizing t cur with
  | nil => exact ⟨h0, fun _ _ h => h, by intro it hit; cases hit⟩
  | cons it rest ih =>
    unfold linkAll
    simp only
    obtain ⟨hw, hwv⟩ := hits it List.mem_cons_self
    have f1 := EdgeFrame.addEdge t v 0 it.vid it.score
    have f2 := EdgeFrame.addEdge (t.addEdge v 0 it.vid it.score) it.vid 0 v it.score
    have f12 := f1.trans f2
    have hmem := mem_nbrs_link0 t v it.vid it.score hv hw
    have hal2 := hal.of_frame f12
    have hval2 : Valid ((t.addEdge v 0 it.vid it.score).addEdge it.vid 0 v it.score) := by
      intro u l' x hx
      rw [f12.isDeleted_eq]
      rcases (mem_nbrs_addEdge _ _ _ _ _ _ _ _).mp hx with ⟨_, _, rfl, _⟩ | hx
      · exact hv
      · rcases (mem_nbrs_addEdge _ _ _ _ _ _ _ _).mp hx with ⟨_, _, rfl, _⟩ | hx
        · exact hw
        · exact hval u l' x hx
    have h02 : L0 ((t.addEdge v 0 it.vid it.score).addEdge it.vid 0 v it.score) := by
      refine ⟨?_, ?_, ?_⟩
      · intro u x hx
        rcases (hmem u x).mp hx with ⟨rfl, rfl⟩ | ⟨rfl, rfl⟩ | h
        · exact (hmem _ _).mpr (Or.inr (Or.inl ⟨rfl, rfl⟩))
        · exact (hmem _ _).mpr (Or.inl ⟨rfl, rfl⟩)
        · exact (hmem _ _).mpr (Or.inr (Or.inr (h0.sym u x h)))
      · intro u hu
        rcases (hmem u u).mp hu with ⟨h1, h2⟩ | ⟨h1, h2⟩ | h
        · exact hwv (h1 ▸ h2)
        · exact hwv (h2.symm.trans h1)
        · exact h0.irrefl u h
      · intro u
        exact nodup_nbrs_addEdge _ _ _ _ _ _ _ (nodup_nbrs_addEdge _ _ _ _ _ _ _ (h0.nodup u))
    -- the adjacency list of the linked vertex cannot exceed the level-0 budget
    have hnoprune : ¬ ((((t.addEdge v 0 it.vid it.score).addEdge it.vid 0 v it.score).edgesOf it.vid 0).length >
        mMaxAt cfg 0) := by
      have hlen : (((t.addEdge v 0 it.vid it.score).addEdge it.vid 0 v it.score).edgesOf it.vid 0).length =
          (((t.addEdge v 0 it.vid it.score).addEdge it.vid 0 v it.score).nbrs it.vid 0).length := by
        simp [Index.nbrs]
      rw [hlen]
      have hb := nodup_bounded_length ((t.addEdge v 0 it.vid it.score).addEdge it.vid 0 v it.score).next
        (it.vid :: ((t.addEdge v 0 it.vid it.score).addEdge it.vid 0 v it.score).nbrs it.vid 0)
        (List.nodup_cons.mpr ⟨h02.irrefl it.vid, h02.nodup it.vid⟩)
        (by
          intro x hx
          rcases List.mem_cons.mp hx with rfl | hx
          · exact hal2.lt_of_live (by rw [f12.isDeleted_eq]; exact hw)
          · exact hal2.lt_of_live (hval2 _ _ _ hx))
      simp only [List.length_cons] at hb
      have hn : ((t.addEdge v 0 it.vid it.score).addEdge it.vid 0 v it.score).next = t.next := f12.next
      simp only [mMaxAt, if_true]
      omega
    simp only [hnoprune, if_false]
    obtain ⟨a, b, c⟩ := ih _ it.vid hal2 hval2 h02 (by rw [f12.next]; exact hsmall)
      (by rw [f12.isDeleted_eq]; exact hv)
      (fun x hx => by
        rw [f12.isDeleted_eq]
        exact hits x (List.mem_cons_of_mem _ hx))
    refine ⟨a, ?_, ?_⟩
    · intro u x hx
      exact b u x ((hmem u x).mpr (Or.inr (Or.inr hx)))
    · intro x hx
      rcases List.mem_cons.mp hx with rfl | hx
      · exact b v _ ((hmem v _).mpr (Or.inr (Or.inl ⟨rfl, rfl⟩)))
      · exact c x hx

theorem L0.congr {s t : Index} (h : L0 s) (he : ∀ u, t.nbrs u 0 = s.nbrs u 0) : L0 t :=
  ⟨fun u w hw => by rw [he] at hw ⊢; exact h.sym u w hw,
   fun u hu => by rw [he] at hu; exact h.irrefl u hu,
   fun u => by rw [he]; exact h.nodup u⟩

theorem nbrs_congr {s t : Index} {u : Vid} {l : Nat} (h : t.edgesOf u l = s.edgesOf u l) :
    t.nbrs u l = s.nbrs u l := by simp [Index.nbrs, h]

include hmin hmax in
/-- the items chosen for linking at one level are live and are not the vertex being inserted -/
theorem level_items (t : Index) (v cur : Vid) (q : VecRef) (l : Nat)
    (hcur : t.isDeleted cur = false ∧ cur ≠ v) (hno : ∀ u, v ∉ t.nbrs u l) :
    ∀ it ∈ Pmax.drain (selectNbrs Pmin Pmax dist cfg t q (searchLevel Pmin Pmax dist t q cur cfg.efC l) cfg.m l),
      t.isDeleted it.vid = false ∧ it.vid ≠ v := by
  have hcl : ∀ u w, u ≠ v → w ∈ t.nbrs u l → t.isDeleted w = false → w ≠ v :=
    fun u w _ hw _ hwv => hno u (hwv ▸ hw)
  have hres := searchLevel_sound (dist := dist) hmin hmax t q cfg.efC l cur (fun u => u ≠ v) hcur.2 hcl
  have hsel := selectNbrs_ok cfg hmin hmax t q _ cfg.m l hcl hres
  intro it hit
  have := hsel.items it ((PQImpl.drain_perm hmax _).mem_iff.mp hit)
  refine ⟨?_, this.2.2⟩
  rcases this.2.1 with h | h
  · rw [h]; exact hcur.1
  · exact h

include hmin hmax in
theorem level_items_nonempty (hm : 1 ≤ cfg.m) (hefc : 1 ≤ cfg.efC) (t : Index) (cur : Vid) (q : VecRef) (l : Nat) :
    Pmax.drain (selectNbrs Pmin Pmax dist cfg t q (searchLevel Pmin Pmax dist t q cur cfg.efC l) cfg.m l) ≠ [] := by
  have hne := searchLevel_nonempty (Pmin := Pmin) (dist := dist) hmax t q cur cfg.efC l hefc
  have hsne := selectNbrs_nonempty (dist := dist) cfg hmin hmax t q _ cfg.m l hm hne
  intro he
  have hp := PQImpl.drain_perm hmax
    (selectNbrs Pmin Pmax dist cfg t q (searchLevel Pmin Pmax dist t q cur cfg.efC l) cfg.m l)
  rw [he] at hp
  exact hsne hp.symm.eq_nil

include hmin hmax in
/-- linking the new vertex `v` on levels `top … 0`, starting from a state whose levels `≤ top` are
still those of `s1` (the state right after `v` was stored) -/
theorem insertLevels_io (hm : 1 ≤ cfg.m) (hefc : 1 ≤ cfg.efC) (v : Vid) (q : VecRef) (s1 : Index)
    (hno : ∀ u l, v ∉ s1.nbrs u l) (h0 : L0 s1)
    (top : Nat) (t : Index) (cur : Vid)
    (hal : AllLive t) (hval : Valid t) (hsmall : t.next ≤ cfg.mMax0 + 1)
    (hv : t.isDeleted v = false)
    (hcur : t.isDeleted cur = false ∧ cur ≠ v)
    (hlow : ∀ l', l' ≤ top → ∀ u, t.edgesOf u l' = s1.edgesOf u l') :
    Valid (insertLevels Pmin Pmax dist cfg v q top t cur) ∧
    L0 (insertLevels Pmin Pmax dist cfg v q top t cur) ∧
    (∀ u x, x ∈ s1.nbrs u 0 → x ∈ (insertLevels Pmin Pmax dist cfg v q top t cur).nbrs u 0) ∧
    (∃ w ∈ (insertLevels Pmin Pmax dist cfg v q top t cur).nbrs v 0, w ≠ v) := by
  induction top generalizing t cur with
  | zero =>
    unfold insertLevels
    simp only
    have he : ∀ u, t.nbrs u 0 = s1.nbrs u 0 := fun u => nbrs_congr (hlow 0 (Nat.le_refl _) u)
    have hno0 : ∀ u, v ∉ t.nbrs u 0 := fun u => by rw [he]; exact hno u 0
    have hits := level_items (dist := dist) cfg hmin hmax t v cur q 0 hcur hno0
    have hne := level_items_nonempty (dist := dist) cfg hmin hmax hm hefc t cur q 0
    generalize Pmax.drain (selectNbrs Pmin Pmax dist cfg t q (searchLevel Pmin Pmax dist t q cur cfg.efC 0) cfg.m 0) = its at hits hne
    obtain ⟨a, b, c⟩ := linkAll0 (dist := dist) cfg hmin hmax v its t cur hal hval (h0.congr he) hsmall hv hits
    obtain ⟨va, _, _⟩ := linkAll_valid (dist := dist) cfg hmin hmax v 0 its t cur hval hv (fun it hit => (hits it hit).1)
    refine ⟨va, a, ?_, ?_⟩
    · intro u x hx
      rw [← he] at hx
      exact b u x hx
    · cases its with
      | nil => exact absurd rfl hne
      | cons it rest => exact ⟨it.vid, c it List.mem_cons_self, (hits it List.mem_cons_self).2⟩
  | succ l ih =>
    unfold insertLevels
    simp only
    have he : ∀ u, t.nbrs u (l+1) = s1.nbrs u (l+1) := fun u => nbrs_congr (hlow (l+1) (Nat.le_refl _) u)
    have hnol : ∀ u, v ∉ t.nbrs u (l+1) := fun u => by rw [he]; exact hno u (l+1)
    have hits := level_items (dist := dist) cfg hmin hmax t v cur q (l+1) hcur hnol
    generalize Pmax.drain (selectNbrs Pmin Pmax dist cfg t q (searchLevel Pmin Pmax dist t q cur cfg.efC (l+1)) cfg.m (l+1)) = its at hits
    have hf := linkAll_frame (Pmin := Pmin) (Pmax := Pmax) (dist := dist) cfg v (l+1) its t cur
    obtain ⟨va, vb, vc⟩ := linkAll_valid (dist := dist) cfg hmin hmax v (l+1) its t cur hval hv (fun it hit => (hits it hit).1)
    generalize linkAll Pmin Pmax dist cfg v (l+1) its t cur = res at hf va vb vc
    obtain ⟨t1, cur1⟩ := res
    simp only at hf va vb vc ⊢
    apply ih t1 cur1 (hal.of_frame hf) va (by rw [hf.next]; exact hsmall) (by rw [hf.isDeleted_eq]; exact hv)
    · rw [hf.isDeleted_eq]
      rcases vc with rfl | ⟨it, hit, rfl⟩
      · exact hcur
      · exact hits it hit
    · intro l' hl' u
      rw [vb l' (by omega) u]
      exact hlow l' (by omega) u

/-! ## the invariant of small insert-only collections -/

structure IO (cfg : Cfg) (s : Index) : Prop where
  al : AllLive s
  valid : Valid s
  l0 : L0 s
  /-- every vertex but the first has a level-0 link to an older one -/
  parent : ∀ v, 0 < v → v < s.next → ∃ w ∈ s.nbrs v 0, w < v
  entrySome : 0 < s.next → s.entry ≠ none
  entryLt : ∀ ep, s.entry = some ep → ep < s.next
  idsLen : s.ids.length = s.next
  small : s.next ≤ cfg.mMax0 + 1

theorem io_empty (cfg : Cfg) : IO cfg Index.empty := by
  refine ⟨⟨?_, ?_⟩, ?_, ⟨?_, ?_, ?_⟩, ?_, ?_, ?_, rfl, ?_⟩
  · intro v hv; exact absurd hv (Nat.not_lt_zero _)
  · intro v _; rfl
  · intro u l w hw; simp [Index.nbrs, Index.edgesOf, Index.empty] at hw
  · intro u w hw; simp [Index.nbrs, Index.edgesOf, Index.empty] at hw
  · intro u hu; simp [Index.nbrs, Index.edgesOf, Index.empty] at hu
  · intro u; simp [Index.nbrs, Index.edgesOf, Index.empty]
  · intro v _ hv; exact absurd hv (Nat.not_lt_zero _)
  · intro h; exact absurd h (Nat.lt_irrefl _)
  · intro ep h; simp [Index.empty] at h
  · simp [Index.empty]

/-- the state right after the new vertex is stored (no links yet) -/
theorem store_edges (s : Index) (id : ItemId) (x : Vertex) (hx : x.edges = fun _ => []) (u : Vid) (l : Nat)
    (hfresh : s.verts s.next = none) :
    (store s id x).1.edgesOf u l = s.edgesOf u l := by
  by_cases hu : u = s.next
  · subst hu
    simp [store, Index.edgesOf, hx, hfresh]
  · simp [store, Index.edgesOf, hu]

theorem store_isDeleted (s : Index) (id : ItemId) (x : Vertex) (hd : x.deleted = false) (u : Vid) :
    (store s id x).1.isDeleted u = if u = s.next then false else s.isDeleted u := by
  by_cases hu : u = s.next
  · simp [store, Index.isDeleted, hu, hd]
  · simp [store, Index.isDeleted, hu]

include hmin hmax in
/-- **one more insert keeps the invariant** while the collection has room (`next ≤ mMax0`) -/
theorem io_insert (hm : 1 ≤ cfg.m) (hefc : 1 ≤ cfg.efC) (s : Index) (h : IO cfg s) (hroom : s.next ≤ cfg.mMax0)
    (id : ItemId) (vec : VecRef) (md : Meta) (level : Nat) (s' : Index)
    (hins : insert Pmin Pmax dist cfg s id vec md level = .ok s') : IO cfg s' ∧ s'.next = s.next + 1 := by
  unfold insert at hins
  cases hl : s.live id with
  | some _ => simp [hl] at hins
  | none =>
    simp only [hl] at hins
    have hfresh : s.verts s.next = none := h.al.fresh _ (Nat.le_refl _)
    cases he : s.entry with
    | none =>
      simp only [he] at hins
      have hn0 : s.next = 0 := by
        by_cases hz : 0 < s.next
        · exact absurd he (h.entrySome hz)
        · omega
      have hs' : s' = { (store s id (newVertex id vec md 0)).1 with entry := some (store s id (newVertex id vec md 0)).2 } := by
        simpa using hins.symm
      have hedges : ∀ u l, s'.edgesOf u l = [] := by
        intro u l
        rw [hs']
        show (store s id (newVertex id vec md 0)).1.edgesOf u l = []
        rw [store_edges s id _ rfl u l hfresh]
        have : s.verts u = none := h.al.fresh u (by omega)
        simp [Index.edgesOf, this]
      have hnb : ∀ u l, s'.nbrs u l = [] := fun u l => by simp [Index.nbrs, hedges]
      have hnext : s'.next = s.next + 1 := by rw [hs']; rfl
      refine ⟨⟨⟨?_, ?_⟩, ?_, ⟨?_, ?_, ?_⟩, ?_, ?_, ?_, ?_, ?_⟩, hnext⟩
      · intro v hv
        rw [hs']
        show (store s id (newVertex id vec md 0)).1.isDeleted v = false
        rw [store_isDeleted s id _ rfl v]
        have : v = s.next := by rw [hnext] at hv; omega
        simp [this]
      · intro v hv
        rw [hs']
        show (store s id (newVertex id vec md 0)).1.verts v = none
        have hne : v ≠ s.next := by rw [hnext] at hv; omega
        simp only [store, hne, if_false]
        exact h.al.fresh v (by rw [hnext] at hv; omega)
      · intro u l w hw; rw [hnb] at hw; cases hw
      · intro u w hw; rw [hnb] at hw; cases hw
      · intro u hu; rw [hnb] at hu; cases hu
      · intro u; rw [hnb]; exact List.nodup_nil
      · intro v hv0 hv; rw [hnext] at hv; omega
      · intro _ hne
        rw [hs'] at hne; cases hne
      · intro ep hep
        rw [hs'] at hep
        have : ep = s.next := (Option.some.inj hep).symm
        rw [hnext]; omega
      · rw [hs']
        show (id :: s.ids).length = s.next + 1
        simp [h.idsLen]
      · rw [hnext]; omega
    | some ep =>
      simp only [he] at hins
      have heplt := h.entryLt ep he
      have hsnd : (store s id (newVertex id vec md level)).snd = s.next := rfl
      simp only [hsnd] at hins
      -- the state right after the store
      have hnext1 : (store s id (newVertex id vec md level)).fst.next = s.next + 1 := rfl
      have hids1 : (store s id (newVertex id vec md level)).fst.ids = id :: s.ids := rfl
      have hentry1 : (store s id (newVertex id vec md level)).fst.entry = s.entry := rfl
      have hdel1 := store_isDeleted s id (newVertex id vec md level) rfl
      have hedge1 : ∀ u l, (store s id (newVertex id vec md level)).fst.edgesOf u l = s.edgesOf u l :=
        fun u l => store_edges s id _ rfl u l hfresh
      have hnb1 : ∀ u l, (store s id (newVertex id vec md level)).fst.nbrs u l = s.nbrs u l :=
        fun u l => nbrs_congr (hedge1 u l)
      have hverts1 : ∀ u, s.next + 1 ≤ u → (store s id (newVertex id vec md level)).fst.verts u = none := by
        intro u hu
        have hne : u ≠ s.next := by omega
        simp only [store, hne, if_false]
        exact h.al.fresh u (by omega)
      generalize (store s id (newVertex id vec md level)).fst = s1 at hins hnext1 hids1 hentry1 hdel1 hedge1 hnb1 hverts1
      have hal1 : AllLive s1 := by
        constructor
        · intro u hu
          rw [hdel1]
          by_cases hun : u = s.next
          · simp [hun]
          · simp only [hun, if_false]
            exact h.al.live u (by rw [hnext1] at hu; omega)
        · intro u hu; exact hverts1 u (by rw [hnext1] at hu; exact hu)
      have hlt_of_mem : ∀ u l w, w ∈ s1.nbrs u l → w < s.next := by
        intro u l w hw
        rw [hnb1] at hw
        exact h.al.lt_of_live (h.valid u l w hw)
      have hno : ∀ u l, s.next ∉ s1.nbrs u l := fun u l hm => Nat.lt_irrefl _ (hlt_of_mem u l _ hm)
      have hval1 : Valid s1 := by
        intro u l w hw
        have := hlt_of_mem u l w hw
        rw [hdel1]
        have hne : w ≠ s.next := by omega
        simp only [hne, if_false]
        rw [hnb1] at hw
        exact h.valid u l w hw
      have hl01 : L0 s1 := h.l0.congr (fun u => hnb1 u 0)
      have hv1 : s1.isDeleted s.next = false := by rw [hdel1]; simp
      -- the descent ends at an old vertex
      have hRep : s1.isDeleted ep = false ∧ ep ≠ s.next := by
        refine ⟨?_, by omega⟩
        rw [hdel1]
        have hne : ep ≠ s.next := by omega
        simp only [hne, if_false]
        exact h.al.live ep heplt
      have hcur := descend_closed (dist := dist) s1 vec (fun u => s1.isDeleted u = false ∧ u ≠ s.next)
        (fun l u w _ hw hdw => ⟨hdw, fun hws => hno u l (hws ▸ hw)⟩)
        level (s1.levelOf ep - level) ep (dist vec (s1.vecOf ep)) hRep
      generalize descend dist s1 vec level (s1.levelOf ep - level) ep (dist vec (s1.vecOf ep)) = dd at hins hcur
      obtain ⟨cur, dc⟩ := dd
      simp only at hins hcur
      -- linking
      obtain ⟨va, vb, vc, vd⟩ := insertLevels_io (dist := dist) cfg hmin hmax hm hefc s.next vec s1 hno hl01
        (min (s1.levelOf cur) level) s1 cur hal1 hval1 (by rw [hnext1]; omega) hv1 hcur (fun _ _ _ => rfl)
      have hf := insertLevels_frame (Pmin := Pmin) (Pmax := Pmax) (dist := dist) cfg s.next vec
        (min (s1.levelOf cur) level) s1 cur
      generalize insertLevels Pmin Pmax dist cfg s.next vec (min (s1.levelOf cur) level) s1 cur = s2 at hins va vb vc vd hf
      have hal2 := hal1.of_frame hf
      have hnext2 : s2.next = s.next + 1 := by rw [hf.next, hnext1]
      have base : ∀ e : Option Vid, (∀ x, e = some x → x < s.next + 1) → e ≠ none →
          IO cfg { s2 with entry := e } := by
        intro e he1 he2
        refine ⟨⟨hal2.live, hal2.fresh⟩, va, ⟨vb.sym, vb.irrefl, vb.nodup⟩, ?_, fun _ => he2, ?_, ?_, ?_⟩
        · intro u hu0 hu
          show ∃ w ∈ s2.nbrs u 0, w < u
          have hu' : u < s.next + 1 := by rw [← hnext2]; exact hu
          by_cases hun : u = s.next
          · obtain ⟨w, hw, hwne⟩ := vd
            refine ⟨w, hun ▸ hw, ?_⟩
            have := hal2.lt_of_live (va _ _ _ hw)
            rw [hnext2] at this
            omega
          · obtain ⟨w, hw, hwlt⟩ := h.parent u hu0 (by omega)
            refine ⟨w, vc u w ?_, hwlt⟩
            rw [hnb1]; exact hw
        · intro x hx
          show x < s2.next
          rw [hnext2]; exact he1 x hx
        · show s2.ids.length = s2.next
          rw [hf.ids, hids1, hnext2]
          simp [h.idsLen]
        · show s2.next ≤ cfg.mMax0 + 1
          rw [hnext2]; omega
      have hres := Except.ok.inj hins
      split at hres
      · subst hres
        exact ⟨base (some s.next) (fun x hx => by cases hx; omega) (by simp), hnext2⟩
      · subst hres
        refine ⟨base s2.entry ?_ ?_, hnext2⟩
        · intro x hx
          rw [hf.entry, hentry1, he] at hx
          cases hx; omega
        · rw [hf.entry, hentry1, he]; simp

end
end Anndb
