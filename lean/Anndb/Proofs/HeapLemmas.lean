import Anndb.Model.Heap
/-!
# `container/heap` keeps the heap order (C19, first half)

`le x y` ("x may sit above y") is `lt y x = false`. `LtOK` is what `Less` must satisfy;
it holds for `ltMin`/`ltMax` on scores that are totally ordered (non-NaN floats as bit
patterns).
-/
namespace Anndb
namespace Heap

structure LtOK (lt : Item → Item → Bool) : Prop where
  asymm : ∀ a b, lt a b = true → lt b a = false
  ntrans : ∀ a b c, lt b a = false → lt c b = false → lt c a = false

variable {lt : Item → Item → Bool}

/-- total accessor, so that statements do not carry bounds proofs -/
def get (a : Array Item) (k : Nat) : Item := (a[k]?).getD default

theorem getElem_eq_get (a : Array Item) (k : Nat) (h : k < a.size) : a[k] = get a k := by
  simp [get, h]

theorem get_swap_left (a : Array Item) (i j : Nat) (hi : i < a.size) (hj : j < a.size) :
    get (a.swap i j hi hj) i = get a j := by
  unfold get
  rw [Array.getElem?_swap]
  by_cases h : j = i
  · subst h; simp [hj]
  · simp [h, hj]

theorem get_swap_right (a : Array Item) (i j : Nat) (hi : i < a.size) (hj : j < a.size) :
    get (a.swap i j hi hj) j = get a i := by
  unfold get
  rw [Array.getElem?_swap]
  simp [hi]

theorem get_swap_ne (a : Array Item) (i j : Nat) (hi : i < a.size) (hj : j < a.size) (k : Nat)
    (h1 : k ≠ i) (h2 : k ≠ j) : get (a.swap i j hi hj) k = get a k := by
  unfold get
  rw [Array.getElem?_swap]
  simp [Ne.symm h1, Ne.symm h2]

/-- heap order on the first `n` cells -/
def HeapAbove (lt : Item → Item → Bool) (a : Array Item) (n lo : Nat) : Prop :=
  ∀ k, 0 < k → k < n → lo ≤ parent k → lt (get a k) (get a (parent k)) = false

/-- heap order on the first `n` cells -/
def IsHeap (lt : Item → Item → Bool) (a : Array Item) (n : Nat) : Prop := HeapAbove lt a n 0

/-- heap order everywhere except possibly between `i` and its children, whose values
    are however bounded below by `i`'s parent -/
structure DownPre (lt : Item → Item → Bool) (a : Array Item) (i n lo : Nat) : Prop where
  other : ∀ k, 0 < k → k < n → lo ≤ parent k → parent k ≠ i → lt (get a k) (get a (parent k)) = false
  grand : ∀ k, 0 < k → k < n → parent k = i → 0 < i → lo ≤ parent i → lt (get a k) (get a (parent i)) = false

theorem pickChild_le (hlt : LtOK lt) (a : Array Item) (i n : Nat) (hn : n ≤ a.size) (h1 : 2 * i + 1 < n)
    (k : Nat) (hk : k < n) (hp : parent k = i) (hk0 : 0 < k) :
    lt (get a k) (get a (pickChild lt a i n hn h1)) = false := by
  have hk' : k = 2 * i + 1 ∨ k = 2 * i + 2 := by unfold parent at hp; omega
  unfold pickChild
  split
  · rename_i h2
    rw [getElem_eq_get, getElem_eq_get]
    split
    · rename_i hl
      rcases hk' with rfl | rfl
      · exact hlt.asymm _ _ hl
      · exact hlt.ntrans _ _ _ (by
          cases h : lt (get a (2*i+2)) (get a (2*i+2)) with
          | false => rfl
          | true => exact absurd (hlt.asymm _ _ h) (by simp [h])) (by
          cases h : lt (get a (2*i+2)) (get a (2*i+2)) with
          | false => rfl
          | true => exact absurd (hlt.asymm _ _ h) (by simp [h]))
    · rename_i hl
      have hl' : lt (get a (2*i+2)) (get a (2*i+1)) = false := by
        cases h : lt (get a (2*i+2)) (get a (2*i+1)) <;> simp_all
      rcases hk' with rfl | rfl
      · cases h : lt (get a (2*i+1)) (get a (2*i+1)) with
        | false => rfl
        | true => exact absurd (hlt.asymm _ _ h) (by simp [h])
      · exact hl'
  · rename_i h2
    have : k = 2 * i + 1 := by omega
    subst this
    cases h : lt (get a (2*i+1)) (get a (2*i+1)) with
    | false => rfl
    | true => exact absurd (hlt.asymm _ _ h) (by simp [h])

theorem irrefl (hlt : LtOK lt) (x : Item) : lt x x = false := by
  cases h : lt x x with
  | false => rfl
  | true => exact absurd (hlt.asymm _ _ h) (by simp [h])

theorem down_heap (hlt : LtOK lt) (a : Array Item) (i n lo : Nat) (hn : n ≤ a.size) (hlo : lo ≤ i)
    (hpre : DownPre lt a i n lo) : HeapAbove lt (down lt a i n hn) n lo := by
  generalize hm : n - i = m
  induction m using Nat.strongRecOn generalizing a i with
  | _ m ih =>
    unfold down
    by_cases h1 : 2 * i + 1 < n
    · simp only [h1, dite_true]
      have hps := pickChild_spec lt a i n hn h1
      have hjn := hps.1
      have hjc := hps.2
      have hpj : parent (pickChild lt a i n hn h1) = i := by unfold parent; omega
      rw [getElem_eq_get, getElem_eq_get]
      by_cases hl : lt (get a (pickChild lt a i n hn h1)) (get a i) = true
      · simp only [hl, if_true]
        apply ih (n - pickChild lt a i n hn h1) (by omega) _ _ _ (by omega) _ rfl
        -- DownPre for the swapped array at j
        have hij : i ≠ pickChild lt a i n hn h1 := by omega
        have hia : i < a.size := by omega
        have hja : pickChild lt a i n hn h1 < a.size := by omega
        refine ⟨?_, ?_⟩
        · intro k hk0 hkn hlok hpk
          by_cases hkj : k = pickChild lt a i n hn h1
          · -- k = j: its parent is i, which now holds the old a[j]
            rw [hkj, hpj, get_swap_right, get_swap_left]
            exact hlt.asymm _ _ hl
          · by_cases hki : k = i
            · -- k = i (then i > 0): parent unchanged, value is old a[j]; use `grand`
              have hp1 : parent k ≠ i := by rw [hki]; unfold parent; omega
              have hp2 : parent k ≠ pickChild lt a i n hn h1 := by rw [hki]; unfold parent; omega
              rw [get_swap_ne a i _ hia hja (parent k) hp1 hp2, hki, get_swap_left]
              exact hpre.grand _ (by omega) hjn hpj (by omega) (hki ▸ hlok)
            · rw [get_swap_ne a i _ hia hja k hki hkj]
              by_cases hpki : parent k = i
              · -- the other child of i
                rw [hpki, get_swap_left]
                exact pickChild_le hlt a i n hn h1 k hkn hpki hk0
              · rw [get_swap_ne a i _ hia hja (parent k) hpki hpk]
                exact hpre.other k hk0 hkn hlok hpki
        · intro k hk0 hkn hpk hj0 _
          have hkj : k ≠ pickChild lt a i n hn h1 := by unfold parent at hpk; omega
          have hki : k ≠ i := by unfold parent at hpk; omega
          rw [get_swap_ne a i _ hia hja k hki hkj, hpj, get_swap_left]
          have hne : parent k ≠ i := by omega
          have := hpre.other k hk0 hkn (by omega) hne
          rw [hpk] at this
          exact this
      · have hl' : lt (get a (pickChild lt a i n hn h1)) (get a i) = false := by
          cases h : lt (get a (pickChild lt a i n hn h1)) (get a i) <;> simp_all
        simp only [hl', Bool.false_eq_true, if_false]
        intro k hk0 hkn hlok
        by_cases hpk : parent k = i
        · rw [hpk]
          exact hlt.ntrans _ _ _ hl' (pickChild_le hlt a i n hn h1 k hkn hpk hk0)
        · exact hpre.other k hk0 hkn hlok hpk
    · simp only [h1, dite_false]
      intro k hk0 hkn hlok
      have hpk : parent k ≠ i := by unfold parent; omega
      exact hpre.other k hk0 hkn hlok hpk

/-- `down` does not touch cells at or beyond `n`, nor below `i` -/
theorem down_frame (a : Array Item) (i n : Nat) (hn : n ≤ a.size) (k : Nat) (hk : n ≤ k ∨ k < i) :
    get (down lt a i n hn) k = get a k := by
  generalize hm : n - i = m
  induction m using Nat.strongRecOn generalizing a i with
  | _ m ih =>
    unfold down
    by_cases h1 : 2 * i + 1 < n
    · simp only [h1, dite_true]
      have hps := pickChild_spec lt a i n hn h1
      split
      · rw [ih (n - pickChild lt a i n hn h1) (by omega) _ _ _ (by omega) rfl]
        exact get_swap_ne a i _ (by omega) (by omega) k (by omega) (by omega)
      · rfl
    · simp only [h1, dite_false]

theorem down_perm (a : Array Item) (i n : Nat) (hn : n ≤ a.size) : (down lt a i n hn).Perm a := by
  generalize hm : n - i = m
  induction m using Nat.strongRecOn generalizing a i with
  | _ m ih =>
    unfold down
    by_cases h1 : 2 * i + 1 < n
    · simp only [h1, dite_true]
      have hps := pickChild_spec lt a i n hn h1
      split
      · exact (ih (n - pickChild lt a i n hn h1) (by omega) _ _ _ rfl).trans (Array.swap_perm _ _)
      · exact Array.Perm.refl _
    · simp only [h1, dite_false]; exact Array.Perm.refl _

theorem up_perm (a : Array Item) (j : Nat) (hj : j < a.size) : (up lt a j hj).Perm a := by
  induction j using Nat.strongRecOn generalizing a with
  | _ j ih =>
    unfold up
    split
    · exact Array.Perm.refl _
    · split
      · exact (ih (parent j) (by unfold parent; omega) _ _).trans (Array.swap_perm _ _)
      · exact Array.Perm.refl _

/-- heap order everywhere except possibly between `j` and its parent; `j`'s children are
    bounded below by `j`'s parent -/
structure UpPre (lt : Item → Item → Bool) (a : Array Item) (j n : Nat) : Prop where
  other : ∀ k, 0 < k → k < n → k ≠ j → lt (get a k) (get a (parent k)) = false
  grand : ∀ k, 0 < k → k < n → parent k = j → 0 < j → lt (get a k) (get a (parent j)) = false

theorem up_heap (hlt : LtOK lt) (a : Array Item) (j : Nat) (hj : j < a.size) (n : Nat) (hn : a.size = n)
    (hpre : UpPre lt a j n) : IsHeap lt (up lt a j hj) n := by
  induction j using Nat.strongRecOn generalizing a with
  | _ j ih =>
    unfold up
    by_cases h0 : j = 0
    · simp only [h0, dite_true]
      intro k hk0 hkn _
      exact hpre.other k hk0 hkn (by omega)
    · simp only [h0, dite_false]
      rw [getElem_eq_get, getElem_eq_get]
      have hpl : parent j < j := by unfold parent; omega
      have hpa : parent j < a.size := by omega
      by_cases hl : lt (get a j) (get a (parent j)) = true
      · simp only [hl, if_true]
        have hsz : (a.swap (parent j) j hpa hj).size = n := by simp [hn]
        apply ih (parent j) hpl (a.swap (parent j) j hpa hj) _ hsz
        · refine ⟨?_, ?_⟩
          · intro k hk0 hkn hkp
            by_cases hkj : k = j
            · -- edge (parent j, j): now holds (old a[j], old a[parent j])
              rw [hkj, get_swap_right, get_swap_left]
              exact hlt.asymm _ _ hl
            · rw [get_swap_ne a _ _ hpa hj k hkp hkj]
              by_cases hpk : parent k = j
              · -- child of j: parent cell now holds old a[parent j]
                rw [hpk, get_swap_right]
                exact hpre.grand k hk0 hkn hpk (by omega)
              · by_cases hpk2 : parent k = parent j
                · -- sibling of j: parent cell now holds old a[j] < old a[parent j]
                  rw [hpk2, get_swap_left]
                  have h1 := hpre.other k hk0 hkn hkj
                  rw [hpk2] at h1
                  -- old a[parent j] ≤ a[k] and a[j] < a[parent j]  ⇒  a[j] ≤ a[k]
                  exact hlt.ntrans _ _ _ (hlt.asymm _ _ hl) h1
                · rw [get_swap_ne a _ _ hpa hj (parent k) hpk2 hpk]
                  exact hpre.other k hk0 hkn hkj
          · intro k hk0 hkn hpk hp0
            -- k is a child of parent j (k may be j itself or its sibling); bound by grandparent
            have hgpl : parent (parent j) < parent j := by
              have h := hp0
              unfold parent at h ⊢; omega
            have hgp : parent (parent j) ≠ parent j := by omega
            have hgp2 : parent (parent j) ≠ j := by omega
            rw [get_swap_ne a _ _ hpa hj (parent (parent j)) hgp hgp2]
            have hpp := hpre.other (parent j) hp0 (by omega) (by omega)
            by_cases hkj : k = j
            · rw [hkj, get_swap_right]; exact hpp
            · have hkp : k ≠ parent j := by
                have hlt' : parent k < k := by unfold parent; omega
                rw [hpk] at hlt'; omega
              rw [get_swap_ne a _ _ hpa hj k hkp hkj]
              have h1 := hpre.other k hk0 hkn hkj
              rw [hpk] at h1
              exact hlt.ntrans _ _ _ hpp h1
      · have hl' : lt (get a j) (get a (parent j)) = false := by
          cases h : lt (get a j) (get a (parent j)) <;> simp_all
        simp only [hl', Bool.false_eq_true, if_false]
        intro k hk0 hkn _
        by_cases hkj : k = j
        · rw [hkj]; exact hl'
        · exact hpre.other k hk0 hkn hkj

/-- in a heap the root is a best element -/
theorem root_best (hlt : LtOK lt) (a : Array Item) (n : Nat) (h : IsHeap lt a n) (k : Nat) (hk : k < n) :
    lt (get a k) (get a 0) = false := by
  induction k using Nat.strongRecOn with
  | _ k ih =>
    by_cases h0 : k = 0
    · subst h0; exact irrefl hlt _
    · have hp : parent k < k := by unfold parent; omega
      exact hlt.ntrans _ _ _ (ih (parent k) hp (by omega)) (h k (by omega) hk (Nat.zero_le _))

end Heap
end Anndb
