import Anndb.Model.Wal
/-!
# The Badger-backed store refines etcd's `MemoryStorage` (C06): representation invariant,
abstraction, and the read side

`WF w`: the group's entry keys are a non-empty run of consecutive indices whose first element is
the dummy (the snapshot's entry), and every cached value (`last`, `first`, snapshot) is what a scan
of the disk would return. `abs w` is the `MemoryStorage` state the store stands for. Under `WF`
every read (`FirstIndex`, `LastIndex`, `Term`, `Snapshot`, `InitialState`'s hard state) returns what
`MemoryStorage` returns on `abs w`, and reopening the database (`NewBadgerWAL` on the same disk:
all caches dropped) changes neither `abs` nor `WF`.
-/
namespace Anndb.Wal

/-- consecutive indices -/
def Contig : List Entry → Prop
  | [] => True
  | [_] => True
  | a :: b :: t => b.index = a.index + 1 ∧ Contig (b :: t)

theorem Contig.tail {a : Entry} {t : List Entry} (h : Contig (a :: t)) : Contig t := by
  cases t with
  | nil => trivial
  | cons b t => exact h.2

/-- in a consecutive run starting at `a`, the element at position `i` has index `a.index + i` -/
theorem Contig.index_getD {l : List Entry} (h : Contig l) (a : Entry) (hd : l.head? = some a) (i : Nat)
    (hi : i < l.length) : (l.getD i default).index = a.index + i := by
  induction l generalizing a i with
  | nil => simp at hi
  | cons x t ih =>
    simp at hd; subst hd
    cases i with
    | zero => simp
    | succ i =>
      cases t with
      | nil => simp at hi
      | cons b t =>
        have := ih h.2 b rfl i (by simpa using hi)
        simp only [List.getD_cons_succ]
        rw [this, h.1]; omega

theorem Contig.getLast_index {l : List Entry} (h : Contig l) (a e : Entry) (hd : l.head? = some a)
    (hl : l.getLast? = some e) : e.index = a.index + l.length - 1 := by
  induction l generalizing a with
  | nil => simp at hd
  | cons x t ih =>
    simp at hd; subst hd
    cases t with
    | nil => simp at hl; subst hl; simp
    | cons b t =>
      have hl' : (b :: t).getLast? = some e := by simpa [List.getLast?_cons_cons] using hl
      have := ih h.2 b rfl hl'
      rw [this, h.1]
      simp only [List.length_cons]; omega

/-- the first element with index ≥ `i` of a consecutive run starting at `a.index ≤ i` sits at
position `i - a.index` -/
theorem Contig.find_ge {l : List Entry} (h : Contig l) (a : Entry) (hd : l.head? = some a) (i : Nat)
    (hlo : a.index ≤ i) (hhi : i < a.index + l.length) :
    l.find? (·.index ≥ i) = some (l.getD (i - a.index) default) ∧ (l.getD (i - a.index) default).index = i := by
  induction l generalizing a with
  | nil => simp at hd
  | cons x t ih =>
    simp at hd; subst hd
    by_cases hx : x.index = i
    · subst hx
      simp
    · have hlt : x.index < i := by omega
      cases t with
      | nil => simp at hhi; omega
      | cons b t =>
        have hb := h.1
        have := ih h.2 b rfl (by omega) (by simp only [List.length_cons] at hhi ⊢; omega)
        have hnot : ¬ (x.index ≥ i) := by omega
        simp only [List.find?_cons, hnot, decide_false]
        have hidx : i - x.index = (i - b.index) + 1 := by omega
        rw [hidx, List.getD_cons_succ]
        exact this

theorem Contig.find_ge_none {l : List Entry} (h : Contig l) (a : Entry) (hd : l.head? = some a) (i : Nat)
    (hhi : a.index + l.length ≤ i) : l.find? (·.index ≥ i) = none := by
  induction l generalizing a with
  | nil => simp at hd
  | cons x t ih =>
    simp at hd; subst hd
    have hnot : ¬ (x.index ≥ i) := by simp only [List.length_cons] at hhi; omega
    simp only [List.find?_cons, hnot, decide_false]
    cases t with
    | nil => rfl
    | cons b t =>
      exact ih h.2 b rfl (by simp only [List.length_cons] at hhi ⊢; have := h.1; omega)

/-! ## representation invariant and abstraction -/

structure WF (w : Wal) : Prop where
  ne : w.disk.ents ≠ []
  contig : Contig w.disk.ents
  cLast : ∀ l, w.cache.last = some l → ∃ e, w.disk.ents.getLast? = some e ∧ e.index = l
  /-- the cached first index is consulted only while no snapshot is cached -/
  cFirst : w.cachedSnap = none → ∀ f, w.cache.first = some f → ∃ e, w.disk.ents.head? = some e ∧ f = e.index + 1
  cSnap : ∀ s, w.cachedSnap = some s → w.disk.ss = some s
  /-- the first key is the stored snapshot's entry (index 0 and no snapshot for a fresh store) -/
  ssHead : ∃ e, w.disk.ents.head? = some e ∧ e.index = (w.disk.ss.getD emptySnap).index

def absEnts : List Entry → List Entry
  | [] => []
  | e :: t => ⟨e.index, e.term, 0, 0⟩ :: t

/-- the `MemoryStorage` state the store stands for -/
def abs (w : Wal) : Mem := ⟨w.hardState, w.disk.ss.getD emptySnap, absEnts w.disk.ents⟩

theorem absEnts_length (l : List Entry) : (absEnts l).length = l.length := by cases l <;> rfl

theorem abs_offset (w : Wal) (h : WF w) : ∃ e, w.disk.ents.head? = some e ∧ (abs w).offset = e.index := by
  obtain ⟨e, he, _⟩ := h.ssHead
  refine ⟨e, he, ?_⟩
  cases hl : w.disk.ents with
  | nil => rw [hl] at he; simp at he
  | cons x t =>
    rw [hl] at he; simp at he; subst he
    simp [abs, Mem.offset, absEnts, hl]

/-! ## reads -/

theorem firstIndex_refines (w : Wal) (h : WF w) :
    ∃ w', w.firstIndex = .ok ((abs w).firstIndex, w') ∧ w'.disk = w.disk ∧ WF w' := by
  obtain ⟨e, he, hoff⟩ := abs_offset w h
  obtain ⟨e', he', hss⟩ := h.ssHead
  have hee : e' = e := by rw [he] at he'; exact (Option.some.inj he').symm
  subst hee
  unfold Wal.firstIndex
  cases hcs : w.cachedSnap with
  | some s =>
    simp only
    have := h.cSnap s hcs
    refine ⟨w, ?_, rfl, h⟩
    simp [Mem.firstIndex, hoff, hss, this]
  | none =>
    simp only
    cases hcf : w.cache.first with
    | some f =>
      simp only
      obtain ⟨e2, he2, hf⟩ := h.cFirst hcs f hcf
      have : e2 = e' := by rw [he] at he2; exact (Option.some.inj he2).symm
      subst this
      exact ⟨w, by simp [Mem.firstIndex, hoff, hf], rfl, h⟩
    | none =>
      simp only
      have hseek : w.seekFwd 0 = some e' := by
        unfold Wal.seekFwd
        cases hl : w.disk.ents with
        | nil => rw [hl] at he; simp at he
        | cons x t => rw [hl] at he; simp at he; subst he; simp
      rw [hseek]
      simp only
      refine ⟨{ w with cache := { w.cache with first := some (e'.index + 1) } }, ?_, rfl, ?_⟩
      · simp [Mem.firstIndex, hoff]
      refine ⟨h.ne, h.contig, h.cLast, ?_, ?_, h.ssHead⟩
      · intro _ f hf
        have hf' : some (e'.index + 1) = some f := hf
        exact ⟨e', he, (Option.some.inj hf').symm⟩
      · intro s hs
        apply h.cSnap s
        simpa [Wal.cachedSnap] using hs

theorem lastIndex_refines (w : Wal) (h : WF w) : w.lastIndex = .ok (abs w).lastIndex := by
  obtain ⟨e, he, hoff⟩ := abs_offset w h
  have hlen : (abs w).ents.length = w.disk.ents.length := absEnts_length _
  obtain ⟨el, hel⟩ : ∃ el, w.disk.ents.getLast? = some el := by
    cases hl : w.disk.ents.getLast? with
    | none => exact absurd (List.getLast?_eq_none_iff.mp hl) h.ne
    | some el => exact ⟨el, rfl⟩
  have hidx := h.contig.getLast_index e el he hel
  unfold Wal.lastIndex
  cases hcl : w.cache.last with
  | some l =>
    simp only
    obtain ⟨e2, he2, hl2⟩ := h.cLast l hcl
    have : e2 = el := by rw [hel] at he2; exact (Option.some.inj he2).symm
    subst this
    simp [Mem.lastIndex, hoff, hlen, ← hl2, hidx]
  | none =>
    simp only [Wal.seekLast, hel]
    simp [Mem.lastIndex, hoff, hlen, hidx]

theorem snapshot_refines (w : Wal) (h : WF w) : w.snapshot = (abs w).snap := by
  unfold Wal.snapshot
  cases hcs : w.cachedSnap with
  | some s => simp [abs, h.cSnap s hcs]
  | none => rfl

theorem hardState_refines (w : Wal) : w.hardState = (abs w).hs := rfl

/-- `Term`: same answer, same error class -/
theorem term_refines (w : Wal) (h : WF w) (i : Nat) :
    (w.term i).map (·.1) = (abs w).term i := by
  obtain ⟨w', hf, hdisk, hwf'⟩ := firstIndex_refines w h
  obtain ⟨e, he, hoff⟩ := abs_offset w h
  have hlen : (abs w).ents.length = w.disk.ents.length := absEnts_length _
  have hpos : 0 < w.disk.ents.length := List.length_pos_iff.mpr h.ne
  unfold Wal.term
  rw [hf]
  simp only [bind, Except.bind, Mem.firstIndex, hoff]
  unfold Mem.term
  rw [hoff, hlen]
  by_cases hlt : i < e.index
  · have h1 : i < e.index + 1 - 1 := by omega
    simp [h1, hlt, Except.map]
  · have h1 : ¬ (i < e.index + 1 - 1) := by omega
    simp only [h1, if_false, hlt]
    have hseek : w'.seekFwd i = w.disk.ents.find? (·.index ≥ i) := by simp [Wal.seekFwd, hdisk]
    rw [hseek]
    by_cases hin : i < e.index + w.disk.ents.length
    · obtain ⟨hfind, hidx⟩ := h.contig.find_ge e he i (by omega) hin
      rw [hfind]
      have h2 : ¬ (i - e.index ≥ w.disk.ents.length) := by omega
      have h3 : ¬ (i < (w.disk.ents.getD (i - e.index) default).index) := by omega
      simp only [h2, if_false, h3, Except.map]
      -- the term of the element is unchanged by `absEnts`
      congr 1
      cases hl : w.disk.ents with
      | nil => exact absurd hl h.ne
      | cons x t =>
        cases hk : i - e.index with
        | zero => simp [abs, absEnts, hl]
        | succ k => simp [abs, absEnts, hl]
    · have := h.contig.find_ge_none e he i (by omega)
      rw [this]
      have h2 : i - e.index ≥ w.disk.ents.length := by omega
      simp [h2, Except.map]

/-! ## reopen -/

/-- dropping every cache (what `NewBadgerWAL` on the same database starts from) keeps `WF` and `abs` -/
theorem reopen_refines (w : Wal) (h : WF w) :
    WF (Wal.open_ w.disk) ∧ abs (Wal.open_ w.disk) = abs w := by
  have hwf0 : WF ⟨w.disk, emptyCache⟩ := by
    refine ⟨h.ne, h.contig, ?_, ?_, ?_, h.ssHead⟩
    · intro l hl; simp [emptyCache] at hl
    · intro _ f hf; simp [emptyCache] at hf
    · intro s hs; simp [Wal.cachedSnap, emptyCache] at hs
  obtain ⟨w', hf, hdisk, hwf'⟩ := firstIndex_refines ⟨w.disk, emptyCache⟩ hwf0
  unfold Wal.open_
  simp only [hf]
  refine ⟨hwf', ?_⟩
  simp [abs, Wal.hardState, hdisk]

end Anndb.Wal
