import Anndb.Proofs.HnswSound
/-!
# `Inv` is preserved by insert and remove (any queue, any configuration, any link order)

`Inv` (I1–I3) speaks only about the entry point, the id map and the tombstones. All
linking work (`addEdge`, `removeEdge`, `setEdges`, `prune`, `linkAll`, `insertLevels`,
`unlinkAll`) changes nothing but link lists; `EdgeFrame` captures that.
-/
namespace Anndb
open Index

/-- the link-independent part of a vertex -/
def Vertex.core (x : Vertex) : ItemId × VecRef × Meta × Nat × Bool := (x.id, x.vec, x.md, x.level, x.deleted)

/-- `s'` differs from `s` only in link lists -/
structure EdgeFrame (s s' : Index) : Prop where
  live : s'.live = s.live
  ids : s'.ids = s.ids
  entry : s'.entry = s.entry
  next : s'.next = s.next
  core : ∀ v, (s'.verts v).map Vertex.core = (s.verts v).map Vertex.core

namespace EdgeFrame

theorem refl (s : Index) : EdgeFrame s s := ⟨rfl, rfl, rfl, rfl, fun _ => rfl⟩

theorem trans {a b c : Index} (h₁ : EdgeFrame a b) (h₂ : EdgeFrame b c) : EdgeFrame a c :=
  ⟨h₂.live.trans h₁.live, h₂.ids.trans h₁.ids, h₂.entry.trans h₁.entry, h₂.next.trans h₁.next,
   fun v => (h₂.core v).trans (h₁.core v)⟩

theorem updVertex (s : Index) (v : Vid) (f : Vertex → Vertex) (hf : ∀ x, (f x).core = x.core) :
    EdgeFrame s (s.updVertex v f) := by
  refine ⟨rfl, rfl, rfl, rfl, ?_⟩
  intro u
  unfold Index.updVertex
  by_cases hu : u = v
  · subst hu
    simp only [if_true]
    cases s.verts u with
    | none => rfl
    | some x => simp [hf x]
  · simp [hu]

theorem addEdge (s : Index) (v : Vid) (l : Nat) (w : Vid) (d : Score) : EdgeFrame s (s.addEdge v l w d) :=
  updVertex s v _ (fun _ => rfl)

theorem removeEdge (s : Index) (v : Vid) (l : Nat) (w : Vid) : EdgeFrame s (s.removeEdge v l w) :=
  updVertex s v _ (fun _ => rfl)

theorem setEdges (s : Index) (v : Vid) (l : Nat) (es : List (Vid × Score)) : EdgeFrame s (s.setEdges v l es) :=
  updVertex s v _ (fun _ => rfl)

theorem isDeleted_eq {s s' : Index} (h : EdgeFrame s s') (v : Vid) : s'.isDeleted v = s.isDeleted v := by
  have := h.core v
  unfold Index.isDeleted
  cases h1 : s.verts v <;> cases h2 : s'.verts v <;> simp [h1, h2, Vertex.core] at this ⊢
  exact this.2.2.2.2

end EdgeFrame

theorem Inv.of_frame {s s' : Index} (hi : Inv s) (h : EdgeFrame s s') : Inv s' := by
  refine ⟨?_, ?_, ?_⟩
  · intro he i
    rw [h.live]
    exact hi.entryNone (h.entry ▸ he) i
  · intro v hv
    rw [h.isDeleted_eq]
    exact hi.entryLive v (h.entry ▸ hv)
  · intro v x' hx'
    have hc := h.core v
    rw [hx'] at hc
    cases hx : s.verts v with
    | none => simp [hx] at hc
    | some x =>
      simp only [hx, Option.map_some, Option.some.injEq, Vertex.core, Prod.mk.injEq] at hc
      obtain ⟨hid, _, _, _, hdel⟩ := hc
      rw [hdel, hid, h.live]
      exact hi.liveIff v x hx

section
variable {Pmin Pmax : PQImpl} {dist : VecRef → VecRef → Score} (cfg : Cfg)

theorem prune_frame (s : Index) (v : Vid) (k level : Nat) :
    EdgeFrame s (prune Pmin Pmax dist cfg s v k level) := by
  unfold prune
  exact EdgeFrame.setEdges _ _ _ _

theorem linkAll_frame (v : Vid) (l : Nat) (its : List Item) (s : Index) (cur : Vid) :
    EdgeFrame s (linkAll Pmin Pmax dist cfg v l its s cur).1 := by
  induction its generalizing s cur with
  | nil => exact EdgeFrame.refl s
  | cons it rest ih =>
    unfold linkAll
    simp only
    refine EdgeFrame.trans ?_ (ih _ _)
    have f1 := EdgeFrame.addEdge s v l it.vid it.score
    have f2 := EdgeFrame.addEdge (s.addEdge v l it.vid it.score) it.vid l v it.score
    split
    · exact (f1.trans f2).trans (prune_frame cfg _ _ _ _)
    · exact f1.trans f2

theorem insertLevels_frame (v : Vid) (q : VecRef) (top : Nat) (s : Index) (cur : Vid) :
    EdgeFrame s (insertLevels Pmin Pmax dist cfg v q top s cur) := by
  induction top generalizing s cur with
  | zero =>
    unfold insertLevels
    exact linkAll_frame cfg v 0 _ s cur
  | succ l ih =>
    unfold insertLevels
    simp only
    have h := linkAll_frame (Pmin := Pmin) (Pmax := Pmax) (dist := dist) cfg v (l+1)
      (Pmax.drain (selectNbrs Pmin Pmax dist cfg s q (searchLevel Pmin Pmax dist s q cur cfg.efC (l+1)) cfg.m (l+1))) s cur
    generalize linkAll Pmin Pmax dist cfg v (l+1) _ s cur = res at h
    obtain ⟨s', cur'⟩ := res
    exact h.trans (ih s' cur')

theorem unlinkLevel_frame (v : Vid) (l : Nat) (ns : List Vid) (s : Index) :
    EdgeFrame s (unlinkLevel Pmin Pmax dist cfg v l ns s) := by
  induction ns generalizing s with
  | nil => exact EdgeFrame.refl s
  | cons n rest ih =>
    unfold unlinkLevel
    simp only
    exact ((EdgeFrame.removeEdge s n l v).trans (prune_frame cfg _ _ _ _)).trans (ih _)

theorem unlinkAll_frame (v : Vid) (n : Nat) (s : Index) :
    EdgeFrame s (unlinkAll Pmin Pmax dist cfg v n s) := by
  induction n generalizing s with
  | zero => exact EdgeFrame.refl s
  | succ l ih =>
    unfold unlinkAll
    exact (unlinkLevel_frame cfg v l _ s).trans (ih _)

/-! ### the extra facts needed to create and retire incarnations -/

/-- allocation discipline: nothing is allocated at or beyond `next`; `ids` lists exactly the live ids -/
structure Alloc (s : Index) : Prop where
  fresh : ∀ v, s.next ≤ v → s.verts v = none
  liveAlloc : ∀ i v, s.live i = some v → ∃ x, s.verts v = some x ∧ x.id = i
  idsLive : ∀ i, i ∈ s.ids ↔ s.live i ≠ none

theorem Alloc.of_frame {s s' : Index} (ha : Alloc s) (h : EdgeFrame s s') : Alloc s' := by
  refine ⟨?_, ?_, ?_⟩
  · intro v hv
    have := h.core v
    rw [ha.fresh v (h.next ▸ hv)] at this
    cases hx : s'.verts v with
    | none => rfl
    | some x => simp [hx] at this
  · intro i v hl
    rw [h.live] at hl
    obtain ⟨x, hx, hid⟩ := ha.liveAlloc i v hl
    have := h.core v
    rw [hx] at this
    cases hx' : s'.verts v with
    | none => simp [hx'] at this
    | some x' =>
      simp only [hx', Option.map_some, Option.some.injEq, Vertex.core, Prod.mk.injEq] at this
      exact ⟨x', rfl, this.1.trans hid⟩
  · intro i
    rw [h.ids, h.live]
    exact ha.idsLive i

/-- everything `Inv`/`Alloc` talk about, as a bundle of plain facts about a state -/
theorem mk_inv_alloc (s2 : Index)
    (h1 : s2.entry = none → ∀ i, s2.live i = none)
    (h2 : ∀ u, s2.entry = some u → s2.isDeleted u = false)
    (h3 : ∀ u y, s2.verts u = some y → (y.deleted = false ↔ s2.live y.id = some u))
    (a : Alloc s2) : Inv s2 ∧ Alloc s2 := ⟨⟨h1, h2, h3⟩, a⟩

theorem isDeleted_congr {s s2 : Index} (h : s2.verts = s.verts) (u : Vid) : s2.isDeleted u = s.isDeleted u := by
  simp [Index.isDeleted, h]

theorem Alloc.congr {s s2 : Index} (a : Alloc s) (hv : s2.verts = s.verts) (hl : s2.live = s.live)
    (hi : s2.ids = s.ids) (hn : s2.next = s.next) : Alloc s2 :=
  ⟨fun v hv' => by rw [hv]; exact a.fresh v (hn ▸ hv'),
   fun i v h => by rw [hv]; exact a.liveAlloc i v (hl ▸ h),
   fun i => by rw [hi, hl]; exact a.idsLive i⟩

/-- the state right after `store`: facts -/
theorem store_facts (s : Index) (id : ItemId) (x : Vertex) (hx : x.id = id) (hd : x.deleted = false)
    (hi : Inv s) (ha : Alloc s) (hnew : s.live id = none) :
    let s1 := (store s id x).1
    (store s id x).2 = s.next ∧
    s1.entry = s.entry ∧
    s1.isDeleted s.next = false ∧
    (∀ u, u ≠ s.next → s1.isDeleted u = s.isDeleted u) ∧
    (∀ u y, s1.verts u = some y → (y.deleted = false ↔ s1.live y.id = some u)) ∧
    s1.live id = some s.next ∧
    Alloc s1 := by
  intro s1
  have hvnone : s.verts s.next = none := ha.fresh _ (Nat.le_refl _)
  have hverts : ∀ u, s1.verts u = if u = s.next then some x else s.verts u := fun _ => rfl
  have hlive : ∀ i, s1.live i = if i = id then some s.next else s.live i := fun _ => rfl
  have hnext : s1.next = s.next + 1 := rfl
  have hids : s1.ids = id :: s.ids := rfl
  refine ⟨rfl, rfl, ?_, ?_, ?_, ?_, ?_⟩
  · simp [Index.isDeleted, hverts, hd]
  · intro u hu; simp [Index.isDeleted, hverts, hu]
  · intro u y hy
    rw [hverts] at hy
    by_cases hu : u = s.next
    · subst hu
      simp only [if_true, Option.some.injEq] at hy
      subst hy
      simp [hlive, hx, hd]
    · simp only [hu, if_false] at hy
      rw [hlive]
      by_cases hyid : y.id = id
      · simp only [hyid, if_true, Option.some.injEq]
        constructor
        · intro hyd
          have := (hi.liveIff u y hy).mp hyd
          rw [hyid, hnew] at this; cases this
        · intro h; exact absurd h.symm hu
      · simp only [hyid, if_false]
        exact hi.liveIff u y hy
  · simp [hlive]
  · refine ⟨?_, ?_, ?_⟩
    · intro u hu
      have hu' : s.next + 1 ≤ u := hu
      have hne : u ≠ s.next := by omega
      rw [hverts]; simp only [hne, if_false]
      exact ha.fresh u (by omega)
    · intro i u hl
      rw [hlive] at hl
      by_cases hi' : i = id
      · simp only [hi', if_true, Option.some.injEq] at hl
        subst hl
        exact ⟨x, by simp [hverts], hx.trans hi'.symm⟩
      · simp only [hi', if_false] at hl
        obtain ⟨y, hy, hyid⟩ := ha.liveAlloc i u hl
        have hne : u ≠ s.next := by
          intro he; rw [he, hvnone] at hy; cases hy
        exact ⟨y, by simp [hverts, hne, hy], hyid⟩
    · intro i
      rw [hids, hlive, List.mem_cons]
      by_cases hi' : i = id
      · simp [hi']
      · simp only [hi', false_or, if_false]
        exact ha.idsLive i

/-- C01/I: `insert` preserves the invariant (and the allocation discipline). -/
theorem inv_insert (s : Index) (id : ItemId) (vec : VecRef) (md : Meta) (level : Nat)
    (hi : Inv s) (ha : Alloc s) (s' : Index)
    (h : insert Pmin Pmax dist cfg s id vec md level = .ok s') : Inv s' ∧ Alloc s' := by
  unfold insert at h
  cases hl : s.live id with
  | some v => simp [hl] at h
  | none =>
    simp only [hl] at h
    cases he : s.entry with
    | none =>
      simp only [he] at h
      injection h with h
      obtain ⟨hv, _, hdv, _, hli, _, hal⟩ := store_facts s id (newVertex id vec md 0) rfl rfl hi ha hl
      rw [← h]
      apply mk_inv_alloc
      · intro hen; cases hen
      · intro u hu
        simp only [Option.some.injEq] at hu
        rw [← hu, hv]; exact hdv
      · exact hli
      · exact hal.congr rfl rfl rfl rfl
    | some ep =>
      simp only [he] at h
      injection h with h
      obtain ⟨hv, hen, hdv, hdo, hli, _, hal⟩ := store_facts s id (newVertex id vec md level) rfl rfl hi ha hl
      generalize hst : store s id (newVertex id vec md level) = st at h hv hen hdv hdo hli hal
      obtain ⟨s1, v⟩ := st
      simp only at h hv hen hdv hdo hli hal
      have base : Inv s1 := by
        refine ⟨?_, ?_, hli⟩
        · intro hn; rw [hen, he] at hn; cases hn
        · intro u hu
          rw [hen] at hu
          have hlv := hi.entryLive u hu
          have hne : u ≠ s.next := by
            intro heq
            rw [heq] at hlv
            simp [Index.isDeleted, ha.fresh s.next (Nat.le_refl _)] at hlv
          rw [hdo u hne]; exact hlv
      generalize hdd : descend dist s1 vec level (s1.levelOf ep - level) ep (dist vec (s1.vecOf ep)) = dd at h
      obtain ⟨cur, dcur⟩ := dd
      simp only at h
      have fr := insertLevels_frame (Pmin := Pmin) (Pmax := Pmax) (dist := dist) cfg v vec
        (min (s1.levelOf cur) level) s1 cur
      have i2 := base.of_frame fr
      have a2 := hal.of_frame fr
      split at h
      · rw [← h]
        apply mk_inv_alloc
        · intro hn; cases hn
        · intro u hu
          simp only [Option.some.injEq] at hu
          show (insertLevels Pmin Pmax dist cfg v vec (min (s1.levelOf cur) level) s1 cur).isDeleted u = false
          rw [fr.isDeleted_eq, ← hu, hv]; exact hdv
        · exact i2.liveIff
        · exact a2.congr rfl rfl rfl rfl
      · rw [← h]; exact ⟨i2, a2⟩

/-- a well-behaved resolver of the residual choice in the repaired hand-over -/
def PickOK (pick : List ItemId → Option ItemId) : Prop :=
  (∀ l i, pick l = some i → i ∈ l) ∧ (∀ l, pick l = none → l = [])

theorem closestLive_some (s : Index) (v : Vid) (l : Nat) (e : Vid × Score)
    (h : closestLive s v l = some e) : s.isDeleted e.1 = false := by
  unfold closestLive at h
  have key : ∀ (es : List (Vid × Score)) (acc : Option (Vid × Score)),
      (∀ b, acc = some b → s.isDeleted b.1 = false) →
      ∀ b, es.foldl (fun (acc : Option (Vid × Score)) e =>
        if s.isDeleted e.1 then acc
        else match acc with
          | none => some e
          | some b => if e.2 < b.2 then some e else acc) acc = some b → s.isDeleted b.1 = false := by
    intro es
    induction es with
    | nil => intro acc hacc b hb; exact hacc b hb
    | cons e' t ih =>
      intro acc hacc b hb
      simp only [List.foldl_cons] at hb
      apply ih _ _ b hb
      intro b' hb'
      by_cases hd : s.isDeleted e'.1 = true
      · simp [hd] at hb'; exact hacc b' hb'
      · have hd' : s.isDeleted e'.1 = false := by cases hx : s.isDeleted e'.1 <;> simp_all
        simp only [hd', Bool.false_eq_true, if_false] at hb'
        cases acc with
        | none => simp at hb'; subst hb'; exact hd'
        | some a =>
          simp only at hb'
          split at hb'
          · simp at hb'; subst hb'; exact hd'
          · exact hacc b' hb'
  exact key _ none (by intro b hb; cases hb) e h

theorem handOver_some (s : Index) (v : Vid) (n : Nat) (w : Vid) (h : handOver s v n = some w) :
    s.isDeleted w = false := by
  induction n with
  | zero => simp [handOver] at h
  | succ l ih =>
    unfold handOver at h
    split at h
    · rename_i e he
      simp at h; subst h
      exact closestLive_some s v l e he
    · exact ih h

/-- facts about the state right after `tombstone` -/
theorem tombstone_facts (s : Index) (id : ItemId) (v : Vid) (hi : Inv s) (ha : Alloc s) (hl : s.live id = some v) :
    let s1 := tombstone s id v
    s1.entry = s.entry ∧
    s1.isDeleted v = true ∧
    (∀ u, u ≠ v → s1.isDeleted u = s.isDeleted u) ∧
    (∀ i, s1.live i = if i = id then none else s.live i) ∧
    (∀ u y, s1.verts u = some y → (y.deleted = false ↔ s1.live y.id = some u)) ∧
    Alloc s1 := by
  intro s1
  obtain ⟨x, hx, hxid⟩ := ha.liveAlloc id v hl
  have hverts1 : ∀ u, s1.verts u = if u = v then some { x with deleted := true } else s.verts u := by
    intro u
    simp only [s1, tombstone, Index.updVertex]
    by_cases hu : u = v
    · simp [hu, hx]
    · simp [hu]
  have hlive1 : ∀ i, s1.live i = if i = id then none else s.live i := fun _ => rfl
  have hids1 : s1.ids = s.ids.filter (· ≠ id) := rfl
  have hnext1 : s1.next = s.next := rfl
  refine ⟨rfl, ?_, ?_, hlive1, ?_, ?_⟩
  · simp [Index.isDeleted, hverts1]
  · intro u hu; simp [Index.isDeleted, hverts1, hu]
  · intro u y hy
    rw [hverts1] at hy
    by_cases hu : u = v
    · subst hu
      simp only [if_true, Option.some.injEq] at hy
      subst hy
      simp [hlive1, hxid]
    · simp only [hu, if_false] at hy
      rw [hlive1]
      by_cases hyid : y.id = id
      · simp only [hyid, if_true]
        constructor
        · intro hyd
          have := (hi.liveIff u y hy).mp hyd
          rw [hyid, hl] at this
          exact absurd (Option.some.inj this).symm hu
        · intro h; cases h
      · simp only [hyid, if_false]
        exact hi.liveIff u y hy
  · refine ⟨?_, ?_, ?_⟩
    · intro u hu
      rw [hnext1] at hu
      have hne : u ≠ v := by
        intro he; rw [he] at hu; rw [ha.fresh v hu] at hx; cases hx
      rw [hverts1]; simp only [hne, if_false]; exact ha.fresh u hu
    · intro i u hlu
      rw [hlive1] at hlu
      by_cases hi' : i = id
      · simp [hi'] at hlu
      · simp only [hi', if_false] at hlu
        obtain ⟨y, hy, hyid⟩ := ha.liveAlloc i u hlu
        have hne : u ≠ v := by
          intro he
          rw [he, hx] at hy
          have : x.id = i := by cases hy; exact hyid
          exact hi' (this.symm.trans hxid)
        exact ⟨y, by simp [hverts1, hne, hy], hyid⟩
    · intro i
      rw [hids1, hlive1, List.mem_filter]
      by_cases hi' : i = id
      · simp [hi']
      · simp only [hi', if_false, ne_eq, not_false_eq_true, decide_true, and_true]
        exact ha.idsLive i

/-- the repaired hand-over re-establishes the invariant after a tombstone -/
theorem handEntry_inv (s1 : Index) (v : Vid) (pick : List ItemId → Option ItemId) (hp : PickOK pick)
    (hdv : s1.isDeleted v = true)
    (h1 : s1.entry ≠ some v → s1.entry = none → ∀ i, s1.live i = none)
    (h2 : ∀ u, u ≠ v → s1.entry = some u → s1.isDeleted u = false)
    (h3 : ∀ u y, s1.verts u = some y → (y.deleted = false ↔ s1.live y.id = some u))
    (a : Alloc s1) : Inv (handEntry s1 v pick) ∧ Alloc (handEntry s1 v pick) := by
  unfold handEntry
  split
  · split
    · rename_i w hw
      apply mk_inv_alloc
      · intro he; cases he
      · intro u hu
        simp only [Option.some.injEq] at hu
        subst hu
        exact handOver_some s1 v _ _ hw
      · exact h3
      · exact a.congr rfl rfl rfl rfl
    · split
      · rename_i i hpi
        have himem := hp.1 _ _ hpi
        have hlne := (a.idsLive i).mp himem
        apply mk_inv_alloc
        · intro he; exact absurd he hlne
        · intro u hu
          have hu' : s1.live i = some u := hu
          obtain ⟨y, hy, hyid⟩ := a.liveAlloc i u hu'
          have := (h3 u y hy).mpr (hyid ▸ hu')
          show s1.isDeleted u = false
          simp [Index.isDeleted, hy, this]
        · exact h3
        · exact a.congr rfl rfl rfl rfl
      · rename_i hpn
        have hnil := hp.2 _ hpn
        apply mk_inv_alloc
        · intro _ i
          cases hli : s1.live i with
          | none => rfl
          | some u =>
            have := (a.idsLive i).mpr (by simp [hli])
            rw [hnil] at this; cases this
        · intro u hu; cases hu
        · exact h3
        · exact a.congr rfl rfl rfl rfl
  · rename_i hev
    refine ⟨⟨h1 hev, ?_, h3⟩, a⟩
    intro u hu
    have hne : u ≠ v := by
      intro he; apply hev; rw [← he]; exact hu
    exact h2 u hne hu

/-- C01/I: `remove` (with the repaired hand-over) preserves the invariant. -/
theorem inv_remove (s : Index) (id : ItemId) (pick : List ItemId → Option ItemId) (hp : PickOK pick)
    (hi : Inv s) (ha : Alloc s) (s' : Index)
    (h : remove Pmin Pmax dist cfg s id pick = .ok s') : Inv s' ∧ Alloc s' := by
  unfold remove at h
  cases hl : s.live id with
  | none => simp [hl] at h
  | some v =>
    simp only [hl] at h
    injection h with h
    obtain ⟨hent, hdv, hdo, hlive, hli, hal⟩ := tombstone_facts s id v hi ha hl
    have h2 := handEntry_inv (tombstone s id v) v pick hp hdv
      (by
        intro _ hen i
        rw [hent] at hen
        rw [hlive]
        by_cases hi' : i = id
        · simp [hi']
        · simp only [hi', if_false]; exact hi.entryNone hen i)
      (by
        intro u hne hu
        rw [hent] at hu
        rw [hdo u hne]; exact hi.entryLive u hu)
      hli hal
    have fr := unlinkAll_frame (Pmin := Pmin) (Pmax := Pmax) (dist := dist) cfg v
      ((handEntry (tombstone s id v) v pick).levelOf v + 1) (handEntry (tombstone s id v) v pick)
    rw [← h]
    exact ⟨h2.1.of_frame fr, h2.2.of_frame fr⟩

end
end Anndb
