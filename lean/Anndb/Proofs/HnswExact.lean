import Anndb.Proofs.HnswInsertOnly
import Anndb.Proofs.HnswSound
import Anndb.Proofs.SortSpec
/-!
# Exact search on small insert-only collections (C07)

For a state satisfying `IO` (built by inserts only, at most `mMax0 + 1` items) and a beam that
covers it (`s.next ≤ max ef k`), `search` returns exactly `min k n` hits and every stored item
that is not among them is at least as far from the query as every hit.
-/
namespace Anndb
open Index

section
variable {Pmin Pmax : PQImpl} {dist : VecRef → VecRef → Score} (cfg : Cfg)
variable (hmin : Lawful Pmin minBetter) (hmax : Lawful Pmax maxBetter)
variable (s : Index) (q : VecRef)

/-- the level-0 graph of an `IO` state is connected: a set that contains a vertex and is closed
under live level-0 links contains every allocated vertex -/
theorem reach_all (h : IO cfg s) (cur : Vid) (l : List Item)
    (hc : Complete dist s q 0 cur l) (hcur : cur < s.next) :
    ∀ v, v < s.next → ∃ it ∈ l, it.vid = v := by
  have hin : ∀ u, (∃ it ∈ l, it.vid = u) → ∀ w ∈ s.nbrs u 0, ∃ it ∈ l, it.vid = w := by
    rintro u ⟨it, hit, rfl⟩ w hw
    exact hc.closed it hit w hw (h.valid _ _ _ hw)
  -- down to vertex 0
  have down : ∀ n u, u ≤ n → u < s.next → (∃ it ∈ l, it.vid = u) → ∃ it ∈ l, it.vid = 0 := by
    intro n
    induction n with
    | zero => intro u hu _ hm; have : u = 0 := by omega
              subst this; exact hm
    | succ n ih =>
      intro u hu hlt hm
      by_cases hz : u = 0
      · subst hz; exact hm
      · obtain ⟨w, hw, hwlt⟩ := h.parent u (by omega) hlt
        exact ih w (by omega) (by omega) (hin u hm w hw)
  have h0 : ∃ it ∈ l, it.vid = 0 := down cur cur (Nat.le_refl _) hcur hc.start
  -- and up again
  have up : ∀ n v, v ≤ n → v < s.next → ∃ it ∈ l, it.vid = v := by
    intro n
    induction n with
    | zero => intro v hv _; have : v = 0 := by omega
              subst this; exact h0
    | succ n ih =>
      intro v hv hlt
      by_cases hz : v = 0
      · subst hz; exact h0
      · obtain ⟨w, hw, hwlt⟩ := h.parent v (by omega) hlt
        have hwm := ih w (by omega) (by omega)
        exact hin w hwm v (h.l0.sym v w hw)
  intro v hv
  exact up v v (Nat.le_refl _) hv

/-- a duplicate-free list that contains every number below `n` has at least `n` elements -/
theorem cover_length : ∀ (n : Nat) (l : List Nat), (∀ v, v < n → v ∈ l) → n ≤ l.length := by
  intro n
  induction n with
  | zero => intro l _; omega
  | succ n ih =>
    intro l h
    have hm : n ∈ l := h n (by omega)
    have := ih (l.erase n) (by
      intro v hv
      exact (List.mem_erase_of_ne (by omega)).mpr (h v (by omega)))
    rw [List.length_erase_of_mem hm] at this
    have : 0 < l.length := List.length_pos_of_mem hm
    omega

include hmin in
/-- candidate extension adds nothing when every live vertex is a candidate already -/
theorem extend_noop (level : Nat) (cs : List Vid) (a : Pmin.Q × List Vid)
    (hall : ∀ w, s.isDeleted w = false → w ∈ a.2) :
    cs.foldl (extendStep Pmin dist s q level) a = a := by
  induction cs with
  | nil => rfl
  | cons c t ih =>
    simp only [List.foldl_cons]
    have : extendStep Pmin dist s q level a c = a := by
      unfold extendStep
      generalize s.nbrs c level = ns
      induction ns with
      | nil => rfl
      | cons w t2 ih2 =>
        simp only [List.foldl_cons]
        by_cases hd : s.isDeleted w = true
        · simp only [hd, if_true]; exact ih2
        · have hd' : s.isDeleted w = false := by cases hx : s.isDeleted w <;> simp_all
          simp only [hd', Bool.false_eq_true, if_false, hall w hd', if_true]
          exact ih2
    rw [this]; exact ih

include hmin hmax in
/-- selection of the `k` best when the candidates are all live vertices -/
theorem selectNbrs_best (n : Pmax.Q) (k level : Nat)
    (hall : ∀ w, s.isDeleted w = false → w ∈ (Pmax.toList n).map (·.vid)) :
    Best (Pmax.toList (selectNbrs Pmin Pmax dist cfg s q n k level)) (Pmax.toList n) ∧
    Pmax.len (selectNbrs Pmin Pmax dist cfg s q n k level) = min k (Pmax.len n) := by
  unfold selectNbrs
  split
  · unfold selectHeuristic
    simp only
    have p0 := hmin.ofList_perm (Pmax.toList n)
    have hcand : (if cfg.extend = true then
        (((Pmax.drain n).map (·.vid)).foldl (extendStep Pmin dist s q level)
          (Pmin.ofList (Pmax.toList n), (Pmax.toList n).map (·.vid))).1
        else Pmin.ofList (Pmax.toList n)) = Pmin.ofList (Pmax.toList n) := by
      split
      · rw [extend_noop hmin s q level _ _ hall]
      · rfl
    rw [hcand]
    have hb := fillResult_best hmin hmax k (Pmin.len (Pmin.ofList (Pmax.toList n))) (Pmin.ofList (Pmax.toList n))
      Pmax.empty (by intro y hy; rw [hmax.empty_list] at hy; cases hy)
    rw [hmax.empty_list, List.nil_append] at hb
    have hlen0 : Pmin.len (Pmin.ofList (Pmax.toList n)) = Pmax.len n := by
      simp only [PQImpl.len]; exact p0.length_eq
    refine ⟨hb.of_perm p0, ?_⟩
    have hle := fillResult_len hmin hmax k (Pmin.len (Pmin.ofList (Pmax.toList n))) (Pmin.ofList (Pmax.toList n))
      Pmax.empty (by simp [PQImpl.len, hmax.empty_list])
    have hge := fillResult_len_ge hmin hmax k (Pmin.len (Pmin.ofList (Pmax.toList n)))
      (Pmin.ofList (Pmax.toList n)) Pmax.empty (Nat.le_refl _)
    have hsub := (fillResult_sub hmin hmax k (Pmin.len (Pmin.ofList (Pmax.toList n)))
      (Pmin.ofList (Pmax.toList n)) Pmax.empty).length_le
    rw [hmax.empty_list, List.nil_append] at hsub
    have he : Pmax.len Pmax.empty = 0 := by simp [PQImpl.len, hmax.empty_list]
    generalize fillResult Pmin Pmax k (Pmin.len (Pmin.ofList (Pmax.toList n))) (Pmin.ofList (Pmax.toList n))
      Pmax.empty = R at hle hge hsub ⊢
    simp only [PQImpl.len] at hle hge hsub hlen0 he ⊢
    omega
  · unfold selectSimple
    refine ⟨PQImpl.trimTo_best hmax k _ n, ?_⟩
    have hle := PQImpl.trimTo_len hmax k (Pmax.len n) n (by omega)
    have hge := PQImpl.trimTo_len_ge hmax k (Pmax.len n) n
    have hsub := (PQImpl.trimTo_sub hmax k (Pmax.len n) n).length_le
    simp only [PQImpl.len] at hle hge hsub ⊢
    omega

include hmin hmax in
/-- exactness for an already clamped `k` -/
theorem searchCore_exact (hio : IO cfg s) (k : Nat) (hcover : s.next ≤ max cfg.ef k) :
    let r := searchCore Pmin Pmax dist cfg s q k
    r.length = min k s.next ∧
    (∀ v, v < s.next →
      (∃ h ∈ r, h.id = s.idOf v ∧ h.score = dist q (s.vecOf v)) ∨
      (∀ h ∈ r, h.score ≤ dist q (s.vecOf v))) ∧
    (∃ rest, ((List.range s.next).map (fun v => dist q (s.vecOf v))).Perm (r.map (·.score) ++ rest) ∧
      ∀ y ∈ r.map (·.score), ∀ x ∈ rest, y ≤ x) := by
  intro r
  cases hent : s.entry with
  | none =>
    have hn0 : s.next = 0 := by
      by_cases hz : 0 < s.next
      · exact absurd hent (hio.entrySome hz)
      · omega
    have hr : r = [] := by simp [r, searchCore, hent]
    rw [hr, hn0]
    exact ⟨by simp, fun v hv => absurd hv (Nat.not_lt_zero _), [], by simp, by simp⟩
  | some ep =>
    have heplt := hio.entryLt ep hent
    have hepLive := hio.al.live ep heplt
    let R : Vid → Prop := fun v => s.isDeleted v = false
    have hR : ∀ l u w, R u → w ∈ s.nbrs u l → s.isDeleted w = false → R w := fun _ _ _ _ _ h => h
    have hcur := descend_closed (dist := dist) s q R hR 0 (s.levelOf ep) ep (dist q (s.vecOf ep)) hepLive
    generalize hdesc : descend dist s q 0 (s.levelOf ep) ep (dist q (s.vecOf ep)) = dd at hcur
    obtain ⟨cur, dcur⟩ := dd
    simp only at hcur
    have hcurlt : cur < s.next := hio.al.lt_of_live hcur
    -- the beam search returns every vertex
    have hcomp := searchLevel_complete (dist := dist) hmin hmax s q (max cfg.ef k) 0 cur hcover hcurlt
      (fun u w _ _ hdw => hio.al.lt_of_live hdw)
    have hallv := reach_all (dist := dist) cfg s q hio cur _ hcomp hcurlt
    generalize hnq : searchLevel Pmin Pmax dist s q cur (max cfg.ef k) 0 = n at hcomp hallv
    have hnlen : Pmax.len n = s.next := by
      have h1 := nodup_bounded_length s.next ((Pmax.toList n).map (·.vid)) hcomp.res.nodup
        (by intro x hx
            obtain ⟨it, hit, rfl⟩ := List.mem_map.mp hx
            exact (hcomp.res.items it hit).2.2)
      have h2 := cover_length s.next ((Pmax.toList n).map (·.vid))
        (by intro v hv
            obtain ⟨it, hit, hvid⟩ := hallv v hv
            exact List.mem_map.mpr ⟨it, hit, hvid⟩)
      simp only [List.length_map] at h1 h2
      simp only [PQImpl.len]; omega
    have hall : ∀ w, s.isDeleted w = false → w ∈ (Pmax.toList n).map (·.vid) := by
      intro w hw
      obtain ⟨it, hit, hvid⟩ := hallv w (hio.al.lt_of_live hw)
      exact List.mem_map.mpr ⟨it, hit, hvid⟩
    obtain ⟨hbest, hsellen⟩ := selectNbrs_best (dist := dist) cfg hmin hmax s q n k 0 hall
    have hselok := selectNbrs_ok cfg hmin hmax s q n k 0 (fun u w _ _ hdw => hio.al.lt_of_live hdw) hcomp.res
    generalize hselq : selectNbrs Pmin Pmax dist cfg s q n k 0 = sel at hbest hsellen hselok
    rw [hnlen] at hsellen
    have hperm := PQImpl.drain_perm hmax sel
    have hdlen : (Pmax.drain sel).length = min k s.next := by
      rw [hperm.length_eq]; exact hsellen
    have htake : (Pmax.drain sel).take k = Pmax.drain sel := List.take_of_length_le (by omega)
    have hitem : ∀ it ∈ Pmax.drain sel, s.isDeleted it.vid = false ∧ it.score = dist q (s.vecOf it.vid) := by
      intro it hit
      have := hselok.items it (hperm.mem_iff.mp hit)
      refine ⟨?_, this.1⟩
      rcases this.2.1 with h | h
      · rw [h]; exact hcur
      · exact h
    have hr : r = (Pmax.drain sel).reverse.filterMap fun it =>
        (s.verts it.vid).bind fun x => if x.deleted then none else some (⟨x.id, x.md, it.score⟩ : Hit) := by
      simp only [r, searchCore, hent, hdesc, hnq, hselq, htake]
    have alloc : ∀ v, s.isDeleted v = false → ∃ x, s.verts v = some x ∧ x.deleted = false := by
      intro v hv
      cases hx : s.verts v with
      | none => simp [Index.isDeleted, hx] at hv
      | some x => simp [Index.isDeleted, hx] at hv; exact ⟨x, rfl, hv⟩
    have hmap : ∀ (L : List Item), (∀ it ∈ L, it ∈ Pmax.drain sel) →
        L.filterMap (fun it => (s.verts it.vid).bind fun x => if x.deleted then none else some (⟨x.id, x.md, it.score⟩ : Hit)) =
        L.map (fun it => (⟨s.idOf it.vid, s.mdOf it.vid, it.score⟩ : Hit)) := by
      intro L
      induction L with
      | nil => intro _; rfl
      | cons a t ih =>
        intro hm
        obtain ⟨x, hx, hxd⟩ := alloc a.vid (hitem a (hm a List.mem_cons_self)).1
        have h1 : s.idOf a.vid = x.id := by simp [Index.idOf, hx]
        have h2 : s.mdOf a.vid = x.md := by simp [Index.mdOf, hx]
        simp only [List.filterMap_cons, hx, Option.bind_some, hxd, Bool.false_eq_true, if_false, List.map_cons, h1, h2]
        rw [ih (fun it hit => hm it (List.mem_cons_of_mem _ hit))]
    rw [hmap _ (fun it hit => List.mem_reverse.mp hit)] at hr
    refine ⟨?_, ?_, ?_⟩
    · rw [hr, List.length_map, List.length_reverse]; exact hdlen
    · intro v hv
      obtain ⟨it, hit, hvid⟩ := hallv v hv
      have hsc : it.score = dist q (s.vecOf v) := by rw [← hvid]; exact (hcomp.res.items it hit).1
      obtain ⟨rest, hp, hdom⟩ := hbest
      rcases List.mem_append.mp (hp.mem_iff.mp hit) with hin | hout
      · left
        refine ⟨⟨s.idOf it.vid, s.mdOf it.vid, it.score⟩, ?_, by rw [hvid], hsc⟩
        rw [hr]
        exact List.mem_map.mpr ⟨it, List.mem_reverse.mpr (hperm.mem_iff.mpr hin), rfl⟩
      · right
        intro h hh
        rw [hr] at hh
        obtain ⟨y, hy, rfl⟩ := List.mem_map.mp hh
        have hy' : y ∈ Pmax.toList sel := hperm.mem_iff.mp (List.mem_reverse.mp hy)
        show y.score ≤ dist q (s.vecOf v)
        rw [← hsc]
        exact hdom y hy' it hout
    · obtain ⟨rest, hp, hdom⟩ := hbest
      refine ⟨rest.map (·.score), ?_, ?_⟩
      · -- the distance row is the score list of the beam's items, up to order
        have hvids : ((Pmax.toList n).map (·.vid)).Perm (List.range s.next) := by
          refine (List.perm_ext_iff_of_nodup hcomp.res.nodup List.nodup_range).mpr ?_
          intro a
          constructor
          · intro ha
            obtain ⟨it, hit, rfl⟩ := List.mem_map.mp ha
            exact List.mem_range.mpr (hcomp.res.items it hit).2.2
          · intro ha
            obtain ⟨it, hit, hvid⟩ := hallv a (List.mem_range.mp ha)
            exact List.mem_map.mpr ⟨it, hit, hvid⟩
        have hrow : ((Pmax.toList n).map (·.score)).Perm ((List.range s.next).map (fun v => dist q (s.vecOf v))) := by
          have h1 : (Pmax.toList n).map (·.score) =
              ((Pmax.toList n).map (·.vid)).map (fun v => dist q (s.vecOf v)) := by
            rw [List.map_map]
            apply List.map_congr_left
            intro it hit
            exact (hcomp.res.items it hit).1
          rw [h1]
          exact hvids.map _
        have hrs : (r.map (·.score)).Perm ((Pmax.toList sel).map (·.score)) := by
          rw [hr, List.map_map]
          have : ((fun h : Hit => h.score) ∘ fun it : Item => (⟨s.idOf it.vid, s.mdOf it.vid, it.score⟩ : Hit)) =
              fun it => it.score := rfl
          rw [this]
          exact ((List.reverse_perm _).trans hperm).map _
        refine hrow.symm.trans ?_
        refine (hp.map (·.score)).trans ?_
        rw [List.map_append]
        exact List.Perm.append_right _ hrs.symm
      · intro y hy x hx
        rw [hr, List.map_map] at hy
        obtain ⟨it, hit, rfl⟩ := List.mem_map.mp hy
        obtain ⟨jt, hjt, rfl⟩ := List.mem_map.mp hx
        exact hdom it (hperm.mem_iff.mp (List.mem_reverse.mp hit)) jt hjt

include hmin hmax in
/-- **C07 (exactness).** -/
theorem search_exact (hio : IO cfg s) (k : Nat) (hcover : s.next ≤ max cfg.ef k) :
    let r := search Pmin Pmax dist cfg s q k
    r.length = min k s.next ∧
    (∀ v, v < s.next →
      (∃ h ∈ r, h.id = s.idOf v ∧ h.score = dist q (s.vecOf v)) ∨
      (∀ h ∈ r, h.score ≤ dist q (s.vecOf v))) ∧
    (∃ rest, ((List.range s.next).map (fun v => dist q (s.vecOf v))).Perm (r.map (·.score) ++ rest) ∧
      ∀ y ∈ r.map (·.score), ∀ x ∈ rest, y ≤ x) := by
  intro r
  have hck : clampK s k = if 0 < s.next ∧ s.next < k then s.next else k := by
    unfold clampK; rw [hio.idsLen]
  have hcover' : s.next ≤ max cfg.ef (clampK s k) := by
    rw [hck]; split <;> omega
  obtain ⟨h1, h2, h3⟩ := searchCore_exact (dist := dist) cfg hmin hmax s q hio (clampK s k) hcover'
  refine ⟨?_, h2, h3⟩
  show (searchCore Pmin Pmax dist cfg s q (clampK s k)).length = min k s.next
  rw [h1, hck]
  split <;> omega

include hmin hmax in
/-- **C07 (exactness, against the brute-force ranking).** The score sequence of the answer is
the ascending sort of the distances from the query to all stored items, cut at `k`. -/
theorem search_scores_eq_bruteforce (hio : IO cfg s) (hinv : Inv s) (k : Nat) (hcover : s.next ≤ max cfg.ef k) :
    (search Pmin Pmax dist cfg s q k).map (·.score) =
      Exact.exactTopK k ((List.range s.next).map (fun v => dist q (s.vecOf v))) := by
  obtain ⟨h1, _, rest, hp, hd⟩ := search_exact (dist := dist) cfg hmin hmax s q hio k hcover
  have hsorted := (search_sound (dist := dist) cfg hmin hmax s q hinv k).2.1
  exact Exact.topk_of_best k _ _ rest hsorted hp hd (by simp [h1])

end
end Anndb
