/-!
# Decision model of the RPC handlers (`services/*.go`, `storage/dataset.go`,
`storage/dataset_manager.go`, `storage/partition.go`) with the panicking primitives explicit

A handler is a sequence of guards followed by the primitives it reaches. The primitives that can
take the process down are named (`Prim`): `uuid.Must` on a byte string, `x % n`, `rand.Intn(n)`,
`&v[0]`, a distance between vectors of different lengths, dereferencing the metric, an allocation
sized by a request field, and — inside a raft apply loop — an entry whose processing returns an
error (`log.Fatal`): that one *poisons* the log, because every replica and every replay hits it.
-/
namespace Anndb.Validate

inductive Out where
  | ok | err | panic | poison
deriving DecidableEq, Repr

inductive Prim where
  | uuidMust (len : Nat)            -- uuid.Must(uuid.FromBytes(b)): panics unless len = 16
  | modBy (n : Nat)                 -- UuidMod(id, n): divides by n
  | intn (n : Nat)                  -- rand.Intn(n): panics unless n > 0
  | index0 (len : Nat)              -- &v[0]
  | distance (la lb : Nat)          -- kernel call: reads lb elements of both operands
  | metric (known : Bool)           -- space.Distance on the dataset's space
  | alloc (n limit : Nat)           -- make(..., n) where `limit` is what the collection justifies
  | applyParseId (len : Nat)        -- uuid.FromBytes inside the apply loop: an error is fatal
deriving DecidableEq, Repr

def Prim.outcome : Prim → Out
  | .uuidMust len => if len = 16 then .ok else .panic
  | .modBy n => if n = 0 then .panic else .ok
  | .intn n => if n = 0 then .panic else .ok
  | .index0 len => if len = 0 then .poison else .ok        -- happens in the apply loop (Distance)
  | .distance la lb => if la = lb then .ok else .poison
  | .metric known => if known then .ok else .poison
  | .alloc n limit => if n ≤ limit then .ok else .panic
  | .applyParseId len => if len = 16 then .ok else .poison

/-- run the primitives in order; the first one that is not ok decides -/
def runPrims : List Prim → Out
  | [] => .ok
  | p :: ps => match p.outcome with
    | .ok => runPrims ps
    | o => o

/-! ## datasets -/

structure CreateReq where
  dim : Nat
  parts : Nat
  repl : Nat
  space : Nat          -- enum value; 0,1,2 are known

structure Ds where
  dim : Nat
  parts : Nat
  replicas : Nat       -- nodes per partition = min(repl, members)
  spaceKnown : Bool
  stored : Nat         -- items in the partition being addressed (all of dimension `dim`)
deriving DecidableEq, Repr

/-- `DatasetManager.Create` after the fix: reject what cannot work -/
def createGuard (r : CreateReq) : Bool := r.space < 3 && r.dim != 0 && r.parts != 0 && r.repl != 0

def create (members : Nat) (r : CreateReq) : Out × Option Ds :=
  if createGuard r then (.ok, some ⟨r.dim, r.parts, min r.repl members, true, 0⟩) else (.err, none)

/-- the enum travels as a signed 32-bit integer: the known values are exactly 0, 1, 2 (`pb.Space_name`) -/
def createInt (members : Nat) (dim parts repl : Nat) (space : Int) : Out × Option Ds :=
  if 0 ≤ space then create members ⟨dim, parts, repl, space.toNat⟩ else (.err, none)

/-- the same request without the guard (the code before the fix) -/
def createUnguarded (members : Nat) (r : CreateReq) : Ds :=
  ⟨r.dim, r.parts, min r.repl members, r.space < 3, 0⟩

/-- invariant of every dataset the guarded `create` lets in (with at least one member node) -/
def Ds.Wf (d : Ds) : Prop := 1 ≤ d.dim ∧ 1 ≤ d.parts ∧ 1 ≤ d.replicas ∧ d.spaceKnown = true

/-! ## single writes -/

/-- what the write path reaches once the request is accepted: routing, replica choice, and in the
apply loop the index operation (metric, first element, distances to stored items of dimension dim) -/
def writePrims (d : Ds) (vecLen : Nat) : List Prim :=
  [.modBy d.parts, .intn d.replicas, .metric d.spaceKnown] ++
  (if d.stored = 0 then [] else [.index0 vecLen, .distance vecLen d.dim])

/-- `DataManager.Insert/Update`: id parse (error, not panic), dimension check, then the write path -/
def insert (d : Ds) (idLen vecLen : Nat) : Out :=
  if idLen ≠ 16 then .err else if vecLen ≠ d.dim then .err else runPrims (writePrims d vecLen)

def remove (d : Ds) (idLen : Nat) : Out :=
  if idLen ≠ 16 then .err else runPrims [.modBy d.parts, .intn d.replicas]

/-! ## batches: item = (id length, vector length) -/

abbrev Item := Nat × Nat

def idsOk (items : List Item) : Bool := items.all fun it => it.1 == 16
def dimsOk (d : Ds) (items : List Item) : Bool := items.all fun it => it.2 == d.dim

/-- `Dataset.BatchInsert/BatchUpdate` after the fix: size, ids, then per-item dimension errors; the
valid items are grouped (`uuid.Must` per item) and written -/
def batchWrite (d : Ds) (items : List Item) : Out :=
  if items.length > 100 then .err
  else if !idsOk items then .err
  else
    let valid := items.filter fun it => it.2 == d.dim
    runPrims (valid.map (fun it => Prim.uuidMust it.1) ++ valid.flatMap fun it => writePrims d it.2)

def batchWriteUnguarded (d : Ds) (items : List Item) : Out :=
  if items.length > 100 then .err
  else
    let valid := items.filter fun it => it.2 == d.dim
    runPrims (valid.map (fun it => Prim.uuidMust it.1) ++ valid.flatMap fun it => writePrims d it.2)

/-- `Dataset.PartitionBatchInsert/Update` (node-to-node RPC, reachable by any client) after the fix:
ids and dimensions are checked before the items are proposed; the apply loop then parses the ids
again (an error there is fatal) and inserts -/
def partitionBatchWrite (d : Ds) (items : List Item) : Out :=
  if !idsOk items then .err
  else if !dimsOk d items then .err
  else runPrims (items.map (fun it => Prim.applyParseId it.1) ++ items.flatMap fun it =>
    [Prim.metric d.spaceKnown] ++ (if d.stored = 0 then [] else [.index0 it.2, .distance it.2 d.dim]))

def partitionBatchWriteUnguarded (d : Ds) (items : List Item) : Out :=
  runPrims (items.map (fun it => Prim.applyParseId it.1) ++ items.flatMap fun it =>
    [Prim.metric d.spaceKnown] ++ (if d.stored = 0 then [] else [.index0 it.2, .distance it.2 d.dim]))

def partitionBatchRemove (d : Ds) (items : List Item) : Out :=
  if !idsOk items then .err else runPrims (items.map fun it => Prim.applyParseId it.1)

/-! ## search -/

/-- `Search` after the fix: dimension check; result buffers grow on demand; the index clamps `k`
to the number of stored items before sizing its beam (`ef·Mmax0` slots for the visited set) -/
def search (d : Ds) (qLen k ef mMax0 : Nat) : Out :=
  if qLen ≠ d.dim then .err
  else if d.stored = 0 then .ok
  else
    let k' := if k > d.stored then d.stored else k
    runPrims [.metric d.spaceKnown, .index0 qLen, .distance qLen d.dim,
              .alloc ((max ef k') * mMax0) ((max ef d.stored) * mMax0)]

def searchUnguarded (d : Ds) (qLen k ef mMax0 : Nat) : Out :=
  if qLen ≠ d.dim then .err
  else runPrims [.alloc k d.stored, .alloc ((max ef k) * mMax0) ((max ef d.stored) * mMax0)]

/-! ## levels

`BatchItem.level` and `PartitionChange.level` are wire fields: a client can put any 32-bit integer
there. The apply loop hands the entry's level to `Hnsw.Insert`, whose `setLevel` runs
`make([]hnswEdgeSet, level+1)`: a negative level panics there (or at the first `edges[0]`), a huge one
allocates without bound — inside the raft apply loop, on every replica and on every replay. The
handlers therefore draw the level themselves (`RandomLevel() ≥ 0`, small) for every item they
propose, whatever the request carried. -/

/-- levels `setLevel` can take -/
def levelOk (lvl : Int) : Bool := 0 ≤ lvl && lvl ≤ 1024

/-- the apply loop's `setLevel` on the entry's level -/
def setLevelOutcome (lvl : Int) : Out := if levelOk lvl then .ok else .poison

/-- the level an item is proposed with: the handler's own draw when it overwrites the field for
every item (`draws = true`), otherwise the client's value unless that is 0 -/
def proposedLevel (draws : Bool) (client drawn : Int) : Int :=
  if draws then drawn else if client = 0 then drawn else client

/-! ## item-level failures inside the apply loop -/

/-- a well-formed single write whose index operation fails at item level (update / remove of an
absent id, insert of a present id): the error belongs in the commit notification. Handing it to
the raft apply loop (`returnsItemError`) is fatal on every replica and every replay. -/
def applyItem (returnsItemError itemFails : Bool) : Out :=
  if itemFails then (if returnsItemError then .poison else .err) else .ok

end Anndb.Validate
