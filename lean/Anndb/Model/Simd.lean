/-!
# Lane-faithful model of the distance kernels (`simd/cpp/avx.cpp`, `simd/cpp/sse.cpp`,
`index/space/native_impl.go`, and the Go wrappers)

One definition per kernel, polymorphic in the scalar type through `Ops`: run at `Float32` by the
model driver (bit-for-bit against the real kernels) and reasoned about in exact arithmetic by
`Proofs/SimdExact.lean`.

Vector part: `w` lanes (8 for AVX, 4 for SSE), a single accumulator register, blocks of `w`
consecutive elements over the first `(n / w) * w` elements; then the horizontal sum (`hsum8`: two
`vhaddps` + high/low add; `hsum4`: left-to-right); then the scalar tail over the remaining elements.
-/
namespace Anndb.Simd

structure Ops (α : Type) where
  zero : α
  one : α
  add : α → α → α
  sub : α → α → α
  mul : α → α → α
  div : α → α → α
  sqrt : α → α
  abs : α → α

variable {α : Type} (o : Ops α)

def chunks (w : Nat) : Nat → List α → List (List α)
  | 0, _ => []
  | k+1, l => l.take w :: chunks w k (l.drop w)

def addLanes (acc blk : List α) : List α := List.zipWith o.add acc blk

/-- the accumulator register after all full blocks -/
def lanes (w : Nat) (terms : List α) : List α :=
  (chunks w (terms.length / w) terms).foldl (addLanes o) (List.replicate w o.zero)

def hsum8 (v : List α) : α :=
  let g := fun i => v.getD i o.zero
  o.add (o.add (o.add (g 0) (g 1)) (o.add (g 2) (g 3))) (o.add (o.add (g 4) (g 5)) (o.add (g 6) (g 7)))

def hsum4 (v : List α) : α :=
  let g := fun i => v.getD i o.zero
  o.add (o.add (o.add (g 0) (g 1)) (g 2)) (g 3)

def hsum (w : Nat) (v : List α) : α := if w == 8 then hsum8 o v else hsum4 o v

/-- blocked reduction: vector part with per-element function `fv`, scalar tail with `ft` -/
def blocked (w : Nat) (fv ft : α → α → α) (a b : List α) : α :=
  let m := (a.length / w) * w
  let vecTerms := List.zipWith fv (a.take m) (b.take m)
  let tailTerms := List.zipWith ft (a.drop m) (b.drop m)
  tailTerms.foldl o.add (hsum o w (lanes o w vecTerms))

def sqDiff (x y : α) : α := let d := o.sub x y; o.mul d d

/-- `euclidean_distance_squared` (the wrapper takes the square root) -/
def euclidSq (w : Nat) (a b : List α) : α := blocked o w (sqDiff o) (sqDiff o) a b
def euclid (w : Nat) (a b : List α) : α := o.sqrt (euclidSq o w a b)

/-- `manhattan_distance`: the vector part computes `sqrt(d*d)`, the tail `abs(d)` -/
def manhattan (w : Nat) (a b : List α) : α :=
  blocked o w (fun x y => o.sqrt (sqDiff o x y)) (fun x y => o.abs (o.sub x y)) a b

/-- `cosine_similarity_dot_norm` + the wrapper: `1 - dot / sqrt(normA * normB)` -/
def cosine (w : Nat) (a b : List α) : α :=
  let dot := blocked o w o.mul o.mul a b
  let na := blocked o w (fun x _ => o.mul x x) (fun x _ => o.mul x x) a b
  let nb := blocked o w (fun _ y => o.mul y y) (fun _ y => o.mul y y) a b
  o.sub o.one (o.div dot (o.sqrt (o.mul na nb)))

/-! ### the portable kernels (`nativeSpaceImpl`): one sequential accumulator -/

def seqSum (f : α → α → α) (a b : List α) : α := (List.zipWith f a b).foldl o.add o.zero

def nativeEuclid (a b : List α) : α := o.sqrt (seqSum o (sqDiff o) a b)
def nativeManhattan (a b : List α) : α := seqSum o (fun x y => o.abs (o.sub x y)) a b
def nativeCosine (a b : List α) : α :=
  let dot := seqSum o o.mul a b
  let na := seqSum o (fun x _ => o.mul x x) a b
  let nb := seqSum o (fun _ y => o.mul y y) a b
  o.sub o.one (o.div dot (o.mul (o.sqrt na) (o.sqrt nb)))

/-! ### which elements are read -/

/-- indices loaded by the vector loop (`i = 0, w, 2w, … < (n/w)*w`, lanes `i … i+w-1`) -/
def vecLoads (w n : Nat) : List Nat :=
  (List.range (n / w)).flatMap fun blk => (List.range w).map fun l => blk * w + l

/-- indices loaded by the scalar tail (`i = (n/w)*w … n-1`) -/
def tailLoads (w n : Nat) : List Nat := (List.range (n - (n / w) * w)).map fun i => (n / w) * w + i

end Anndb.Simd
