import Anndb.Model.PQ
/-!
# `container/heap` verbatim, over the repo's `Less/Swap/Push/Pop` (C19)

`lt a b` is `Less` on the two items (`a.score < b.score` for the min queue,
`a.score > b.score` for the max queue). `up`, `down`, `init`, `push`, `pop` follow
`container/heap` statement by statement; bounds are carried as proofs so that every
array access is in range by construction.
-/
namespace Anndb
namespace Heap

variable (lt : Item → Item → Bool)

def parent (k : Nat) : Nat := (k - 1) / 2

theorem parent_lt {j n : Nat} (h : j < n) : parent j < n := by unfold parent; omega

/-- `heap.up` -/
def up (a : Array Item) (j : Nat) (hj : j < a.size) : Array Item :=
  if h0 : j = 0 then a
  else if lt a[j] (a[parent j]'(parent_lt hj)) then
    up (a.swap (parent j) j (parent_lt hj) hj) (parent j) (by rw [Array.size_swap]; exact parent_lt hj)
  else a
termination_by j
decreasing_by unfold parent; omega

/-- the child `heap.down` compares with its parent: the smaller of the two children -/
def pickChild (a : Array Item) (i n : Nat) (hn : n ≤ a.size) (h1 : 2 * i + 1 < n) : Nat :=
  if h2 : 2 * i + 2 < n then
    if lt (a[2 * i + 2]'(by omega)) (a[2 * i + 1]'(by omega)) then 2 * i + 2 else 2 * i + 1
  else 2 * i + 1

theorem pickChild_spec (a : Array Item) (i n : Nat) (hn : n ≤ a.size) (h1 : 2 * i + 1 < n) :
    pickChild lt a i n hn h1 < n ∧ (pickChild lt a i n hn h1 = 2 * i + 1 ∨ pickChild lt a i n hn h1 = 2 * i + 2) := by
  unfold pickChild
  split
  · split
    · exact ⟨by omega, Or.inr rfl⟩
    · exact ⟨by omega, Or.inl rfl⟩
  · exact ⟨by omega, Or.inl rfl⟩

theorem pickChild_lt (a : Array Item) (i n : Nat) (hn : n ≤ a.size) (h1 : 2 * i + 1 < n) :
    pickChild lt a i n hn h1 < a.size := Nat.lt_of_lt_of_le (pickChild_spec lt a i n hn h1).1 hn

/-- `heap.down` -/
def down (a : Array Item) (i n : Nat) (hn : n ≤ a.size) : Array Item :=
  if h1 : 2 * i + 1 < n then
    if lt (a[pickChild lt a i n hn h1]'(pickChild_lt lt a i n hn h1)) (a[i]'(by omega)) then
      down (a.swap i (pickChild lt a i n hn h1) (by omega) (pickChild_lt lt a i n hn h1))
        (pickChild lt a i n hn h1) n (by rw [Array.size_swap]; exact hn)
    else a
  else a
termination_by n - i
decreasing_by
  have := (pickChild_spec lt a i n hn h1).2
  have := (pickChild_spec lt a i n hn h1).1
  omega

theorem size_up (a : Array Item) (j : Nat) (hj : j < a.size) : (up lt a j hj).size = a.size := by
  induction j using Nat.strongRecOn generalizing a with
  | _ j ih =>
    unfold up
    split
    · rfl
    · split
      · rw [ih (parent j) (by unfold parent; omega)]; simp
      · rfl

theorem size_down (a : Array Item) (i n : Nat) (hn : n ≤ a.size) : (down lt a i n hn).size = a.size := by
  generalize hm : n - i = m
  induction m using Nat.strongRecOn generalizing a i with
  | _ m ih =>
    unfold down
    split
    · rename_i h1
      split
      · have h2 := (pickChild_spec lt a i n hn h1).2
        have h3 := (pickChild_spec lt a i n hn h1).1
        rw [ih (n - pickChild lt a i n hn h1) (by omega) _ _ _ rfl]; simp
      · rfl
    · rfl

/-- `heap.Init`: `for i := n/2 - 1; i >= 0; i-- { down(h, i, n) }` -/
def initLoop (a : Array Item) : Nat → Array Item
  | 0 => a
  | k+1 =>
    -- processes index k (called with k+1 = n/2 … 1)
    initLoop (down lt a k a.size (Nat.le_refl _)) k

def init (a : Array Item) : Array Item := initLoop lt a (a.size / 2)

/-- `heap.Push` -/
def push (a : Array Item) (x : Item) : Array Item :=
  up lt (a.push x) a.size (by simp)

/-- `heap.Pop` -/
def pop (a : Array Item) : Option (Item × Array Item) :=
  if h : 0 < a.size then
    some ((down lt (a.swap 0 (a.size - 1) (by omega) (by omega)) 0 (a.size - 1) (by simp))[a.size - 1]'(by
            rw [size_down, Array.size_swap]; omega),
          (down lt (a.swap 0 (a.size - 1) (by omega) (by omega)) 0 (a.size - 1) (by simp)).pop)
  else none

end Heap

def ltMin (a b : Item) : Bool := a.score < b.score
def ltMax (a b : Item) : Bool := b.score < a.score

end Anndb
