/-!
# The address book (`cluster/conn.go`) as a function of the zero group's log

The book of a member is not state of its own: it is rebuilt from the addresses carried by the
membership entries of the zero raft group (`RaftGroup.processConfChange`), from the node list the
join handshake streams back, and — since the log is compacted — from the copy of the book that
travels with the zero group's snapshot (`NodesManager.snapshot / processSnapshot`).

`Rules` holds the three decisions the code makes (regenerated facts select `Rules.code`):
* `update`     – `Conn.AddNode` on a known node replaces a different, non-empty address;
* `skipEmpty`  – a membership entry without an address is not recorded;
* `snapBook`   – the snapshot carries the book.
The bootstrap entry of the first node carries its address iff `bootAddr`.
-/
namespace Anndb.Members

abbrev Addr := String
abbrev Book := Nat → Option Addr

inductive ZEntry where
  | add (id : Nat) (addr : Addr)
  | remove (id : Nat)
  | other
deriving DecidableEq, Repr

structure Rules where
  update : Bool
  skipEmpty : Bool
  snapBook : Bool
  bootAddr : Bool
deriving DecidableEq, Repr

def Rules.code : Rules := ⟨true, true, true, true⟩
/-- the code before the repairs -/
def Rules.old : Rules := ⟨false, false, false, false⟩

def Book.empty : Book := fun _ => none
def Book.single (id : Nat) (a : Addr) : Book := fun i => if i = id then some a else none
def Book.set (b : Book) (id : Nat) (a : Addr) : Book := fun i => if i = id then some a else b i
def Book.erase (b : Book) (id : Nat) : Book := fun i => if i = id then none else b i

/-- `Conn.AddNode` -/
def connAdd (r : Rules) (b : Book) (id : Nat) (a : Addr) : Book :=
  match b id with
  | none => b.set id a
  | some old => if r.update && old != a && a != "" then b.set id a else b

/-- `processConfChange` of the zero group -/
def applyEntry (r : Rules) (b : Book) : ZEntry → Book
  | .add id a => if r.skipEmpty && a == "" then b else connAdd r b id a
  | .remove id => b.erase id
  | .other => b

def replay (r : Rules) (b : Book) (log : List ZEntry) : Book := log.foldl (applyEntry r) b

/-- `NodesManager.processSnapshot`, first loop: nodes the snapshot does not list are dropped,
except the node itself — provided the snapshot lists this node. A snapshot that does not was cut
before this node joined: what the node learnt from the join handshake is newer, and nothing is
dropped (`knowsMe = false` is the code before that repair: it dropped in both cases). -/
def keptBookIf (knowsMe : Bool) (self : Nat) (b s : Book) : Book :=
  if knowsMe && (s self).isNone then b
  else fun i => if i = self then b i else match s i with | some _ => b i | none => none

def keptBook (self : Nat) (b s : Book) : Book := keptBookIf true self b s

/-- second loop: `AddNode` for every node of the snapshot -/
def installStep (r : Rules) (s : Book) (acc : Book) (i : Nat) : Book :=
  match s i with
  | some a => connAdd r acc i a
  | none => acc

def installFold (r : Rules) (s : Book) (acc : Book) (ids : List Nat) : Book :=
  ids.foldl (installStep r s) acc

def restoreBook (r : Rules) (self : Nat) (b s : Book) (ids : List Nat) : Book :=
  installFold r s (keptBook self b s) ids

/-- the book of a running member that has applied `log` -/
def running (r : Rules) (self : Nat) (selfAddr : Addr) (log : List ZEntry) : Book :=
  replay r (Book.single self selfAddr) log

/-- the ids a log mentions (the domain the snapshot's book can have) -/
def idsOf : List ZEntry → List Nat
  | [] => []
  | .add id _ :: t => id :: idsOf t
  | .remove id :: t => id :: idsOf t
  | .other :: t => idsOf t

/-- the book of a member that restarts from a snapshot taken (by anyone who had applied the log
up to there) after `cut` entries, and replays the rest -/
def restarted (r : Rules) (self : Nat) (selfAddr : Addr) (snapper : Nat) (snapperAddr : Addr)
    (log : List ZEntry) (cut : Nat) : Book :=
  let fresh := Book.single self selfAddr
  let afterSnap :=
    if cut = 0 then fresh
    else if r.snapBook then
      restoreBook r self fresh (running r snapper snapperAddr (log.take cut)) (snapper :: idsOf (log.take cut))
    else fresh
  replay r afterSnap (log.drop cut)

/-- `NodesManager.Join`: the addresses are tried in order, the first success ends the loop, an
error is returned only when the last address fails too. `fails i` = the handshake with the i-th
address fails. -/
def joinSucceeds : List Bool → Bool
  | [] => true                     -- no address given: nothing to do, no error
  | [f] => !f
  | f :: rest => if f then joinSucceeds rest else true

/-- the bootstrap entry of node `id` -/
def bootEntry (r : Rules) (id : Nat) (a : Addr) : ZEntry := .add id (if r.bootAddr then a else "")

end Anndb.Members
