/-!
# The host loop around etcd/raft (`storage/raft/group.go`): what leaves a replica, and when

Consensus is delegated to etcd/raft. Its safety is conditional on the host: a vote or an append
acknowledgement must not leave a replica before the term, vote and entries it attests are in the
log store; the committed entries are applied in order; a restarted replica resumes from the log
store. This file models exactly that: the *attestation rule* of a message against the durable
state, one iteration of the ready loop as a list of statements executed in order (the order is
regenerated from the source), the decision between bootstrap and restart, and the apply cursor.

The library's side of the contract is the hypothesis `ReadyOK` (see `Props/C05.lean`).
-/
namespace Anndb.RaftLoop

inductive MsgType where
  | vote | voteResp | app | appResp | heartbeat | heartbeatResp | snap | prop | other
deriving DecidableEq, Repr

structure Msg where
  typ : MsgType
  term : Nat
  index : Nat
  reject : Bool
  to : Nat
deriving DecidableEq, Repr

/-- what the log store holds: hard state term and vote, last log index -/
structure Dur where
  term : Nat
  vote : Nat
  last : Nat
deriving DecidableEq, Repr

/-- may `m` leave replica `self` whose log store holds `d`? A message reveals its term; a vote
request reveals the candidate's own vote; a granted vote reveals the vote; an accepted append
reveals that the log holds the index. -/
def attested (self : Nat) (m : Msg) (d : Dur) : Bool :=
  if m.term ≠ 0 ∧ d.term < m.term then false
  else match m.typ with
    | .vote => decide (m.term < d.term) || d.vote == self
    | .voteResp => m.reject || decide (m.term < d.term) || d.vote == m.to
    | .appResp => m.reject || decide (m.index ≤ d.last)
    | _ => true

/-- one `Ready` of etcd/raft, reduced to what the loop does with it -/
structure Ready where
  lead : Option Nat          -- `rd.SoftState.Lead` when the soft state changed
  hs : Option (Nat × Nat)    -- new hard state (term, vote) when it changed
  newLast : Option Nat       -- last index after `rd.Entries` / `rd.Snapshot` are written
  msgs : List Msg
  committed : List Nat       -- indices of `rd.CommittedEntries`
deriving Repr

structure Host where
  dur : Dur
  leader : Nat               -- `raftLeaderId`
  applied : List Nat         -- indices handed to `processFn`, in order
deriving Repr

inductive Stmt where
  | softState | sendIfLeader | save | installSnapshot | apply | sendIfNotLeader | advance | sendAlways | other
deriving DecidableEq, Repr

def parseStmt : String → Stmt
  | "softstate" => .softState
  | "send-if-leader" => .sendIfLeader
  | "save" => .save
  | "install-snapshot" => .installSnapshot
  | "apply" => .apply
  | "send-if-not-leader" => .sendIfNotLeader
  | "advance" => .advance
  | "send-always" => .sendAlways
  | _ => .other

/-- the order the code has -/
def canonical : List Stmt :=
  [.softState, .sendIfLeader, .save, .installSnapshot, .apply, .sendIfNotLeader, .advance]

def saveDur (d : Dur) (rd : Ready) : Dur :=
  { term := (rd.hs.map (·.1)).getD d.term,
    vote := (rd.hs.map (·.2)).getD d.vote,
    last := rd.newLast.getD d.last }

/-- emitted messages are paired with the durable state at the instant they leave -/
abbrev Emitted := List (Msg × Dur)

def execStmt (self : Nat) (rd : Ready) (st : Host × Emitted) : Stmt → Host × Emitted
  | .softState => ({ st.1 with leader := rd.lead.getD st.1.leader }, st.2)
  | .sendIfLeader => if st.1.leader = self then (st.1, st.2 ++ rd.msgs.map (·, st.1.dur)) else st
  | .sendIfNotLeader => if st.1.leader ≠ self then (st.1, st.2 ++ rd.msgs.map (·, st.1.dur)) else st
  | .sendAlways => (st.1, st.2 ++ rd.msgs.map (·, st.1.dur))
  | .save => ({ st.1 with dur := saveDur st.1.dur rd }, st.2)
  | .apply => ({ st.1 with applied := st.1.applied ++ rd.committed }, st.2)
  | .installSnapshot | .advance | .other => st

def iteration (order : List Stmt) (self : Nat) (h : Host) (rd : Ready) : Host × Emitted :=
  order.foldl (execStmt self rd) (h, [])

/-- a run: the emitted messages of all iterations -/
def run (order : List Stmt) (self : Nat) : Host → List Ready → Host × Emitted
  | h, [] => (h, [])
  | h, rd :: rest =>
    let (h1, e1) := iteration order self h rd
    let (h2, e2) := run order self h1 rest
    (h2, e1 ++ e2)

/-! ## start or restart -/

inductive Mode where
  | bootstrap | restart
deriving DecidableEq, Repr

/-- `startRaftNode`: bootstrap only with peers and an empty log store -/
def startMode (bootstrapOnlyOnEmpty : Bool) (peers : List Nat) (storeEmpty : Bool) : Mode :=
  if bootstrapOnlyOnEmpty then (if peers ≠ [] ∧ storeEmpty then .bootstrap else .restart)
  else (if peers ≠ [] then .bootstrap else .restart)

structure Resume where
  term : Nat
  vote : Nat
  firstNewIndex : Nat     -- where the replica appends next
deriving DecidableEq, Repr

/-- what the raft node starts from: the log store (restart), or term 0 and index 1 (bootstrap:
the membership entries are appended at index 1.. whatever the store holds) -/
def resume (m : Mode) (d : Dur) : Resume :=
  match m with
  | .restart => ⟨d.term, d.vote, d.last + 1⟩
  | .bootstrap => ⟨0, 0, 1⟩

end Anndb.RaftLoop
