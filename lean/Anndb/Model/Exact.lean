/-!
# Specification of an exact search: the brute-force ranking

`row` is the list of distances from the query to every stored item (any order). The exact answer
to a k-nearest query is the ascending sort of the row, cut at k. -/
namespace Anndb.Exact

def exactTopK (k : Nat) (row : List Nat) : List Nat :=
  (row.mergeSort (fun a b => decide (a ≤ b))).take k

end Anndb.Exact
