/-!
# Concurrent use of the index: micro-step model of membership, tombstones, the entry point and
one search (`index/hnsw.go`: `storeVertex`, `removeVertex`, `Remove`'s hand-over, `Search`)

* `storeVertex` / `removeVertex` are single critical sections on the id's shard: one atomic step
  each. `removeVertex` erases the id and sets the tombstone in that same step.
* `Remove` continues, outside any lock: choose a live linked neighbour (`remChoose`: observed not
  tombstoned *at that instant*), then CAS the entry point (`remHandover`).
* `Insert` of a vertex above the entry point's level stores the new entry point (`insPromote`).
* A search reads the entry point once (`searchStart`), then visits linked vertices one by one,
  testing the tombstone at each visit (`searchVisit`). Its result is assembled from the start
  vertex and the vertices it found not tombstoned, testing the tombstone once more (`searchReturn`:
  `Search` skips a vertex that `isDeleted()` when it builds the result — the start vertex is the one
  vertex whose tombstone was not tested on the way).

Writers: each writer `i` has a program counter `wpc i`; with a single writer the steps of one
`Remove` are consecutive *writer* steps (searches may still interleave anywhere).
-/
namespace Anndb.ConcIndex

inductive WPc where
  | idle
  | removing (v : Nat)                 -- tombstoned v, hand-over not yet decided
  | chosen (v : Nat) (w : Option Nat)  -- decided to hand the entry point over to w
deriving DecidableEq, Repr

structure Cfg where
  stored : Nat → Bool        -- the id's current incarnation is in its shard map
  ever : Nat → Bool          -- was stored at some time (only such vertices can be linked / visited)
  tomb : Nat → Bool
  entry : Option Nat
  wpc : Nat → WPc            -- one program counter per writer
  -- the one search we follow
  started : Bool
  start : Option Nat         -- the entry point it read
  okVisited : List Nat       -- vertices it found not tombstoned
  liveDuring : Nat → Bool    -- stored at some instant since the search started
  returned : List Nat        -- what the search hands back

def init : Cfg :=
  ⟨fun _ => false, fun _ => false, fun _ => false, none, fun _ => .idle, false, none, [], fun _ => false, []⟩

def setF {β : Type} (f : Nat → β) (k : Nat) (x : β) : Nat → β := fun j => if j = k then x else f j

/-- `nw` = number of writer goroutines (1 = the server's apply loop; more = the benchmark) -/
inductive Step (nw : Nat) : Cfg → Cfg → Prop where
  /-- `storeVertex` of a fresh vertex by writer `i` (who is between operations) -/
  | store (c : Cfg) (i v : Nat) : i < nw → c.wpc i = .idle → c.ever v = false →
      Step nw c { c with stored := setF c.stored v true, ever := setF c.ever v true,
                         liveDuring := setF c.liveDuring v true,
                         entry := if c.entry = none then some v else c.entry }
  /-- a stored vertex of higher level becomes the entry point -/
  | insPromote (c : Cfg) (i v : Nat) : i < nw → c.wpc i = .idle → c.stored v = true →
      Step nw c { c with entry := some v }
  /-- `removeVertex`: erase + tombstone, one critical section -/
  | remTomb (c : Cfg) (i v : Nat) : i < nw → c.wpc i = .idle → c.stored v = true →
      Step nw c { c with stored := setF c.stored v false, tomb := setF c.tomb v true,
                         wpc := setF c.wpc i (.removing v) }
  /-- hand-over decision: a vertex found stored and not tombstoned at this instant, or none if
  nothing is stored -/
  | remChoose (c : Cfg) (i v : Nat) (w : Option Nat) : i < nw → c.wpc i = .removing v →
      (∀ x, w = some x → c.stored x = true) → (w = none → ∀ x, c.stored x = false) →
      Step nw c { c with wpc := setF c.wpc i (.chosen v w) }
  /-- the CAS: only if `v` is still the entry point -/
  | remHandover (c : Cfg) (i v : Nat) (w : Option Nat) : i < nw → c.wpc i = .chosen v w →
      Step nw c { c with entry := if c.entry = some v then w else c.entry, wpc := setF c.wpc i .idle }
  | searchStart (c : Cfg) : c.started = false →
      Step nw c { c with started := true, start := c.entry, liveDuring := c.stored }
  | searchVisit (c : Cfg) (v : Nat) : c.started = true → c.ever v = true → c.tomb v = false →
      Step nw c { c with okVisited := v :: c.okVisited }
  /-- result assembly: a collected vertex (the start vertex or a visited one) that is not
  tombstoned at this instant -/
  | searchReturn (c : Cfg) (v : Nat) : c.started = true → (c.start = some v ∨ v ∈ c.okVisited) →
      c.tomb v = false → Step nw c { c with returned := v :: c.returned }

inductive Reach (nw : Nat) (c0 : Cfg) : Cfg → Prop where
  | refl : Reach nw c0 c0
  | step {c c'} : Reach nw c0 c → Step nw c c' → Reach nw c0 c'

end Anndb.ConcIndex
