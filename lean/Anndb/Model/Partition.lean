import Anndb.Model.Hnsw
/-!
# Executable model of `storage/partition.go`'s state machine, and its specification

`process` applies one replicated-log entry (one of the six `PartitionChange` kinds) to the
index model plus the two counters `len` and `bytesSize` (in `UInt64`, with the subtraction
written as the code writes it: `x + ^(y-1)`), and produces the outcome that is notified to
the proposer. `Spec` is the tiny specification: a finite map id ↦ (vector, metadata, level).
-/
namespace Anndb

/-- `Metadata.bytesSize`: key and value bytes -/
def mdBytes (m : Meta) : Nat := (m.map fun kv => kv.1.utf8ByteSize + kv.2.utf8ByteSize).sum

/-- `hnswVertex.bytesSize`: 16 id bytes + 4 bytes per component + metadata bytes -/
def vertexBytes (dim : Nat) (m : Meta) : Nat := 16 + 4 * dim + mdBytes m

/-- `updateValue`'s merge: the request's keys win, the old item's other keys are kept -/
def mergeMd (new old : Meta) : Meta :=
  new ++ old.filter fun kv => !(new.any fun nk => nk.1 == kv.1)

inductive Outcome where
  | ok | exists | notFound | mdTooLarge
deriving DecidableEq, Repr

structure BatchItem where
  id : ItemId
  vec : VecRef
  md : Meta
  level : Nat

inductive Change where
  | insert (id : ItemId) (vec : VecRef) (md : Meta) (level : Nat)
  | update (id : ItemId) (vec : VecRef) (md : Meta)
  | delete (id : ItemId)
  | batchInsert (items : List BatchItem)
  | batchUpdate (items : List BatchItem)
  | batchDelete (items : List BatchItem)

/-- what the proposer is notified of: one outcome, or (batches) the error map id ↦ error with
later errors overwriting earlier ones; ids that succeeded are absent -/
inductive Result where
  | single (o : Outcome)
  | batch (errs : List (ItemId × Outcome))
deriving DecidableEq, Repr

/-- Go map assignment `errors[id] = err` on an association list -/
def setErr (errs : List (ItemId × Outcome)) (id : ItemId) (o : Outcome) : List (ItemId × Outcome) :=
  (id, o) :: errs.filter (·.1 ≠ id)

/-! ## the implementation model: index + counters -/

structure PState where
  idx : Index
  len : UInt64
  bytes : UInt64

def PState.empty : PState := ⟨Index.empty, 0, 0⟩

section
variable (Pmin Pmax : PQImpl) (dist : VecRef → VecRef → Score) (cfg : Cfg) (dim : Nat)
variable (pick : List ItemId → Option ItemId)

/-- `Hnsw.Insert` (metadata validated first) with `storeVertex`'s counter updates -/
def pInsert (p : PState) (id : ItemId) (vec : VecRef) (md : Meta) (level : Nat) : PState × Outcome :=
  if mdFits md = false then (p, .mdTooLarge) else
  match insert Pmin Pmax dist cfg p.idx id vec md level with
  | .ok s' => (⟨s', p.len + 1, p.bytes + (vertexBytes dim md).toUInt64⟩, .ok)
  | .error _ => (p, .exists)

/-- `Hnsw.Remove` with `removeVertex`'s counter updates (`len + ^0`, `bytes + ^(vb - 1)`) -/
def pRemove (p : PState) (id : ItemId) : PState × Outcome :=
  match p.idx.live id with
  | none => (p, .notFound)
  | some v =>
    match remove Pmin Pmax dist cfg p.idx id pick with
    | .ok s' =>
      (⟨s', p.len + ~~~(0 : UInt64), p.bytes + ~~~((vertexBytes dim (p.idx.mdOf v)).toUInt64 - 1)⟩, .ok)
    | .error _ => (p, .notFound)

/-- `updateValue`: look up, merge metadata and validate it, remove, re-insert at the old level -/
def pUpdate (p : PState) (id : ItemId) (vec : VecRef) (md : Meta) : PState × Outcome :=
  match p.idx.live id with
  | none => (p, .notFound)
  | some v =>
    let oldMd := p.idx.mdOf v
    let oldLevel := p.idx.levelOf v
    if mdFits (mergeMd md oldMd) = false then (p, .mdTooLarge) else
    match pRemove Pmin Pmax dist cfg dim pick p id with
    | (p1, .ok) => pInsert Pmin Pmax dist cfg dim p1 id vec (mergeMd md oldMd) oldLevel
    | (p1, o) => (p1, o)

def batchFold (f : PState → BatchItem → PState × Outcome) (p : PState) (items : List BatchItem) :
    PState × List (ItemId × Outcome) :=
  items.foldl (fun (acc : PState × List (ItemId × Outcome)) it =>
    match f acc.1 it with
    | (p', .ok) => (p', acc.2)
    | (p', o) => (p', setErr acc.2 it.id o)) (p, [])

def process (p : PState) : Change → PState × Result
  | .insert id vec md level => let r := pInsert Pmin Pmax dist cfg dim p id vec md level; (r.1, .single r.2)
  | .update id vec md => let r := pUpdate Pmin Pmax dist cfg dim pick p id vec md; (r.1, .single r.2)
  | .delete id => let r := pRemove Pmin Pmax dist cfg dim pick p id; (r.1, .single r.2)
  | .batchInsert items =>
    let r := batchFold (fun q it => pInsert Pmin Pmax dist cfg dim q it.id it.vec it.md it.level) p items
    (r.1, .batch r.2)
  | .batchUpdate items =>
    let r := batchFold (fun q it => pUpdate Pmin Pmax dist cfg dim pick q it.id it.vec it.md) p items
    (r.1, .batch r.2)
  | .batchDelete items =>
    let r := batchFold (fun q it => pRemove Pmin Pmax dist cfg dim pick q it.id) p items
    (r.1, .batch r.2)

end

/-! ## the specification: a finite map -/

structure SItem where
  vec : VecRef
  md : Meta
  level : Nat
deriving DecidableEq, Repr

structure Spec where
  get : ItemId → Option SItem
  ids : List ItemId

def Spec.empty : Spec := ⟨fun _ => none, []⟩

namespace Spec

/-- add an absent id -/
def set (s : Spec) (id : ItemId) (it : SItem) : Spec :=
  ⟨fun i => if i = id then some it else s.get i, id :: s.ids⟩

def erase (s : Spec) (id : ItemId) : Spec :=
  ⟨fun i => if i = id then none else s.get i, s.ids.filter (· ≠ id)⟩

/-- the very first item of an empty index is stored at level 0 whatever level was drawn -/
def insert (s : Spec) (id : ItemId) (vec : VecRef) (md : Meta) (level : Nat) : Spec × Outcome :=
  if mdFits md = false then (s, .mdTooLarge) else
  match s.get id with
  | some _ => (s, .exists)
  | none => (s.set id ⟨vec, md, if s.ids.isEmpty then 0 else level⟩, .ok)

def delete (s : Spec) (id : ItemId) : Spec × Outcome :=
  match s.get id with
  | none => (s, .notFound)
  | some _ => (s.erase id, .ok)

def update (s : Spec) (id : ItemId) (vec : VecRef) (md : Meta) : Spec × Outcome :=
  match s.get id with
  | none => (s, .notFound)
  | some old =>
    if mdFits (mergeMd md old.md) = false then (s, .mdTooLarge)
    else (s.erase id).insert id vec (mergeMd md old.md) old.level

def batchFold (f : Spec → BatchItem → Spec × Outcome) (s : Spec) (items : List BatchItem) :
    Spec × List (ItemId × Outcome) :=
  items.foldl (fun (acc : Spec × List (ItemId × Outcome)) it =>
    match f acc.1 it with
    | (s', .ok) => (s', acc.2)
    | (s', o) => (s', setErr acc.2 it.id o)) (s, [])

def step (s : Spec) : Change → Spec × Result
  | .insert id vec md level => let r := s.insert id vec md level; (r.1, .single r.2)
  | .update id vec md => let r := s.update id vec md; (r.1, .single r.2)
  | .delete id => let r := s.delete id; (r.1, .single r.2)
  | .batchInsert items => let r := batchFold (fun q it => q.insert it.id it.vec it.md it.level) s items; (r.1, .batch r.2)
  | .batchUpdate items => let r := batchFold (fun q it => q.update it.id it.vec it.md) s items; (r.1, .batch r.2)
  | .batchDelete items => let r := batchFold (fun q it => q.delete it.id) s items; (r.1, .batch r.2)

/-- item count of the specification -/
def len (s : Spec) : Nat := s.ids.length

/-- data bytes of the specification: Σ over stored items of (16 + 4·dim + metadata bytes) -/
def dataBytes (dim : Nat) (s : Spec) : Nat :=
  (s.ids.map fun i => match s.get i with
    | some it => vertexBytes dim it.md
    | none => 0).sum

end Spec

end Anndb
