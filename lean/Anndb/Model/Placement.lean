/-!
# Model of `Allocator.getPartitionsNodeIds` (storage/allocator.go)

For each partition the code shuffles the slice of member node ids in place and takes the
first `min R N` elements. `rand.Shuffle` is modelled as an oracle: partition `i` sees *some*
permutation `perms[i]` of the member list. Two variants of "takes":

* `place`      — each partition gets its own copy of the prefix (the code after the D11 repair:
                 `append([]uint64{}, nodeIds[:n]...)`);
* `placeAlias` — each partition gets a slice header into the one shared backing array (the
                 pre-fix code: `nodeIds[:n]`), so what every partition *reads afterwards* is the
                 prefix of the array as the last shuffle left it.
-/
namespace Anndb.Placement

/-- copy variant: partition `i` holds the prefix of its own shuffle -/
def place (n r : Nat) (perms : List (List Nat)) : List (List Nat) :=
  perms.map fun p => p.take (min r n)

/-- aliasing variant: every partition reads the final contents of the shared array -/
def placeAlias (n r : Nat) (perms : List (List Nat)) : List (List Nat) :=
  perms.map fun _ => (perms.getLast?.getD []).take (min r n)

/-- what the correspondence check evaluates on an observed placement: every partition has
exactly `min R N` nodes, no node twice, all of them members -/
def validOne (members : List Nat) (r : Nat) (got : List Nat) : Bool :=
  got.length == min r members.length && got.Nodup && got.all (· ∈ members)

def valid (members : List Nat) (r : Nat) (got : List (List Nat)) : Bool :=
  got.all (validOne members r)

end Anndb.Placement
