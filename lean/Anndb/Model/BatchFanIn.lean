/-!
# Fan-in of a batch write (`Dataset.partitionsBatchRequest` / `handlePartitionBatchRequest`)

One worker per owning partition; each hands its per-id result to the collector over an *unbuffered*
channel (the send and the collector's receive are one step) and is then done; a closer closes the
channel once all workers are done; the collector takes `n` values — a closed channel yields the
zero value (an empty error map: "no id of that partition failed").

`answers` is whether every path through the worker sends exactly one result before it returns (the
regenerated fact `batchWorkerAlwaysAnswers`). A worker that can return without an answer
(`answers = false`) lets the collector read a zero value in its place.
-/
namespace Anndb.BatchFanIn

structure Cfg where
  /-- workers that have neither answered nor returned -/
  pending : Nat
  /-- real results the collector has received -/
  got : Nat
  /-- zero values the collector has read from the closed channel -/
  zeros : Nat
  closed : Bool
deriving DecidableEq, Repr

def init (n : Nat) : Cfg := ⟨n, 0, 0, false⟩

inductive Step (n : Nat) (answers : Bool) : Cfg → Cfg → Prop where
  /-- a worker's send meets the collector's receive -/
  | deliver (c : Cfg) : 0 < c.pending → c.got + c.zeros < n →
      Step n answers c { c with pending := c.pending - 1, got := c.got + 1 }
  /-- a worker returns without having sent anything -/
  | silent (c : Cfg) : answers = false → 0 < c.pending → Step n answers c { c with pending := c.pending - 1 }
  /-- `wg.Wait(); close(resultCh)` -/
  | close (c : Cfg) : c.pending = 0 → c.closed = false → Step n answers c { c with closed := true }
  /-- the collector reads the zero value of the closed channel -/
  | zero (c : Cfg) : c.closed = true → c.got + c.zeros < n → Step n answers c { c with zeros := c.zeros + 1 }

inductive Reach (n : Nat) (answers : Bool) : Cfg → Prop where
  | init : Reach n answers (init n)
  | step {c c' : Cfg} : Reach n answers c → Step n answers c c' → Reach n answers c'

/-- the collector has taken its `n` values -/
def Collected (n : Nat) (c : Cfg) : Prop := c.got + c.zeros = n

end Anndb.BatchFanIn
