/-!
# The shared group (`storage/raft/shared_group.go`)

The zero raft group's log and snapshot are shared by named consumers ("nodes": the address book,
"datasets": the catalogue). A proposal carries its consumer's name; the group's snapshot is a map
consumer name → that consumer's snapshot bytes; installing it hands every listed consumer its part.

`keepEmpty` is what the code does with a consumer whose snapshot is zero bytes: it still gets a slot
(`true`, the code as it is — a regenerated fact), or the slot is left out (`false`). An empty
catalogue marshals to zero bytes.
-/
namespace Anndb.Shared

/-- a consumer's state machine, over one state type `σ` and snapshots `β` -/
structure Consumer (σ β : Type) where
  apply : σ → β → σ
  snapshot : σ → β
  restore : σ → β → σ
  /-- the snapshot that is written as zero bytes -/
  isEmpty : β → Bool

variable {σ β : Type}

abbrev State (σ : Type) := String → σ

def update (st : State σ) (n : String) (v : σ) : State σ := fun m => if m = n then v else st m

/-- `sharedGroup.process`: the named consumer applies the entry; unknown names are skipped -/
def process (ops : String → Consumer σ β) (names : List String) (st : State σ) (e : String × β) : State σ :=
  if e.1 ∈ names then update st e.1 ((ops e.1).apply (st e.1) e.2) else st

/-- `sharedGroup.snapshot` -/
def snapshot (ops : String → Consumer σ β) (names : List String) (keepEmpty : Bool) (st : State σ) : List (String × β) :=
  names.filterMap fun n =>
    let b := (ops n).snapshot (st n)
    if keepEmpty || !(ops n).isEmpty b then some (n, b) else none

/-- `sharedGroup.processSnapshot`: every listed consumer installs its part -/
def restore (ops : String → Consumer σ β) (st : State σ) (snap : List (String × β)) : State σ :=
  snap.foldl (fun s e => update s e.1 ((ops e.1).restore (s e.1) e.2)) st

end Anndb.Shared
