/-!
# Durable / volatile state of one hosting replica (`storage/raft/group.go` run loop + Start)

The only durable state of a partition is its raft log store (entries, hard state, snapshot);
the HNSW index lives in memory and is rebuilt by `Start()` (install the stored snapshot) and the
replay of the committed suffix. This is the micro-step model of that loop for a replica that can
commit on its own (a single-replica group, or — delegating the quorum to etcd/raft — the part of
the protocol the hosting node is responsible for):

* `propose e`   – the entry is appended to raft's unstable log (memory only);
* `save`        – `wal.Save`: the unstable entries reach the log store;
* `applyOne`    – `processFn` on the next entry, whose `Notify` releases (acknowledges) the caller;
  with `saveFirst` (the order in the code) only entries that are in the log store are applied,
  without it (the mutated order) an unstable entry may be applied and acknowledged;
* `compact`     – `trySnapshot`: the snapshot is the in-memory state at the last applied index,
  the log is cut there;
* `crash`       – everything volatile is lost, at any instant between two micro-steps;
* `restart`     – `Start()`: the index is the stored snapshot; `applyOne` then replays the suffix.

Entries are identified by natural numbers (the submission order); what an entry does to the index
is C02's subject (`Spec.step`), so the state is the list of applied entries.
-/
namespace Anndb.Recovery

abbrev Entry := Nat

structure St where
  submitted : List Entry   -- ghost: everything ever proposed, in order
  acked : List Entry       -- ghost: everything ever acknowledged
  snap : List Entry        -- durable: the entries the stored snapshot covers
  log : List Entry         -- durable: the entries after the snapshot
  unstable : List Entry    -- volatile
  applied : List Entry     -- volatile: the in-memory index
  up : Bool
deriving Repr, DecidableEq

def init : St := ⟨[], [], [], [], [], [], true⟩

/-- what a restart followed by a complete replay yields -/
def St.durable (s : St) : List Entry := s.snap ++ s.log

/-- the entries the apply loop may take next -/
def St.source (saveFirst : Bool) (s : St) : List Entry :=
  if saveFirst then s.snap ++ s.log else s.snap ++ s.log ++ s.unstable

inductive Step (saveFirst : Bool) : St → St → Prop
  | propose (s : St) (e : Entry) : s.up = true → e ∉ s.submitted →
      Step saveFirst s { s with submitted := s.submitted ++ [e], unstable := s.unstable ++ [e] }
  | save (s : St) : s.up = true →
      Step saveFirst s { s with log := s.log ++ s.unstable, unstable := [] }
  | applyOne (s : St) (e : Entry) : s.up = true →
      (s.source saveFirst)[s.applied.length]? = some e →
      Step saveFirst s { s with applied := s.applied ++ [e], acked := s.acked ++ [e] }
  | compact (s : St) : s.up = true → s.applied.length ≤ s.durable.length →
      Step saveFirst s { s with snap := s.durable.take s.applied.length, log := s.durable.drop s.applied.length }
  | crash (s : St) : Step saveFirst s { s with unstable := [], applied := [], up := false }
  | restart (s : St) : s.up = false → Step saveFirst s { s with applied := s.snap, up := true }

inductive Reach (saveFirst : Bool) : St → Prop
  | init : Reach saveFirst init
  | step {s t} : Reach saveFirst s → Step saveFirst s t → Reach saveFirst t

/-- executable one-step functions for the driver and for explicit traces -/
def propose (s : St) (e : Entry) : St := { s with submitted := s.submitted ++ [e], unstable := s.unstable ++ [e] }
def save (s : St) : St := { s with log := s.log ++ s.unstable, unstable := [] }
def applyAll (saveFirst : Bool) : Nat → St → St
  | 0, s => s
  | n+1, s => match (s.source saveFirst)[s.applied.length]? with
    | some e => applyAll saveFirst n { s with applied := s.applied ++ [e], acked := s.acked ++ [e] }
    | none => s
def compact (s : St) : St := { s with snap := s.durable.take s.applied.length, log := s.durable.drop s.applied.length }
def crash (s : St) : St := { s with unstable := [], applied := [], up := false }
def restart (s : St) : St := { s with applied := s.snap, up := true }

/-- the admissible recovered histories for a sequential client: everything acknowledged,
optionally followed by the one write that was in flight -/
def admissible (acked : List Entry) (inflight : Option Entry) (recovered : List Entry) : Bool :=
  recovered == acked || (match inflight with
    | some e => recovered == acked ++ [e]
    | none => false)

end Anndb.Recovery
