/-!
# Model of item routing (`utils.UuidMod`, `Dataset.getPartitionForId`, `groupBatchItemsByPartition`)
-/
namespace Anndb.Routing

/-- little-endian 64-bit read of (the first 8 of) a byte list, as `binary.LittleEndian.Uint64` -/
def le64 (bs : List UInt8) : UInt64 :=
  (bs.take 8).foldr (fun b acc => acc * 256 + b.toUInt64) 0

/-- big-endian read (what the code does *not* use; present so the translator can express a change) -/
def be64 (bs : List UInt8) : UInt64 :=
  (bs.take 8).foldl (fun acc b => acc * 256 + b.toUInt64) 0

/-- `utils.UuidMod` on the two little-endian halves of the id, in wrap-around `UInt64` arithmetic -/
def uuidMod (lo hi n : UInt64) : UInt64 := ((lo % n) + (hi % n)) % n

/-- the owner partition (index into the dataset's partition list) of an id -/
def owner (id : List UInt8) (n : UInt64) : UInt64 := uuidMod (le64 (id.take 8)) (le64 (id.drop 8)) n

/-- `groupBatchItemsByPartition`: the sub-list of a batch that goes to partition `p` (in batch order) -/
def group (ids : List (List UInt8)) (n : UInt64) (p : UInt64) : List (List UInt8) :=
  ids.filter fun id => owner id n == p

end Anndb.Routing
