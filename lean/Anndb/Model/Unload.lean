/-!
# Unloading a raft group (`partition.unloadRaft`, `RaftGroup.Stop`, `RaftGroup.run`)

`unloadRaft` stops the group and then deletes its log (`wal.DeleteGroup`). The group's loop takes a
`Ready` from raft and writes it to that log (`wal.Save`); a write that finds the log gone ends the
process (`log.Fatal`: "Entry not found"). After `raft.Stop()` no new `Ready` is handed out, but one
that was taken before is still written.

`waits` is whether `Stop` returns only after the loop has ended (the regenerated fact
`raftStopWaitsForLoop`).
-/
namespace Anndb.Unload

inductive LoopPc where
  | select    -- waiting in the select
  | handling  -- holds a Ready: its wal.Save is still to come
  | ended
deriving DecidableEq, Repr

inductive UPc where
  | running | stopped | deleted
deriving DecidableEq, Repr

structure Cfg where
  loop : LoopPc
  u : UPc
  /-- a write reached the log after it was deleted: the process is gone -/
  fatal : Bool
deriving DecidableEq, Repr

def init : Cfg := ⟨.select, .running, false⟩

inductive Step (waits : Bool) : Cfg → Cfg → Prop where
  /-- the loop takes a Ready (only while raft runs) -/
  | take (c : Cfg) : c.loop = .select → c.u = .running → Step waits c { c with loop := .handling }
  /-- the loop writes the Ready it holds -/
  | save (c : Cfg) : c.loop = .handling → Step waits c { c with loop := .select, fatal := c.fatal || (c.u == .deleted) }
  /-- the loop sees the cancelled context and returns -/
  | finish (c : Cfg) : c.loop = .select → c.u ≠ .running → Step waits c { c with loop := .ended }
  /-- `raft.Stop(); ctxCancel()` -/
  | stop (c : Cfg) : c.u = .running → Step waits c { c with u := .stopped }
  /-- `wal.DeleteGroup()`: after `Stop` has returned — which, when it waits, needs the loop to have ended -/
  | delete (c : Cfg) : c.u = .stopped → (waits = true → c.loop = .ended) → Step waits c { c with u := .deleted }

inductive Reach (waits : Bool) : Cfg → Prop where
  | init : Reach waits init
  | step {c c' : Cfg} : Reach waits c → Step waits c c' → Reach waits c'

end Anndb.Unload
