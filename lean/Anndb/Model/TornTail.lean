/-
The store's value log under a crash in the middle of an append (C03, D35): records with a known
extent, a file that may end in a prefix of a record, and the two ways of opening it.
-/
namespace Anndb.TornTail

/-- a record's payload bytes -/
abbrev Rec := List Nat

/-- on disk: the length, then the payload (badger's value log: header with the lengths, key, value,
checksum — what matters here is that a record's extent is known from its first bytes and that a
prefix of a record is not a record) -/
def encode (r : Rec) : List Nat := r.length :: r

def encodeAll : List Rec → List Nat
  | [] => []
  | r :: rs => encode r ++ encodeAll rs

/-- replay of a value-log file: the complete records from the start, and whether the file ends
exactly where the last complete record ends -/
def parse (bs : List Nat) : List Rec × Bool :=
  match bs with
  | [] => ([], true)
  | n :: rest =>
    if n ≤ rest.length then
      let r := parse (rest.drop n)
      (rest.take n :: r.1, r.2)
    else ([], false)
termination_by bs.length
decreasing_by simp; omega

/-- opening the store: with `truncate` the bytes after the last complete record are cut off; without
it a file that does not end on a record boundary is refused ("Value log truncate required") -/
def reopen (truncate : Bool) (bs : List Nat) : Option (List Rec) :=
  let p := parse bs
  if p.2 || truncate then some p.1 else none

end Anndb.TornTail
