/-!
# Sending a snapshot to a replica that fell behind a compaction (`RaftTransport.Send`, etcd/raft's
progress states)

The leader tracks every follower in one of three states. A follower whose next entry has been
compacted away is sent the stored snapshot and put into the *snapshot* state: nothing but heartbeats
goes to it until either its acknowledgement arrives (it has installed the snapshot) or the host tells
raft that the transfer failed (`ReportSnapshot(SnapshotFailure)`), which puts it back into *probe*,
from where the snapshot is sent again.

`reports` is whether the transport reports every failed send of a snapshot (the regenerated fact
`snapshotSendFailureAlwaysReported`).
-/
namespace Anndb.SnapTransfer

inductive LState where
  | probe | snapshot | replicate
deriving DecidableEq, Repr

structure Cfg where
  lstate : LState
  /-- a snapshot message is on its way -/
  inflight : Bool
  /-- the follower has installed the snapshot -/
  installed : Bool
deriving DecidableEq, Repr

def init : Cfg := ⟨.probe, false, false⟩

inductive Step (reports : Bool) : Cfg → Cfg → Prop where
  /-- the leader finds the follower's next entry compacted: it sends the snapshot -/
  | send (c : Cfg) : c.lstate = .probe → c.installed = false → Step reports c { c with lstate := .snapshot, inflight := true }
  /-- the message arrives and the follower installs it -/
  | deliver (c : Cfg) : c.inflight = true → Step reports c { c with inflight := false, installed := true }
  /-- the follower's acknowledgement reaches the leader -/
  | ack (c : Cfg) : c.installed = true → c.lstate = .snapshot → Step reports c { c with lstate := .replicate }
  /-- the message is lost; the send fails at the leader (error or deadline) -/
  | lose (c : Cfg) : c.inflight = true →
      Step reports c { c with inflight := false, lstate := if reports then .probe else c.lstate }

inductive Reach (reports : Bool) : Cfg → Prop where
  | init : Reach reports init
  | step {c c' : Cfg} : Reach reports c → Step reports c c' → Reach reports c'

/-- the follower waits for a snapshot that nobody will send: the leader believes one is on its way,
none is, and the follower has none -/
def Stuck (c : Cfg) : Prop := c.lstate = .snapshot ∧ c.inflight = false ∧ c.installed = false

end Anndb.SnapTransfer
