/-!
# Model of the dataset catalogue (`storage/dataset_manager.go`)

The catalogue is a finite map dataset id ↦ metadata (dimension, metric, partitions with their
replica lists), replicated through the zero raft group. `process` applies one committed change;
`snapshot` / `restore` are `DatasetManager.snapshot` / `processSnapshot`.
-/
namespace Anndb.Catalogue

structure Part where
  id : Nat
  nodes : List Nat
deriving DecidableEq, Repr

structure Dataset where
  id : Nat
  dim : Nat
  space : Nat
  repl : Nat
  parts : List Part
deriving DecidableEq, Repr

/-- catalogue in creation order (the real map is unordered; observations are sorted by id) -/
abbrev Cat := List Dataset

inductive Change where
  | create (d : Dataset)
  | delete (id : Nat)
  | addNode (ds part node : Nat)
  | removeNode (ds part node : Nat)
deriving DecidableEq, Repr

inductive Outcome where
  | ok | exists | notFound | partitionNotFound
deriving DecidableEq, Repr

def find (c : Cat) (id : Nat) : Option Dataset := c.find? (·.id == id)

def updPart (f : Part → Part) (pid : Nat) (d : Dataset) : Dataset :=
  { d with parts := d.parts.map fun p => if p.id == pid then f p else p }

def updDataset (c : Cat) (id : Nat) (f : Dataset → Dataset) : Cat :=
  c.map fun d => if d.id == id then f d else d

/-- `DatasetManager.process` -/
def process (c : Cat) : Change → Cat × Outcome
  | .create d =>
    match find c d.id with
    | some _ => (c, .exists)
    | none => (c ++ [d], .ok)
  | .delete id =>
    match find c id with
    | none => (c, .notFound)
    | some _ => (c.filter (·.id != id), .ok)
  | .addNode ds part node =>
    match find c ds with
    | none => (c, .notFound)
    | some d =>
      if d.parts.any (·.id == part) then
        -- `partition.addNode` appends unconditionally
        (updDataset c ds (updPart (fun p => { p with nodes := p.nodes ++ [node] }) part), .ok)
      else (c, .partitionNotFound)
  | .removeNode ds part node =>
    match find c ds with
    | none => (c, .notFound)
    | some d =>
      if d.parts.any (·.id == part) then
        (updDataset c ds (updPart (fun p => { p with nodes := p.nodes.filter (· != node) }) part), .ok)
      else (c, .partitionNotFound)

def run (c : Cat) : List Change → Cat
  | [] => c
  | ch :: rest => run (process c ch).1 rest

/-- `DatasetManager.snapshot`: the metadata of every dataset -/
def snapshot (c : Cat) : List Dataset := c

/-- `partition.setNodes` over the partitions of a dataset that is already present: every partition
takes the replica list the snapshot gives it (matched by partition id); everything else about the
dataset is what it was created with -/
def reconcile (d s : Dataset) : Dataset :=
  { d with parts := d.parts.map fun p =>
      match s.parts.find? (·.id == p.id) with
      | some q => { p with nodes := q.nodes }
      | none => p }

/-- `DatasetManager.processSnapshot` (after repair D17): the snapshot is the whole catalogue.
Datasets it does not list are dropped, datasets that are present keep their object and take the
snapshot's replica lists, missing ones are created from the snapshot. (The real catalogue is a
map; the model lists it in the snapshot's order, observations are sorted by id.) -/
def restore (c : Cat) (snap : List Dataset) : Cat :=
  snap.map fun s => match find c s.id with
    | some d => reconcile d s
    | none => s

/-- `processSnapshot` before the repair: datasets that are not yet present are added; nothing is
removed and nothing that is present is updated -/
def restoreAddOnly (c : Cat) (snap : List Dataset) : Cat :=
  snap.foldl (fun acc d => match find acc d.id with
    | some _ => acc
    | none => acc ++ [d]) c

end Anndb.Catalogue
