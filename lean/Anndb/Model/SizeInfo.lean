/-!
# `Dataset.SizeInfo` as a labelled transition system

For each partition: if it is hosted locally, its size is added and a `nil` is pushed on the
(buffered, capacity = number of partitions) error channel — all inside the spawning loop, i.e.
before the collector starts. Otherwise a goroutine asks a hosting node: on success it adds the
answer and sends nothing; on failure it sends the error. A helper closes the error channel after
all goroutines are done. The collector receives `n` values (a closed, drained channel yields
`nil`); the first non-nil error is returned, otherwise the total.
-/
namespace Anndb.SizeInfo

structure Cfg where
  pend : List (Option Nat)   -- remote lookups not yet finished: `some s` will succeed with size `s`, `none` will fail
  buf : List Bool            -- the error channel, FIFO: `false` = nil, `true` = an error
  closed : Bool
  total : Nat
  got : Nat
  out : Option (Option Nat)  -- none: running; some none: error; some (some t): success with total t
deriving Repr

def init (locals : List Nat) (remotes : List (Option Nat)) : Cfg :=
  ⟨remotes, locals.map (fun _ => false), false, locals.sum, 0, none⟩

inductive Step (n : Nat) : Cfg → Cfg → Prop where
  | workerOk (c : Cfg) (pre post : List (Option Nat)) (s : Nat) : c.pend = pre ++ some s :: post →
      Step n c { c with pend := pre ++ post, total := c.total + s }
  | workerFail (c : Cfg) (pre post : List (Option Nat)) : c.pend = pre ++ none :: post →
      Step n c { c with pend := pre ++ post, buf := c.buf ++ [true] }
  | close (c : Cfg) : c.pend = [] → c.closed = false → Step n c { c with closed := true }
  | recvNil (c : Cfg) (rest : List Bool) : c.out = none → c.got < n → c.buf = false :: rest →
      Step n c { c with buf := rest, got := c.got + 1 }
  | recvErr (c : Cfg) (rest : List Bool) : c.out = none → c.got < n → c.buf = true :: rest →
      Step n c { c with buf := rest, out := some none }
  | recvClosed (c : Cfg) : c.out = none → c.got < n → c.closed = true → c.buf = [] →
      Step n c { c with got := c.got + 1 }
  | finish (c : Cfg) : c.out = none → c.got = n → Step n c { c with out := some (some c.total) }

inductive Reach (n : Nat) (c0 : Cfg) : Cfg → Prop where
  | refl : Reach n c0 c0
  | step {c c'} : Reach n c0 c → Step n c c' → Reach n c0 c'

def sumOk : List (Option Nat) → Nat
  | [] => 0
  | some s :: t => s + sumOk t
  | none :: t => sumOk t

def fails : List (Option Nat) → Nat
  | [] => 0
  | some _ :: t => fails t
  | none :: t => fails t + 1

/-- what each remote goroutine asks for: with a per-iteration variable its own partition; with
the loop variable shared (Go < 1.22 and no re-binding) whatever the variable holds when the
goroutine runs — after the loop, the last partition -/
def asked (captured : Bool) (sizes : List Nat) : List Nat :=
  if captured then sizes else sizes.map fun _ => sizes.getLast?.getD 0

end Anndb.SizeInfo
