import Anndb.Model.Wal
import Anndb.Model.Codec
/-!
# Key layout of `storage/wal/badger.go` and the per-group projection of one shared database

All groups share one Badger database. A group `g` (16 id bytes) owns the keys
`entryKey g i = g ++ be64 i` (24 bytes), `hsKey g = "hs" ++ g` and `ssKey g = "ss" ++ g` (18 bytes),
and iterates with `Prefix = g`. `Db` is the shared database as an association list; `proj g db`
is what group `g` sees of it: the per-group `Disk` that `Model/Wal.lean` works on.
-/
namespace Anndb.WalKeys
open Anndb.Wal Anndb.Codec

abbrev Key := List Nat

def entryKey (g : Key) (i : Nat) : Key := g ++ beBytes 8 i
def hsKey (g : Key) : Key := [104, 115] ++ g      -- "hs"
def ssKey (g : Key) : Key := [115, 115] ++ g      -- "ss"

inductive Val where
  | entry (e : Entry)
  | hs (h : HardState)
  | ss (s : Snap)
deriving DecidableEq, Repr

/-- the shared database: a finite map from keys to values -/
abbrev Db := Key → Option Val

def Db.set (db : Db) (k : Key) (v : Val) : Db := fun k' => if k' = k then some v else db k'
def Db.del (db : Db) (k : Key) : Db := fun k' => if k' = k then none else db k'

/-- a group's batch operation, on the shared database -/
def applyOp (g : Key) (db : Db) : BOp → Db
  | .setEntry e => db.set (entryKey g e.index) (.entry e)
  | .delEntry i => db.del (entryKey g i)
  | .setHS h => db.set (hsKey g) (.hs h)
  | .setSS s => db.set (ssKey g) (.ss s)

/-- what group `g` reads: its entry at index `i`, its hard state, its snapshot -/
def entryAt (g : Key) (db : Db) (i : Nat) : Option Val := db (entryKey g i)
def hsOf (g : Key) (db : Db) : Option Val := db (hsKey g)
def ssOf (g : Key) (db : Db) : Option Val := db (ssKey g)

end Anndb.WalKeys
