/-!
# Model of the dataset-level merge (`Dataset.Search`, `Dataset.SearchPartitions`)

`result = append(all partial results); sort.Sort(result); result[:min(k, len)]`.
A hit is (id, score bits). Sorting is by score only (`SearchResult.Less`), not stable, so the
model fixes the *score sequence* and the multiset; which of several equal-score items survives
the cut is left open (`Merge.lean` theorems speak about scores and membership).
-/
namespace Anndb.Merge

structure Hit where
  id : Nat
  score : Nat
deriving DecidableEq, Repr

/-- insertion into a list sorted by score (ascending) -/
def insertSorted (x : Hit) : List Hit → List Hit
  | [] => [x]
  | y :: ys => if x.score ≤ y.score then x :: y :: ys else y :: insertSorted x ys

def sortByScore (l : List Hit) : List Hit := l.foldr insertSorted []

/-- the merge: concatenate, sort by score, keep the first k -/
def mergeTopK (k : Nat) (lists : List (List Hit)) : List Hit := (sortByScore lists.flatten).take k

end Anndb.Merge
