/-!
# Propose-and-wait notification as a labelled transition system
(`partition.proposeAndWaitForCommit`, `DatasetManager.Create/Delete/…`, `utils.Notificator`)

One caller and its proposal (notification ids are fresh v4 uuids and every operation of the
notificator is keyed by id, so callers do not interact: a statement about one caller is a
statement about each). The caller: `Create(cap)`; marshal + `raft.Propose`; `select { notifC |
ctx.Done }`; deferred `Remove`. The apply loop: applies the committed entry with some outcome
and calls `Notify(id, outcome, blocking=false)`: a non-blocking send on the caller's channel if
it still exists — into the buffer if there is room, directly to the caller if it is already
waiting, otherwise the outcome is dropped.
-/
namespace Anndb.Notify

inductive Pc where
  | init | created | proposed | waiting | got (o : Nat) | timedOut | removed (o : Option Nat)
deriving DecidableEq, Repr

structure Cfg where
  cap : Nat
  chanExists : Bool
  buf : Option Nat          -- the buffered outcome (capacity ≥ 1)
  pc : Pc
  applied : Option Nat      -- the outcome the apply loop computed
  notified : Bool           -- the apply loop has executed Notify
  dropped : Bool            -- Notify found no room and nobody waiting
deriving DecidableEq, Repr

def init (cap : Nat) : Cfg := ⟨cap, false, none, .init, none, false, false⟩

inductive Step : Cfg → Cfg → Prop where
  | create (c : Cfg) : c.pc = .init → Step c { c with pc := .created, chanExists := true }
  | propose (c : Cfg) : c.pc = .created → Step c { c with pc := .proposed }
  /-- the entry is committed and applied (any time after it was proposed) with outcome `o` -/
  | apply (c : Cfg) (o : Nat) : (c.pc ≠ .init ∧ c.pc ≠ .created) → c.applied = none →
      Step c { c with applied := some o }
  | notifyBuffered (c : Cfg) (o : Nat) : c.applied = some o → c.notified = false →
      c.chanExists = true → 1 ≤ c.cap → c.buf = none →
      Step c { c with notified := true, buf := some o }
  | notifyHandoff (c : Cfg) (o : Nat) : c.applied = some o → c.notified = false →
      c.chanExists = true → c.cap = 0 → c.pc = .waiting →
      Step c { c with notified := true, pc := .got o }
  | notifyDropped (c : Cfg) (o : Nat) : c.applied = some o → c.notified = false →
      (c.chanExists = false ∨ (c.cap = 0 ∧ c.pc ≠ .waiting) ∨ (1 ≤ c.cap ∧ c.buf ≠ none)) →
      Step c { c with notified := true, dropped := true }
  | startWait (c : Cfg) : c.pc = .proposed → Step c { c with pc := .waiting }
  | recv (c : Cfg) (o : Nat) : c.pc = .waiting → c.buf = some o → Step c { c with pc := .got o, buf := none }
  | timeout (c : Cfg) : c.pc = .waiting → Step c { c with pc := .timedOut }
  | removeGot (c : Cfg) (o : Nat) : c.pc = .got o → Step c { c with pc := .removed (some o), chanExists := false }
  | removeTimedOut (c : Cfg) : c.pc = .timedOut → Step c { c with pc := .removed none, chanExists := false }

inductive Reach (c0 : Cfg) : Cfg → Prop where
  | refl : Reach c0 c0
  | step {c c'} : Reach c0 c → Step c c' → Reach c0 c'

end Anndb.Notify
