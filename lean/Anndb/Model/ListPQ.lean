import Anndb.Model.PQ
/-! A second, obviously lawful queue (unsorted list, pop extracts a best element):
used for non-vacuity of the index theorems and as the executable queue of the driver
in the order-independent regime. -/
namespace Anndb

/-- extract the first element that is `le`-best -/
def extractBest (le : Item → Item → Bool) : List Item → Option (Item × List Item)
  | [] => none
  | x :: t =>
    match extractBest le t with
    | none => some (x, [])
    | some (y, t') => if le x y then some (x, t) else some (y, x :: t')

def listPQ (le : Item → Item → Bool) : PQImpl where
  Q := List Item
  empty := []
  push q x := x :: q
  pop q := extractBest le q
  toList q := q
  ofList l := l

def minLe (a b : Item) : Bool := a.score ≤ b.score
def maxLe (a b : Item) : Bool := b.score ≤ a.score

theorem extractBest_spec (le : Item → Item → Bool)
    (total : ∀ a b, le a b = true ∨ le b a = true)
    (trans : ∀ a b c, le a b = true → le b c = true → le a c = true) :
    ∀ (l : List Item),
      (extractBest le l = none → l = []) ∧
      (∀ x r, extractBest le l = some (x, r) → l.Perm (x :: r) ∧ ∀ y ∈ l, le x y = true) := by
  intro l
  induction l with
  | nil => exact ⟨fun _ => rfl, fun x r h => by simp [extractBest] at h⟩
  | cons a t ih =>
    constructor
    · intro h
      unfold extractBest at h
      split at h
      · cases h
      · split at h <;> cases h
    · intro x r h
      unfold extractBest at h
      split at h
      · rename_i hn
        have ht := ih.1 hn
        subst ht
        simp at h
        obtain ⟨rfl, rfl⟩ := h
        refine ⟨List.Perm.refl _, ?_⟩
        intro y hy
        simp at hy; subst hy
        rcases total y y with h | h <;> exact h
      · rename_i y t' hs
        obtain ⟨hperm, hbest⟩ := ih.2 y t' hs
        split at h
        · rename_i hle
          simp at h
          obtain ⟨rfl, rfl⟩ := h
          refine ⟨List.Perm.refl _, ?_⟩
          intro z hz
          rcases List.mem_cons.mp hz with rfl | hz
          · rcases total z z with h | h <;> exact h
          · exact trans _ _ _ hle (hbest z hz)
        · rename_i hle
          simp at h
          obtain ⟨hxy, hr⟩ := h
          subst hxy; subst hr
          refine ⟨?_, ?_⟩
          · exact (List.Perm.cons a hperm).trans (List.Perm.swap _ _ _)
          · intro z hz
            rcases List.mem_cons.mp hz with hza | hz
            · subst hza
              rcases total y z with h | h
              · exact h
              · exact absurd h hle
            · exact hbest z hz

theorem listPQ_lawful (le : Item → Item → Bool) (better : Item → Item → Prop)
    (hb : ∀ a b, le a b = true ↔ better a b)
    (total : ∀ a b, le a b = true ∨ le b a = true)
    (trans : ∀ a b c, le a b = true → le b c = true → le a c = true) :
    Lawful (listPQ le) better where
  empty_list := rfl
  push_perm _ _ := List.Perm.refl _
  ofList_perm _ := List.Perm.refl _
  pop_none q h := (extractBest_spec le total trans q).1 h
  pop_some q x q' h := by
    obtain ⟨hp, hbst⟩ := (extractBest_spec le total trans q).2 x q' h
    exact ⟨hp, fun y hy => (hb x y).mp (hbst y hy)⟩
  pop_progress q hq := by
    cases h : extractBest le q with
    | none => exact absurd ((extractBest_spec le total trans q).1 h) hq
    | some p => exact ⟨p.1, p.2, h⟩

theorem minPQ_lawful : Lawful (listPQ minLe) minBetter :=
  listPQ_lawful minLe minBetter (by intro a b; simp [minLe, minBetter])
    (by intro a b; simp only [minLe, decide_eq_true_eq]; omega)
    (by intro a b c; simp only [minLe, decide_eq_true_eq]; omega)

theorem maxPQ_lawful : Lawful (listPQ maxLe) maxBetter :=
  listPQ_lawful maxLe maxBetter (by intro a b; simp [maxLe, maxBetter])
    (by intro a b; simp only [maxLe, decide_eq_true_eq]; omega)
    (by intro a b c; simp only [maxLe, decide_eq_true_eq]; omega)

end Anndb
