/-!
# Control-plane wedge model: the zero group's apply goroutine vs. the allocator loop
(`storage/allocator.go`, `cluster/conn.go`, `storage/dataset_manager.go`)

Thread **A** is the goroutine that applies the zero group's committed entries in order:
  * a conf change calls `Conn.AddNode/RemoveNode`: `addressesMu.Lock()`, then a *blocking* send of the
    notification on a channel of capacity `cap` (10), then unlock;
  * create / delete dataset calls `Allocator.watch/unwatch` per partition: `partitionsMu.Lock()`,
    update the map, then a *blocking* send on the unbuffered `updatesC` — after releasing the lock
    (`sendUnderLock = false`, the code after the D18 repair) or while still holding it;
  * a partition-replica change proposed by the allocator loop is applied and its waiter notified.
Thread **L** is `Allocator.run`: `select` on the notification channel and `updatesC`. A received
update is handled without needing A. A received notification makes L take `partitionsMu.RLock()`
and walk the partitions; for a partition this node may modify it proposes a replica change to the
catalogue and **waits for its commit** (no timeout) — `proposes = true`; if a partition's replica
list is empty it calls `Conn.NodeIds()`, taking `addressesMu.RLock()` — `needsAddr = true`.
-/
namespace Anndb.Allocator

inductive Ev where
  | conf        -- AddNode / RemoveNode
  | watch       -- watch / unwatch of one partition
  | commit      -- the replica change the allocator loop proposed
deriving DecidableEq, Repr

inductive APc where
  | idle
  | confLocked     -- holds addressesMu (write), about to send the notification
  | watchSending   -- about to send on updatesC (holding partitionsMu iff `sendUnderLock`)
deriving DecidableEq, Repr

inductive LPc where
  | select
  | wantPartR      -- received a notification, acquiring partitionsMu.RLock
  | handler        -- holds partitionsMu.RLock, walking the partitions
  | wantAddrR      -- (holding partitionsMu.RLock) acquiring addressesMu.RLock for Conn.NodeIds()
  | waitCommit     -- (holding partitionsMu.RLock) waiting for the catalogue commit of its proposal
deriving DecidableEq, Repr

structure Params where
  cap : Nat              -- capacity of the notification channel
  sendUnderLock : Bool   -- watch/unwatch send while holding partitionsMu
  proposes : Bool        -- this node modifies some partition on this notification (waits for a commit)
  needsAddr : Bool       -- some watched partition has an empty replica list

structure Cfg where
  todo : List Ev    -- entries A still has to apply, in log order
  a : APc
  l : LPc
  chan : Nat        -- buffered notifications
  proposed : Bool   -- L's proposal of the current handler is in the log and not yet applied
deriving DecidableEq, Repr

def aHoldsPartW (p : Params) (c : Cfg) : Bool := p.sendUnderLock && c.a == .watchSending
def aHoldsAddrW (c : Cfg) : Bool := c.a == .confLocked
def lHoldsPartR (c : Cfg) : Bool := c.l == .handler || c.l == .wantAddrR || c.l == .waitCommit

inductive Step (p : Params) : Cfg → Cfg → Prop where
  -- A
  | confLock (c : Cfg) (t : List Ev) : c.a = .idle → c.todo = .conf :: t →
      Step p c { c with a := .confLocked, todo := t }
  | confSend (c : Cfg) : c.a = .confLocked → c.chan < p.cap →
      Step p c { c with a := .idle, chan := c.chan + 1 }
  | watchLock (c : Cfg) (t : List Ev) : c.a = .idle → c.todo = .watch :: t → lHoldsPartR c = false →
      Step p c { c with a := .watchSending, todo := t }
  | watchSend (c : Cfg) : c.a = .watchSending → c.l = .select →
      Step p c { c with a := .idle }          -- L receives the update and handles it on its own
  | applyCommit (c : Cfg) (t : List Ev) : c.a = .idle → c.todo = .commit :: t →
      Step p c { c with todo := t, proposed := false }
  -- L
  | recvNotif (c : Cfg) : c.l = .select → 0 < c.chan →
      Step p c { c with l := .wantPartR, chan := c.chan - 1 }
  | takePartR (c : Cfg) : c.l = .wantPartR → aHoldsPartW p c = false →
      Step p c { c with l := .handler }
  | handlerAddr (c : Cfg) : c.l = .handler → p.needsAddr = true →
      Step p c { c with l := .wantAddrR }
  | takeAddrR (c : Cfg) : c.l = .wantAddrR → aHoldsAddrW c = false →
      Step p c { c with l := if p.proposes then .waitCommit else .select,
                        todo := if p.proposes then c.todo ++ [.commit] else c.todo,
                        proposed := p.proposes }
  | handlerPropose (c : Cfg) : c.l = .handler → p.needsAddr = false → p.proposes = true →
      Step p c { c with l := .waitCommit, todo := c.todo ++ [.commit], proposed := true }
  | handlerDone (c : Cfg) : c.l = .handler → p.needsAddr = false → p.proposes = false →
      Step p c { c with l := .select }
  | commitSeen (c : Cfg) : c.l = .waitCommit → c.proposed = false →
      Step p c { c with l := .select }

inductive Reach (p : Params) (c0 : Cfg) : Cfg → Prop where
  | refl : Reach p c0 c0
  | step {c c'} : Reach p c0 c → Step p c c' → Reach p c0 c'

def init (todo : List Ev) : Cfg := ⟨todo, .idle, .select, 0, false⟩

/-- nothing left to do: every entry applied, every notification handled, both threads at rest -/
def Quiescent (c : Cfg) : Prop := c.todo = [] ∧ c.a = .idle ∧ c.l = .select ∧ c.chan = 0

end Anndb.Allocator

namespace Anndb.Allocator

/-- executable successor function of `Step` (used by the model driver to explore all schedules of a
given event list; `mem_succ_iff` in Props/C18 proves it is exactly `Step`) -/
def succ (p : Params) (c : Cfg) : List Cfg :=
  (match c.a, c.todo with
    | .idle, .conf :: t => [{ c with a := .confLocked, todo := t }]
    | .idle, .watch :: t => if lHoldsPartR c = false then [{ c with a := .watchSending, todo := t }] else []
    | .idle, .commit :: t => [{ c with todo := t, proposed := false }]
    | _, _ => []) ++
  (if c.a = .confLocked ∧ c.chan < p.cap then [{ c with a := .idle, chan := c.chan + 1 }] else []) ++
  (if c.a = .watchSending ∧ c.l = .select then [{ c with a := .idle }] else []) ++
  (if c.l = .select ∧ 0 < c.chan then [{ c with l := .wantPartR, chan := c.chan - 1 }] else []) ++
  (if c.l = .wantPartR ∧ aHoldsPartW p c = false then [{ c with l := .handler }] else []) ++
  (if c.l = .handler ∧ p.needsAddr = true then [{ c with l := .wantAddrR }] else []) ++
  (if c.l = .wantAddrR ∧ aHoldsAddrW c = false then
    [{ c with l := if p.proposes then .waitCommit else .select,
              todo := if p.proposes then c.todo ++ [.commit] else c.todo,
              proposed := p.proposes }] else []) ++
  (if c.l = .handler ∧ p.needsAddr = false ∧ p.proposes = true then
    [{ c with l := .waitCommit, todo := c.todo ++ [.commit], proposed := true }] else []) ++
  (if c.l = .handler ∧ p.needsAddr = false ∧ p.proposes = false then [{ c with l := .select }] else []) ++
  (if c.l = .waitCommit ∧ c.proposed = false then [{ c with l := .select }] else [])

def isQuiescent (c : Cfg) : Bool := c.todo.isEmpty && c.a == .idle && c.l == .select && c.chan == 0

/-- breadth-first exploration: is a stuck (non-quiescent, no successor) configuration reachable? -/
def exploreStuck (p : Params) : Nat → List Cfg → List Cfg → Option Cfg
  | 0, _, _ => none
  | fuel+1, seen, frontier =>
    match frontier with
    | [] => none
    | c :: rest =>
      let ss := succ p c
      if ss.isEmpty && !isQuiescent c then some c
      else
        let new := ss.filter fun s => !(seen.contains s) && !(rest.contains s)
        exploreStuck p fuel (c :: seen) (rest ++ new.eraseDups)

end Anndb.Allocator
