/-!
# Priority-queue interface used by the HNSW model

`PQImpl` is what `utils.PriorityQueue` offers to `index/hnsw.go`: push, pop, length,
the underlying slice (`ToSlice`), construction from a slice (what `Reverse` does after
copying). `Lawful` is the contract the index theorems need; `Model/Heap.lean` (C19)
proves it for the model of `container/heap`, and `ListPQ` below is a second, trivially
lawful implementation used for non-vacuity.
-/
namespace Anndb

notation "Vid" => Nat
notation "Score" => Nat

structure Item where
  score : Score
  vid : Vid
deriving DecidableEq, Repr, Inhabited

structure PQImpl where
  Q : Type
  empty : Q
  push : Q → Item → Q
  pop : Q → Option (Item × Q)
  toList : Q → List Item
  ofList : List Item → Q

/-- `better a b`: `a` may be popped before `b` (≤ for a min queue, ≥ for a max queue). -/
structure Lawful (P : PQImpl) (better : Item → Item → Prop) : Prop where
  empty_list : P.toList P.empty = []
  push_perm : ∀ q x, (P.toList (P.push q x)).Perm (x :: P.toList q)
  ofList_perm : ∀ l, (P.toList (P.ofList l)).Perm l
  pop_none : ∀ q, P.pop q = none → P.toList q = []
  pop_some : ∀ q x q', P.pop q = some (x, q') →
      (P.toList q).Perm (x :: P.toList q') ∧ ∀ y ∈ P.toList q, better x y
  pop_progress : ∀ q, P.toList q ≠ [] → ∃ x q', P.pop q = some (x, q')

def minBetter (a b : Item) : Prop := a.score ≤ b.score
def maxBetter (a b : Item) : Prop := b.score ≤ a.score

namespace PQImpl
variable (P : PQImpl)

def len (q : P.Q) : Nat := (P.toList q).length

/-- pop at most `fuel` items, in pop order -/
def popN : Nat → P.Q → List Item × P.Q
  | 0, q => ([], q)
  | n+1, q =>
    match P.pop q with
    | none => ([], q)
    | some (x, q') => let (xs, q'') := popN n q'; (x :: xs, q'')

/-- pop everything (fuel = current length) -/
def drain (q : P.Q) : List Item := (P.popN (P.len q) q).1

/-- drop best elements until at most `k` remain (`selectNeighbors`) -/
def trimTo (k : Nat) : Nat → P.Q → P.Q
  | 0, q => q
  | fuel+1, q =>
    if P.len q > k then
      match P.pop q with
      | none => q
      | some (_, q') => trimTo k fuel q'
    else q

end PQImpl
end Anndb
