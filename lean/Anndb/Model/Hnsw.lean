import Anndb.Model.PQ
/-!
# Executable model of `index/hnsw.go`

State is held in functions (`Vid → Option Vertex`) because that is what the proofs
like; `next` bounds the allocated incarnations and `ids` lists the live ids so the
model stays enumerable for the driver. Link sets (Go maps) are lists; iteration = list
order; the theorems quantify over every state satisfying `Inv`, hence over every order.
-/
namespace Anndb

notation "ItemId" => Nat
notation "VecRef" => Nat
abbrev Meta := List (String × String)

structure Vertex where
  id : ItemId
  vec : VecRef
  md : Meta
  level : Nat
  deleted : Bool
  edges : Nat → List (Vid × Score)

structure Cfg where
  m : Nat
  mMax : Nat
  mMax0 : Nat
  ef : Nat
  efC : Nat
  heuristic : Bool
  extend : Bool
  keepPruned : Bool

structure Index where
  verts : Vid → Option Vertex
  live : ItemId → Option Vid
  ids : List ItemId
  entry : Option Vid
  next : Vid

def Index.empty : Index := ⟨fun _ => none, fun _ => none, [], none, 0⟩

namespace Index

def isDeleted (s : Index) (v : Vid) : Bool :=
  match s.verts v with
  | some x => x.deleted
  | none => true

def vecOf (s : Index) (v : Vid) : VecRef :=
  match s.verts v with
  | some x => x.vec
  | none => 0

def idOf (s : Index) (v : Vid) : ItemId :=
  match s.verts v with
  | some x => x.id
  | none => 0

def mdOf (s : Index) (v : Vid) : Meta :=
  match s.verts v with
  | some x => x.md
  | none => []

def levelOf (s : Index) (v : Vid) : Nat :=
  match s.verts v with
  | some x => x.level
  | none => 0

def edgesOf (s : Index) (v : Vid) (l : Nat) : List (Vid × Score) :=
  match s.verts v with
  | some x => x.edges l
  | none => []

def nbrs (s : Index) (v : Vid) (l : Nat) : List Vid := (s.edgesOf v l).map (·.1)

def updVertex (s : Index) (v : Vid) (f : Vertex → Vertex) : Index :=
  { s with verts := fun u => if u = v then (s.verts v).map f else s.verts u }

/-- `edges[l][w] = d` (Go map assignment: replaces an existing entry for `w`). -/
def addEdge (s : Index) (v : Vid) (l : Nat) (w : Vid) (d : Score) : Index :=
  s.updVertex v fun x =>
    { x with edges := fun l' => if l' = l then (w, d) :: (x.edges l).filter (·.1 ≠ w) else x.edges l' }

def removeEdge (s : Index) (v : Vid) (l : Nat) (w : Vid) : Index :=
  s.updVertex v fun x =>
    { x with edges := fun l' => if l' = l then (x.edges l).filter (·.1 ≠ w) else x.edges l' }

def setEdges (s : Index) (v : Vid) (l : Nat) (es : List (Vid × Score)) : Index :=
  s.updVertex v fun x => { x with edges := fun l' => if l' = l then es else x.edges l' }

end Index

section Algo
variable (Pmin Pmax : PQImpl) (dist : VecRef → VecRef → Score) (cfg : Cfg)

/-! ### greedyClosestNeighbor -/

def greedyScan (s : Index) (q : VecRef) (l : Nat) (cur : Vid) (dmin : Score) : Option Vid × Score :=
  (s.nbrs cur l).foldl (fun (acc : Option Vid × Score) w =>
    if s.isDeleted w then acc
    else
      let d := dist q (s.vecOf w)
      if d < acc.2 then (some w, d) else acc) (none, dmin)

def greedy (s : Index) (q : VecRef) (l : Nat) : Nat → Vid → Score → Vid × Score
  | 0, cur, dmin => (cur, dmin)
  | fuel+1, cur, dmin =>
    match greedyScan dist s q l cur dmin with
    | (none, _) => (cur, dmin)
    | (some w, d) => greedy s q l fuel w d

/-- descend levels `hi, hi-1, …, lo+1` -/
def descend (s : Index) (q : VecRef) (lo : Nat) : Nat → Vid → Score → Vid × Score
  | 0, cur, dmin => (cur, dmin)
  | n+1, cur, dmin =>
    let l := lo + n + 1
    let (cur', d') := greedy dist s q l s.next cur dmin
    descend s q lo n cur' d'

/-! ### searchLevel -/

structure SearchSt where
  c : Pmin.Q
  r : Pmax.Q
  vis : List Vid

def visitNbr (s : Index) (q : VecRef) (ef : Nat) (lb : Score) (st : SearchSt Pmin Pmax) (n : Vid) :
    SearchSt Pmin Pmax :=
  if s.isDeleted n then st
  else if n ∈ st.vis then st
  else
    let vis := n :: st.vis
    let d := dist q (s.vecOf n)
    if d < lb ∨ Pmax.len st.r < ef then
      let it : Item := ⟨d, n⟩
      let c := Pmin.push st.c it
      let r := Pmax.push st.r it
      let r := if Pmax.len r > ef then
                 match Pmax.pop r with
                 | some (_, r') => r'
                 | none => r
               else r
      ⟨c, r, vis⟩
    else ⟨st.c, st.r, vis⟩

def peekScore (r : Pmax.Q) : Option Score :=
  match Pmax.pop r with
  | some (x, _) => some x.score
  | none => none

def searchLoop (s : Index) (q : VecRef) (ef level : Nat) : Nat → SearchSt Pmin Pmax → Pmax.Q
  | 0, st => st.r
  | fuel+1, st =>
    match Pmin.pop st.c with
    | none => st.r
    | some (ci, c') =>
      match peekScore Pmax st.r with
      | none => st.r
      | some lb =>
        if ci.score > lb then st.r
        else searchLoop s q ef level fuel
               ((s.nbrs ci.vid level).foldl (visitNbr Pmin Pmax dist s q ef lb) ⟨c', st.r, st.vis⟩)

def searchLevel (s : Index) (q : VecRef) (ep : Vid) (ef level : Nat) : Pmax.Q :=
  let it : Item := ⟨dist q (s.vecOf ep), ep⟩
  searchLoop Pmin Pmax dist s q ef level (s.next + 1)
    ⟨Pmin.push Pmin.empty it, Pmax.push Pmax.empty it, [ep]⟩

/-! ### neighbour selection -/

def selectSimple (n : Pmax.Q) (k : Nat) : Pmax.Q := Pmax.trimTo k (Pmax.len n) n

/-- candidate extension: for each neighbour (in pop order) add its unseen live neighbours -/
def extendStep (s : Index) (q : VecRef) (level : Nat) (acc : Pmin.Q × List Vid) (c : Vid) : Pmin.Q × List Vid :=
  (s.nbrs c level).foldl (fun (a : Pmin.Q × List Vid) w =>
    if s.isDeleted w then a
    else if w ∈ a.2 then a
    else (Pmin.push a.1 ⟨dist q (s.vecOf w), w⟩, w :: a.2)) acc

def fillResult (k : Nat) : Nat → Pmin.Q → Pmax.Q → Pmax.Q
  | 0, _, r => r
  | fuel+1, c, r =>
    if Pmax.len r < k then
      match Pmin.pop c with
      | none => r
      | some (x, c') => fillResult k fuel c' (Pmax.push r x)
    else r

def selectHeuristic (s : Index) (q : VecRef) (n : Pmax.Q) (k level : Nat) : Pmax.Q :=
  let items := Pmax.toList n
  let cand0 := Pmin.ofList items
  let existing := items.map (·.vid)
  let cand :=
    if cfg.extend then ((Pmax.drain n).map (·.vid)).foldl (extendStep Pmin dist s q level) (cand0, existing) |>.1
    else cand0
  -- the `keepPruned` loop can never add anything: it runs only while `len result < k`,
  -- which the first loop has already exhausted
  fillResult Pmin Pmax k (Pmin.len cand) cand Pmax.empty

def selectNbrs (s : Index) (q : VecRef) (n : Pmax.Q) (k level : Nat) : Pmax.Q :=
  if cfg.heuristic then selectHeuristic Pmin Pmax dist cfg s q n k level else selectSimple Pmax n k

/-! ### pruneNeighbors -/

def prune (s : Index) (v : Vid) (k level : Nat) : Index :=
  let live := (s.edgesOf v level).filter (fun e => !s.isDeleted e.1)
  let q0 := live.foldl (fun q e => Pmax.push q ⟨e.2, e.1⟩) Pmax.empty
  let sel := selectNbrs Pmin Pmax dist cfg s (s.vecOf v) q0 k level
  s.setEdges v level ((Pmax.toList sel).map fun it => (it.vid, it.score))

/-! ### Insert -/

def mMaxAt (l : Nat) : Nat := if l = 0 then cfg.mMax0 else cfg.mMax

/-- link `v` to the selected neighbours, farthest first; returns the new state and the
    last (closest) neighbour, which becomes the entry for the next level -/
def linkAll (v : Vid) (l : Nat) : List Item → Index → Vid → Index × Vid
  | [], s, cur => (s, cur)
  | it :: rest, s, _ =>
    let s := s.addEdge v l it.vid it.score
    let s := s.addEdge it.vid l v it.score
    let s := if (s.edgesOf it.vid l).length > mMaxAt cfg l then prune Pmin Pmax dist cfg s it.vid (mMaxAt cfg l) l else s
    linkAll v l rest s it.vid

/-- levels `top, top-1, …, 0` -/
def insertLevels (v : Vid) (q : VecRef) : Nat → Index → Vid → Index
  | 0, s, cur =>
    let n := searchLevel Pmin Pmax dist s q cur cfg.efC 0
    let sel := selectNbrs Pmin Pmax dist cfg s q n cfg.m 0
    (linkAll Pmin Pmax dist cfg v 0 (Pmax.drain sel) s cur).1
  | l+1, s, cur =>
    let n := searchLevel Pmin Pmax dist s q cur cfg.efC (l+1)
    let sel := selectNbrs Pmin Pmax dist cfg s q n cfg.m (l+1)
    let (s', cur') := linkAll Pmin Pmax dist cfg v (l+1) (Pmax.drain sel) s cur
    insertLevels v q l s' cur'

inductive Err where
  | exists | notFound
deriving DecidableEq, Repr

def newVertex (id : ItemId) (vec : VecRef) (md : Meta) (level : Nat) : Vertex :=
  ⟨id, vec, md, level, false, fun _ => []⟩

def store (s : Index) (id : ItemId) (x : Vertex) : Index × Vid :=
  let v := s.next
  ({ s with verts := fun u => if u = v then some x else s.verts u,
            live := fun i => if i = id then some v else s.live i,
            ids := id :: s.ids,
            next := v + 1 }, v)

/-- `Metadata.Validate` (the first statement of `Hnsw.Insert`; the models of its callers test it
before they call `insert`, which is the rest of `Hnsw.Insert`): what the snapshot format's length fields can hold (entry count and value
length in 16 bits, key length in 8) -/
def mdFits (m : Meta) : Bool :=
  decide (m.length ≤ 65535) && m.all fun kv => decide (kv.1.utf8ByteSize ≤ 255) && decide (kv.2.utf8ByteSize ≤ 65535)

def insert (s : Index) (id : ItemId) (vec : VecRef) (md : Meta) (level : Nat) : Except Err Index :=
  match s.live id with
  | some _ => .error .exists
  | none =>
    match s.entry with
    | none =>
      let (s', v) := store s id (newVertex id vec md 0)
      .ok { s' with entry := some v }
    | some ep =>
      let (s1, v) := store s id (newVertex id vec md level)
      let epl := s1.levelOf ep
      let (cur, _) := descend dist s1 vec level (epl - level) ep (dist vec (s1.vecOf ep))
      let top := min (s1.levelOf cur) level
      let s2 := insertLevels Pmin Pmax dist cfg v vec top s1 cur
      .ok (if level > epl then { s2 with entry := some v } else s2)

/-! ### Remove (with the hand-over repaired as planned in DESIGN §3 D1) -/

def closestLive (s : Index) (v : Vid) (l : Nat) : Option (Vid × Score) :=
  (s.edgesOf v l).foldl (fun (acc : Option (Vid × Score)) e =>
    if s.isDeleted e.1 then acc
    else match acc with
      | none => some e
      | some b => if e.2 < b.2 then some e else acc) none

/-- scan levels `n-1 … 0` (called with `n = level+1`); stops at the first level with a live neighbour -/
def handOver (s : Index) (v : Vid) : Nat → Option Vid
  | 0 => none
  | l+1 =>
    match closestLive s v l with
    | some e => some e.1
    | none => handOver s v l

def unlinkLevel (v : Vid) (l : Nat) : List Vid → Index → Index
  | [], s => s
  | n :: rest, s =>
    let s := s.removeEdge n l v
    let s := prune Pmin Pmax dist cfg s n (mMaxAt cfg l) l
    unlinkLevel v l rest s

def unlinkAll (v : Vid) : Nat → Index → Index
  | 0, s => s
  | l+1, s => unlinkAll v l (unlinkLevel Pmin Pmax dist cfg v l (s.nbrs v l) s)

/-- erase the id and tombstone its incarnation (`removeVertex`) -/
def tombstone (s : Index) (id : ItemId) (v : Vid) : Index :=
  let s0 : Index := { s with live := fun i => if i = id then none else s.live i,
                             ids := s.ids.filter (· ≠ id) }
  s0.updVertex v fun x => { x with deleted := true }

/-- entry-point hand-over. `pick` resolves the one residual choice (“any live vertex” when the
    removed entry point has no live neighbour). -/
def handEntry (s : Index) (v : Vid) (pick : List ItemId → Option ItemId) : Index :=
  if s.entry = some v then
    match handOver s v (s.levelOf v + 1) with
    | some w => { s with entry := some w }
    | none =>
      match pick s.ids with
      | some i => { s with entry := s.live i }
      | none => { s with entry := none }
  else s

def remove (s : Index) (id : ItemId) (pick : List ItemId → Option ItemId) : Except Err Index :=
  match s.live id with
  | none => .error .notFound
  | some v =>
    let s2 := handEntry (tombstone s id v) v pick
    .ok (unlinkAll Pmin Pmax dist cfg v (s2.levelOf v + 1) s2)

/-! ### Search -/

structure Hit where
  id : ItemId
  md : Meta
  score : Score
deriving Repr, DecidableEq

/-- `Hnsw.Search` for an already clamped `k` -/
def searchCore (s : Index) (q : VecRef) (k : Nat) : List Hit :=
  match s.entry with
  | none => []
  | some ep =>
    let (cur, _) := descend dist s q 0 (s.levelOf ep) ep (dist q (s.vecOf ep))
    let n := searchLevel Pmin Pmax dist s q cur (max cfg.ef k) 0
    let sel := selectNbrs Pmin Pmax dist cfg s q n k 0
    -- a tombstoned vertex (only the start vertex can be one: its tombstone is never tested on the
    -- way) is not a result
    ((Pmax.drain sel).take k).reverse.filterMap fun it =>
      (s.verts it.vid).bind fun x => if x.deleted then none else some ⟨x.id, x.md, it.score⟩

/-- `k` is clamped to the number of stored items (`if l := this.Len(); l > 0 && k > l { k = l }`) -/
def clampK (s : Index) (k : Nat) : Nat :=
  if 0 < s.ids.length ∧ s.ids.length < k then s.ids.length else k

def search (s : Index) (q : VecRef) (k : Nat) : List Hit :=
  searchCore Pmin Pmax dist cfg s q (clampK s k)

end Algo
end Anndb

namespace Anndb
/-- `Save` followed by `Load` (into a fresh or a used index): links to tombstoned vertices
are not written, tombstoned vertices are not written, everything else is restored as it was.
(The byte-level codec is C08's subject; this is its effect on the graph.) -/
def Index.reload (s : Index) : Index :=
  { s with verts := fun v => (s.verts v).map fun x =>
      { x with edges := fun l => (x.edges l).filter fun e => !s.isDeleted e.1 } }
end Anndb
