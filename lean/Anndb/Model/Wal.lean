/-!
# Model of `storage/wal/badger.go` (per group) and of etcd's `MemoryStorage` (C06)

Payloads are opaque tokens (`Nat`); `size` is the entry's protobuf size as reported by
the real code. A Badger `WriteBatch` is an ordered list of `set`/`del` operations applied
atomically at flush; reads inside `Save`/`CreateSnapshot` see the committed state, exactly
as the real iterators do. The model follows the code *after* the planned repairs D13/D14.
-/
namespace Anndb.Wal

structure Entry where
  index : Nat
  term : Nat
  data : Nat
  size : Nat
deriving DecidableEq, Repr, Inhabited

structure Snap where
  index : Nat
  term : Nat
  data : Nat
  conf : Nat
deriving DecidableEq, Repr, Inhabited

structure HardState where
  term : Nat
  vote : Nat
  commit : Nat
deriving DecidableEq, Repr, Inhabited

def Snap.isEmpty (s : Snap) : Bool := s.index == 0
def HardState.isEmpty (h : HardState) : Bool := h.term == 0 && h.vote == 0 && h.commit == 0
def emptySnap : Snap := ⟨0, 0, 0, 0⟩
def emptyHS : HardState := ⟨0, 0, 0⟩

inductive Err where
  | compacted | unavailable | snapOutOfDate | notFound | emptyConf | keyNotFound
deriving DecidableEq, Repr

/-! ## etcd `MemoryStorage` (the specification) -/

structure Mem where
  hs : HardState
  snap : Snap
  ents : List Entry      -- ents[0] is the dummy entry
deriving Repr

def Mem.init : Mem := ⟨emptyHS, emptySnap, [⟨0, 0, 0, 0⟩]⟩

namespace Mem
def offset (m : Mem) : Nat := (m.ents.headD default).index
def firstIndex (m : Mem) : Nat := m.offset + 1
def lastIndex (m : Mem) : Nat := m.offset + m.ents.length - 1

def term (m : Mem) (i : Nat) : Except Err Nat :=
  if i < m.offset then .error .compacted
  else if i - m.offset ≥ m.ents.length then .error .unavailable
  else .ok (m.ents.getD (i - m.offset) default).term

def limitSize : List Entry → Nat → List Entry
  | [], _ => []
  | e :: rest, maxSize =>
    let rec go (acc : List Entry) (size : Nat) : List Entry → List Entry
      | [] => acc.reverse
      | x :: xs => if size + x.size > maxSize then acc.reverse else go (x :: acc) (size + x.size) xs
    go [e] e.size rest

def entries (m : Mem) (lo hi maxSize : Nat) : Except Err (List Entry) :=
  if lo ≤ m.offset then .error .compacted
  else if m.ents.length == 1 then .error .unavailable
  else .ok (limitSize ((m.ents.drop (lo - m.offset)).take (hi - lo)) maxSize)

def append (m : Mem) (es : List Entry) : Mem :=
  match es with
  | [] => m
  | e0 :: _ =>
    let first := m.firstIndex
    let last := e0.index + es.length - 1
    if last < first then m
    else
      let es := if first > e0.index then es.drop (first - e0.index) else es
      let off := (es.headD default).index - m.offset
      { m with ents := m.ents.take off ++ es }

def applySnapshot (m : Mem) (s : Snap) : Except Err Mem :=
  if m.snap.index ≥ s.index then .error .snapOutOfDate
  else .ok { m with snap := s, ents := [⟨s.index, s.term, 0, 0⟩] }

def createSnapshot (m : Mem) (i : Nat) (conf data : Nat) : Except Err Mem :=
  if i ≤ m.snap.index then .error .snapOutOfDate
  else .ok { m with snap := ⟨i, (m.ents.getD (i - m.offset) default).term, data, conf⟩ }

def compact (m : Mem) (ci : Nat) : Except Err Mem :=
  if ci ≤ m.offset then .error .compacted
  else
    let i := ci - m.offset
    let d := m.ents.getD i default
    .ok { m with ents := ⟨d.index, d.term, 0, 0⟩ :: m.ents.drop (i + 1) }
end Mem

/-! ## Badger-backed store -/

/-- the group's committed keys: entries sorted by index, hard state, snapshot -/
structure Disk where
  ents : List Entry
  hs : Option HardState
  ss : Option Snap
deriving Repr

structure Cache where
  snap : Option Snap
  first : Option Nat
  last : Option Nat
deriving Repr

structure Wal where
  disk : Disk
  cache : Cache
deriving Repr

inductive BOp where
  | setEntry (e : Entry)
  | delEntry (i : Nat)
  | setHS (h : HardState)
  | setSS (s : Snap)

def insertSorted (e : Entry) : List Entry → List Entry
  | [] => [e]
  | x :: xs => if e.index < x.index then e :: x :: xs
               else if e.index == x.index then e :: xs
               else x :: insertSorted e xs

def Disk.apply (d : Disk) : BOp → Disk
  | .setEntry e => { d with ents := insertSorted e d.ents }
  | .delEntry i => { d with ents := d.ents.filter (·.index != i) }
  | .setHS h => { d with hs := some h }
  | .setSS s => { d with ss := some s }

def Disk.flush (d : Disk) (ops : List BOp) : Disk := ops.foldl Disk.apply d

def emptyCache : Cache := ⟨none, none, none⟩

namespace Wal

/-- first key ≥ `i` -/
def seekFwd (w : Wal) (i : Nat) : Option Entry := w.disk.ents.find? (·.index ≥ i)
def seekLast (w : Wal) : Option Entry := w.disk.ents.getLast?

def cachedSnap (w : Wal) : Option Snap :=
  match w.cache.snap with
  | some s => if s.isEmpty then none else some s
  | none => none

def firstIndex (w : Wal) : Except Err (Nat × Wal) :=
  match w.cachedSnap with
  | some s => .ok (s.index + 1, w)
  | none =>
    match w.cache.first with
    | some f => .ok (f, w)
    | none =>
      match w.seekFwd 0 with
      | none => .error .notFound
      | some e => .ok (e.index + 1, { w with cache := { w.cache with first := some (e.index + 1) } })

def lastIndex (w : Wal) : Except Err Nat :=
  match w.cache.last with
  | some l => .ok l
  | none =>
    match w.seekLast with
    | none => .error .notFound
    | some e => .ok e.index

def snapshot (w : Wal) : Snap :=
  match w.cachedSnap with
  | some s => s
  | none => w.disk.ss.getD emptySnap

def hardState (w : Wal) : HardState := w.disk.hs.getD emptyHS

def term (w : Wal) (idx : Nat) : Except Err (Nat × Wal) := do
  let (first, w) ← w.firstIndex
  if idx < first - 1 then .error .compacted
  else
    match w.seekFwd idx with
    | none => .error .unavailable
    | some e => if idx < e.index then .error .compacted else .ok (e.term, w)

def getEntries (w : Wal) (lo hi maxSize : Nat) : Except Err (List Entry) :=
  if hi - lo == 1 then
    match w.disk.ents.find? (·.index == lo) with
    | some e => .ok [e]
    | none => .error .keyNotFound
  else
    let cands := (w.disk.ents.filter (·.index ≥ lo)).takeWhile (·.index < hi)
    let rec go (acc : List Entry) (size : Nat) (first : Bool) : List Entry → List Entry
      | [] => acc.reverse
      | x :: xs =>
        let size := size + x.size
        if size > maxSize && !first then acc.reverse else go (x :: acc) size false xs
    .ok (go [] 0 true cands)

def entries (w : Wal) (lo hi maxSize : Nat) : Except Err (List Entry × Wal) := do
  let (first, w) ← w.firstIndex
  if lo < first then .error .compacted
  else
    let last ← w.lastIndex
    if hi > last + 1 then .error .unavailable
    else
      let es ← w.getEntries lo hi maxSize
      .ok (es, w)

def delFrom (w : Wal) (i : Nat) : List BOp :=
  (w.disk.ents.filter (·.index ≥ i)).map fun e => .delEntry e.index

/-- `writeSnapshot` -/
def writeSnapshot (w : Wal) (s : Snap) : List BOp × Wal :=
  if s.isEmpty then ([], w)
  else
    let last := match w.cache.last with
      | some l => if l < s.index then some s.index else some l
      | none => none
    ([.setSS s, .setEntry ⟨s.index, s.term, 0, 0⟩],
     { w with cache := { w.cache with last := last, snap := some s } })

/-- `writeEntries` -/
def writeEntries (w : Wal) (es : List Entry) : Except Err (List BOp × Wal) :=
  match es with
  | [] => .ok ([], w)
  | e0 :: _ => do
    let (first, w) ← w.firstIndex
    if e0.index + es.length - 1 < first then .ok ([], w)
    else
      let es := if first > e0.index then es.drop (first - e0.index) else es
      let last ← w.lastIndex
      let lastE := (es.getLast?.getD default).index
      let sets := es.map BOp.setEntry
      let w' := { w with cache := { w.cache with last := some lastE } }
      if last > lastE then .ok (sets ++ w.delFrom (lastE + 1), w')
      else .ok (sets, w')

/-- `Save` (after repair D13: wipe, snapshot, entries, hard state) -/
def save (w : Wal) (hs : HardState) (es : List Entry) (s : Snap) : Except Err Wal := do
  let (ops1, w1) :=
    if s.isEmpty then (([] : List BOp), w)
    else
      let dels := w.delFrom 0
      let (o, w') := w.writeSnapshot s
      (dels ++ o, { w' with cache := { w'.cache with last := some s.index } })
  let (ops2, w2) ← w1.writeEntries es
  let ops3 := if hs.isEmpty then [] else [BOp.setHS hs]
  .ok { w2 with disk := w.disk.flush (ops1 ++ ops2 ++ ops3) }

/-- `CreateSnapshot` -/
def createSnapshot (w : Wal) (idx : Nat) (conf : Option Nat) (data : Nat) : Except Err Wal :=
  match conf with
  | none => .error .emptyConf
  | some cs => do
    let (first, w) ← w.firstIndex
    if idx < first then .error .snapOutOfDate
    else
      match w.seekFwd idx with
      | none => .error .notFound
      | some e =>
        if idx != e.index then .error .notFound
        else
          let s : Snap := ⟨e.index, e.term, data, cs⟩
          let (ops1, w1) := w.writeSnapshot s
          -- deleteEntriesUntilIndex
          match w.disk.ents with
          | [] => .ok { w1 with disk := w.disk.flush ops1 }
          | f :: _ =>
            if idx ≤ f.index then .error .compacted
            else
              let dels := (w.disk.ents.takeWhile (·.index < idx)).map fun e => BOp.delEntry e.index
              let first' := match w1.cache.first with
                | some v => if v ≤ idx then some (idx + 1) else some v
                | none => none
              .ok { disk := w.disk.flush (ops1 ++ dels), cache := { w1.cache with first := first' } }

def reset (d : Disk) (es : List Entry) : Wal :=
  { disk := d.flush (((d.ents.map fun e => BOp.delEntry e.index)) ++ es.map BOp.setEntry), cache := emptyCache }

/-- `DeleteGroup` (after repair D14) -/
def deleteGroup (w : Wal) : Wal :=
  let w' := reset w.disk []
  { w' with disk := { w'.disk with hs := none, ss := none } }

/-- `NewBadgerWAL` on whatever the disk holds -/
def open_ (d : Disk) : Wal :=
  let w : Wal := ⟨d, emptyCache⟩
  match w.firstIndex with
  | .ok (_, w') => w'
  | .error _ => reset d [⟨0, 0, 0, 0⟩]

def fresh : Wal := open_ ⟨[], none, none⟩

end Wal
end Anndb.Wal
