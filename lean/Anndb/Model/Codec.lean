/-!
# Byte-level model of `index/hnsw_persistence.go` Save/Load without header (C08)

Bytes are `Nat < 256`. A stream is decoded into a `File` (exactly the records written, in
the order written); `encode` is its inverse. What `Load` does with a `File` (rebuilding
maps, entry point and links by id) is `Model/Hnsw`'s business.
-/
namespace Anndb.Codec

abbrev Bytes := List Nat

def beBytes (width n : Nat) : Bytes :=
  (List.range width).map fun i => (n / 256 ^ (width - 1 - i)) % 256

def beNat (bs : Bytes) : Nat := bs.foldl (fun acc b => acc * 256 + b) 0

def takeN (n : Nat) (bs : Bytes) : Option (Bytes × Bytes) :=
  if bs.length < n then none else some (bs.take n, bs.drop n)

def readBE (width : Nat) (bs : Bytes) : Option (Nat × Bytes) :=
  (takeN width bs).map fun (h, t) => (beNat h, t)

structure KV where
  key : Bytes
  val : Bytes
deriving Repr, DecidableEq

structure VRec where
  id : Nat
  level : Nat
  vec : List Nat            -- float32 bit patterns
  md : List KV
deriving Repr, DecidableEq

structure ERec where
  id : Nat
  levels : List (List (Nat × Nat))   -- from the vertex's top level down to 0: (neighbour id, score bits)
deriving Repr, DecidableEq

structure File where
  entry : Nat
  shards : List (List VRec)          -- 16 shards
  edges : List (List ERec)           -- per shard: one record per vertex of that shard, any order
deriving Repr, DecidableEq

/-! ### encode -/

def encKV (kv : KV) : Bytes :=
  beBytes 1 kv.key.length ++ kv.key ++ beBytes 2 kv.val.length ++ kv.val

def encV (v : VRec) : Bytes :=
  beBytes 16 v.id ++ beBytes 4 v.level ++ (v.vec.map (beBytes 4)).flatten ++
  beBytes 2 v.md.length ++ (v.md.map encKV).flatten

def encE (e : ERec) : Bytes :=
  beBytes 16 e.id ++ (e.levels.map fun l =>
    beBytes 4 l.length ++ (l.map fun (n, d) => beBytes 16 n ++ beBytes 4 d).flatten).flatten

/-- `none` is the empty index, which `Save` writes as the empty stream -/
def encode : Option File → Bytes
  | none => []
  | some f =>
    beBytes 16 f.entry ++
    (f.shards.map fun sh => beBytes 4 sh.length ++ (sh.map encV).flatten).flatten ++
    (f.edges.map fun g => (g.map encE).flatten).flatten

/-! ### decode -/

def decMany {α : Type} (dec : Bytes → Option (α × Bytes)) : Nat → Bytes → Option (List α × Bytes)
  | 0, bs => some ([], bs)
  | n+1, bs => do
    let (x, bs) ← dec bs
    let (xs, bs) ← decMany dec n bs
    pure (x :: xs, bs)

def decKV (bs : Bytes) : Option (KV × Bytes) := do
  let (kl, bs) ← readBE 1 bs
  let (k, bs) ← takeN kl bs
  let (vl, bs) ← readBE 2 bs
  let (v, bs) ← takeN vl bs
  pure (⟨k, v⟩, bs)

def decV (dim : Nat) (bs : Bytes) : Option (VRec × Bytes) := do
  let (id, bs) ← readBE 16 bs
  let (lvl, bs) ← readBE 4 bs
  let (vec, bs) ← decMany (readBE 4) dim bs
  let (n, bs) ← readBE 2 bs
  let (md, bs) ← decMany decKV n bs
  pure (⟨id, lvl, vec, md⟩, bs)

def decShard (dim : Nat) (bs : Bytes) : Option (List VRec × Bytes) := do
  let (n, bs) ← readBE 4 bs
  decMany (decV dim) n bs

def decEdge (bs : Bytes) : Option ((Nat × Nat) × Bytes) := do
  let (n, bs) ← readBE 16 bs
  let (d, bs) ← readBE 4 bs
  pure ((n, d), bs)

def decLevel (bs : Bytes) : Option (List (Nat × Nat) × Bytes) := do
  let (n, bs) ← readBE 4 bs
  decMany decEdge n bs

/-- an edge record needs the level of its vertex, known from the vertex section -/
def decE (levelOf : Nat → Option Nat) (bs : Bytes) : Option (ERec × Bytes) := do
  let (id, bs) ← readBE 16 bs
  let lvl ← levelOf id
  let (ls, bs) ← decMany decLevel (lvl + 1) bs
  pure (⟨id, ls⟩, bs)

/-- the edge section is read shard by shard; a record is looked up in *its* shard only
    (`vertex = verticesShard[id]`), so a record of another shard is an error (in the real
    code: a nil dereference) -/
def decEdgeGroups : List (List VRec) → Bytes → Option (List (List ERec) × Bytes)
  | [], bs => some ([], bs)
  | sh :: rest, bs => do
    let levelOf := fun id => (sh.find? (·.id == id)).map (·.level)
    let (g, bs) ← decMany (decE levelOf) sh.length bs
    let (gs, bs) ← decEdgeGroups rest bs
    pure (g :: gs, bs)

def decode (dim : Nat) (bs : Bytes) : Option (Option File × Bytes) :=
  if bs.isEmpty then some (none, [])
  else do
    let (entry, bs) ← readBE 16 bs
    let (shards, bs) ← decMany (decShard dim) 16 bs
    let (edges, bs) ← decEdgeGroups shards bs
    pure (some ⟨entry, shards, edges⟩, bs)

/-! ### header (`Save(w, true)`): the configuration, the dimension and the metric -/

structure Header where
  algo : Nat          -- uint32
  levelMult : Nat     -- float32 bits
  ef : Nat            -- int32, written as two's complement; non-negative here
  efC : Nat
  m : Nat
  mMax : Nat
  mMax0 : Nat
  dim : Nat           -- uint32
  space : Nat         -- uint8
deriving Repr, DecidableEq

def encHeader (h : Header) : Bytes :=
  beBytes 4 h.algo ++ beBytes 4 h.levelMult ++ beBytes 4 h.ef ++ beBytes 4 h.efC ++ beBytes 4 h.m ++
  beBytes 4 h.mMax ++ beBytes 4 h.mMax0 ++ beBytes 4 h.dim ++ beBytes 1 h.space

def decHeader (bs : Bytes) : Option (Header × Bytes) := do
  let (algo, bs) ← readBE 4 bs
  let (lm, bs) ← readBE 4 bs
  let (ef, bs) ← readBE 4 bs
  let (efC, bs) ← readBE 4 bs
  let (m, bs) ← readBE 4 bs
  let (mMax, bs) ← readBE 4 bs
  let (mMax0, bs) ← readBE 4 bs
  let (dim, bs) ← readBE 4 bs
  let (sp, bs) ← readBE 1 bs
  pure (⟨algo, lm, ef, efC, m, mMax, mMax0, dim, sp⟩, bs)

/-- `Save(w, true)` / `Load(r, true)`: the header decides the dimension -/
def encodeH (h : Header) (f : Option File) : Bytes := encHeader h ++ encode f

def decodeH (bs : Bytes) : Option (Header × Option File × Bytes) := do
  let (h, bs) ← decHeader bs
  let (f, bs) ← decode h.dim bs
  pure (h, f, bs)

end Anndb.Codec
