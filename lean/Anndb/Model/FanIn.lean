import Anndb.Model.Merge
/-!
# The search fan-out / fan-in as a labelled transition system (`Dataset.Search`, `SearchPartitions`)

`n` workers each produce one outcome — a result list or an error — and send it on the result
channel resp. the error channel (both buffered with capacity `n`, so sends never block). The
collector runs `n` iterations of `select { result | error | ctx }`; on an error it returns the
error at once, after `n` results it returns the collected lists. `closing = true` adds the helper
goroutine of the pre-fix code that closes both channels after `wg.Wait()`: a closed, drained
channel is always ready and yields the zero value.

A configuration is the shared state; `Step` has one constructor per atomic action; `Reach` is the
reflexive-transitive closure, so theorems about `Reach` quantify over *all* schedules.
-/
namespace Anndb.FanIn
open Anndb.Merge

inductive Msg where
  | res (r : List Hit)
  | err
deriving DecidableEq, Repr

structure Cfg where
  pend   : List Msg                 -- workers that have not sent yet (each sends exactly once)
  resCh  : List (List Hit)          -- buffered results, FIFO
  errCh  : Nat                      -- number of buffered errors
  closed : Bool
  got    : Nat                      -- collector iterations completed
  acc    : List (List Hit)          -- result lists received so far
  out    : Option (Option (List (List Hit)))  -- none: running; some none: error; some (some a): success
deriving Repr

inductive Step (n : Nat) (closing : Bool) : Cfg → Cfg → Prop where
  | sendRes (c : Cfg) (pre post : List Msg) (r : List Hit) :
      c.pend = pre ++ Msg.res r :: post →
      Step n closing c { c with pend := pre ++ post, resCh := c.resCh ++ [r] }
  | sendErr (c : Cfg) (pre post : List Msg) :
      c.pend = pre ++ Msg.err :: post →
      Step n closing c { c with pend := pre ++ post, errCh := c.errCh + 1 }
  | close (c : Cfg) : closing = true → c.pend = [] → c.closed = false →
      Step n closing c { c with closed := true }
  | recvRes (c : Cfg) (r : List Hit) (rest : List (List Hit)) :
      c.out = none → c.got < n → c.resCh = r :: rest →
      Step n closing c { c with resCh := rest, got := c.got + 1, acc := c.acc ++ [r] }
  | recvErr (c : Cfg) (k : Nat) :
      c.out = none → c.got < n → c.errCh = k + 1 →
      Step n closing c { c with errCh := k, out := some none }
  | recvClosedRes (c : Cfg) :     -- zero value from the closed, drained result channel
      c.out = none → c.got < n → c.closed = true → c.resCh = [] →
      Step n closing c { c with got := c.got + 1, acc := c.acc ++ [[]] }
  | recvClosedErr (c : Cfg) :     -- nil error from the closed, drained error channel: `return nil, err` with err = nil
      c.out = none → c.got < n → c.closed = true → c.errCh = 0 →
      Step n closing c { c with out := some (some []) }
  | finish (c : Cfg) :
      c.out = none → c.got = n →
      Step n closing c { c with out := some (some c.acc) }

inductive Reach (n : Nat) (closing : Bool) (c0 : Cfg) : Cfg → Prop where
  | refl : Reach n closing c0 c0
  | step {c c'} : Reach n closing c0 c → Step n closing c c' → Reach n closing c0 c'

def init (ms : List Msg) : Cfg :=
  { pend := ms, resCh := [], errCh := 0, closed := false, got := 0, acc := [], out := none }

def resOf : List Msg → List (List Hit)
  | [] => []
  | Msg.res r :: t => r :: resOf t
  | Msg.err :: t => resOf t

def errCount : List Msg → Nat
  | [] => 0
  | Msg.res _ :: t => errCount t
  | Msg.err :: t => errCount t + 1

/-- `getSearchQueryNodes`: every partition is assigned to the replica `choice` picked for it; the
partitions are grouped by that node -/
def queryNodes (parts : List Nat) (choice : Nat → Nat) (node : Nat) : List Nat :=
  parts.filter fun p => choice p == node

end Anndb.FanIn
