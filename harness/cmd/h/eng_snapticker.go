package main

// Engine snapticker (C04 / C03): the real snapshot ticker of a partition's raft group (10 s,
// 5000 new entries) fires while the partition keeps applying writes. Built with the race detector
// by the check: the snapshot must be serialised by the goroutine that applies the entries (a
// snapshot is the state after a prefix of the log), so no access of Save may overlap an apply.
// Afterwards the node is restarted from snapshot + suffix and must hold the acknowledged history.

import (
	"context"
	"fmt"
	"reflect"
	"sort"
	"sync"
	"time"

	"github.com/coreos/etcd/raft/raftpb"

	pb "github.com/marekgalovic/anndb/protobuf"
	"github.com/marekgalovic/anndb/storage"
)

func init() {
	register("snapticker", runSnapTicker)
	childHandlers["snapload"] = childSnapLoad
}

func runSnapTicker(c *Ctx) {
	c.Stats.Rule = "child processes, race detector on. (a) on demand: snapshots requested every few ms on every replica of a 2-3 replica partition while 4 writers write through node 1; (b) ticker: a single-replica partition, 4 writers, more than 5000 writes, the real 10 s snapshot tick fires under that load. In both: every stored snapshot = the state after exactly the log entries up to its index (entries recorded by the harness's log-store wrapper), the running replicas hold the acknowledged history, and so do all replicas restarted from snapshot + suffix; non-trivial = a snapshot was stored under load"
	streamChild(c, 5*time.Minute, "C04", "snapload", fmt.Sprint(c.Seed*100+99), c.Tier, "ticker")
	for i, n := 0, c.Pick(2, 10); i < n; i++ {
		streamChild(c, 5*time.Minute, "C04", "snapload", fmt.Sprint(c.Seed*100+uint64(i)), c.Tier, "ondemand")
	}
}

// ---------------------------------------------------------------- snapshots under replicated load

// stateAfter applies the recorded normal entries 1..upto to a fresh partition and lists it.
// ok=false when the record has a gap (the replica was caught up by an installed snapshot).
func stateAfter(rec *walRec, upto uint64) (string, bool) {
	p := storage.VerifNewPartition(2, pb.Space_Euclidean)
	rec.mu.Lock()
	var es []raftpb.Entry
	for i := uint64(1); i <= upto; i++ {
		e, ok := rec.ents[i]
		if !ok {
			rec.mu.Unlock()
			return "", false
		}
		es = append(es, e)
	}
	rec.mu.Unlock()
	for _, e := range es {
		if e.Type == raftpb.EntryNormal && len(e.Data) > 0 {
			p.ApplyEntry(e.Data)
		}
	}
	return partText(p), true
}

func partText(p *storage.VerifPartition) string {
	m := map[int]crefItem{}
	for _, v := range p.Index().VerifContents() {
		m[int(v.Id[0])|int(v.Id[1])<<8] = crefItem{int(v.Vector[0]), v.Metadata}
	}
	return refText(m)
}

// child: snapload <seed> <tier> <ondemand|ticker>
func childSnapLoad(args []string) {
	var seed uint64
	fmt.Sscan(args[0], &seed)
	thorough := len(args) > 1 && args[1] == "thorough"
	ticker := len(args) > 2 && args[2] == "ticker"
	out := cout
	defer out.Done()
	r := NewRng(seed)
	N := 2 + r.Intn(2)
	if ticker {
		N = 1
	}
	if ticker {
		out.Begin(fmt.Sprintf("the real snapshot tick under load, 1 replica, seed %d", seed))
	} else {
		out.Begin(fmt.Sprintf("snapshots on demand under load, %d replicas, seed %d", N, seed))
	}
	defer out.End()
	cl := newSimCluster(N)
	cl.enableCrashes()
	defer cl.Close()
	dsId, err := cl.createDataset(1, 2, 1, uint32(N), pb.Space_Euclidean)
	if err != nil {
		out.Count("setup-failed")
		out.Local("setup failed: %v", err)
		return
	}
	gid := cl.dataset(1, dsId).VerifPartitionAt(0).Id()
	recOf := func(id uint64) *walRec {
		return walRecFor(reflect.ValueOf(cl.nodes[id].db).Pointer(), gid)
	}
	groupOf := func(id uint64) interface{ VerifSnapshotNow() error } {
		d := cl.dataset(id, dsId)
		if d == nil || !d.VerifPartitionAt(0).HasRaft() {
			return nil
		}
		return d.VerifPartitionAt(0).Raft()
	}
	if !waitFor(20*time.Second, func() bool {
		for _, id := range cl.ids {
			if groupOf(id) == nil {
				return false
			}
		}
		return true
	}) {
		out.Count("setup-failed")
		out.Local("setup failed: not every replica started its group")
		return
	}
	// writers: disjoint id ranges, each writer sequential (so the final state is determined by the
	// per-writer histories); an op whose outcome is unknown makes its id "uncertain"
	const W = 4
	per := 150
	if thorough {
		per = 400
	}
	type wres struct {
		ref       map[int]crefItem
		uncertain map[int]bool
		acked     int
	}
	res := make([]wres, W)
	stop := make(chan struct{})
	stopWriters := make(chan struct{})
	var wg, sg sync.WaitGroup
	for w := 0; w < W; w++ {
		res[w] = wres{ref: map[int]crefItem{}, uncertain: map[int]bool{}}
		wg.Add(1)
		go func(w int, r *Rng) {
			defer wg.Done()
			st := &res[w]
			var own []int
			next := 0
			for i := 0; i < per || ticker; i++ {
				if ticker {
					select {
					case <-stopWriters:
						return
					default:
					}
				}
				var o crashOp
				if len(own) == 0 && next >= 15999 {
					return
				}
				// the live set of a writer stays around 25 items: mostly inserts below that, mostly updates
				// and removals above (the ticker scenario runs for tens of thousands of writes; the
				// simulated nodes' in-memory Badger holds values inline and takes at most ~150 KB per
				// write batch, snapshot included)
				pIns, pDel := 7, 1
				if len(own) >= 25 {
					pIns, pDel = 1, 4
				}
				switch k := r.Intn(10); {
				case (k < pIns || len(own) == 0) && next < 15999:
					o = crashOp{kind: "ins", ids: []int{w*16000 + next}, vec: r.Intn(50), md: fmt.Sprintf("w=%d", w)}
					next++
				case k < pIns+pDel && len(own) > 0:
					o = crashOp{kind: "del", ids: []int{own[r.Intn(len(own))]}}
				case len(own) > 0:
					o = crashOp{kind: "upd", ids: []int{own[r.Intn(len(own))]}, vec: r.Intn(50), md: fmt.Sprintf("u=%d", i)}
				default:
					continue
				}
				ctx, cancel := context.WithTimeout(context.Background(), 5*time.Second)
				e := doCrashOp(ctx, cl.nodes[1], dsId, &o)
				cancel()
				switch classify(e) {
				case "ok":
					applyRef(st.ref, o)
					st.acked++
					if o.kind == "ins" {
						own = append(own, o.ids[0])
					}
					if o.kind == "del" {
						for j, x := range own {
							if x == o.ids[0] {
								own = append(own[:j], own[j+1:]...)
								break
							}
						}
					}
				case "exists", "notfound":
					// answered by the replicated state itself: consistent with the reference only
					// if an earlier op on that id was uncertain
					st.uncertain[o.ids[0]] = true
				default:
					st.uncertain[o.ids[0]] = true
				}
			}
		}(w, r.Fork())
	}
	snaps := 0
	var smu sync.Mutex
	if ticker {
		// no requests: wait for the group's own 10 s tick (it stores a snapshot once more than 5000
		// entries were applied), keep writing a second beyond it, at most 45 s in all
		go func() {
			start := time.Now()
			var seen time.Time
			for time.Since(start) < 45*time.Second {
				time.Sleep(20 * time.Millisecond)
				rec := recOf(1)
				rec.mu.Lock()
				n := len(rec.created)
				rec.mu.Unlock()
				if n > 0 && seen.IsZero() {
					seen = time.Now()
				}
				if !seen.IsZero() && time.Since(seen) > time.Second {
					break
				}
			}
			close(stopWriters)
		}()
	}
	for _, id := range cl.ids {
		if ticker {
			break
		}
		sg.Add(1)
		go func(id uint64) {
			defer sg.Done()
			for {
				select {
				case <-stop:
					return
				case <-time.After(2 * time.Millisecond):
				}
				if g := groupOf(id); g != nil {
					if g.VerifSnapshotNow() == nil {
						smu.Lock()
						snaps++
						smu.Unlock()
					}
				}
			}
		}(id)
	}
	wg.Wait()
	close(stop)
	sg.Wait()
	want := map[int]crefItem{}
	uncertain := map[int]bool{}
	acked := 0
	for w := range res {
		for k, v := range res[w].ref {
			want[k] = v
		}
		for k := range res[w].uncertain {
			uncertain[k] = true
		}
		acked += res[w].acked
	}
	out.Local("%d acknowledged writes by %d writers, %d snapshot requests answered, %d ids uncertain", acked, W, snaps, len(uncertain))
	if ticker {
		rec := recOf(1)
		rec.mu.Lock()
		n := len(rec.created)
		rec.mu.Unlock()
		if n == 0 {
			out.Count("ticker-did-not-fire")
			out.Local("the snapshot ticker stored nothing within the run (%d writes)", acked)
		}
	}
	out.Count("trial")
	// (1) every snapshot a replica stored is the state after exactly the entries up to its index
	checked, gaps := 0, 0
	for _, id := range cl.ids {
		rec := recOf(id)
		rec.mu.Lock()
		created := append([]raftpb.Snapshot{}, rec.created...)
		rec.mu.Unlock()
		step := 1
		if len(created) > 25 {
			step = len(created) / 25
		}
		for i := len(created) - 1; i >= 0; i -= step {
			sn := created[i]
			wantAt, ok := stateAfter(rec, sn.Metadata.Index)
			if !ok {
				gaps++
				continue
			}
			p := storage.VerifNewPartition(2, pb.Space_Euclidean)
			if err, pan := p.Restore(sn.Data); err != nil || pan != nil {
				out.Violate("C04", "C04/snapshot-unreadable", fmt.Sprintf("node %d: the snapshot stored at index %d cannot be loaded: %v %v", id, sn.Metadata.Index, err, pan))
				continue
			}
			checked++
			if got := partText(p); got != wantAt {
				out.Violate("C04", "C04/snapshot-is-not-a-log-prefix", fmt.Sprintf("node %d stored a snapshot labelled index %d that holds [%s]; the state after exactly the entries 1..%d of its log is [%s]", id, sn.Metadata.Index, clip(got, 600), sn.Metadata.Index, clip(wantAt, 600)))
				break
			}
		}
		if len(created) > 0 {
			out.Nontrivial("snapshot-under-load")
		}
	}
	out.Local("%d stored snapshots compared with the state after their log prefix (%d skipped: log record has a gap)", checked, gaps)
	holds := func(got map[int]crefItem) string {
		var bad []string
		for k, v := range want {
			if uncertain[k] {
				continue
			}
			if g, ok := got[k]; !ok || g.vec != v.vec || mdText(g.md) != mdText(v.md) {
				bad = append(bad, fmt.Sprint(k))
			}
		}
		for k := range got {
			if _, ok := want[k]; !ok && !uncertain[k] {
				bad = append(bad, fmt.Sprintf("+%d", k))
			}
		}
		sort.Strings(bad)
		if len(bad) > 12 {
			bad = append(bad[:12], fmt.Sprintf("… (%d in all)", len(bad)))
		}
		return fmt.Sprint(bad)
	}
	contents := func(id uint64) map[int]crefItem {
		m := map[int]crefItem{}
		d := cl.dataset(id, dsId)
		if d == nil {
			return m
		}
		for _, v := range d.VerifPartitionAt(0).Index().VerifContents() {
			m[int(v.Id[0])|int(v.Id[1])<<8] = crefItem{int(v.Vector[0]), v.Metadata}
		}
		return m
	}
	// (2) the running replicas hold the acknowledged history
	for _, id := range cl.ids {
		id := id
		var bad string
		if !waitFor(15*time.Second, func() bool { bad = holds(contents(id)); return bad == "[]" }) {
			out.Violate("C04", "C04/contents-differ", fmt.Sprintf("node %d (running, %d snapshot requests served in the group) differs from the acknowledged history on ids %s", id, snaps, bad))
		}
	}
	// (3) every replica restarted from its stored snapshot + log suffix holds it too
	for _, id := range cl.ids {
		cl.nodes[id].ctl.kill()
	}
	for _, id := range cl.ids {
		if _, err := cl.restartNode(id); err != nil {
			out.Violate("C04", "C04/restart-fails", fmt.Sprintf("node %d: %v", id, err))
			return
		}
	}
	cl.injectClients(dsId)
	if !waitFor(20*time.Second, func() bool {
		for _, id := range cl.ids {
			if groupOf(id) == nil {
				return false
			}
		}
		return true
	}) {
		out.Violate("C04", "C04/restart-fails", "a partition's raft group was not loaded after the restart")
		return
	}
	cl.dataset(1, dsId).VerifPartitionAt(0).Raft().VerifCampaign()
	for _, id := range cl.ids {
		id := id
		var bad string
		// (the replay of the suffix takes its time: allow for it in proportion to the history)
		if !waitFor(30*time.Second+time.Duration(acked/2000)*time.Second, func() bool { bad = holds(contents(id)); return bad == "[]" }) {
			out.Violate("C04", "C04/snapshot-plus-suffix-differs", fmt.Sprintf("node %d restarted from its stored snapshot plus the log suffix differs from the acknowledged history on ids %s", id, bad))
		}
	}
}

func clip(s string, n int) string {
	if len(s) > n {
		return s[:n] + "…"
	}
	return s
}
