package main

// Engine snapticker (C04 / C03): the real snapshot ticker of a partition's raft group (10 s,
// 5000 new entries) fires while the partition keeps applying writes. Built with the race detector
// by the check: the snapshot must be serialised by the goroutine that applies the entries (a
// snapshot is the state after a prefix of the log), so no access of Save may overlap an apply.
// Afterwards the node is restarted from snapshot + suffix and must hold the acknowledged history.

import (
	"context"
	"fmt"
	"time"

	pb "github.com/marekgalovic/anndb/protobuf"
	"github.com/marekgalovic/anndb/storage"
)

func init() { register("snapticker", runSnapTicker) }

func runSnapTicker(c *Ctx) {
	c.Stats.Rule = "one history: a single-node partition applies more than 5000 writes and keeps writing across the real 10 s snapshot tick; race detector on; then restart from the stored snapshot plus the log suffix; non-trivial = the ticker did store a snapshot"
	c.Begin("snapshot tick under load")
	defer c.End()
	cl := newSimCluster(1)
	cl.enableCrashes()
	defer cl.Close()
	dsId, err := cl.createDataset(1, 2, 1, 1, pb.Space_Euclidean)
	if err != nil {
		c.Note("setup failed: %v", err)
		return
	}
	n := cl.nodes[1]
	r := NewRng(c.Seed)
	ref := map[int]crefItem{}
	var done []crashOp // every answered write, in order: one log entry each
	ctx := context.Background()
	start := time.Now()
	ops := 0
	g := cl.dataset(1, dsId).VerifPartitionAt(0).Raft()
	snapAt := func() uint64 {
		w, ok := g.VerifWAL().(*crashWAL)
		if !ok {
			return 0
		}
		s, _ := w.Snapshot()
		return s.Metadata.Index
	}
	// write until the ticker has stored a snapshot and a good second beyond it (at most 40 s)
	var seenSnap time.Time
	for time.Since(start) < 40*time.Second {
		script := genCrashScript(r.Fork(), 200)
		for i := range script {
			o := &script[i]
			if o.kind == "snap" {
				continue
			}
			octx, cancel := context.WithTimeout(ctx, 5*time.Second)
			e := doCrashOp(octx, n, dsId, o)
			cancel()
			if e == nil || classify(e) == "exists" || classify(e) == "notfound" {
				applyRef(ref, *o)
				done = append(done, *o)
				ops++
			} else {
				c.Note("write failed: %v", e)
			}
		}
		if seenSnap.IsZero() && snapAt() > 0 {
			seenSnap = time.Now()
		}
		if !seenSnap.IsZero() && time.Since(seenSnap) > 1500*time.Millisecond {
			break
		}
	}
	si := snapAt()
	c.OpLocal("%d writes in %s; the ticker stored a snapshot at index %d", ops, time.Since(start).Round(time.Millisecond), si)
	if si > 0 {
		c.Nontrivial("ticker-snapshot")
	} else {
		c.Note("the snapshot ticker did not fire within the run (%d writes)", ops)
	}
	// the stored snapshot is the state after a prefix of the log: exactly the entries up to its index
	if w, ok := g.VerifWAL().(*crashWAL); ok && si > 0 && len(done) == ops {
		sn, _ := w.Snapshot()
		last := g.VerifStatus().Applied
		offset := int(last) - ops // membership and election entries in front of the writes
		upto := int(sn.Metadata.Index) - offset
		if offset >= 0 && upto >= 0 && upto <= len(done) {
			at := map[int]crefItem{}
			for i := 0; i < upto; i++ {
				applyRef(at, done[i])
			}
			p := storage.VerifNewPartition(2, pb.Space_Euclidean)
			if err, pan := p.Restore(sn.Data); err != nil || pan != nil {
				c.Violate("C04", "C04/snapshot-unreadable", fmt.Sprintf("the snapshot stored by the ticker cannot be loaded: %v %v", err, pan), c.History())
			} else {
				m := map[int]crefItem{}
				for _, v := range p.Index().VerifContents() {
					m[int(v.Id[0])|int(v.Id[1])<<8] = crefItem{int(v.Vector[0]), v.Metadata}
				}
				if got, want := refText(m), refText(at); got != want {
					c.Violate("C04", "C04/snapshot-is-not-a-log-prefix", fmt.Sprintf("the snapshot stored at index %d (= after %d of the %d writes) holds [%s]; the state after exactly those writes is [%s]", sn.Metadata.Index, upto, ops, got, want), c.History())
				}
				c.OpLocal("snapshot at index %d = state after %d writes: checked", sn.Metadata.Index, upto)
			}
		} else {
			c.Note("cannot align the snapshot index with the write count (last=%d ops=%d snapshot=%d)", last, ops, sn.Metadata.Index)
		}
	}
	want := refText(ref)
	if got, _ := contentsOf(cl, 1, dsId); got != want {
		c.Violate("C04", "C04/contents-differ", fmt.Sprintf("before the restart the node holds [%s], the acknowledged history gives [%s]", got, want), c.History())
	}
	// restart: stored snapshot + replay of the suffix
	n.ctl.kill()
	if _, err := cl.restartNode(1); err != nil {
		c.Violate("C04", "C04/restart-fails", err.Error(), c.History())
		return
	}
	cl.injectClients(dsId)
	d := cl.dataset(1, dsId)
	if d == nil || !waitFor(20*time.Second, func() bool { return d.VerifPartitionAt(0).HasRaft() }) {
		c.Violate("C04", "C04/restart-fails", "the partition's raft group was not loaded after the restart", c.History())
		return
	}
	d.VerifPartitionAt(0).Raft().VerifCampaign()
	var got string
	ok := waitFor(30*time.Second, func() bool {
		got, _ = contentsOf(cl, 1, dsId)
		return got == want
	})
	if !ok {
		c.Violate("C04", "C04/snapshot-plus-suffix-differs", fmt.Sprintf("after a restart from the ticker's snapshot (index %d) plus the log suffix the node holds [%s]; the acknowledged history gives [%s]", si, got, want), c.History())
	}
}
