package main

// Engine snapticker (C04 / C03): the real snapshot ticker of a partition's raft group (10 s,
// 5000 new entries) fires while the partition keeps applying writes. Built with the race detector
// by the check: the snapshot must be serialised by the goroutine that applies the entries (a
// snapshot is the state after a prefix of the log), so no access of Save may overlap an apply.
// Afterwards the node is restarted from snapshot + suffix and must hold the acknowledged history.

import (
	"context"
	"fmt"
	"reflect"
	"sort"
	"sync"
	"time"

	"github.com/coreos/etcd/raft/raftpb"

	pb "github.com/marekgalovic/anndb/protobuf"
	"github.com/marekgalovic/anndb/storage"
)

func init() {
	register("snapticker", runSnapTicker)
	childHandlers["snapload"] = childSnapLoad
}

func runSnapTicker(c *Ctx) {
	defer func() {
		// replicated groups, concurrent writers, snapshots requested on every replica all the time
		for i, n := 0, c.Pick(2, 10); i < n; i++ {
			streamChild(c, 5*time.Minute, "C04", "snapload", fmt.Sprint(c.Seed*100+uint64(i)), c.Tier)
		}
	}()
	c.Stats.Rule = "(a) snapshots requested every few ms on every replica of a 2-3 replica partition while 4 writers write through the leader: every stored snapshot = the state after exactly the log entries up to its index (entries recorded by the harness's log-store wrapper), replicas agree, and all replicas restarted from snapshot + suffix hold every acknowledged write; (b) one history: a single-node partition applies more than 5000 writes and keeps writing across the real 10 s snapshot tick; race detector on; then restart from the stored snapshot plus the log suffix; non-trivial = the ticker did store a snapshot"
	c.Begin("snapshot tick under load")
	defer c.End()
	cl := newSimCluster(1)
	cl.enableCrashes()
	defer cl.Close()
	dsId, err := cl.createDataset(1, 2, 1, 1, pb.Space_Euclidean)
	if err != nil {
		c.Note("setup failed: %v", err)
		return
	}
	n := cl.nodes[1]
	r := NewRng(c.Seed)
	ref := map[int]crefItem{}
	var done []crashOp // every answered write, in order: one log entry each
	ctx := context.Background()
	start := time.Now()
	ops := 0
	g := cl.dataset(1, dsId).VerifPartitionAt(0).Raft()
	snapAt := func() uint64 {
		w, ok := g.VerifWAL().(*crashWAL)
		if !ok {
			return 0
		}
		s, _ := w.Snapshot()
		return s.Metadata.Index
	}
	// write until the ticker has stored a snapshot and a good second beyond it (at most 40 s)
	var seenSnap time.Time
	for time.Since(start) < 40*time.Second {
		script := genCrashScript(r.Fork(), 200)
		for i := range script {
			o := &script[i]
			if o.kind == "snap" {
				continue
			}
			octx, cancel := context.WithTimeout(ctx, 5*time.Second)
			e := doCrashOp(octx, n, dsId, o)
			cancel()
			if e == nil || classify(e) == "exists" || classify(e) == "notfound" {
				applyRef(ref, *o)
				done = append(done, *o)
				ops++
			} else {
				c.Note("write failed: %v", e)
			}
		}
		if seenSnap.IsZero() && snapAt() > 0 {
			seenSnap = time.Now()
		}
		if !seenSnap.IsZero() && time.Since(seenSnap) > 1500*time.Millisecond {
			break
		}
	}
	si := snapAt()
	c.OpLocal("%d writes in %s; the ticker stored a snapshot at index %d", ops, time.Since(start).Round(time.Millisecond), si)
	if si > 0 {
		c.Nontrivial("ticker-snapshot")
	} else {
		c.Note("the snapshot ticker did not fire within the run (%d writes)", ops)
	}
	// the stored snapshot is the state after a prefix of the log: exactly the entries up to its index
	if w, ok := g.VerifWAL().(*crashWAL); ok && si > 0 && len(done) == ops {
		sn, _ := w.Snapshot()
		last := g.VerifStatus().Applied
		offset := int(last) - ops // membership and election entries in front of the writes
		upto := int(sn.Metadata.Index) - offset
		if offset >= 0 && upto >= 0 && upto <= len(done) {
			at := map[int]crefItem{}
			for i := 0; i < upto; i++ {
				applyRef(at, done[i])
			}
			p := storage.VerifNewPartition(2, pb.Space_Euclidean)
			if err, pan := p.Restore(sn.Data); err != nil || pan != nil {
				c.Violate("C04", "C04/snapshot-unreadable", fmt.Sprintf("the snapshot stored by the ticker cannot be loaded: %v %v", err, pan), c.History())
			} else {
				m := map[int]crefItem{}
				for _, v := range p.Index().VerifContents() {
					m[int(v.Id[0])|int(v.Id[1])<<8] = crefItem{int(v.Vector[0]), v.Metadata}
				}
				if got, want := refText(m), refText(at); got != want {
					c.Violate("C04", "C04/snapshot-is-not-a-log-prefix", fmt.Sprintf("the snapshot stored at index %d (= after %d of the %d writes) holds [%s]; the state after exactly those writes is [%s]", sn.Metadata.Index, upto, ops, got, want), c.History())
				}
				c.OpLocal("snapshot at index %d = state after %d writes: checked", sn.Metadata.Index, upto)
			}
		} else {
			c.Note("cannot align the snapshot index with the write count (last=%d ops=%d snapshot=%d)", last, ops, sn.Metadata.Index)
		}
	}
	want := refText(ref)
	if got, _ := contentsOf(cl, 1, dsId); got != want {
		c.Violate("C04", "C04/contents-differ", fmt.Sprintf("before the restart the node holds [%s], the acknowledged history gives [%s]", got, want), c.History())
	}
	// restart: stored snapshot + replay of the suffix
	n.ctl.kill()
	if _, err := cl.restartNode(1); err != nil {
		c.Violate("C04", "C04/restart-fails", err.Error(), c.History())
		return
	}
	cl.injectClients(dsId)
	d := cl.dataset(1, dsId)
	if d == nil || !waitFor(20*time.Second, func() bool { return d.VerifPartitionAt(0).HasRaft() }) {
		c.Violate("C04", "C04/restart-fails", "the partition's raft group was not loaded after the restart", c.History())
		return
	}
	d.VerifPartitionAt(0).Raft().VerifCampaign()
	var got string
	ok := waitFor(30*time.Second, func() bool {
		got, _ = contentsOf(cl, 1, dsId)
		return got == want
	})
	if !ok {
		c.Violate("C04", "C04/snapshot-plus-suffix-differs", fmt.Sprintf("after a restart from the ticker's snapshot (index %d) plus the log suffix the node holds [%s]; the acknowledged history gives [%s]", si, got, want), c.History())
	}
}


// ---------------------------------------------------------------- snapshots under replicated load

// stateAfter applies the recorded normal entries 1..upto to a fresh partition and lists it.
// ok=false when the record has a gap (the replica was caught up by an installed snapshot).
func stateAfter(rec *walRec, upto uint64) (string, bool) {
	p := storage.VerifNewPartition(2, pb.Space_Euclidean)
	rec.mu.Lock()
	var es []raftpb.Entry
	for i := uint64(1); i <= upto; i++ {
		e, ok := rec.ents[i]
		if !ok {
			rec.mu.Unlock()
			return "", false
		}
		es = append(es, e)
	}
	rec.mu.Unlock()
	for _, e := range es {
		if e.Type == raftpb.EntryNormal && len(e.Data) > 0 {
			p.ApplyEntry(e.Data)
		}
	}
	return partText(p), true
}

func partText(p *storage.VerifPartition) string {
	m := map[int]crefItem{}
	for _, v := range p.Index().VerifContents() {
		m[int(v.Id[0])|int(v.Id[1])<<8] = crefItem{int(v.Vector[0]), v.Metadata}
	}
	return refText(m)
}

// child: snapload <seed> <tier>
func childSnapLoad(args []string) {
	var seed uint64
	fmt.Sscan(args[0], &seed)
	thorough := len(args) > 1 && args[1] == "thorough"
	out := cout
	defer out.Done()
	r := NewRng(seed)
	N := 2 + r.Intn(2)
	out.Begin(fmt.Sprintf("snapshots under load, %d replicas, seed %d", N, seed))
	defer out.End()
	cl := newSimCluster(N)
	cl.enableCrashes()
	defer cl.Close()
	dsId, err := cl.createDataset(1, 2, 1, uint32(N), pb.Space_Euclidean)
	if err != nil {
		out.Count("setup-failed")
		out.Local("setup failed: %v", err)
		return
	}
	gid := cl.dataset(1, dsId).VerifPartitionAt(0).Id()
	recOf := func(id uint64) *walRec {
		return walRecFor(reflect.ValueOf(cl.nodes[id].db).Pointer(), gid)
	}
	groupOf := func(id uint64) interface{ VerifSnapshotNow() error } {
		d := cl.dataset(id, dsId)
		if d == nil || !d.VerifPartitionAt(0).HasRaft() {
			return nil
		}
		return d.VerifPartitionAt(0).Raft()
	}
	if !waitFor(20*time.Second, func() bool {
		for _, id := range cl.ids {
			if groupOf(id) == nil {
				return false
			}
		}
		return true
	}) {
		out.Count("setup-failed")
		out.Local("setup failed: not every replica started its group")
		return
	}
	// writers: disjoint id ranges, each writer sequential (so the final state is determined by the
	// per-writer histories); an op whose outcome is unknown makes its id "uncertain"
	const W = 4
	per := 150
	if thorough {
		per = 400
	}
	type wres struct {
		ref       map[int]crefItem
		uncertain map[int]bool
		acked     int
	}
	res := make([]wres, W)
	stop := make(chan struct{})
	var wg, sg sync.WaitGroup
	for w := 0; w < W; w++ {
		res[w] = wres{ref: map[int]crefItem{}, uncertain: map[int]bool{}}
		wg.Add(1)
		go func(w int, r *Rng) {
			defer wg.Done()
			st := &res[w]
			var own []int
			next := 0
			for i := 0; i < per; i++ {
				var o crashOp
				switch k := r.Intn(10); {
				case k < 7 || len(own) == 0:
					o = crashOp{kind: "ins", ids: []int{w*4000 + next}, vec: r.Intn(50), md: fmt.Sprintf("w=%d", w)}
					next++
				case k < 8:
					o = crashOp{kind: "del", ids: []int{own[r.Intn(len(own))]}}
				default:
					o = crashOp{kind: "upd", ids: []int{own[r.Intn(len(own))]}, vec: r.Intn(50), md: fmt.Sprintf("u=%d", i)}
				}
				ctx, cancel := context.WithTimeout(context.Background(), 5*time.Second)
				e := doCrashOp(ctx, cl.nodes[1], dsId, &o)
				cancel()
				switch classify(e) {
				case "ok":
					applyRef(st.ref, o)
					st.acked++
					if o.kind == "ins" {
						own = append(own, o.ids[0])
					}
					if o.kind == "del" {
						for j, x := range own {
							if x == o.ids[0] {
								own = append(own[:j], own[j+1:]...)
								break
							}
						}
					}
				case "exists", "notfound":
					// answered by the replicated state itself: consistent with the reference only
					// if an earlier op on that id was uncertain
					st.uncertain[o.ids[0]] = true
				default:
					st.uncertain[o.ids[0]] = true
				}
			}
		}(w, r.Fork())
	}
	snaps := 0
	var smu sync.Mutex
	for _, id := range cl.ids {
		sg.Add(1)
		go func(id uint64) {
			defer sg.Done()
			for {
				select {
				case <-stop:
					return
				case <-time.After(2 * time.Millisecond):
				}
				if g := groupOf(id); g != nil {
					if g.VerifSnapshotNow() == nil {
						smu.Lock()
						snaps++
						smu.Unlock()
					}
				}
			}
		}(id)
	}
	wg.Wait()
	close(stop)
	sg.Wait()
	want := map[int]crefItem{}
	uncertain := map[int]bool{}
	acked := 0
	for w := range res {
		for k, v := range res[w].ref {
			want[k] = v
		}
		for k := range res[w].uncertain {
			uncertain[k] = true
		}
		acked += res[w].acked
	}
	out.Local("%d acknowledged writes by %d writers, %d snapshot requests answered, %d ids uncertain", acked, W, snaps, len(uncertain))
	out.Count("trial")
	// (1) every snapshot a replica stored is the state after exactly the entries up to its index
	checked, gaps := 0, 0
	for _, id := range cl.ids {
		rec := recOf(id)
		rec.mu.Lock()
		created := append([]raftpb.Snapshot{}, rec.created...)
		rec.mu.Unlock()
		step := 1
		if len(created) > 25 {
			step = len(created) / 25
		}
		for i := len(created) - 1; i >= 0; i -= step {
			sn := created[i]
			wantAt, ok := stateAfter(rec, sn.Metadata.Index)
			if !ok {
				gaps++
				continue
			}
			p := storage.VerifNewPartition(2, pb.Space_Euclidean)
			if err, pan := p.Restore(sn.Data); err != nil || pan != nil {
				out.Violate("C04", "C04/snapshot-unreadable", fmt.Sprintf("node %d: the snapshot stored at index %d cannot be loaded: %v %v", id, sn.Metadata.Index, err, pan))
				continue
			}
			checked++
			if got := partText(p); got != wantAt {
				out.Violate("C04", "C04/snapshot-is-not-a-log-prefix", fmt.Sprintf("node %d stored a snapshot labelled index %d that holds [%s]; the state after exactly the entries 1..%d of its log is [%s]", id, sn.Metadata.Index, clip(got, 600), sn.Metadata.Index, clip(wantAt, 600)))
				break
			}
		}
		if len(created) > 0 {
			out.Nontrivial("snapshot-under-load")
		}
	}
	out.Local("%d stored snapshots compared with the state after their log prefix (%d skipped: log record has a gap)", checked, gaps)
	holds := func(got map[int]crefItem) string {
		var bad []string
		for k, v := range want {
			if uncertain[k] {
				continue
			}
			if g, ok := got[k]; !ok || g.vec != v.vec || mdText(g.md) != mdText(v.md) {
				bad = append(bad, fmt.Sprint(k))
			}
		}
		for k := range got {
			if _, ok := want[k]; !ok && !uncertain[k] {
				bad = append(bad, fmt.Sprintf("+%d", k))
			}
		}
		sort.Strings(bad)
		if len(bad) > 12 {
			bad = append(bad[:12], fmt.Sprintf("… (%d in all)", len(bad)))
		}
		return fmt.Sprint(bad)
	}
	contents := func(id uint64) map[int]crefItem {
		m := map[int]crefItem{}
		d := cl.dataset(id, dsId)
		if d == nil {
			return m
		}
		for _, v := range d.VerifPartitionAt(0).Index().VerifContents() {
			m[int(v.Id[0])|int(v.Id[1])<<8] = crefItem{int(v.Vector[0]), v.Metadata}
		}
		return m
	}
	// (2) the running replicas hold the acknowledged history
	for _, id := range cl.ids {
		id := id
		var bad string
		if !waitFor(15*time.Second, func() bool { bad = holds(contents(id)); return bad == "[]" }) {
			out.Violate("C04", "C04/contents-differ", fmt.Sprintf("node %d (running, %d snapshot requests served in the group) differs from the acknowledged history on ids %s", id, snaps, bad))
		}
	}
	// (3) every replica restarted from its stored snapshot + log suffix holds it too
	for _, id := range cl.ids {
		cl.nodes[id].ctl.kill()
	}
	for _, id := range cl.ids {
		if _, err := cl.restartNode(id); err != nil {
			out.Violate("C04", "C04/restart-fails", fmt.Sprintf("node %d: %v", id, err))
			return
		}
	}
	cl.injectClients(dsId)
	if !waitFor(20*time.Second, func() bool {
		for _, id := range cl.ids {
			if groupOf(id) == nil {
				return false
			}
		}
		return true
	}) {
		out.Violate("C04", "C04/restart-fails", "a partition's raft group was not loaded after the restart")
		return
	}
	cl.dataset(1, dsId).VerifPartitionAt(0).Raft().VerifCampaign()
	for _, id := range cl.ids {
		id := id
		var bad string
		if !waitFor(30*time.Second, func() bool { bad = holds(contents(id)); return bad == "[]" }) {
			out.Violate("C04", "C04/snapshot-plus-suffix-differs", fmt.Sprintf("node %d restarted from its stored snapshot plus the log suffix differs from the acknowledged history on ids %s", id, bad))
		}
	}
}

func clip(s string, n int) string {
	if len(s) > n {
		return s[:n] + "…"
	}
	return s
}
