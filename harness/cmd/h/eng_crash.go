package main

// Engine crash (C03): the full storage stack (DatasetManager, Dataset, partitions, real raft
// groups over the real Badger log store) on 1 node (the hosting node crashes) or 3 nodes with
// replication 3 (a minority crashes). A write script (insert / update / remove / batch insert /
// batch remove, with forced snapshot+compaction in between) is issued by one sequential client.
// Crash points are enumerated, not sampled: a dry run counts the durable writes W the victim
// performs during the script (Save of entries / hard state / received snapshot, CreateSnapshot);
// then for every k in 1..W (quick tier: an evenly spread subset) and both phases (immediately
// before / immediately after the k-th write reaches the store) the script is run again on a
// fresh cluster with the victim dying exactly there. The victim is restarted over the same
// database; once its partitions have replayed, the contents of every replica are compared with
// the acknowledged history, optionally extended by the one write that was in flight, through
// the Lean recovery model (driver `recovery`).

import (
	"context"
	"fmt"
	"os"
	"sort"
	"strconv"
	"strings"
	"time"

	amath "github.com/marekgalovic/anndb/math"
	pb "github.com/marekgalovic/anndb/protobuf"
	uuid "github.com/satori/go.uuid"
)

func init() {
	register("crash", runCrash)
	childHandlers["crash"] = childCrash
}

func runCrash(c *Ctx) {
	c.Stats.Rule = "write scripts on the full storage stack, 1 node or 3 nodes (replication 3); for each script a dry run counts the victim's durable writes W, then the script is re-run with the victim dying immediately before / after the k-th write for every k (quick: <= 8 spread values of k) and restarted; a trial = one (script, k, phase); non-trivial = the crash hit while a write was in flight or after a compaction; distinct = distinct (script, k, phase)"
	scripts := c.ArgInt("scripts", c.Pick(3, 16))
	for s := 0; s < scripts; s++ {
		streamChild(c, 20*time.Minute, "C03", "crash", fmt.Sprint(c.Seed*1000+uint64(s)), c.Tier, c.Args["points"])
	}
	if c.Stats.Hist["setup-failed"]*4 > c.Stats.Evaluations {
		// most scenarios could not even be set up: the run says nothing, and must not pass for a clean one
		c.Note("%d of %d trials could not be set up", c.Stats.Hist["setup-failed"], c.Stats.Evaluations)
		c.close()
		os.Exit(3)
	}
}

type crashOp struct {
	kind  string // ins upd del bins bdel snap
	ids   []int
	vec   int
	md    string
	line  string
	acked bool
	res   string
}

func vecOf(i int) amath.Vector { return amath.Vector{float32(i), float32((i * i) % 7)} }

func mdOf(s string) map[string]string {
	if s == "-" || s == "" {
		return nil
	}
	m := map[string]string{}
	for _, kv := range strings.Split(s, ",") {
		p := strings.SplitN(kv, "=", 2)
		m[p[0]] = p[1]
	}
	return m
}

func genCrashScript(r *Rng, n int) []crashOp {
	var ops []crashOp
	live := map[int]bool{}
	mds := []string{"-", "a=1", "a=2,b=x", "c=zz"}
	for len(ops) < n {
		id := 1 + r.Intn(12)
		vec := r.Intn(20)
		md := mds[r.Intn(len(mds))]
		switch k := r.Intn(100); {
		case k < 40:
			ops = append(ops, crashOp{kind: "ins", ids: []int{id}, vec: vec, md: md, line: fmt.Sprintf("ins %d %d 0 %s", id, vec, md)})
			live[id] = true
		case k < 55:
			ops = append(ops, crashOp{kind: "upd", ids: []int{id}, vec: vec, md: md, line: fmt.Sprintf("upd %d %d %s", id, vec, md)})
		case k < 68:
			ops = append(ops, crashOp{kind: "del", ids: []int{id}, line: fmt.Sprintf("del %d", id)})
		case k < 78:
			var ids []int
			var parts []string
			for i := 0; i < 2+r.Intn(3); i++ {
				x := 1 + r.Intn(12)
				ids = append(ids, x)
				parts = append(parts, fmt.Sprintf("%d %d 0 %s", x, vec, md))
			}
			ops = append(ops, crashOp{kind: "bins", ids: ids, vec: vec, md: md, line: "bins " + strings.Join(parts, " ")})
		case k < 85:
			var ids []int
			var parts []string
			for i := 0; i < 2+r.Intn(3); i++ {
				x := 1 + r.Intn(12)
				ids = append(ids, x)
				parts = append(parts, fmt.Sprint(x))
			}
			ops = append(ops, crashOp{kind: "bdel", ids: ids, line: "bdel " + strings.Join(parts, " ")})
		default:
			ops = append(ops, crashOp{kind: "snap", line: "snap"})
		}
	}
	return ops
}

// reference map of the harness (the oracle's own bookkeeping; the Lean driver recomputes it)
type crefItem struct {
	vec int
	md  map[string]string
}

func applyRef(m map[int]crefItem, o crashOp) {
	switch o.kind {
	case "ins":
		if _, ok := m[o.ids[0]]; !ok {
			m[o.ids[0]] = crefItem{o.vec, mdOf(o.md)}
		}
	case "upd":
		if it, ok := m[o.ids[0]]; ok {
			md := map[string]string{}
			for k, v := range mdOf(o.md) {
				md[k] = v
			}
			for k, v := range it.md {
				if _, has := md[k]; !has {
					md[k] = v
				}
			}
			m[o.ids[0]] = crefItem{o.vec, md}
		}
	case "del":
		delete(m, o.ids[0])
	case "bins":
		for _, id := range o.ids {
			if _, ok := m[id]; !ok {
				m[id] = crefItem{o.vec, mdOf(o.md)}
			}
		}
	case "bdel":
		for _, id := range o.ids {
			delete(m, id)
		}
	}
}

func refText(m map[int]crefItem) string {
	var ids []int
	for id := range m {
		ids = append(ids, id)
	}
	sort.Ints(ids)
	var ss []string
	for _, id := range ids {
		ss = append(ss, fmt.Sprintf("%d:v%d:%s", id, m[id].vec, mdText(m[id].md)))
	}
	return strings.TrimRight("C "+strings.Join(ss, " "), " ")
}

func mdText(m map[string]string) string {
	if len(m) == 0 {
		return "-"
	}
	var ks []string
	for k := range m {
		ks = append(ks, k)
	}
	sort.Strings(ks)
	var ss []string
	for _, k := range ks {
		ss = append(ss, k+"="+m[k])
	}
	return strings.Join(ss, ",")
}

func copyRef(m map[int]crefItem) map[int]crefItem {
	r := map[int]crefItem{}
	for k, v := range m {
		r[k] = v
	}
	return r
}

// contentsOf dumps what node n holds of the dataset (union over its partitions).
func contentsOf(cl *simCluster, node uint64, ds uuid.UUID) (string, bool) {
	d := cl.dataset(node, ds)
	if d == nil {
		return "", false
	}
	m := map[int]crefItem{}
	for pi := 0; pi < d.VerifPartitionCount(); pi++ {
		// (the partition may be replaying its log while this runs: the listing takes the shard locks)
		for _, v := range d.VerifPartitionAt(pi).Index().VerifContents() {
			m[int(v.Id[0])|int(v.Id[1])<<8] = crefItem{int(v.Vector[0]), v.Metadata}
		}
	}
	return refText(m), true
}

type crashRun struct {
	writes   int    // durable writes of the victim during the script (dry run)
	trace    []string
	died     bool
	summary  string
}

func childCrash(args []string) {
	seed, _ := strconv.ParseUint(args[0], 10, 64)
	thorough := len(args) > 1 && args[1] == "thorough"
	maxPoints := 8
	if thorough {
		maxPoints = 1 << 30
	}
	if len(args) > 2 && args[2] != "" {
		maxPoints, _ = strconv.Atoi(args[2])
	}
	r := NewRng(seed)
	if seed%1000 == 0 {
		crashCorpusEmptySnapshot(cout)
	}
	N := 1
	if r.Intn(5) < 2 {
		N = 3
	}
	P := 1 + r.Intn(2)
	nOps := 8 + r.Intn(8)
	if thorough {
		nOps += r.Intn(10)
	}
	script := genCrashScript(r.Fork(), nOps)
	victim := uint64(1 + r.Intn(N))
	// ---- dry run: count the victim's durable writes
	dry := crashTrial(cout, script, N, P, victim, 0, false, true)
	if dry.writes == 0 {
		cout.Done()
		os.Exit(0)
	}
	var ks []int
	if dry.writes <= maxPoints {
		for k := 1; k <= dry.writes; k++ {
			ks = append(ks, k)
		}
	} else {
		for i := 0; i < maxPoints; i++ {
			ks = append(ks, 1+i*(dry.writes-1)/(maxPoints-1))
		}
	}
	for _, k := range ks {
		for _, before := range []bool{true, false} {
			crashTrial(cout, script, N, P, victim, k, before, false)
		}
	}
	cout.Done()
	os.Exit(0)
}

func crashTrial(out *childOut, script []crashOp, N, P int, victim uint64, k int, before, dry bool) crashRun {
	var run crashRun
	label := fmt.Sprintf("crash N=%d P=%d victim=%d k=%d before=%v", N, P, victim, k, before)
	if dry {
		label = fmt.Sprintf("crash dry-run N=%d P=%d victim=%d", N, P, victim)
	}
	out.Begin(label)
	defer out.End()
	cl := newSimCluster(N)
	cl.enableCrashes()
	defer cl.Close()
	dsId, err := cl.createDataset(1, 2, uint32(P), uint32(N), pb.Space_Euclidean)
	if err != nil {
		// the scenario could not be set up (no write has been attempted): not a statement about C03
		out.Local("setup failed, trial skipped: %v", err)
		out.Count("setup-failed")
		return run
	}
	out.Op("new 2")
	out.Res("ok")
	vctl := cl.nodes[victim].ctl
	base := vctl.count()
	if !dry {
		vctl.armAbs(base+k, before)
	}
	ref := map[int]crefItem{}
	var inflight *crashOp
	compacted := false
	via := func() *simNode { // the client talks to a live node
		for _, id := range cl.ids {
			if n := cl.nodes[id]; !n.isDead() {
				return n
			}
		}
		return nil
	}
	crashedAtOp := -1
	for i := range script {
		o := &script[i]
		if vctl.isDead() && crashedAtOp < 0 {
			crashedAtOp = i
			if N == 1 {
				break // the only node is down: the client stops
			}
		}
		n := via()
		if n == nil {
			break
		}
		ctx, cancel := context.WithTimeout(context.Background(), 1500*time.Millisecond)
		var rerr error
		switch o.kind {
		case "ins":
			_, rerr = n.dmSrv.Insert(ctx, &pb.InsertRequest{DatasetId: dsId.Bytes(), Id: rid(o.ids[0]).Bytes(), Value: vecOf(o.vec), Metadata: mdOf(o.md)})
		case "upd":
			_, rerr = n.dmSrv.Update(ctx, &pb.UpdateRequest{DatasetId: dsId.Bytes(), Id: rid(o.ids[0]).Bytes(), Value: vecOf(o.vec), Metadata: mdOf(o.md)})
		case "del":
			_, rerr = n.dmSrv.Remove(ctx, &pb.RemoveRequest{DatasetId: dsId.Bytes(), Id: rid(o.ids[0]).Bytes()})
		case "bins":
			var items []*pb.BatchItem
			for _, id := range o.ids {
				items = append(items, &pb.BatchItem{Id: rid(id).Bytes(), Value: vecOf(o.vec), Metadata: mdOf(o.md)})
			}
			_, rerr = n.dmSrv.BatchInsert(ctx, &pb.BatchRequest{DatasetId: dsId.Bytes(), Items: items})
		case "bdel":
			var items []*pb.BatchItem
			for _, id := range o.ids {
				items = append(items, &pb.BatchItem{Id: rid(id).Bytes()})
			}
			_, rerr = n.dmSrv.BatchRemove(ctx, &pb.BatchRequest{DatasetId: dsId.Bytes(), Items: items})
		case "snap":
			d := cl.dataset(n.id, dsId)
			for pi := 0; pi < d.VerifPartitionCount(); pi++ {
				if g := d.VerifPartitionAt(pi).Raft(); g != nil {
					done := make(chan error, 1)
					go func() { done <- g.VerifSnapshotNow() }()
					select {
					case e := <-done:
						if e == nil {
							compacted = true
						}
					case <-time.After(500 * time.Millisecond):
					}
				}
			}
			cancel()
			out.Local("snap")
			continue
		}
		cancel()
		definite := rerr == nil || strings.Contains(rerr.Error(), "already exists") || strings.Contains(rerr.Error(), "not found")
		if definite {
			o.acked = true
			applyRef(ref, *o)
			out.Op("ack %s", o.line)
			out.Res("ok")
		} else {
			// no answer (or an error that leaves the outcome open): at most this one write is in flight
			if inflight != nil {
				out.Violate("C03", "C03/harness", "two writes in flight in a sequential client")
			}
			inflight = o
			out.Op("inflight %s", o.line)
			out.Res("ok")
			out.Local("unanswered: %v", rerr)
			if N == 1 {
				break
			}
			// the group needs a moment to re-elect if the victim led it
			time.Sleep(300 * time.Millisecond)
			if !vctl.isDead() {
				// an unanswered write without a crash: keep going, it stays 'in flight'
			}
			// only one write may be open at a time for the admissible-state check: stop the script here
			break
		}
	}
	run.writes = vctl.count() - base
	vctl.mu.Lock()
	run.trace = append([]string{}, vctl.trace...)
	vctl.mu.Unlock()
	if dry {
		out.Local("durable writes of node %d during the script: %d (%s)", victim, run.writes, strings.Join(run.trace[base:], " "))
		return run
	}
	if !vctl.isDead() {
		// the script ended before the k-th write: kill the victim now (a crash while idle)
		vctl.kill()
	}
	run.died = true
	time.Sleep(20 * time.Millisecond)
	// ---- restart
	nn, err := cl.restartNode(victim)
	if err != nil {
		out.Violate("C03", "C03/restart-fails", fmt.Sprintf("restart of node %d after a crash %s write %d failed: %v", victim, map[bool]string{true: "before", false: "after"}[before], k, err))
		return run
	}
	cl.injectClients(dsId)
	d := cl.dataset(victim, dsId)
	if d == nil {
		out.Violate("C03", "C03/restart-fails", "the restarted node does not list the dataset")
		return run
	}
	if !waitFor(10*time.Second, func() bool {
		for pi := 0; pi < d.VerifPartitionCount(); pi++ {
			if !d.VerifPartitionAt(pi).HasRaft() {
				return false
			}
		}
		return true
	}) {
		out.Violate("C03", "C03/restart-fails", "the restarted node did not load its partitions' raft groups within 10 s")
		return run
	}
	if N == 1 {
		for pi := 0; pi < d.VerifPartitionCount(); pi++ {
			d.VerifPartitionAt(pi).Raft().VerifCampaign()
		}
	}
	_ = nn
	// the admissible recovered states: the acknowledged history, optionally extended by the in-flight write
	cand := []string{refText(ref)}
	if inflight != nil {
		if inflight.kind == "bins" || inflight.kind == "bdel" {
			// a batch is proposed per partition: any per-partition subset may have been committed
			parts := map[int][]int{}
			for _, id := range inflight.ids {
				pi := d.VerifOwnerIndex(rid(id))
				parts[pi] = append(parts[pi], id)
			}
			var keys []int
			for pi := range parts {
				keys = append(keys, pi)
			}
			sort.Ints(keys)
			for mask := 1; mask < 1<<uint(len(keys)); mask++ {
				r2 := copyRef(ref)
				sub := *inflight
				sub.ids = nil
				for bi, pi := range keys {
					if mask&(1<<uint(bi)) != 0 {
						sub.ids = append(sub.ids, parts[pi]...)
					}
				}
				// keep the request's item order
				order := map[int]int{}
				for i, id := range inflight.ids {
					if _, ok := order[id]; !ok {
						order[id] = i
					}
				}
				sort.Slice(sub.ids, func(a, b int) bool { return order[sub.ids[a]] < order[sub.ids[b]] })
				applyRef(r2, sub)
				cand = append(cand, refText(r2))
			}
		} else {
			r2 := copyRef(ref)
			applyRef(r2, *inflight)
			cand = append(cand, refText(r2))
		}
	}
	matches := func(s string) int {
		for i, c := range cand {
			if c == s {
				return i
			}
		}
		return -1
	}
	var got string
	ok := waitFor(15*time.Second, func() bool {
		s, has := contentsOf(cl, victim, dsId)
		got = s
		if !has || matches(s) < 0 {
			return false
		}
		// all live replicas agree
		for _, id := range cl.ids {
			if s2, has := contentsOf(cl, id, dsId); !has || s2 != s {
				return false
			}
		}
		return true
	})
	j := matches(got)
	if !ok || j < 0 {
		var per []string
		for _, id := range cl.ids {
			s2, _ := contentsOf(cl, id, dsId)
			per = append(per, fmt.Sprintf("node %d: [%s]", id, s2))
		}
		what := fmt.Sprintf("crash of node %d immediately %s its durable write %d of the script (%s), restart, replay: 15 s later %s; the acknowledged history gives [%s]", victim, map[bool]string{true: "before", false: "after"}[before], k, traceAt(run.trace, base+k), strings.Join(per, " "), cand[0])
		if inflight != nil {
			what += fmt.Sprintf(", or with the in-flight write %q [%s]", inflight.line, cand[len(cand)-1])
		}
		sig := "C03/recovered-differs"
		if compacted {
			sig = "C03/recovered-differs-after-compaction"
		}
		out.Violate("C03", sig, what)
		j = 0
	}
	jj := 0
	if j > 0 {
		jj = 1
	}
	if j > 1 || (j == 1 && inflight != nil && (inflight.kind == "bins" || inflight.kind == "bdel") && len(cand) > 2) {
		// partial batch: tell the model which items made it
		out.Local("partial in-flight batch candidate %d of %d", j, len(cand)-1)
		out.Op("recover-as %s", cand[j][2:])
		out.Res("%s", got)
	} else {
		out.Op("recover %d", jj)
		out.Res("%s", got)
	}
	// liveness after recovery: a fresh write is acknowledged and visible
	ctx, cancel := context.WithTimeout(context.Background(), 5*time.Second)
	_, perr := cl.nodes[victim].dmSrv.Insert(ctx, &pb.InsertRequest{DatasetId: dsId.Bytes(), Id: rid(99).Bytes(), Value: vecOf(5)})
	cancel()
	if perr != nil && !strings.Contains(perr.Error(), "already exists") {
		out.Violate("C03", "C03/no-writes-after-recovery", fmt.Sprintf("after the restart a fresh insert through node %d fails: %v", victim, perr))
	}
	if inflight != nil || compacted {
		out.Nontrivial(map[bool]string{true: "in-flight", false: "after-compaction"}[inflight != nil])
	}
	out.Count(fmt.Sprintf("write-kind:%s", traceAt(run.trace, base+k)))
	return run
}

func traceAt(tr []string, k int) string {
	if k >= 1 && k <= len(tr) {
		return tr[k-1]
	}
	return "idle"
}

// corpus: a follower that is down while the partition is emptied and compacted comes back: it
// replays its own log (three items), then has to install the leader's snapshot of the *empty*
// partition over that state. Its recovered contents must be the acknowledged history: nothing.
func crashCorpusEmptySnapshot(out *childOut) {
	out.Begin("crash corpus: snapshot of an emptied partition installed on a lagging replica")
	defer out.End()
	cl := newSimCluster(3)
	cl.enableCrashes()
	defer cl.Close()
	dsId, err := cl.createDataset(1, 2, 1, 3, pb.Space_Euclidean)
	if err != nil {
		out.Local("setup failed, corpus case skipped: %v", err)
		out.Count("setup-failed")
		return
	}
	out.Op("new 2")
	out.Res("ok")
	ctx := context.Background()
	ack := func(line string, err error) bool {
		if err != nil {
			out.Local("%s failed: %v", line, err)
			return false
		}
		out.Op("ack %s", line)
		out.Res("ok")
		return true
	}
	for i := 1; i <= 3; i++ {
		_, e := cl.nodes[1].dmSrv.Insert(ctx, &pb.InsertRequest{DatasetId: dsId.Bytes(), Id: rid(i).Bytes(), Value: vecOf(i)})
		if !ack(fmt.Sprintf("ins %d %d 0 -", i, i), e) {
			return
		}
	}
	lead := cl.dataset(1, dsId).VerifPartitionAt(0).Raft().VerifStatus().Lead
	var victim uint64
	for _, id := range cl.ids {
		if id != lead {
			victim = id
		}
	}
	// every replica has applied the three inserts before the victim goes down
	waitFor(5*time.Second, func() bool {
		s, _ := contentsOf(cl, victim, dsId)
		return strings.Count(s, ":v") == 3
	})
	cl.nodes[victim].ctl.kill()
	out.Local("node %d (a follower; leader is %d) goes down holding three items", victim, lead)
	time.Sleep(50 * time.Millisecond)
	for i := 1; i <= 3; i++ {
		c2, cancel := context.WithTimeout(ctx, 5*time.Second)
		_, e := cl.nodes[lead].dmSrv.Remove(c2, &pb.RemoveRequest{DatasetId: dsId.Bytes(), Id: rid(i).Bytes()})
		cancel()
		if !ack(fmt.Sprintf("del %d", i), e) {
			return
		}
	}
	if e := cl.dataset(lead, dsId).VerifPartitionAt(0).Raft().VerifSnapshotNow(); e != nil {
		out.Local("snapshot on the leader failed: %v", e)
		return
	}
	out.Local("leader snapshots the empty partition and compacts its log")
	if _, e := cl.restartNode(victim); e != nil {
		out.Violate("C03", "C03/restart-fails", e.Error())
		return
	}
	cl.injectClients(dsId)
	var got string
	ok := waitFor(15*time.Second, func() bool {
		d := cl.dataset(victim, dsId)
		if d == nil || !d.VerifPartitionAt(0).HasRaft() {
			return false
		}
		st := d.VerifPartitionAt(0).Raft().VerifStatus()
		ls := cl.dataset(lead, dsId).VerifPartitionAt(0).Raft().VerifStatus()
		got, _ = contentsOf(cl, victim, dsId)
		return st.Applied >= ls.Commit && st.Applied > 0 && got == "C"
	})
	out.Op("recover 0")
	out.Res("%s", got)
	if !ok {
		out.Violate("C03", "C03/recovered-differs-after-compaction", fmt.Sprintf("a replica that was down while the partition was emptied and the log compacted, restarted and caught up by the leader's snapshot, holds [%s]; every removal had been acknowledged", got))
	}
	out.Nontrivial("after-compaction")
}
