package main

// Engine cluster (C09, C10, C11, C17): the in-process cluster of cluster_sim.go.
//
//  writes   random histories of single and batch insert / update / remove through every entry
//           node and API path, on 1..4 nodes, 1..6 partitions, replication 1..3; wrong-dimension
//           items mixed in. After every call: the response against a reference map (C11), and
//           where every stored id physically is — on every replica of exactly the partition the
//           Lean routing model names, nowhere else (C10).
//  acks     apply-before-wait (pause point), unreachable owner (failing client; missing
//           address), proposal that is never applied (no quorum): truthful acknowledgement (C11).
//  search   partitions populated directly; every completion order of the per-node workers for
//           up to 4 nodes, failures of any subset; each partition consulted exactly once; the
//           result equals the model's merge of what the partitions returned (C09).
//  size     distinct per-partition sizes, gated and failing remote lookups (C17).

import (
	"google.golang.org/grpc/codes"
	"google.golang.org/grpc/status"
	"context"
	"errors"
	"fmt"
	"sort"
	"strings"
	"sync"
	"sync/atomic"
	"time"

	"github.com/marekgalovic/anndb/index"
	amath "github.com/marekgalovic/anndb/math"
	pb "github.com/marekgalovic/anndb/protobuf"
	"github.com/marekgalovic/anndb/storage"
	"github.com/marekgalovic/anndb/utils"
	"github.com/golang/protobuf/proto"
	uuid "github.com/satori/go.uuid"
)

func init() { register("cluster", runCluster) }

func classify(err error) string {
	if err == nil {
		return "ok"
	}
	return classifyMsg(err.Error())
}

func classifyMsg(m string) string {
	switch {
	case m == "":
		return "ok"
	case strings.Contains(m, "already exists"):
		return "exists"
	case strings.Contains(m, "not found") && strings.Contains(m, "Item"):
		return "notfound"
	case strings.Contains(m, "dimension"):
		return "dim"
	case strings.Contains(m, "too large"):
		return "toolarge"
	case strings.Contains(m, "deadline") || strings.Contains(m, "Deadline"):
		return "timeout"
	case strings.Contains(m, "sim:"):
		return "unreachable"
	}
	return "other(" + m + ")"
}

var peerErrors = []error{
	status.Error(codes.Canceled, "context canceled"),
	status.Error(codes.DeadlineExceeded, "context deadline exceeded"),
	status.Error(codes.Unavailable, "transport is closing"),
	status.Error(codes.ResourceExhausted, "grpc: received message larger than max"),
	status.Error(codes.Unknown, ""),
	context.Canceled,
	context.DeadlineExceeded,
}

type clusterRef struct {
	items map[int][]float32 // id -> vector
}

// where returns, per id found anywhere, the sorted list of "partition@node" places.
func physicalPlaces(cl *simCluster, ds uuid.UUID, ids []int) map[int][]string {
	out := map[int][]string{}
	for _, n := range cl.ids {
		d := cl.dataset(n, ds)
		if d == nil {
			continue
		}
		for k := 0; k < d.VerifPartitionCount(); k++ {
			p := d.VerifPartitionAt(k)
			pi := cl.canonIndex(ds, p.Id()) // the partition's place in the catalogue as created, not in this node's live list
			for _, id := range ids {
				if _, err := p.Index().Get(rid(id)); err == nil {
					out[id] = append(out[id], fmt.Sprintf("%d@%d", pi, n))
				}
			}
		}
	}
	for _, v := range out {
		sort.Strings(v)
	}
	return out
}

func expectedPlaces(cl *simCluster, ds uuid.UUID, owner int) []string {
	var r []string
	p := cl.partitionByCanonIndex(cl.ids[0], ds, owner)
	if p == nil {
		return []string{"partition-missing"}
	}
	for _, n := range p.NodeIds() {
		r = append(r, fmt.Sprintf("%d@%d", owner, n))
	}
	sort.Strings(r)
	return r
}

func runClusterWrites(c *Ctx, r *Rng, hno int) {
	N := 1 + r.Intn(4)
	P := 1 + r.Intn(6)
	R := 1 + r.Intn(3)
	if R > N {
		R = N
	}
	c.Begin(fmt.Sprintf("writes N=%d P=%d R=%d", N, P, R))
	defer c.End()
	cl := newSimCluster(N)
	defer cl.Close()
	dsId, err := cl.createDataset(cl.ids[r.Intn(N)], 2, uint32(P), uint32(R), pb.Space_Euclidean)
	if err != nil {
		c.Note("createDataset failed: %v", err)
		c.Violate("C14", "C14/create-fails", "dataset creation on a healthy simulated cluster failed: "+err.Error(), c.History())
		return
	}
	ref := map[int][]float32{}
	universe := 4 + r.Intn(12)
	allIds := make([]int, universe)
	for i := range allIds {
		allIds[i] = i
	}
	vec := func(wrong bool) amath.Vector {
		if wrong {
			return amath.Vector{1, 2, 3}
		}
		return amath.Vector{float32(r.Intn(100)), float32(r.Intn(100))}
	}
	ctx := context.Background()
	nOps := 6 + r.Intn(c.Pick(14, 30))
	for op := 0; op < nOps; op++ {
		entry := cl.ids[r.Intn(N)]
		srv := cl.nodes[entry].dmSrv
		kind := r.Intn(7)
		switch kind {
		case 6: // reads through the entry node: they must not change where anything is routed afterwards
			d := cl.dataset(entry, dsId)
			l, b, serr := d.SizeInfo(ctx)
			_, qerr := d.Search(ctx, amath.Vector{float32(r.Intn(100)), float32(r.Intn(100))}, uint(1+r.Intn(5)))
			_, lerr := cl.nodes[entry].node.DatasetManager.List(ctx, true)
			c.OpLocal("reads via node %d: SizeInfo -> len=%d bytes=%d err=%v; Search err=%v; List(with size) err=%v", entry, l, b, serr, qerr, lerr)
			c.Count("write:reads-between")
			// (no assertion on the numbers here: a follower replica may not have applied the last write yet)
		case 0, 1, 2: // single insert / update / remove
			id := r.Intn(universe)
			wrong := r.Intn(8) == 0 && kind != 2
			v := vec(wrong)
			var err error
			name := []string{"Insert", "Update", "Remove"}[kind]
			switch kind {
			case 0:
				_, err = srv.Insert(ctx, &pb.InsertRequest{DatasetId: dsId.Bytes(), Id: rid(id).Bytes(), Value: v})
			case 1:
				_, err = srv.Update(ctx, &pb.UpdateRequest{DatasetId: dsId.Bytes(), Id: rid(id).Bytes(), Value: v})
			case 2:
				_, err = srv.Remove(ctx, &pb.RemoveRequest{DatasetId: dsId.Bytes(), Id: rid(id).Bytes()})
			}
			got := classify(err)
			_, had := ref[id]
			want := "ok"
			switch {
			case wrong:
				want = "dim"
			case kind == 0 && had:
				want = "exists"
			case kind != 0 && !had:
				want = "notfound"
			}
			c.OpLocal("%s via node %d id %d wrongdim=%v -> %s", name, entry, id, wrong, got)
			c.Count("write:" + name)
			if want == "ok" {
				if kind == 2 {
					delete(ref, id)
				} else {
					ref[id] = v
				}
			}
			if got != want {
				sig := "C11/ack-" + want + "-reported-" + strings.SplitN(got, "(", 2)[0]
				c.Violate("C11", sig, fmt.Sprintf("%s of id %d via node %d returned %q, expected %q", name, id, entry, got, want), c.History())
			}
			if wrong {
				c.Nontrivial("dimension-mismatch")
			}
		default: // batches
			n := 1 + r.Intn(5)
			var items []*pb.BatchItem
			var ids []int
			wrongAt := map[int]bool{}
			for j := 0; j < n; j++ {
				id := r.Intn(universe)
				w := r.Intn(8) == 0 && kind != 5
				items = append(items, &pb.BatchItem{Id: rid(id).Bytes(), Value: vec(w)})
				ids = append(ids, id)
				if w {
					wrongAt[j] = true
				}
			}
			name := []string{"BatchInsert", "BatchUpdate", "BatchRemove"}[kind-3]
			var resp *pb.BatchResponse
			var err error
			switch kind {
			case 3:
				resp, err = srv.BatchInsert(ctx, &pb.BatchRequest{DatasetId: dsId.Bytes(), Items: items})
			case 4:
				resp, err = srv.BatchUpdate(ctx, &pb.BatchRequest{DatasetId: dsId.Bytes(), Items: items})
			case 5:
				resp, err = srv.BatchRemove(ctx, &pb.BatchRequest{DatasetId: dsId.Bytes(), Items: items})
			}
			c.Count("write:" + name)
			// expected error map: items are applied per partition in batch order; an id's final entry is
			// the last error among its occurrences (later error overwrites earlier, success leaves it)
			want := map[int]string{}
			for j, id := range ids {
				_, had := ref[id]
				switch {
				case wrongAt[j]:
					want[id] = "dim"
				case kind == 3 && had:
					want[id] = "exists"
				case kind != 3 && !had:
					want[id] = "notfound"
				default:
					if kind == 5 {
						delete(ref, id)
					} else {
						ref[id] = items[j].Value
					}
				}
			}
			got := map[int]string{}
			if err == nil {
				for k, v := range resp.GetErrors() {
					u, _ := uuid.FromString(k)
					got[idn(u)] = classifyMsg(v)
				}
			}
			c.OpLocal("%s via node %d ids %v wrongdim=%v -> err=%v %v", name, entry, ids, wrongAt, err, got)
			// a wrong-dimension occurrence and a valid occurrence of the same id are reported from two
			// places (pre-check and partition); compare per id on the final entry
			if err != nil {
				c.Violate("C11", "C11/batch-call-error", fmt.Sprintf("%s via node %d failed as a whole: %v", name, entry, err), c.History())
			} else {
				for id, w := range want {
					if got[id] != w {
						// dim pre-check entries can be overwritten by the partition result of another occurrence
						if w == "dim" && got[id] != "" {
							continue
						}
						c.Violate("C11", "C11/batch-errors", fmt.Sprintf("%s via node %d: id %d reported %q, expected %q (full response %v)", name, entry, id, got[id], w, got), c.History())
					}
				}
				for id, g := range got {
					if _, ok := want[id]; !ok {
						c.Violate("C11", "C11/batch-errors", fmt.Sprintf("%s via node %d: id %d reported %q although it succeeded", name, entry, id, g), c.History())
					}
				}
			}
			if len(wrongAt) > 0 && len(wrongAt) < len(ids) {
				c.Nontrivial("mixed-batch")
			}
		}
		// ---- placement (C10): every stored id is on all replicas of its owner partition and nowhere else
		var places map[int][]string
		settled := waitFor(3*time.Second, func() bool {
			places = physicalPlaces(cl, dsId, allIds)
			for id := range ref {
				owner := int(utils.UuidMod(rid(id), uint64(P)))
				if strings.Join(places[id], ",") != strings.Join(expectedPlaces(cl, dsId, owner), ",") {
					return false
				}
			}
			for id := range places {
				if _, ok := ref[id]; !ok {
					return false
				}
			}
			return true
		})
		for _, id := range allIds {
			pl := places[id]
			// the model names the owner
			c.Op("owner %s %d", hexId(rid(id)), P)
			owner := -1
			if len(pl) > 0 {
				fmt.Sscanf(pl[0], "%d@", &owner)
			} else {
				owner = int(utils.UuidMod(rid(id), uint64(P))) // nothing stored: report what the real routing function says
			}
			c.Res("r %d", owner)
		}
		if !settled {
			for id := range ref {
				owner := int(utils.UuidMod(rid(id), uint64(P)))
				if got, want := strings.Join(places[id], ","), strings.Join(expectedPlaces(cl, dsId, owner), ","); got != want {
					c.Violate("C10", "C10/wrong-replicas", fmt.Sprintf("id %d is stored at [%s] (partition@node), its owner's replicas are [%s]", id, got, want), c.History())
					c.Violate("C11", "C11/acked-not-applied", fmt.Sprintf("an acknowledged write of id %d is not on its owner's replicas: stored at [%s], expected [%s]", id, got, want), c.History())
				}
			}
			for id, pl := range places {
				if _, ok := ref[id]; !ok {
					c.Violate("C10", "C10/stale-copy", fmt.Sprintf("id %d was removed (acknowledged) but is still stored at %v", id, pl), c.History())
					c.Violate("C11", "C11/acked-not-applied", fmt.Sprintf("an acknowledged remove of id %d left copies at %v", id, pl), c.History())
				}
			}
		}
		if N > R {
			c.Nontrivial("entry-node-not-always-owner")
		}
	}
}

func hexId(u uuid.UUID) string { return fmt.Sprintf("%x", u[:]) }

// ---------------------------------------------------------------- acknowledgements (C11)

func runClusterAcks(c *Ctx, r *Rng) {
	ctx := context.Background()
	// (a) apply completes before the caller starts waiting
	{
		c.Begin("acks apply-before-wait")
		cl := newSimCluster(1)
		dsId, err := cl.createDataset(1, 2, 1, 1, pb.Space_Euclidean)
		if err != nil {
			c.Note("create failed: %v", err)
		} else {
			d := cl.dataset(1, dsId)
			idx := d.VerifPartitionAt(0).Index()
			var want int
			var mu sync.Mutex
			storage.VerifPause = func(point string) {
				// hold the proposer until the apply loop has processed its entry
				mu.Lock()
				w := want
				mu.Unlock()
				waitFor(3*time.Second, func() bool { return idx.Len() == w })
				time.Sleep(5 * time.Millisecond)
			}
			srv := cl.nodes[1].dmSrv
			step := func(name string, wantLen int, f func() error, expect string) {
				mu.Lock()
				want = wantLen
				mu.Unlock()
				t := time.Now()
				err := f()
				got := classify(err)
				c.OpLocal("%s (apply finishes before the caller waits) -> %s after %s", name, got, time.Since(t).Round(time.Millisecond))
				if got != expect {
					c.Violate("C11", "C11/outcome-lost-when-apply-first", fmt.Sprintf("%s was applied before its caller started waiting; the caller got %q instead of %q", name, got, expect), c.History())
				}
			}
			step("insert id 1", 1, func() error {
				_, e := srv.Insert(ctx, &pb.InsertRequest{DatasetId: dsId.Bytes(), Id: rid(1).Bytes(), Value: amath.Vector{1, 1}})
				return e
			}, "ok")
			step("insert id 1 again", 1, func() error {
				_, e := srv.Insert(ctx, &pb.InsertRequest{DatasetId: dsId.Bytes(), Id: rid(1).Bytes(), Value: amath.Vector{1, 1}})
				return e
			}, "exists")
			step("remove id 1", 0, func() error {
				_, e := srv.Remove(ctx, &pb.RemoveRequest{DatasetId: dsId.Bytes(), Id: rid(1).Bytes()})
				return e
			}, "ok")
			storage.VerifPause = nil
			c.Nontrivial("apply-before-wait")
		}
		cl.Close()
		c.End()
	}
	// (a2) "the right caller": two replicas of one partition propose at the same time, each for its own
	// caller. Every replica applies every entry and signals the notification id carried by the entry;
	// a caller must only ever be woken by its own entry.
	{
		c.Begin("acks two-replicas-concurrent-callers")
		cl := newSimCluster(2)
		dsId, err := cl.createDataset(1, 2, 1, 2, pb.Space_Euclidean)
		if err != nil {
			c.Note("create failed: %v", err)
		} else {
			rounds := c.Pick(25, 200)
			wrong := 0
			var firstWrong string
			for i := 0; i < rounds; i++ {
				fresh, absent := 1000+i, 5000+i
				var e1, e2 error
				var wg sync.WaitGroup
				wg.Add(2)
				go func() {
					defer wg.Done()
					cctx, cancel := context.WithTimeout(ctx, 8*time.Second)
					defer cancel()
					if d := cl.dataset(1, dsId); d != nil {
						e1 = d.Insert(cctx, rid(fresh), amath.Vector{float32(i), 1}, nil)
					}
				}()
				go func() {
					defer wg.Done()
					cctx, cancel := context.WithTimeout(ctx, 8*time.Second)
					defer cancel()
					if d := cl.dataset(2, dsId); d != nil {
						e2 = d.Remove(cctx, rid(absent))
					}
				}()
				wg.Wait()
				_, gerr := cl.dataset(1, dsId).VerifPartitionAt(0).Index().Get(rid(fresh))
				present := gerr == nil
				g1, g2 := classify(e1), classify(e2)
				// the insert of a fresh id succeeds and the item is there; the removal of an absent id reports not-found
				if !(g1 == "ok" && present) || g2 != "notfound" {
					wrong++
					if firstWrong == "" {
						firstWrong = fmt.Sprintf("round %d: Insert(fresh id) through node 1 answered %q (item stored: %v), Remove(absent id) through node 2 answered %q", i, g1, present, g2)
					}
				}
			}
			c.OpLocal("%d rounds: Insert(fresh) via replica 1 || Remove(absent) via replica 2 -> %d rounds with a caller answered wrongly", rounds, wrong)
			if wrong > 0 {
				c.Violate("C11", "C11/answered-with-another-callers-outcome", "two replicas of one partition proposed concurrently, each for its own caller: "+firstWrong+" - a caller was woken with the outcome of the other replica's entry", c.History())
			}
			c.Nontrivial("two-replicas-concurrent")
		}
		cl.Close()
		c.End()
	}
	// (b) unreachable owner: failing client, and no address at all
	{
		c.Begin("acks unreachable-owner")
		cl := newSimCluster(2)
		dsId, err := cl.createDataset(1, 2, 8, 1, pb.Space_Euclidean)
		if err != nil {
			c.Note("create failed: %v", err)
		} else {
			d1 := cl.dataset(1, dsId)
			// find an id owned by a partition hosted on node 2 only
			target := -1
			for id := 0; id < 200 && target < 0; id++ {
				p := d1.VerifPartitionAt(d1.VerifOwnerIndex(rid(id)))
				if hosts := p.NodeIds(); len(hosts) == 1 && hosts[0] == 2 {
					target = id
				}
			}
			if target < 0 {
				c.Note("no partition hosted on node 2 only in this placement; scenario skipped")
			} else {
				cl.mu.Lock()
				cl.dmFail[[2]uint64{1, 2}] = errDialFault
				cl.mu.Unlock()
				srv := cl.nodes[1].dmSrv
				calls := map[string]func() error{
					"Insert": func() error {
						_, e := srv.Insert(ctx, &pb.InsertRequest{DatasetId: dsId.Bytes(), Id: rid(target).Bytes(), Value: amath.Vector{1, 1}})
						return e
					},
					"Update": func() error {
						_, e := srv.Update(ctx, &pb.UpdateRequest{DatasetId: dsId.Bytes(), Id: rid(target).Bytes(), Value: amath.Vector{1, 1}})
						return e
					},
					"Remove": func() error {
						_, e := srv.Remove(ctx, &pb.RemoveRequest{DatasetId: dsId.Bytes(), Id: rid(target).Bytes()})
						return e
					},
				}
				for _, name := range []string{"Insert", "Update", "Remove"} {
					err := calls[name]()
					c.OpLocal("%s via node 1 while the owner (node 2) rejects every call -> %v", name, err)
					if err == nil {
						c.Violate("C11", "C11/success-without-owner", name+" returned success although the owning node could not be reached (failing client)", c.History())
					}
				}
				// no cached client and no address: the dial itself fails
				cl.mu.Lock()
				delete(cl.dmFail, [2]uint64{1, 2})
				cl.mu.Unlock()
				d1.VerifSetClients(2, nil, nil)
				d1.VerifDropClients(2)
				cl.nodes[1].node.Conn.RemoveNode(2)
				for _, name := range []string{"Insert", "Update", "Remove"} {
					err := calls[name]()
					c.OpLocal("%s via node 1 while the owner's address is unknown -> %v", name, err)
					if err == nil {
						c.Violate("C11", "C11/success-without-owner", name+" returned success although the owning node could not be dialled (address unknown) — nothing was written", c.History())
					}
				}
				if _, e := cl.dataset(2, dsId).VerifPartitionAt(d1.VerifOwnerIndex(rid(target))).Index().Get(rid(target)); e == nil {
					c.Violate("C11", "C11/applied-despite-error", "the item is stored although every call returned an error", c.History())
				}
				c.Nontrivial("unreachable-owner")
			}
		}
		cl.Close()
		c.End()
	}
	// (c) proposal accepted but never applied (no quorum): the caller must get an error, not success
	if c.ArgInt("timeouts", 1) > 0 {
		c.Begin("acks never-applied")
		cl := newSimCluster(2)
		dsId, err := cl.createDataset(1, 2, 1, 2, pb.Space_Euclidean)
		if err != nil {
			c.Note("create failed: %v", err)
		} else {
			d := cl.dataset(1, dsId)
			lead := d.VerifPartitionAt(0).Raft().VerifStatus().Lead
			srv := cl.nodes[lead].dmSrv
			idx := cl.dataset(lead, dsId).VerifPartitionAt(0).Index()
			// items for the batch update / batch remove, written while the group is healthy
			for id := 30; id <= 33; id++ {
				if _, e := srv.Insert(ctx, &pb.InsertRequest{DatasetId: dsId.Bytes(), Id: rid(id).Bytes(), Value: amath.Vector{3, 3}}); e != nil {
					c.Note("set-up insert %d failed: %v", id, e)
				}
			}
			cl.mu.Lock()
			cl.raftDrop = func(from, to uint64) bool { return true } // cut the replicas off from each other
			cl.mu.Unlock()
			long, cancel := context.WithTimeout(ctx, 30*time.Second)
			t := time.Now()
			var wg sync.WaitGroup
			var e error
			var bi, bu, br *pb.BatchResponse
			var ebi, ebu, ebr error
			wg.Add(4)
			go func() {
				defer wg.Done()
				_, e = srv.Insert(long, &pb.InsertRequest{DatasetId: dsId.Bytes(), Id: rid(7).Bytes(), Value: amath.Vector{1, 1}})
			}()
			go func() {
				defer wg.Done()
				bi, ebi = srv.BatchInsert(long, &pb.BatchRequest{DatasetId: dsId.Bytes(), Items: []*pb.BatchItem{
					{Id: rid(20).Bytes(), Value: amath.Vector{1, 2}}, {Id: rid(21).Bytes(), Value: amath.Vector{2, 2}},
					{Id: rid(22).Bytes(), Value: amath.Vector{1, 2, 3}}, {Id: rid(30).Bytes(), Value: amath.Vector{5, 5}}}})
			}()
			go func() {
				defer wg.Done()
				bu, ebu = srv.BatchUpdate(long, &pb.BatchRequest{DatasetId: dsId.Bytes(), Items: []*pb.BatchItem{
					{Id: rid(30).Bytes(), Value: amath.Vector{9, 9}}, {Id: rid(31).Bytes(), Value: amath.Vector{9, 9}}}})
			}()
			go func() {
				defer wg.Done()
				br, ebr = srv.BatchRemove(long, &pb.BatchRequest{DatasetId: dsId.Bytes(), Items: []*pb.BatchItem{
					{Id: rid(32).Bytes()}, {Id: rid(33).Bytes()}}})
			}()
			wg.Wait()
			cancel()
			c.OpLocal("Insert, BatchInsert, BatchUpdate, BatchRemove on the leader (node %d) of a 2-replica partition cut off from its peer, caller deadline 30 s -> %v / %v %v / %v %v / %v %v after %s", lead, e,
				ebi, bi.GetErrors(), ebu, bu.GetErrors(), ebr, br.GetErrors(), time.Since(t).Round(100*time.Millisecond))
			_, stored := d.VerifPartitionAt(0).Index().Get(rid(7))
			if e == nil && stored != nil {
				c.Violate("C11", "C11/success-without-apply", "Insert returned success although the proposal was never committed or applied (no quorum; proposal timeout fired while the caller's context was still alive)", c.History())
			}
			// batches: an id for which no error is reported must have been applied
			acked := func(resp *pb.BatchResponse, err error, id int) bool {
				if err != nil || resp == nil {
					return false
				}
				_, bad := resp.GetErrors()[rid(id).String()]
				return !bad
			}
			for _, id := range []int{20, 21, 22} {
				if _, ge := idx.Get(rid(id)); acked(bi, ebi, id) && ge != nil {
					c.Violate("C11", "C11/batch-success-without-apply", fmt.Sprintf("BatchInsert reported no error for id %d although its partition never committed the batch (no quorum; the partition's proposal timeout fired while the caller's context was alive): the item is not stored", id), c.History())
				}
			}
			for _, id := range []int{30, 31} {
				if v, ge := idx.Get(rid(id)); acked(bu, ebu, id) && (ge != nil || v[0] != 9) {
					c.Violate("C11", "C11/batch-success-without-apply", fmt.Sprintf("BatchUpdate reported no error for id %d although its partition never committed the batch: the item still has its old vector", id), c.History())
				}
			}
			for _, id := range []int{32, 33} {
				if _, ge := idx.Get(rid(id)); acked(br, ebr, id) && ge == nil {
					c.Violate("C11", "C11/batch-success-without-apply", fmt.Sprintf("BatchRemove reported no error for id %d although its partition never committed the batch: the item is still stored", id), c.History())
				}
			}
			c.Nontrivial("never-applied")
		}
		cl.Close()
		c.End()
	}
	// (d) a write is waiting for its proposal (accepted, not applied: no quorum) when the catalogue takes the
	// node out of the partition's replica set, which stops the group under the waiting writer: it must be
	// told an error — nothing was applied — not success
	if c.ArgInt("timeouts", 1) > 0 {
		c.Begin("acks pending-write-while-replica-unloaded")
		cl := newSimCluster(2)
		dsId, err := cl.createDataset(1, 2, 1, 2, pb.Space_Euclidean)
		if err != nil {
			c.Note("create failed: %v", err)
		} else {
			d := cl.dataset(1, dsId)
			lead := d.VerifPartitionAt(0).Raft().VerifStatus().Lead
			pid := d.VerifPartitionAt(0).Id()
			srv := cl.nodes[lead].dmSrv
			cl.mu.Lock()
			cl.raftDrop = func(from, to uint64) bool { return true }
			cl.mu.Unlock()
			long, cancel := context.WithTimeout(ctx, 30*time.Second)
			done := make(chan error, 1)
			t := time.Now()
			go func() {
				_, e := srv.Insert(long, &pb.InsertRequest{DatasetId: dsId.Bytes(), Id: rid(8).Bytes(), Value: amath.Vector{1, 1}})
				done <- e
			}()
			time.Sleep(400 * time.Millisecond) // the proposal is out, the writer waits for its notification
			ch, _ := proto.Marshal(&pb.DatasetPartitionNodesChange{Type: pb.DatasetPartitionNodesChangeType_DatasetPartitionNodesChangeRemoveNode, DatasetId: dsId.Bytes(), PartitionId: pid.Bytes(), NodeId: lead})
			e, _ := proto.Marshal(&pb.DatasetManagerChange{Type: pb.DatasetManagerChangeType_DatasetManagerUpdatePartitionNodes, NotificationId: uuid.NewV4().Bytes(), Data: ch})
			cl.nodes[1].group.Propose(ctx, e)
			var werr error
			select {
			case werr = <-done:
			case <-time.After(35 * time.Second):
				werr = errors.New("(the writer did not return within 35 s)")
			}
			cancel()
			stored := false
			for _, id := range cl.ids {
				if dd := cl.dataset(id, dsId); dd != nil {
					if _, ge := dd.VerifPartitionAt(0).Index().Get(rid(8)); ge == nil {
						stored = true
					}
				}
			}
			c.OpLocal("Insert on the leader (node %d) of a 2-replica partition cut off from its peer; 400 ms later the catalogue removes node %d from the partition's replicas -> %v after %s; item stored on some replica: %v", lead, lead, werr, time.Since(t).Round(100*time.Millisecond), stored)
			if werr == nil && !stored {
				c.Violate("C11", "C11/success-without-apply", "Insert returned success although its proposal was never committed or applied: the node was taken out of the partition's replica set while the writer was waiting, and the writer was released with success", c.History())
			}
			c.Nontrivial("pending-write-while-unloaded")
		}
		cl.Close()
		c.End()
	}
}

// ---------------------------------------------------------------- search (C09) and size (C17)

func permutations(xs []uint64) [][]uint64 {
	if len(xs) <= 1 {
		return [][]uint64{append([]uint64{}, xs...)}
	}
	var out [][]uint64
	for i := range xs {
		rest := append(append([]uint64{}, xs[:i]...), xs[i+1:]...)
		for _, p := range permutations(rest) {
			out = append(out, append([]uint64{xs[i]}, p...))
		}
	}
	return out
}

func runClusterSearch(c *Ctx, r *Rng, shape [3]int) {
	N := 1 + r.Intn(4)
	P := 1 + r.Intn(6)
	R := 1 + r.Intn(3)
	if shape[0] > 0 { // corpus shapes: one node hosting several partitions; two nodes, unreplicated
		N, P, R = shape[0], shape[1], shape[2]
	}
	if R > N {
		R = N
	}
	c.Begin(fmt.Sprintf("search N=%d P=%d R=%d", N, P, R))
	defer c.End()
	cl := newSimCluster(N)
	defer cl.Close()
	dsId, err := cl.createDataset(1, 2, uint32(P), uint32(R), pb.Space_Euclidean)
	if err != nil {
		c.Note("createDataset failed: %v", err)
		return
	}
	// populate every replica of every partition directly (no raft): id -> vector; some ties in score
	nItems := r.Intn(40)
	if shape[0] > 0 {
		nItems = 12 + r.Intn(20)
	}
	vecs := map[int]amath.Vector{}
	for i := 0; i < nItems; i++ {
		v := amath.Vector{float32(r.Intn(12)), float32(r.Intn(12))}
		vecs[i] = v
		owner := int(utils.UuidMod(rid(i), uint64(P)))
		for _, n := range cl.ids {
			p := cl.dataset(n, dsId).VerifPartitionAt(owner)
			for _, h := range p.NodeIds() {
				if h == n {
					p.Index().Insert(rid(i), v, index.Metadata{"i": fmt.Sprint(i)}, 0)
				}
			}
		}
	}
	sp, _ := newSpace(0)
	pids := cl.dataset(1, dsId).VerifPartitionIds()
	pidx := map[uuid.UUID]int{}
	for i, p := range pids {
		pidx[p] = i
	}
	ctx := context.Background()
	trial := func(entry uint64, q amath.Vector, k int, order []uint64, failing map[uint64]error, label string) {
		tctx, tno := newTrial()
		cl.mu.Lock()
		cl.searchLog = nil
		var gateMu sync.Mutex
		released := 0
		cl.searchHook = func(hctx context.Context, from, to uint64, req *pb.SearchPartitionsRequest) error {
			if from != entry || trialOf(hctx) != tno {
				return nil
			}
			if order != nil {
				pos := -1
				for i, n := range order {
					if n == to {
						pos = i
					}
				}
				if pos >= 0 {
					waitFor(25*time.Millisecond, func() bool { gateMu.Lock(); defer gateMu.Unlock(); return released >= pos })
					defer func() {
						go func() { time.Sleep(time.Millisecond); gateMu.Lock(); released++; gateMu.Unlock() }()
					}()
				}
			}
			if e, ok := failing[to]; ok {
				return e
			}
			return nil
		}
		cl.mu.Unlock()
		res, err := cl.dataset(entry, dsId).Search(tctx, q, uint(k))
		time.Sleep(2 * time.Millisecond) // let cancelled workers finish logging
		cl.mu.Lock()
		log := append([]searchCall{}, cl.searchLog...)
		cl.searchHook = nil
		cl.mu.Unlock()
		c.Count("search:" + label)
		// what the partitions returned, per consulted node (successful calls of this search)
		consulted := map[int]int{}
		var lists []string
		var all []*pb.SearchResultItem
		anyFail := false
		for _, call := range log {
			if call.from != entry || call.trial != tno {
				continue
			}
			if call.err != nil {
				anyFail = true
			}
			for _, p := range call.partitions {
				consulted[pidx[p]]++
			}
			var ss []string
			for _, it := range call.items {
				ss = append(ss, fmt.Sprintf("%d:%d", idn(uuid.FromBytesOrNil(it.Id)), f32bits(it.Score)))
			}
			if call.err == nil {
				lists = append(lists, strings.Join(ss, ","))
				all = append(all, call.items...)
			}
		}
		sort.Strings(lists)
		desc := fmt.Sprintf("search via node %d k=%d order=%v failing=%s -> %d items err=%v", entry, k, order, failingDesc(failing), len(res), err)
		c.OpLocal("%s", desc)
		if anyFail { // a node that had to be consulted failed (a failing node that was not chosen as replica is irrelevant)
			if err == nil {
				c.Violate("C09", "C09/partial-success", fmt.Sprintf("a node could not be searched (%s) but the dataset search returned success with %d items", failingDesc(failing), len(res)), c.History())
			}
			return
		}
		if err != nil {
			c.Violate("C09", "C09/error-without-fault", "dataset search failed although every node answered: "+err.Error(), c.History())
			return
		}
		// every partition consulted exactly once
		for pi := 0; pi < P; pi++ {
			if consulted[pi] != 1 {
				c.Violate("C09", "C09/partition-coverage", fmt.Sprintf("partition %d was consulted %d times in one dataset search", pi, consulted[pi]), c.History())
			}
		}
		// model: merge of what the partitions returned
		c.Op("merge %d %s", k, strings.Join(lists, ";"))
		var ss []string
		for _, x := range res {
			ss = append(ss, fmt.Sprint(f32bits(x.Score)))
		}
		c.Res("%s", strings.TrimRight("scores "+strings.Join(ss, " "), " "))
		// oracle: ascending, k best of the union, each id genuinely returned by a partition with that score
		want := make([]uint32, 0, len(all))
		byId := map[int]uint32{}
		for _, it := range all {
			want = append(want, f32bits(it.Score))
			byId[idn(uuid.FromBytesOrNil(it.Id))] = f32bits(it.Score)
		}
		sort.Slice(want, func(i, j int) bool { return want[i] < want[j] })
		if len(want) > k {
			want = want[:k]
		}
		if len(res) != len(want) {
			c.Violate("C09", "C09/not-top-k", fmt.Sprintf("dataset search returned %d items, the k=%d best of the union of the partitions' answers are %d", len(res), k, len(want)), c.History())
			return
		}
		for i, x := range res {
			if f32bits(x.Score) != want[i] {
				c.Violate("C09", "C09/not-top-k", fmt.Sprintf("position %d has score bits %d, the merged top-k has %d (ascending order / k best)", i, f32bits(x.Score), want[i]), c.History())
				break
			}
			if s, ok := byId[idn(x.Id)]; !ok || s != f32bits(x.Score) {
				c.Violate("C09", "C09/not-from-partitions", fmt.Sprintf("item %d with score bits %d was not returned by any partition", idn(x.Id), f32bits(x.Score)), c.History())
			}
			if v, ok := vecs[idn(x.Id)]; ok && f32bits(sp.Distance(q, v)) != f32bits(x.Score) {
				c.Violate("C01", "C01/score", "dataset search returned a score that is not the distance to the item's vector", c.History())
			}
		}
		if len(res) == 0 && nItems > 0 && k > 0 {
			c.Violate("C09", "C09/empty-success", "dataset search returned an empty list with success on a non-empty dataset", c.History())
		}
	}
	q := amath.Vector{float32(r.Intn(12)), float32(r.Intn(12))}
	for _, entry := range cl.ids {
		ks := []int{0, 1, 3, 10, 100}
		k := ks[r.Intn(len(ks))]
		trial(entry, q, k, nil, nil, "plain")
		// k at and above the number of stored items: nothing is cut off, the order is all that is left
		trial(entry, q, nItems, nil, nil, "plain")
		trial(entry, q, nItems+7, nil, nil, "plain")
		// completion orders of the per-node workers
		orders := permutations(cl.ids)
		if len(orders) > 6 && !c.Thorough() {
			orders = orders[:6]
		}
		for _, o := range orders {
			trial(entry, q, 1+r.Intn(12), o, nil, "ordered")
		}
		if len(cl.ids) > 1 {
			c.Nontrivial("multi-node-orders")
		}
		// failures: every single node, and a random subset, as call error and as mid-stream error
		for _, n := range cl.ids {
			trial(entry, q, 5, nil, map[uint64]error{n: errDialFault}, "fail-call")
			trial(entry, q, 5, nil, map[uint64]error{n: errStreamFault}, "fail-stream")
			o := append([]uint64{n}, without(cl.ids, n)...)
			trial(entry, q, 5, o, map[uint64]error{n: errStreamFault}, "fail-first")
			o2 := append(without(cl.ids, n), n)
			// the failing node answers last: if anything closes a fan-in channel once the workers are done, the
			// collector's last select sees a ready (closed) result channel next to the error and picks at random
			trial(entry, q, 5, o2, map[uint64]error{n: errStreamFault}, "fail-last")
			// the errors a peer (or the gRPC layer in front of it) hands back while the caller's
			// own context is alive: the peer shutting down, the peer's own deadline, a closing
			// transport, a per-call timeout of the client
			for _, pe := range peerErrors {
				trial(entry, q, 5, nil, map[uint64]error{n: pe}, "fail-peer-status")
				trial(entry, q, 5, nil, map[uint64]error{n: streamFault{pe}}, "fail-peer-status")
			}
		}
		c.Nontrivial("faults")
	}
	// stress without gates: the (nil, nil) race of D8 needs many repetitions
	reps := c.Pick(300, 5000)
	for i := 0; i < reps; i++ {
		entry := cl.ids[i%len(cl.ids)]
		res, err := cl.dataset(entry, dsId).Search(ctx, q, 5)
		if err == nil && len(res) == 0 && nItems > 0 {
			c.Violate("C09", "C09/empty-success", fmt.Sprintf("repetition %d: dataset search returned an empty list with success on a dataset of %d items", i, nItems), c.History())
			break
		}
		if err != nil {
			c.Violate("C09", "C09/error-without-fault", "dataset search failed although every node answered: "+err.Error(), c.History())
			break
		}
	}
	c.Count("search:stress")
	// the same without gates but with one node failing: the workers finish within microseconds of each
	// other, so the collector often finds several channels ready at once; whatever it picks, a search
	// with a failed node must end in an error
	if len(cl.ids) > 1 {
		bad := 0
		first := ""
		for i := 0; i < c.Pick(4000, 20000) && bad == 0; i++ {
			entry := cl.ids[i%len(cl.ids)]
			failing := cl.ids[(i/len(cl.ids))%len(cl.ids)]
			sctx, sno := newTrial()
			var consulted int32
			cl.mu.Lock()
			cl.searchHook = func(hctx context.Context, from, to uint64, req *pb.SearchPartitionsRequest) error {
				if from != entry || trialOf(hctx) != sno {
					return nil
				}
				if to == failing {
					atomic.AddInt32(&consulted, 1)
					// fail a few microseconds after the others have answered (spin: a sleep is far coarser)
					for t0 := time.Now(); time.Since(t0) < time.Duration(i%90)*time.Microsecond; {
					}
					return errStreamFault
				}
				return nil
			}
			cl.mu.Unlock()
			res, err := cl.dataset(entry, dsId).Search(sctx, q, 5)
			if err == nil && atomic.LoadInt32(&consulted) > 0 {
				bad++
				first = fmt.Sprintf("repetition %d: node %d failed its part of a search entered at node %d, which returned %d items with success", i, failing, entry, len(res))
			}
		}
		cl.mu.Lock()
		cl.searchHook = nil
		cl.mu.Unlock()
		c.Count("search:stress-failing-node")
		if bad > 0 {
			c.Violate("C09", "C09/partial-success", "ungated stress with one failing node: "+first, c.History())
		}
	}

	// ---- size (C17): each partition counted once, failures are loud
	sizes := make([]int, P)
	for i := 0; i < nItems; i++ {
		sizes[int(utils.UuidMod(rid(i), uint64(P)))]++
	}
	for _, entry := range cl.ids {
		var askMu sync.Mutex
		asked := map[int]int{}
		sctx, sno := newTrial()
		cl.mu.Lock()
		cl.dmHook = func(hctx context.Context, from, to uint64, method string, req interface{}) error {
			if method == "PartitionInfo" && from == entry && trialOf(hctx) == sno {
				pi := pidx[uuid.FromBytesOrNil(req.(*pb.PartitionInfoRequest).GetPartitionId())]
				askMu.Lock()
				asked[pi]++
				askMu.Unlock()
				time.Sleep(time.Duration(atomic.AddInt64(&jitterSeq, 1)%3) * time.Millisecond) // vary completion order (the hook runs on several goroutines: no shared generator)
			}
			return nil
		}
		cl.mu.Unlock()
		l, b, err := cl.dataset(entry, dsId).SizeInfo(sctx)
		c.OpLocal("SizeInfo via node %d -> len=%d bytes=%d err=%v (per-partition sizes %v)", entry, l, b, err, sizes)
		c.Op("sum %s", joinInts(sizes))
		c.Res("total %d", l)
		if err != nil || int(l) != nItems {
			c.Violate("C17", "C17/wrong-sum", fmt.Sprintf("SizeInfo via node %d reported %d items (err %v); the partitions hold %v = %d", entry, l, err, sizes, nItems), c.History())
		}
		d := cl.dataset(entry, dsId)
		remote := 0
		for pi := 0; pi < P; pi++ {
			local := false
			for _, h := range d.VerifPartitionAt(pi).NodeIds() {
				if h == entry {
					local = true
				}
			}
			askMu.Lock()
			a := asked[pi]
			askMu.Unlock()
			if !local {
				remote++
				if a != 1 {
					c.Violate("C17", "C17/partition-asked-wrong", fmt.Sprintf("SizeInfo via node %d asked for remote partition %d %d times (each remote partition must be asked once)", entry, pi, a), c.History())
				}
			} else if a != 0 {
				c.Violate("C17", "C17/partition-asked-wrong", fmt.Sprintf("SizeInfo via node %d asked a peer for local partition %d", entry, pi), c.History())
			}
		}
		if remote >= 2 {
			c.Nontrivial("several-remote-partitions")
		}
		// a node that does not host a partition must refuse to answer for it: otherwise a caller whose
		// placement view is stale (replica moved) silently counts that partition as empty
		for pi := 0; pi < P; pi++ {
			local := false
			for _, h := range d.VerifPartitionAt(pi).NodeIds() {
				if h == entry {
					local = true
				}
			}
			if !local {
				resp, perr := cl.nodes[entry].dmSrv.PartitionInfo(ctx, &pb.PartitionInfoRequest{DatasetId: dsId.Bytes(), PartitionId: pids[pi].Bytes()})
				if perr == nil {
					c.Violate("C17", "C17/non-host-answers", fmt.Sprintf("node %d does not host partition %d (size %d) but answered a size lookup for it with len=%d and success: a dataset size computed through it is too small", entry, pi, sizes[pi], resp.GetLen()), c.History())
				}
			}
		}
		// one remote lookup fails, first or last
		if remote >= 1 {
			for _, failFirst := range []bool{true, false} {
				var cnt int
				var cmu sync.Mutex
				fctx, fno := newTrial()
				ff := failFirst
				cl.mu.Lock()
				cl.dmHook = func(hctx context.Context, from, to uint64, method string, req interface{}) error {
					failFirst := ff
					if method != "PartitionInfo" || from != entry || trialOf(hctx) != fno {
						return nil
					}
					cmu.Lock()
					cnt++
					mine := cnt
					cmu.Unlock()
					if mine == 1 {
						if !failFirst {
							time.Sleep(30 * time.Millisecond) // fails after the others have answered
						}
						return errDialFault
					}
					if failFirst {
						time.Sleep(30 * time.Millisecond) // the others answer after the failure
					}
					return nil
				}
				cl.mu.Unlock()
				l, _, err := cl.dataset(entry, dsId).SizeInfo(fctx)
				c.OpLocal("SizeInfo via node %d with one failing remote lookup (fails first=%v) -> len=%d err=%v", entry, failFirst, l, err)
				if err == nil {
					c.Violate("C17", "C17/partial-sum", fmt.Sprintf("a remote partition's size could not be obtained but SizeInfo reported %d with success (failing lookup finishes first=%v)", l, failFirst), c.History())
				}
				c.Nontrivial("failing-lookup")
			}
		}
		// one remote replica is slow (2.6 s) while the caller's context is alive: the answer is the full sum
		// (or an error), never the sum without that partition. Once per run: it costs 2.6 s.
		if remote >= 1 && !slowSizeDone {
			slowSizeDone = true
			var cnt int
			var cmu sync.Mutex
			fctx, fno := newTrial()
			cl.mu.Lock()
			cl.dmHook = func(hctx context.Context, from, to uint64, method string, req interface{}) error {
				if method != "PartitionInfo" || from != entry || trialOf(hctx) != fno {
					return nil
				}
				cmu.Lock()
				cnt++
				mine := cnt
				cmu.Unlock()
				if mine == 1 {
					select {
					case <-time.After(2600 * time.Millisecond):
					case <-hctx.Done(): // as over gRPC: the call ends with the context's status
						return status.FromContextError(hctx.Err()).Err()
					}
				}
				return nil
			}
			cl.mu.Unlock()
			t0 := time.Now()
			l, _, err := cl.dataset(entry, dsId).SizeInfo(fctx)
			c.OpLocal("SizeInfo via node %d with one remote replica answering after 2.6 s -> len=%d err=%v after %s", entry, l, err, time.Since(t0).Round(100*time.Millisecond))
			if err == nil && int(l) != nItems {
				c.Violate("C17", "C17/partial-sum", fmt.Sprintf("one remote replica took 2.6 s to answer while the caller's context was alive: SizeInfo reported %d items with success, the partitions hold %d", l, nItems), c.History())
			}
			c.Nontrivial("slow-lookup")
			// two callers overlap and the first gives up (its context ends) while the remote lookups are
			// still out: what the second is told is its own business — the full sum, or an error
			cl.mu.Lock()
			cl.dmHook = nil
			cl.mu.Unlock()
			octx, ono := newTrial()
			cl.mu.Lock()
			cl.dmHook = func(hctx context.Context, from, to uint64, method string, req interface{}) error {
				if method != "PartitionInfo" || from != entry || trialOf(hctx) != ono {
					return nil
				}
				select {
				case <-time.After(400 * time.Millisecond):
				case <-hctx.Done():
					return status.FromContextError(hctx.Err()).Err()
				}
				return nil
			}
			cl.mu.Unlock()
			actx, acancel := context.WithTimeout(octx, 100*time.Millisecond)
			type sz struct {
				l   uint64
				err error
			}
			ra, rb := make(chan sz, 1), make(chan sz, 1)
			go func() { l, _, err := cl.dataset(entry, dsId).SizeInfo(actx); ra <- sz{l, err} }()
			time.Sleep(30 * time.Millisecond)
			go func() { l, _, err := cl.dataset(entry, dsId).SizeInfo(octx); rb <- sz{l, err} }()
			a, b := <-ra, <-rb
			acancel()
			c.OpLocal("two overlapping SizeInfo calls via node %d, remote lookups take 400 ms, the first caller's context ends after 100 ms: first -> len=%d err=%v; second (context alive) -> len=%d err=%v", entry, a.l, a.err, b.l, b.err)
			if a.err == nil && int(a.l) != nItems {
				c.Violate("C17", "C17/partial-sum", fmt.Sprintf("a caller whose context ended before the remote lookups answered was told %d items with success; the partitions hold %d", a.l, nItems), c.History())
			}
			if b.err == nil && int(b.l) != nItems {
				c.Violate("C17", "C17/partial-sum", fmt.Sprintf("two SizeInfo calls overlapped and the first caller gave up: the second, whose context was alive, was told %d items with success; the partitions hold %d", b.l, nItems), c.History())
			}
			c.Nontrivial("overlapping-callers")
		}
		cl.mu.Lock()
		cl.dmHook = nil
		cl.mu.Unlock()
	}
	// ---- a member has left the entry node's address book (last: the allocator reacts to it). Partitions
	// that list it may have no replica left that this node can reach: the search fails, or it still
	// consults every partition exactly once — it never answers without them.
	if len(cl.ids) > 1 && c.Args["nodeparted"] == "" {
		entry := cl.ids[0]
		gone := cl.ids[len(cl.ids)-1]
		cl.nodes[entry].node.Conn.RemoveNode(gone)
		cl.dataset(entry, dsId).VerifDropClients(gone)
		for rep := 0; rep < 12; rep++ {
			tctx, tno := newTrial()
			cl.mu.Lock()
			cl.searchLog = nil
			cl.searchHook = nil
			cl.mu.Unlock()
			res, err := cl.dataset(entry, dsId).Search(tctx, q, 5)
			time.Sleep(2 * time.Millisecond)
			cl.mu.Lock()
			log := append([]searchCall{}, cl.searchLog...)
			cl.mu.Unlock()
			consulted := map[int]int{}
			for _, call := range log {
				if call.from == entry && call.trial == tno && call.err == nil {
					for _, p := range call.partitions {
						consulted[pidx[p]]++
					}
				}
			}
			if rep == 0 {
				c.OpLocal("member %d removed from node %d's address book; search via node %d -> %d items err=%v, partitions consulted %v of %d", gone, entry, entry, len(res), err, consulted, P)
			}
			if err == nil {
				for pi := 0; pi < P; pi++ {
					if consulted[pi] != 1 {
						c.Violate("C09", "C09/partition-coverage", fmt.Sprintf("after member %d left node %d's address book a dataset search through node %d returned success (%d items) although partition %d was consulted %d times", gone, entry, entry, len(res), pi, consulted[pi]), c.History())
					}
				}
			}
		}
		c.Count("search:departed-member")
	}
}

var slowSizeDone bool
var jitterSeq int64

func failingDesc(m map[uint64]error) string {
	var ss []string
	for _, k := range failingKeys(m) {
		e, how := m[k], "call fails"
		if sf, ok := e.(streamFault); ok {
			e, how = sf.error, "stream fails"
		}
		ss = append(ss, fmt.Sprintf("node %d: %s with %q", k, how, e.Error()))
	}
	return "[" + strings.Join(ss, "; ") + "]"
}

func failingKeys(m map[uint64]error) []uint64 {
	var r []uint64
	for k := range m {
		r = append(r, k)
	}
	sort.Slice(r, func(i, j int) bool { return r[i] < r[j] })
	return r
}

func without(xs []uint64, x uint64) []uint64 {
	var r []uint64
	for _, y := range xs {
		if y != x {
			r = append(r, y)
		}
	}
	return r
}

func joinInts(xs []int) string {
	var ss []string
	for _, x := range xs {
		ss = append(ss, fmt.Sprint(x))
	}
	return strings.Join(ss, ",")
}

var _ = errors.New

func runCluster(c *Ctx) {
	c.Stats.Rule = "in-process clusters of 1-4 nodes (real Dataset/DatasetManager/Allocator/services objects, real per-partition raft groups over in-memory Badger, scripted catalogue log, in-memory clients): write histories through every entry node and API path; acknowledgement scenarios; searches under every completion order of the per-node workers (<=4 nodes) and every single-node failure; size lookups with gated/failing remotes. non-trivial = entry node does not host the owner, mixed batches, multi-node orders, faults; distinct = distinct history"
	rng := NewRng(c.Seed)
	what := c.Args["only"]
	if what == "" || what == "writes" {
		for i, n := 0, c.ArgInt("writes", c.Pick(10, 150)); i < n; i++ {
			runClusterWrites(c, rng.Fork(), i)
		}
	}
	if what == "" || what == "acks" {
		runClusterAcks(c, rng.Fork())
	}
	if what == "" || what == "search" {
		for i, n := 0, c.ArgInt("searches", c.Pick(6, 60)); i < n; i++ {
			shape := [3]int{}
			if i == 0 {
				shape = [3]int{1, 3, 1}
			} else if i == 1 {
				shape = [3]int{2, 4, 1}
			}
			runClusterSearch(c, rng.Fork(), shape)
		}
	}
}
