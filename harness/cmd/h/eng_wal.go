package main

// Engine wal (C06): the real badgerWAL (one Badger database on disk, 1-3 groups interleaved),
// etcd's real MemoryStorage fed the same calls, and both Lean models (Model/Wal.lean), on
// generated legal call sequences: appends (incl. conflicting overwrites that shorten the log and
// batches starting inside the compacted region), hard-state saves, installs of received snapshots
// with and without trailing entries, local snapshot+compaction (incl. out-of-date ones), reopen
// (fresh instance, cold cache; sometimes the whole database is closed and reopened), DeleteGroup.
// After every call all observations of the touched group (FirstIndex, LastIndex, Term i for all i,
// every legal Entries range under three size limits, Snapshot, InitialState) and the summary of
// every other group are written out. Oracle: Badger store vs MemoryStorage.

import (
	"fmt"
	"os"
	"strconv"
	"strings"

	etcdRaft "github.com/coreos/etcd/raft"
	pb "github.com/coreos/etcd/raft/raftpb"
	badger "github.com/dgraph-io/badger/v2"
	"github.com/marekgalovic/anndb/storage/wal"
	uuid "github.com/satori/go.uuid"
)

func init() { register("wal", runWal) }

func walErrName(err error) string {
	switch err {
	case nil:
		return "ok"
	case etcdRaft.ErrCompacted:
		return "compacted"
	case etcdRaft.ErrUnavailable:
		return "unavailable"
	case etcdRaft.ErrSnapOutOfDate:
		return "snapOutOfDate"
	case wal.EmptyConfStateErr:
		return "emptyConf"
	case badger.ErrKeyNotFound:
		return "keyNotFound"
	}
	if err.Error() == "Entry not found" {
		return "notFound"
	}
	return "other:" + strings.ReplaceAll(err.Error(), " ", "_")
}

func tok(b []byte) int {
	if len(b) == 0 {
		return 0
	}
	n, _ := strconv.Atoi(string(b))
	return n
}
func confTok(cs pb.ConfState) int {
	if len(cs.Nodes) == 0 {
		return 0
	}
	return int(cs.Nodes[0])
}

func walSummary(s etcdRaft.Storage) string {
	f, e1 := s.FirstIndex()
	l, e2 := s.LastIndex()
	snap, _ := s.Snapshot()
	hs, cs, _ := s.InitialState()
	return fmt.Sprintf("first=%d/%s last=%d/%s snap=%d/%d/%d/%d hs=%d/%d/%d cs=%d", f, walErrName(e1), l, walErrName(e2),
		snap.Metadata.Index, snap.Metadata.Term, tok(snap.Data), confTok(snap.Metadata.ConfState), hs.Term, hs.Vote, hs.Commit, confTok(cs))
}

func walObs(s etcdRaft.Storage, maxIdx uint64) string {
	var sb strings.Builder
	sb.WriteString(walSummary(s))
	sb.WriteString(" |")
	for i := uint64(0); i <= maxIdx+1; i++ {
		t, err := s.Term(i)
		fmt.Fprintf(&sb, " t%d=%d/%s", i, t, walErrName(err))
	}
	sb.WriteString(" |")
	l, e2 := s.LastIndex()
	f, _ := s.FirstIndex()
	if e2 == nil {
		// legal ranges: first <= lo < hi <= last+1, plus lo inside the compacted region (must answer "compacted")
		lo0 := uint64(0)
		if f > 2 {
			lo0 = f - 2
		}
		for lo := lo0; lo <= l; lo++ {
			for hi := lo + 1; hi <= l+1; hi++ {
				for _, ms := range []uint64{0, 10, 30, 1099511627776} {
					ents, err := s.Entries(lo, hi, ms)
					fmt.Fprintf(&sb, " E%d,%d,%d=", lo, hi, ms)
					for _, e := range ents {
						fmt.Fprintf(&sb, "(%d,%d,%d)", e.Index, e.Term, tok(e.Data))
					}
					fmt.Fprintf(&sb, "/%s", walErrName(err))
				}
			}
		}
	}
	return sb.String()
}

type walGroup struct {
	id uuid.UUID
	w  wal.WAL
	ms *etcdRaft.MemoryStorage
}

func runWal(c *Ctx) {
	c.Stats.Rule = "random legal call sequences on 1-3 groups sharing one on-disk Badger database; non-trivial = the sequence contains a conflicting overwrite that shortens the log, a snapshot install onto a non-empty log, a compaction followed by a reopen, or a DeleteGroup followed by reuse of the id; distinct = distinct call sequence"
	rng := NewRng(c.Seed)
	nSeq := c.ArgInt("seq", c.Pick(150, 4000))
	maxSteps := c.ArgInt("steps", c.Pick(25, 45))
	db, dbDir, closeDB := diskDB()
	defer func() { closeDB() }()
	walBigCompaction(c, db)
	if c.Args["only"] == "bigcompaction" {
		return
	}

	for seq := 0; seq < nSeq; seq++ {
		r := rng.Fork()
		ng := 1 + r.Intn(3)
		c.Begin(fmt.Sprintf("seq groups=%d", ng))
		groups := make([]*walGroup, ng)
		for i := range groups {
			g := &walGroup{id: uuid.NewV4()}
			if i == 1 && r.Intn(2) == 0 { // neighbouring ids: differ only in the last byte
				g.id = groups[0].id
				g.id[15] ^= 1
			}
			g.w = wal.NewBadgerWAL(db, g.id)
			g.ms = etcdRaft.NewMemoryStorage()
			groups[i] = g
			c.Op("new %d", i)
		}
		term := uint64(1)
		compacted := false
		steps := 6 + r.Intn(maxSteps)
		for step := 0; step < steps; step++ {
			gi := r.Intn(ng)
			g := groups[gi]
			first, _ := g.ms.FirstIndex()
			last, _ := g.ms.LastIndex()
			snapNow, _ := g.ms.Snapshot()
			save := func(hs pb.HardState, ents []pb.Entry, snap pb.Snapshot) {
				var sb strings.Builder
				fmt.Fprintf(&sb, "save %d %d %d %d %d %d %d %d %d", gi, hs.Term, hs.Vote, hs.Commit, snap.Metadata.Index, snap.Metadata.Term, tok(snap.Data), confTok(snap.Metadata.ConfState), len(ents))
				for _, e := range ents {
					fmt.Fprintf(&sb, " %d %d %d %d", e.Index, e.Term, tok(e.Data), e.Size())
				}
				c.Op("%s", sb.String())
				err := g.w.Save(hs, ents, snap)
				c.Res("save %s", walErrName(err))
				if !etcdRaft.IsEmptySnap(snap) {
					g.ms.ApplySnapshot(snap)
				}
				g.ms.Append(ents)
				if !etcdRaft.IsEmptyHardState(hs) {
					g.ms.SetHardState(hs)
				}
				if err != nil {
					c.Violate("C06", "C06/save-error", "Save of a legal batch failed: "+err.Error(), c.History())
				}
			}
			switch k := r.Intn(14); {
			case k < 6: // append
				if r.Intn(3) == 0 {
					term++
				}
				lo := first
				if last >= first {
					lo = first + uint64(r.Intn(int(last-first)+2))
				}
				if lo > last+1 {
					lo = last + 1
				}
				if r.Intn(6) == 0 && lo > 1 {
					lo-- // sometimes start inside the compacted region
				}
				n := 1 + r.Intn(4)
				var ents []pb.Entry
				for i := 0; i < n; i++ {
					data := strconv.Itoa(1 + r.Intn(99))
					if r.Intn(4) == 0 { // a large entry among small ones: a size-limited read must stop at it, not step over it
						data = strings.Repeat("0", 40) + data
					}
					ents = append(ents, pb.Entry{Index: lo + uint64(i), Term: term, Data: []byte(data)})
				}
				if lo+uint64(n)-1 < last {
					c.Nontrivial("shortening-overwrite")
				}
				hs := pb.HardState{}
				if r.Intn(2) == 0 {
					hs = pb.HardState{Term: term, Vote: uint64(1 + r.Intn(3)), Commit: uint64(r.Intn(int(lo) + 1))}
				}
				save(hs, ents, pb.Snapshot{})
			case k < 7: // hard state only
				save(pb.HardState{Term: term, Vote: uint64(1 + r.Intn(3)), Commit: uint64(r.Intn(int(last) + 1))}, nil, pb.Snapshot{})
			case k < 9: // install a received snapshot
				term++
				idx := snapNow.Metadata.Index + 1 + uint64(r.Intn(int(last-snapNow.Metadata.Index)+3))
				snap := pb.Snapshot{Data: []byte(strconv.Itoa(1000 + int(idx))), Metadata: pb.SnapshotMetadata{Index: idx, Term: term, ConfState: pb.ConfState{Nodes: []uint64{uint64(100 + idx)}}}}
				var ents []pb.Entry
				if r.Intn(2) == 0 {
					for i, n := 0, 1+r.Intn(2); i < n; i++ {
						ents = append(ents, pb.Entry{Index: idx + 1 + uint64(i), Term: term, Data: []byte("7")})
					}
				}
				if last >= first {
					c.Nontrivial("snapshot-onto-nonempty-log")
				}
				save(pb.HardState{Term: term, Commit: idx}, ents, snap)
			case k < 11: // local snapshot + compaction
				if last < first {
					continue
				}
				idx := first + uint64(r.Intn(int(last-first)+1))
				if r.Intn(5) == 0 && idx > 1 {
					idx = first - 1 // out of date
				}
				cs := &pb.ConfState{Nodes: []uint64{uint64(200 + step)}}
				data := 2000 + int(idx)
				c.Op("create %d %d %d %d", gi, idx, 200+step, data)
				_, err1 := g.w.CreateSnapshot(idx, cs, []byte(strconv.Itoa(data)))
				_, err2 := g.ms.CreateSnapshot(idx, cs, []byte(strconv.Itoa(data)))
				r2 := walErrName(err2)
				if err2 == nil {
					r2 = walErrName(g.ms.Compact(idx))
				}
				c.Res("create %s %s", walErrName(err1), r2)
				if walErrName(err1) != r2 {
					c.Violate("C06", "C06/create-snapshot-result", fmt.Sprintf("CreateSnapshot(%d): badger store %s, reference storage %s", idx, walErrName(err1), r2), c.History())
				}
				if err1 == nil {
					compacted = true
				}
			case k < 13: // reopen
				c.Op("reopen %d", gi)
				if r.Intn(4) == 0 { // the whole database
					db.Close()
					var err error
					db, err = badger.Open(badger.DefaultOptions(dbDir).WithLogger(nil).WithSyncWrites(false))
					if err != nil {
						panic(err)
					}
					closeDB = func() { db.Close(); os.RemoveAll(dbDir) }
					for j, og := range groups {
						og.w = wal.NewBadgerWAL(db, og.id)
						if j != gi {
							c.Op("reopen %d", j)
							c.Res("reopen ok")
						}
					}
				} else {
					g.w = wal.NewBadgerWAL(db, g.id)
				}
				c.Res("reopen ok")
				if compacted {
					c.Nontrivial("reopen-after-compaction")
				}
			default: // delete the group, then reuse its id
				c.Op("delete %d", gi)
				err := g.w.DeleteGroup()
				c.Res("delete %s", walErrName(err))
				g.w = wal.NewBadgerWAL(db, g.id)
				g.ms = etcdRaft.NewMemoryStorage()
				c.Nontrivial("delete-and-reuse")
			}
			l2, _ := g.ms.LastIndex()
			c.Op("obs %d %d", gi, l2+1)
			ob, om := walObs(g.w, l2+1), walObs(g.ms, l2+1)
			c.Res("B %s", ob)
			c.Res("M %s", om)
			if ob != om {
				c.Violate("C06", "C06/differs-from-reference", "the badger store and the raft library's MemoryStorage answer differently after the same calls: first difference at "+firstDiff(ob, om), c.History())
			}
			for j, og := range groups {
				if j == gi {
					continue
				}
				c.Op("sum %d", j)
				sb, sm := walSummary(og.w), walSummary(og.ms)
				c.Res("B %s", sb)
				c.Res("M %s", sm)
				if sb != sm {
					c.Violate("C06", "C06/group-isolation", fmt.Sprintf("a call on group %d changed what group %d answers: %s vs %s", gi, j, sb, sm), c.History())
				}
			}
		}
		for _, g := range groups {
			g.w.DeleteGroup()
		}
		c.End()
	}
}

func firstDiff(a, b string) string {
	fa, fb := strings.Fields(a), strings.Fields(b)
	for i := 0; i < len(fa) && i < len(fb); i++ {
		if fa[i] != fb[i] {
			return fmt.Sprintf("%q vs %q", fa[i], fb[i])
		}
	}
	return "length"
}

// walBigCompaction: one compaction that has to remove more than ten thousand entries, then a second
// store object over the same keys (what a restart sees: no caches). Compared with MemoryStorage on
// the summary, on the terms around every thousand and around the snapshot index, and on the entries
// after the snapshot. (The quadratic observation of the random sequences does not scale to this log;
// the history is recorded as local lines and not sent to the model driver.)
func walBigCompaction(c *Ctx, db *badger.DB) {
	prop := c.Args["as"]
	if prop == "" {
		prop = "C06"
	}
	const total, batch = 12400, 400
	c.Begin("corpus big-compaction")
	defer c.End()
	g := &walGroup{id: uuid.NewV4(), ms: etcdRaft.NewMemoryStorage()}
	g.w = wal.NewBadgerWAL(db, g.id)
	defer func() { g.w.DeleteGroup() }()
	for lo := uint64(1); lo <= total; lo += batch {
		var ents []pb.Entry
		for i := uint64(0); i < batch; i++ {
			ents = append(ents, pb.Entry{Index: lo + i, Term: 1 + (lo+i)/5000, Data: []byte(strconv.Itoa(int((lo+i)%97 + 1)))})
		}
		hs := pb.HardState{Term: 1 + (lo+batch-1)/5000, Vote: 1, Commit: lo + batch - 1}
		if err := g.w.Save(hs, ents, pb.Snapshot{}); err != nil {
			c.Violate(prop, prop+"/save-error", "Save of a legal batch failed: "+err.Error(), c.History())
			return
		}
		g.ms.Append(ents)
		g.ms.SetHardState(hs)
	}
	c.OpLocal("one group: %d entries appended in batches of %d", total, batch)
	idx := uint64(total - 11)
	cs := &pb.ConfState{Nodes: []uint64{1}}
	_, err1 := g.w.CreateSnapshot(idx, cs, []byte("77"))
	_, err2 := g.ms.CreateSnapshot(idx, cs, []byte("77"))
	if err2 == nil {
		err2 = g.ms.Compact(idx)
	}
	c.OpLocal("CreateSnapshot(%d): store %s, reference %s", idx, walErrName(err1), walErrName(err2))
	if walErrName(err1) != walErrName(err2) {
		c.Violate(prop, prop+"/create-snapshot-result", fmt.Sprintf("CreateSnapshot(%d) over a log of %d entries: badger store %s, reference storage %s", idx, total, walErrName(err1), walErrName(err2)), c.History())
		return
	}
	probe := func(s etcdRaft.Storage) string {
		var sb strings.Builder
		sb.WriteString(walSummary(s))
		for _, i := range []uint64{0, 1, 2, 1000, 2000, 3000, 4000, 4095, 4096, 4097, 5000, 6000, 7000, 8000, 9000, 9999, 10000, 10001, 11000, 12000, idx - 2, idx - 1, idx, idx + 1, total, total + 1} {
			t, err := s.Term(i)
			fmt.Fprintf(&sb, " t%d=%d/%s", i, t, walErrName(err))
		}
		for _, lo := range []uint64{1, 4097, 10001, idx - 1, idx, idx + 1} {
			ents, err := s.Entries(lo, lo+3, 1<<40)
			fmt.Fprintf(&sb, " E%d=", lo)
			for _, e := range ents {
				fmt.Fprintf(&sb, "(%d,%d,%d)", e.Index, e.Term, tok(e.Data))
			}
			fmt.Fprintf(&sb, "/%s", walErrName(err))
		}
		return sb.String()
	}
	judge := func(when string) bool {
		ob, om := probe(g.w), probe(g.ms)
		c.OpLocal("%s: store     %s", when, ob)
		c.OpLocal("%s: reference %s", when, om)
		if ob != om {
			what := "the badger store and the raft library's MemoryStorage answer differently " + when + " a compaction that removes " + fmt.Sprint(idx-1) + " entries: first difference at " + firstDiff(ob, om)
			if prop != "C06" {
				what += " (a replica restarting from this store is handed entries at or below its snapshot again and applies them on top of the restored snapshot: restart-and-replay no longer equals applying every entry once)"
			}
			c.Violate(prop, prop+"/big-compaction-differs-from-reference", what, c.History())
			return false
		}
		return true
	}
	if !judge("right after") {
		return
	}
	g.w = wal.NewBadgerWAL(db, g.id) // what a restarted node sees: a store object without caches
	c.OpLocal("a new store object over the same keys (restart)")
	c.Nontrivial("reopen-after-big-compaction")
	judge("after a restart following")
}
